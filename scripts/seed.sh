#!/bin/bash
# Seed management.
#   seed.sh confirm <patch> <demo_test.go> <dest-path-relative-to-repo-root> <module-dir-relative ('.' or cmd/atlas)> <go-pkg-pattern> <run-regex> [nosuite]
#       in a fresh scratch worktree of /repo: (a) full suite passes with the patch, (b) demo fails with it, (c) demo passes without it
#   seed.sh check <patch> <prop> [<prop>...]
#       apply the patch to /repo, run the listed checks (quick), revert; prints CAUGHT/MISSED per property
set -u
export GIT_CONFIG_COUNT=1 GIT_CONFIG_KEY_0=init.defaultBranch GIT_CONFIG_VALUE_0=master
cmd=$1; shift
case $cmd in
confirm)
  patch=$1 demo=$2 dest=$3 mod=$4 pkg=$5 run=$6 nosuite=${7:-}
  wt=/tmp/wt/confirm-$$
  git -C /repo worktree add -q --detach $wt HEAD || exit 2
  trap 'git -C /repo worktree remove --force '$wt' >/dev/null 2>&1' EXIT
  git -C $wt apply "$patch" || { echo "CONFIRM: patch does not apply"; exit 2; }
  rc_suite=0
  if [ -z "$nosuite" ]; then
    for m in . cmd/atlas; do
      (cd $wt/$m && go test -mod=mod -vet=off -count=1 ./... 2>&1 | grep -v "^ok\|no test files" | head -20) > $wt/.suite.$$.log
      if [ -s $wt/.suite.$$.log ]; then rc_suite=1; echo "suite output in $m:"; cat $wt/.suite.$$.log; fi
    done
  fi
  mkdir -p "$(dirname "$wt/$dest")"; cp "$demo" "$wt/$dest"
  (cd $wt/$mod && go test -mod=mod -vet=off -count=1 $pkg -run "$run" >/tmp/confirm.$$.with 2>&1); rc_with=$?
  git -C $wt apply -R "$patch"
  (cd $wt/$mod && go test -mod=mod -vet=off -count=1 $pkg -run "$run" >/tmp/confirm.$$.without 2>&1); rc_without=$?
  echo "CONFIRM suite_with_patch=$([ $rc_suite = 0 ] && echo pass || echo FAIL) demo_with_patch=$([ $rc_with = 0 ] && echo pass || echo fail) demo_without_patch=$([ $rc_without = 0 ] && echo pass || echo FAIL)"
  tail -5 /tmp/confirm.$$.with | sed 's/^/   with: /'
  tail -3 /tmp/confirm.$$.without | sed 's/^/   without: /'
  rm -f /tmp/confirm.$$.with /tmp/confirm.$$.without
  [ $rc_suite = 0 ] && [ $rc_with != 0 ] && [ $rc_without = 0 ]
  ;;
check)
  # applies the patch in a private scratch worktree (never /repo itself) and runs the listed quick checks on it
  patch=$1; shift
  export GOFLAGS=-mod=mod GOPROXY=off GOSUMDB=off GOTOOLCHAIN=local GOWORK=off PATH=/opt/veriftools/go1.26.8/bin:$PATH
  bin=/tmp/atlascheck.seed.$$
  ( cd /verif/atlascheck && go build -o $bin . ) || exit 2
  wt=/tmp/wt/seedcheck-$$
  git -C /repo worktree add -q --detach $wt HEAD || exit 2
  tmp=$(mktemp -d /tmp/seedcheck.XXXXXX)
  trap 'git -C /repo worktree remove --force '$wt' >/dev/null 2>&1; rm -rf '$tmp' '$bin EXIT
  git -C $wt apply "$patch" || { echo "patch does not apply"; exit 2; }
  for p in "$@"; do
    out=$($bin -repo $wt -prop $p -tier quick -out $tmp/$p 2>&1); rc=$?
    if [ $rc = 0 ]; then echo "MISSED $p"; else echo "CAUGHT $p: $(echo "$out" | grep -A1 '^VIOLATION' | grep 'rule=' | head -3 | tr '\n' ' ')"; fi
  done
  ;;
esac
