import json, os, subprocess, sys, time
from concurrent.futures import ThreadPoolExecutor
V = "/verif"
props = [json.loads(l)["id"] for l in open(f"{V}/properties.jsonl")]
subprocess.run(["bash","-c",f"cd {V} && ./run.sh C01 quick >/dev/null 2>&1"])  # build once
def run(p):
    t0 = time.time()
    r = subprocess.run([f"{V}/bin/atlascheck", "-prop", p, "-tier", "thorough"], capture_output=True, text=True, errors="replace", cwd=V,
        env=dict(os.environ, GOFLAGS="-mod=mod", GOPROXY="off", GOSUMDB="off", GOTOOLCHAIN="local", GOWORK="off", PATH="/opt/veriftools/go1.26.8/bin:"+os.environ["PATH"]))
    print(p, "exit", r.returncode, "%.0fs" % (time.time() - t0), flush=True)
    if r.returncode != 0:
        print(r.stdout[-2000:], flush=True)
    return p
with ThreadPoolExecutor(int(os.environ.get("PAR", "5"))) as ex:
    list(ex.map(run, props))
rows = []
for p in props:
    ev = json.load(open(f"{V}/evidence/{p}.json"))
    for sv in (ev["coverage"].get("self_validation") or []):
        rows.append((sv["seed"], p, sv.get("status"), sv.get("fired"), " ".join(sv.get("rules") or [])))
rows.sort()
with open(f"{V}/seeded/RESULTS.md", "w") as f:
    f.write("| seed | checked by | status | caught | rules that fired |\n|---|---|---|---|---|\n")
    for s, p, st, fired, rules in rows:
        f.write(f"| {s} | {p} | {st} | {'yes' if fired else 'NO'} | {rules} |\n")
n = len(rows); c = sum(1 for r in rows if r[3])
print(f"{c}/{n} seed runs caught")
