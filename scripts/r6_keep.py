#!/usr/bin/env python3
"""r4_keep.py <prop> [only-seed-number]: confirms and keeps round-6 seeds as /verif/seeded/<prop>-11."""
import sys, re, os, subprocess, json
prop = sys.argv[1]
S = f"/tmp/seed_out/R6-{prop}"
PK = {"cmdapi": ("cmd/atlas/internal/cmdapi", "cmd/atlas", "./internal/cmdapi/"), "cmdapi_test": ("cmd/atlas/internal/cmdapi", "cmd/atlas", "./internal/cmdapi/"),
      "migratelint": ("cmd/atlas/internal/migratelint", "cmd/atlas", "./internal/migratelint/"), "migratelint_test": ("cmd/atlas/internal/migratelint", "cmd/atlas", "./internal/migratelint/"),
      "cmdlog": ("cmd/atlas/internal/cmdlog", "cmd/atlas", "./internal/cmdlog/"), "cmdlog_test": ("cmd/atlas/internal/cmdlog", "cmd/atlas", "./internal/cmdlog/"),
      "cmdext": ("cmd/atlas/internal/cmdext", "cmd/atlas", "./internal/cmdext/"), "cmdext_test": ("cmd/atlas/internal/cmdext", "cmd/atlas", "./internal/cmdext/")}
for d in ["migrate", "schema", "sqlite", "mysql", "postgres", "sqltool", "sqlclient", "sqlcheck", "sqlspec"]:
    PK[d] = (f"sql/{d}", ".", f"./sql/{d}/"); PK[d + "_test"] = PK[d]
PK["sqlx"] = ("sql/internal/sqlx", ".", "./sql/internal/sqlx/"); PK["sqlx_test"] = PK["sqlx"]
PK["specutil"] = ("sql/internal/specutil", ".", "./sql/internal/specutil/"); PK["specutil_test"] = PK["specutil"]
PK["schemahcl"] = ("schemahcl", ".", "./schemahcl/"); PK["schemahcl_test"] = PK["schemahcl"]
PK["destructive"] = ("sql/sqlcheck/destructive", ".", "./sql/sqlcheck/destructive/"); PK["destructive_test"] = PK["destructive"]
PK["sqlitecheck"] = ("sql/sqlite/sqlitecheck", ".", "./sql/sqlite/sqlitecheck/"); PK["sqlitecheck_test"] = PK["sqlitecheck"]
notes = open(f"{S}/notes.md").read() if os.path.exists(f"{S}/notes.md") else ""
only = int(sys.argv[2]) if len(sys.argv) > 2 else 0
for i, n in ((1, 11),):
    if only and i != only:
        continue
    if not os.path.exists(f"{S}/seed{i}.diff"):
        continue
    demo = f"{S}/seed{i}_demo_test.go"; patch = f"{S}/seed{i}.diff"
    src = open(demo).read()
    pkg = re.search(r"^package (\w+)", src, re.M).group(1)
    tests = re.findall(r"^func (Test\w+)\(", src, re.M)
    # explicit placement in notes overrides the package-name guess
    m = re.search(r"((?:cmd/atlas/|sql/|schemahcl/)[\w/]*?)/?seed%d_demo_test\.go" % i, notes)
    if m and os.path.isdir("/repo/" + m.group(1)):
        d = m.group(1)
        mod = "cmd/atlas" if d.startswith("cmd/atlas") else "."
        pat = "./" + (d[len("cmd/atlas/"):] if mod == "cmd/atlas" else d) + "/"
    elif pkg in PK:
        d, mod, pat = PK[pkg]
    else:
        print("cannot place", demo, pkg); continue
    run = "^(" + "|".join(tests) + ")$"
    dest = f"{d}/r6seed{i}_demo_test.go"
    r = subprocess.run(["/verif/scripts/seed.sh", "confirm", patch, demo, dest, mod, pat, run], capture_output=True, text=True)
    ok = "suite_with_patch=pass demo_with_patch=fail demo_without_patch=pass" in r.stdout
    print(prop, i, "->", f"{prop}-{n}", "CONFIRMED" if ok else "NOT CONFIRMED", (r.stdout.splitlines() or [""])[-6:])
    if ok:
        subprocess.run(["/verif/scripts/keep_seed.py", f"{prop}-{n}", prop, patch, demo, dest, mod, pat, run, "round 6 (independent sub-agent told which ten earlier seeds to avoid); see DESIGN.md §4"], check=True)
