#!/usr/bin/env python3
"""keep_seed.py <seed-name> <property> <patch> <demo> <demo-dest> <module-dir> <pkg> <run-regex> <needs...>
Stores a confirmed seeded regression under /verif/seeded/<seed-name>/."""
import sys, os, shutil, json
name, prop, patch, demo, dest, mod, pkg, run = sys.argv[1:9]
needs = " ".join(sys.argv[9:])
d = os.path.join("/verif/seeded", name)
os.makedirs(d, exist_ok=True)
shutil.copy(patch, os.path.join(d, "patch.diff"))
shutil.copy(demo, os.path.join(d, os.path.basename(dest)))
meta = {
    "property": prop,
    "origin": "independent sub-agent given only the property text and a scratch worktree",
    "needs_to_manifest": needs,
    "demo": {"file": os.path.basename(dest), "place_at": dest, "module_dir": mod, "cmd": f"go test -mod=mod -vet=off -count=1 {pkg} -run '{run}'"},
    "confirmed": "scripts/seed.sh confirm: full suite passes with the patch, demo fails with it, demo passes without it (fresh scratch worktree, removed afterwards)",
    "confirm_cmd": f"scripts/seed.sh confirm seeded/{name}/patch.diff seeded/{name}/{os.path.basename(dest)} {dest} {mod} {pkg} '{run}'",
}
json.dump(meta, open(os.path.join(d, "meta.json"), "w"), indent=1)
print("kept", d)
