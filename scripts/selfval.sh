#!/bin/bash
# usage: selfval.sh C09 C10 ...  runs the thorough tier (self-validation against the kept seeds through overlays) and prints seeds that were NOT caught
for p in "$@"; do
  /verif/run.sh $p thorough > /tmp/selfval.$p.log 2>&1; rc=$?
  python3 - $p $rc <<'PY'
import json,sys
p,rc=sys.argv[1],sys.argv[2]
ev=json.load(open(f'/verif/evidence/{p}.json'))
sv=ev['coverage'].get('self_validation') or []
miss=[x['seed'] for x in sv if not x.get('fired')]
print(p,'exit',rc,'seeds',len(sv),'missed',miss)
PY
done
