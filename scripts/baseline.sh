#!/bin/bash
# Runs the repository's pinned test suite (guard OFF: there are no hooks) and
# compares with /root/.vp/BASELINE.json stable_pass. Exit 0 iff every
# stable-pass test passes.
set -u
# the sandbox global git config sets init.defaultBranch=main; TestGitChangeDetector assumes git's built-in default (master)
export GIT_CONFIG_COUNT=1 GIT_CONFIG_KEY_0=init.defaultBranch GIT_CONFIG_VALUE_0=master
OUT=${1:-/tmp/verif_baseline.$$}
mkdir -p "$OUT"
: > "$OUT/run.json"
for m in $(cat /w/out/gomods.txt); do
  MF=$(cd /repo/$m && . /w/out/goenv.sh && gomodflag)
  (cd /repo/$m && go test $MF -json -vet=off -count=1 -timeout 25m ./... ) >> "$OUT/run.json" 2>"$OUT/stderr.$(echo $m | tr / _)"
done
python3 - "$OUT/run.json" <<'PY'
import json,sys
sys.path.insert(0,'/w/lib')
from parse_tests import parse_go
p,f,o,_=parse_go([sys.argv[1]])
b=json.load(open('/root/.vp/BASELINE.json'))
sp=set(b['stable_pass'])
missing=sorted(sp-p)
print("passed",len(p),"failed",len(f),"stable",len(sp),"missing",len(missing))
for m in missing[:50]: print("MISSING",m)
for m in sorted(f)[:50]: print("FAILED",m)
sys.exit(1 if missing else 0)
PY
rc=$?
rm -rf "$OUT"
exit $rc
