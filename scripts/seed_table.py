#!/usr/bin/env python3
"""Runs every property's thorough tier (which self-validates against the kept seeds through overlays,
never modifying /repo) and writes /verif/seeded/RESULTS.md from the evidence files."""
import json, os, subprocess, sys, time
V = "/verif"
props = [json.loads(l)["id"] for l in open(f"{V}/properties.jsonl")]
rows = []
for p in props:
    t0 = time.time()
    r = subprocess.run([f"{V}/run.sh", p, "thorough"], capture_output=True, text=True, errors="replace")
    ev = json.load(open(f"{V}/evidence/{p}.json"))
    for sv in (ev["coverage"].get("self_validation") or []):
        rows.append((sv["seed"], p, sv.get("status"), sv.get("fired"), " ".join(sv.get("rules") or [])))
    print(p, "exit", r.returncode, "%.0fs" % (time.time() - t0), flush=True)
rows.sort()
with open(f"{V}/seeded/RESULTS.md", "w") as f:
    f.write("| seed | checked by | status | caught | rules that fired |\n|---|---|---|---|---|\n")
    for s, p, st, fired, rules in rows:
        f.write(f"| {s} | {p} | {st} | {'yes' if fired else 'NO'} | {rules} |\n")
n = len(rows); c = sum(1 for r in rows if r[3])
print(f"{c}/{n} seed runs caught")
