#!/bin/bash
# usage: benign_check.sh [-p "C01 C02"] <patch>...
# Applies each behaviour-preserving patch in a private scratch worktree of /repo (never /repo itself), runs the quick
# checks (all 20 by default, in parallel) with -repo pointing at it, and prints every alarm raised. A benign patch
# must raise none ("silent"). Evidence files are not touched (-out).
set -u
export GOFLAGS=-mod=mod GOPROXY=off GOSUMDB=off GOTOOLCHAIN=local GOWORK=off PATH=/opt/veriftools/go1.26.8/bin:$PATH
props=$(seq -f "C%02g" 1 20)
if [ "${1:-}" = "-p" ]; then props=$2; shift 2; fi
bin=/tmp/atlascheck.benign.$$
( cd /verif/atlascheck && go build -o $bin . ) || exit 2
wt=/tmp/wt/benign-$$
git -C /repo worktree add -q --detach $wt HEAD || exit 2
tmp=$(mktemp -d /tmp/benign.XXXXXX)
trap 'git -C /repo worktree remove --force '$wt' >/dev/null 2>&1; rm -rf '$tmp' '$bin EXIT
for patch in "$@"; do
  git -C $wt apply "$patch" 2>/dev/null || { echo "$patch: does not apply"; continue; }
  echo $props | tr ' ' '\n' | xargs -P 8 -I{} sh -c "$bin -repo $wt -prop {} -tier quick -out $tmp/{} > $tmp/{}.log 2>&1"
  out=""
  for p in $props; do
    r=$(grep -A1 "^VIOLATION" $tmp/$p.log | grep "rule=" | cut -c1-300)
    [ -n "$r" ] && out="$out\n  $p: $r"
  done
  git -C $wt checkout -- . ; git -C $wt clean -fdq
  if [ -z "$out" ]; then echo "$patch: silent"; else echo -e "$patch: ALARMS$out"; fi
done
