#!/bin/bash
# usage: benign_check.sh [-p "C01 C02"] <patch>...
# Applies each behaviour-preserving patch to /repo, runs the quick checks (all 20 by default, in parallel), reverts.
# Prints every alarm (VIOLATION / unresolved / floor) raised; a benign patch must raise none.
set -u
export GOFLAGS=-mod=mod GOPROXY=off GOSUMDB=off GOTOOLCHAIN=local GOWORK=off PATH=/opt/veriftools/go1.26.8/bin:$PATH
props=$(seq -f "C%02g" 1 20)
if [ "${1:-}" = "-p" ]; then props=$2; shift 2; fi
[ -z "$(git -C /repo status --porcelain)" ] || { echo "/repo not clean"; exit 2; }
( cd /verif/atlascheck && go build -o /verif/bin/atlascheck . ) || exit 2
tmp=$(mktemp -d /tmp/benign.XXXXXX)
for patch in "$@"; do
  git -C /repo apply "$patch" 2>/dev/null || { echo "$patch: does not apply"; continue; }
  echo $props | tr ' ' '\n' | xargs -P 10 -I{} sh -c "/verif/bin/atlascheck -prop {} -tier quick -out $tmp/{}.json > $tmp/{}.log 2>&1"
  out=""
  for p in $props; do
    r=$(grep -A1 "^VIOLATION" $tmp/$p.log | grep "rule=" | cut -c1-300)
    [ -n "$r" ] && out="$out\n  $p: $r"
  done
  git -C /repo checkout -- . ; git -C /repo clean -fdq
  if [ -z "$out" ]; then echo "$patch: silent"; else echo -e "$patch: ALARMS$out"; fi
done
rm -rf $tmp
