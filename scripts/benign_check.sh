#!/bin/bash
# usage: benign_check.sh <patch>...   applies each behaviour-preserving patch to /repo, runs all 20 quick checks, reverts.
# Prints every alarm (VIOLATION / unresolved / floor) raised; a benign patch must raise none.
set -u
[ -z "$(git -C /repo status --porcelain)" ] || { echo "/repo not clean"; exit 2; }
for patch in "$@"; do
  git -C /repo apply "$patch" || { echo "$patch: does not apply"; continue; }
  out=""
  for i in $(seq -w 1 20); do
    r=$(cd /verif && ./run.sh C$i quick 2>&1 | grep -A1 "^VIOLATION" | grep "rule=" | cut -c1-260)
    [ -n "$r" ] && out="$out\n  C$i: $r"
  done
  git -C /repo checkout -- . ; git -C /repo clean -fdq
  if [ -z "$out" ]; then echo "$patch: silent"; else echo -e "$patch: ALARMS$out"; fi
done
# restore evidence of the unchanged tree
for i in $(seq -w 1 20); do (cd /verif && ./run.sh C$i quick >/dev/null 2>&1); done
