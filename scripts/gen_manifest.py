#!/usr/bin/env python3
"""Generates /verif/MANIFEST.json from the table below (one entry per claimed
property). Properties without an entry in CLAIMED are listed under
not_applicable with the reason in NA."""
import json, os, subprocess

V = os.path.dirname(os.path.dirname(os.path.abspath(__file__)))

TRUST = ("Trusted base: go/packages+go/types+go/ssa+go/cfg of x/tools v0.50.0 under go1.26.8 model the OSS build; "
         "third-party callees are opaque; rule tables (anchors, floors, listed exceptions) were confirmed by reading the reference tree. ")

CLAIMED = {
 "C09": dict(
  technique="static analysis: go/cfg must-pass-through / must-precede path rules (progress writes, Total freshness, deferred final write) + field-ownership (who-may-write) rule + index-provenance rule",
  text="Structural clauses decided for every path of Executor.Execute/exec (hence for every fault position): a statement is counted only on the success edge of its ExecContext, the hash is appended and Applied incremented before the revision is written and before the next statement, the revision is written after every statement and in a deferred final write, every error branch leaves the loop, the loop resumes at stmts[r.Applied:], exec runs files in the given order fail-stop, and nobody else stores Applied/PartialHashes. This is the clause 'the history never claims more than was executed, and a later run continues at the first unrecorded statement' in full; a static path argument is the right level because the clause is about the order of two effects on all paths.",
  note="Not decided: ordering of files by version string (Dir.Files), that the driver executes exactly the given text, behaviour of the RevisionReadWriter implementation. ",
  ref="DESIGN.md §3 C09"),
 "C12": dict(
  technique="static analysis: guarded-index contradiction lint (typed AST, repo-wide) + go/cfg path rules on the partial-hash comparison",
  text="Decides that the applied-prefix comparison in Executor.Execute cannot index out of range (the guard implies the index is in range on its fall-through; same lint repo-wide), covers exactly [0,Applied) with one index on both sides and the same hash prefix constant, dominates every ExecContext, and that after a mismatch no statement is executed and no progress field is stored.",
  note="Not decided: hash equality semantics; the revision row is re-written (ExecutedAt/OperatorVersion) before the comparison, which the rule does not count as touching the history. ",
  ref="DESIGN.md §3 C12"),
 "C14": dict(
  technique="static analysis: CHA call-graph effect reachability + go/cfg defer-dominance path rules + caller-ownership rule + resource-closure path rule for SQLite cursors with callee summaries + deadline-context flow rule",
  text="Decides for all inputs and all failure positions: no Snapshot implementation can execute a statement before returning (a refused dev database is untouched); at each of the call sites of Snapshot the restore function is deferred before any other call or return, every database write of the snapshot-holding functions is dominated by that defer, the private database-writing methods of DevLoader/DevDriver are called only from snapshot holders, the restore error reaches a named result; and from Executor.Replay no directory-mutating call is reachable in sql/migrate except CopyFiles into a MemDir allocated locally. Cleanup on every exit is a property of all paths of a few functions, which is exactly what a path rule decides.",
  note="Not decided: that the restore function removes every object kind on a real engine, and that the cleanliness test (value-level) recognises every non-empty database. StateReader/Driver callbacks passed into Replay are analysed in their own packages, not followed from Replay. ",
  ref="DESIGN.md §3 C14"),
 "C06": dict(
  technique="static analysis: go/cfg write-then-rehash path rule over every function of both modules + command-table exhaustiveness + digest-construction shape rules",
  text="Decides for every path: each function that writes a migration file through a Dir reaches WriteSumFile before any non-error return (so every Atlas writer leaves the directory valid); every `atlas migrate` sub-command (enumerated from the command tree, table must be complete) validates before consuming and does not discard the result; the digest is cumulative over name+bytes of every file, Sum covers N and H, the header is verified on read, and Validate's mismatch branch always returns an error.",
  note="Not decided: collision resistance of SHA-256 (that every edit changes the digest), Line/Pos/Reason arithmetic of ChecksumError, error paths of writers. ",
  ref="DESIGN.md §3 C06"),
 "C17": dict(
  technique="static analysis: go/cfg per-case pairing rule on the ALTER TABLE builders + inverse-kind table + field-ownership of Plan.Reversible + text/template/parse of the down templates",
  text="Decides for every change set: in the MySQL/PostgreSQL ALTER TABLE builders no case of the change switch can complete without recording a reverse change or updating the reversible flag; the recorded reverse is of the inverse kind with From/To swapped / same payload; the reverse statement is built only under the flag and after the recorded changes were reversed; Plan.Reversible is computed by SetReversible over all changes on every success path and nobody else can set it to true; every down template ranges over `rev .Changes` printing all ReverseStmts. This is the clause 'a plan containing an irreversible change is never reported reversible' and 'the down file contains exactly those reverse statements in that order' at the structural level.",
  note="Not decided: that the reverse SQL text composes to an inverse on an engine; reverse statements of non-ALTER changes (create/drop table, index statements) are checked only for presence via SetReversible. ",
  ref="DESIGN.md §3 C17"),
 "C08": dict(
  technique="static analysis: symbolic linear/substring abstract interpretation of every Scanner method proving the cursor invariant (E-lin), who-may-write rule for the cursor fields, go/cfg pairing rule for nested scanners, loop-progress path rule, anchor/advance agreement lint",
  text="Decides that the scanner's cursor invariant total == len(src)-len(input)+pos is preserved by every store in the package (closed set of shapes; anything else fails), that every advance after a look-behind match equals matched-length minus look-behind, that nested scanners start at input[pos:] and their consumed bytes are added back on every success path, that Stmt.Pos is total-len(text) and that the lint consumer indexes the same string. Position accuracy is exactly this invariant; a shape rule decides it for all inputs where a test compares statement texts only.",
  note="Not decided: termination/totality on arbitrary bytes, losslessness beyond the cursor invariant, regexp semantics. Shapes other than the canonical ones are reported as not recognised (fail) rather than guessed. ",
  ref="DESIGN.md §3 C08"),
 "C13": dict(
  technique="static analysis: abstract interpretation of migrateApplyRun + the tx multiplexer over a finite typestate domain (all paths, all tx-mode × directive sequences × dry-run enumerated) + go/cfg guard-dominance rules for dry-run and schema apply",
  text="Decides, for every tx-mode, every sequence of per-file txmode directives up to the bound and every outcome of open/execute/commit/rollback, that the transaction events on every path of the real source follow the documented semantics of each file's effective mode (file: committed right after each file, rolled back on failure; all: one commit at the end, none after an error; none: outside any transaction; dry-run: no transaction; the executor's driver and revision writer belong to the same open transaction). Also decides dry-run dominance (wrappers returned first, mutating methods overridden, executor rebuilt from driverFor's pair) and that schema apply is transactional unless txMode is none, rolls back on error, and is guarded by !dryRun/autoApprove. Failure atomicity per mode is a typestate property of a small state machine spread over six functions; interpreting their source over the finite domain covers every failure position where a test covers one.",
  note="Not decided: what ROLLBACK/COMMIT do on an engine, equality of database states. Two genuine dry-run defects are recorded as known findings (D7a/D7b). Directive sequences are bounded (2 quick / 3 thorough); the multiplexer keeps no state beyond the current transaction and file mode, so longer sequences revisit the same abstract states. ",
  ref="DESIGN.md §3 C13"),
 "C19": dict(
  technique="static analysis: SSA change-kind flow analysis (taint-style may-analysis with function summaries to a fixpoint, sanitiser = DiffOptions.AddOrSkip) + policy-table agreement + go/cfg return-through-Exclude and def-use rules",
  text="Decides for all schemas and all skip policies that no skippable change kind can reach a differ result or a nested Changes field without passing the skip filter (clause 2 of the property in full), that the CLI policy fields and the prototype list agree, that every inspector hands out results only through ExcludeRealm/ExcludeSchema with the option's patterns, that the exclusion loops apply every pattern to every resource and keep unmatched resources unconditionally, and that no pattern error is overwritten unread.",
  note="Not decided: glob and [type=…] selector matching semantics; that excluded resources referenced by kept ones (foreign keys to excluded tables) are handled. Reflection in Skipped/Options is modelled by hand (type identity). ",
  ref="DESIGN.md §3 C19"),
 "C07": dict(
  technique="static analysis: table agreement between templates (text/template/parse), scanner constants, regexp/syntax of the pragma filters, format-verb lint of planner comments, escape/scan option agreement",
  text="Decides the structural agreements the round trip depends on, for every plan: each template prints a statement directly followed by the scanner's delimiter and a newline; no planner comment can carry a newline (only %q/%d/%T of dynamic values); the third-party pragma filters match only pragma lines; a dialect that escapes with backslashes scans with BackslashEscapes; every quoting helper escapes its own closing quote; import stores statement i at index i with comments before text. These are agreements between components written in different files, which is exactly what a table-extraction check compares and a golden test of one component cannot.",
  note="Not decided: byte-exact round trip of arbitrary strings through builder+template+scanner (would need executing them), third-party formats beyond the pragma filters, custom delimiters chosen by users that occur inside statements. ",
  ref="DESIGN.md §3 C07"),
 "C10": dict(
  technique="static analysis: abstract interpretation of migrateApplyRun + tx multiplexer (typestate of the open transaction, identity of driver / revision-writer pair) + go/cfg effect-ordering rules on Executor.Execute + binding shape rules",
  text="Decides the ordering facts crash consistency rests on, for every path: in file/all modes the executor's driver and its revision writer both belong to the currently open transaction and commits happen only after Execute returned nil at the documented points; in every mode a statement is executed before its revision row is updated, the row is written before the next statement, and a row is never counted on a failed statement; the revision writer executes through the driver of the client it was created for and a TxClient's driver is opened on the transaction it commits. A crash skips deferred code, so the property reduces to this order of effects, which path rules decide at every program point rather than at sampled crash points.",
  note="Not decided: atomicity/durability of the engine at a crash (COMMIT all-or-nothing, implicit rollback of an open transaction), torn writes inside SQLite. No crash hooks are used (hook_needed of the property belongs to a dynamic technique). ",
  ref="DESIGN.md §3 C10"),
 "C11": dict(
  technique="static analysis: value-provenance rules (single source of truth, index provenance, checkpoint-filter provenance), field-read ownership of the completeness test, comparator-orientation lint, go/cfg gate rules",
  text="The pending decision itself is value-level and NOT decided. Decided for every history: what apply, ExecuteN/ExecuteTo and status use IS the value returned by Executor.Pending (or a prefix), so they agree with that decision by construction; an index found by searching one slice is never used on another (the directory listing with and without checkpoint files are different index spaces); no raw directory listing reaches Pending's result without the checkpoint filter; completeness of the last revision is read from Applied and Total alone; binary-search comparators are oriented (element, target); the first-run gate consults CheckClean and honours allow-dirty/baseline; the checkpoint helpers take the last checkpoint. Level 'other', narrow: these are necessary conditions the documented semantics rest on, found by a provenance analysis; boundary mutants (<= vs <, idx++ dropped) are outside this technique.",
  note="Not decided: the documented decision for each (directory, history, exec-order) combination; out-of-order window arithmetic; set-version. ",
  ref="DESIGN.md §3 C11"),
 "C16": dict(
  technique="static analysis: who-may-read rule for Schema.Name over the CHA call graph of the planners + switch-shape rule of the qualifier-aware sinks + go/cfg scope-check-first rule + guard agreement in the CLI",
  text="Decides for all change sets: outside a closed table of functions no code reachable from PlanChanges reads a schema's name; in the qualifier-aware sinks the requested qualifier is tested before the schema's own name; mysql/postgres never write table/view/schema names through the raw identifier writer; scratch planner states inherit the plan options (so reverse statements honour the qualifier too); plan() runs the scope check first whenever a qualifier is set; the CLI asks for the empty qualifier exactly for schema-bound URLs. One genuine defect in the scope check (D5) is a known finding.",
  note="Not decided: token-level absence of the name in every statement (needs running the planners); whether RefTable's cross-schema reference under the empty qualifier is acceptable for multi-tenant use. ",
  ref="DESIGN.md §3 C16"),
 "C01": dict(
  technique="static analysis: per-dialect SSA change-kind flow analysis (what the differ may emit) vs. table extraction of planner switch cases (what is handled) + go/cfg order and all-paths rules on the SQLite rebuild, index-part writers and Normalize + query/consumer agreement between the pragma queries of the inspector and the scanned ordinals",
  text="Decides for every schema pair: every change kind a dialect's differ can emit (top level / nested in ModifyTable, guarded kinds removed per SupportChange) has a handler case in that dialect's planner, so no difference can be silently ignored by a planner switch; SQLite's in-place set is a subset of what alterTable handles; the rebuild procedure keeps its order; key-part writers consult Desc on every path; the differ normalises generated index names before every successful return; schema apply applies exactly the computed changes. Necessary conditions of convergence only.",
  note="Not decided: that the SQL printed for a handled kind, executed by an engine, produces the desired object; attribute-level completeness of handlers; name normalisation values. Kinds outside the OSS feature set (views, functions, procedures, triggers) are reported in the evidence, not checked. ",
  ref="DESIGN.md §3 C01"),
 "C02": dict(
  technique="static analysis: reportable-kind sets through callees, bit/guard association and duplicate-guard lint, from/to selector symmetry lint, go/cfg conditionality of change constructions, SSA skip-filter flow analysis",
  text="Decides for every schema pair and dialect: each comparison function can still report every change kind confirmed on the reference tree; each kind bit is set under a comparison of the attribute it names and no two bits share a guard; comparisons between the two compared objects select the same attribute on both sides; every change constructed in a comparison function is control-dependent on a comparison (self-diff can only be non-empty through an asymmetric comparison); no skippable kind escapes the filter; SQLite never pairs foreign keys by generated numeric symbols.",
  note="Not decided: candidate matching (which object of the other side is compared), exactly-once counting for sets of edits, value-level normalisation. ",
  ref="DESIGN.md §3 C02"),
 "C04": dict(
  technique="static analysis: go/cfg must-precede rules on the planners' detach/sort pipeline, orientation table for dependsOn, partition rules for detachReferences, guard/edge consistency in dependencies(), pointer-identity rule",
  text="Decides for every foreign-key graph: both planners detach cycles then sort, on the list they iterate; every reference test in dependsOn has the orientation the property states (create before referenced, drop after references); detachReferences sends foreign-key creations after all table creations and foreign-key drops before all table drops, strips detached keys from the planned copy and returns early-then-late; each dependency edge is guarded by a test on the same foreign-key end; created/dropped tables are never identified by pointer after they may have been copied; the cycle detector's marking discipline is kept.",
  note="Not decided: correctness of the DFS/topological order for every graph, termination, completeness of the edge kinds collected. ",
  ref="DESIGN.md §3 C04"),
 "C05": dict(
  technique="static analysis: CFG path enumeration of paired appends in copyRows, argument-order agreement of the INSERT … SELECT, guard rules for value rewriting and column skipping, go/cfg order rules of the rebuild",
  text="Decides for every change set: destination and source column lists stay index-aligned on every path through the column loop and are printed in the matching positions of INSERT INTO new (…) SELECT … FROM old; a copied value is rewritten only for NOT NULL target columns; a column is left out of the copy only if generated or newly added; rows are copied before the old table is dropped, drop precedes rename precedes index creation; the ALTER path is taken only for kinds alterTable handles; dropping a surviving column is refused.",
  note="Not decided: value equality on a real engine (affinity conversions, IFNULL semantics), that unrelated tables are untouched by the engine. ",
  ref="DESIGN.md §3 C05"),
 "C03": dict(
  technique="static analysis: writer/reader key agreement of the HCL codec (table extraction), export-path shape rules, order-sensitivity lint scoped to the inspector and marshaller",
  text="Level 'other', narrow: decides that every HCL attribute key the SQLite/shared exporter writes is read back by the evaluator, that the SQL export is the dump-mode plan of the inspected realm with one AddTable per table, and that the inspector/marshaller contain no order-sensitive map iteration (so two inspections of an unchanged database are formatted identically). The loop database → export → database is NOT closed by this technique.",
  note="Not decided: the regular-expression recovery of names, checks, AUTOINCREMENT and generated expressions from stored CREATE statements; equality of the re-created database. ",
  ref="DESIGN.md §3 C03"),
 "C15": dict(
  technique="static analysis: table agreement between ParseType constructions and FormatType cases, HCL writer/reader key agreement, type-attribute/field-name agreement, registry wiring",
  text="Decides for every dialect: each schema.Type that ParseType can construct has a FormatType case; each HCL attribute key written by the schema→spec direction is read by the spec→schema direction; each declared type attribute maps to a field of a schema.Type struct (otherwise TypeRegistry.Convert drops it silently); each registry is wired to its dialect's parser/formatter.",
  note="Not decided: zero-vs-absent parameter handling, byte-identical re-marshalling, Format∘Parse fixpoint for every type string. The reader side of the key agreement is recognised liberally (any constant key passed to a look-up helper counts as read). ",
  ref="DESIGN.md §3 C15"),
 "C18": dict(
  technique="static analysis: decision-table extraction of the destructive analyzer, registry exhaustiveness, go/cfg per-statement ordering rules in the change loader, guard rule for the whole-file shortcut, definition-provenance rule for the threaded realm, accumulation rule for the life-span lattice",
  text="Decides that every driver registers the (failing-by-default) destructive analyzer; that the analyzer reports DropSchema, DropTable and DropColumn inside ModifyTable, positions every diagnostic at the examined statement, exempts only objects whose span is exactly temporary, always writes a non-empty report and fails with Error; that SQLite's rebuild merge runs before the analyzers; that changes are derived statement by statement (exec ≺ inspect ≺ diff(before, after) ≺ record with that statement, state advanced) and the whole-file shortcut is used only for the first file without a base; that analyzer errors reach the file report.",
  note="Not decided: what SQLite and the inspector report for a given SQL text (whether a drop is seen at all), span bookkeeping for every sequence, --latest window selection. ",
  ref="DESIGN.md §3 C18"),
 "C20": dict(
  technique="static analysis: order-sensitivity lint over every map range of both modules (effect classification + sorted-before-escape check, triaged exception table) + call-graph effect analysis for package-level stores and ambient inputs + alias-derivation analysis proving the planners never store into their input",
  text="Decides for all inputs: every iteration over a Go map in the analysed code is order-insensitive by construction (map/set writes, commutative accumulation, collect-then-sort, element-independent exits) or is a listed, reasoned exception; no package-level variable is written on any path reachable from the planners, differs, marshaller, formatter and hash construction; every PlanChanges allocates its own state. These are the two ways output can depend on run-to-run randomness or on unrelated concurrent work.",
  note="Not decided: data races under a real scheduler, nondeterminism inside third-party libraries, byte equality across processes (follows only if the above are the sole sources). 14 sites are listed exceptions (reason per site in the checker). ",
  ref="DESIGN.md §3 C20"),
}

# Rules added in the second pass (round-2 seeds and defects D12-D22); appended to the claim text.
SECOND_PASS = {
 "C01": " Second pass: SQLite default comparison is exact (no folding of unquoted literals), every computeDiff call uses diffOptions() with DiffNormalized, every normalizeIdxName argument carries its parts, searches over the stored CREATE text are case-insensitive with offsets from the same text.",
 "C02": " Second pass: named CHECK constraints fall back to expression matching only when a name is empty (CFG), no attribute of one compared object is computed from the other before they are compared, sqlx.MayWrap is applied to both sides of every comparison.",
 "C03": " Second pass: case-insensitive keyword searches over the stored CREATE text (regexp/syntax fold-flag walk) with same-text offsets, referential actions printed under their own guard, user-defined type names printed unchanged, MayWrap symmetry, exact float rendering and the exponent guard of the default marshaller.",
 "C04": " Second pass: a foreign key stays inline only under a self-reference test; the root and dependency loops of sortMap cannot be left early.",
 "C05": " Second pass: no early break/continue leaves a copying case before the column is appended.",
 "C07": " Second pass: line-oriented readers append the scanned line unchanged and a reader that ends statements at line ends is paired with a formatter that brackets or guards multi-line statements; template function names are taken from the repo's FuncMap literals.",
 "C08": " Second pass: skipSpaces removes at least the whitespace class emit strips; strip-both-ends slices are implied in range by their guards (overlapping prefix/suffix rejected).",
 "C09": " Second pass: Total is kept in sync on a completed resume; a partial revision is pending wherever it stands (non-linear order).",
 "C10": " Second pass: the Pending rules of C09/C11 (completeness from Applied/Total alone, partial revision anywhere, lower-bounded pending lists) run here too, because the re-run after a crash is decided by Executor.Pending.",
 "C11": " Second pass: a partial revision is pending wherever it stands; every pending list returned once revisions exist is bounded from below by a version search; a temporary replacement of Executor.dir is restored on every path.",
 "C12": " Second pass: Executor.Pending compares Applied with Total only for (in)equality and reads no other field (a shrunk file is not mistaken for a complete one).",
 "C15": " Second pass: converter/marshaller key agreement per resource level, no successful return before the last attribute-writing statement of a marshalling function, exact rendering of *big.Float, exponent guard before ParseInt, user-defined type names printed unchanged.",
 "C16": " Second pass: every Driver.PlanChanges call of a Planner method forwards p.planOpts.",
 "C17": " Second pass: scratch planner states whose Changes become a Reverse are fresh; sqltool.reverse matches a complete reversal idiom.",
 "C18": " Second pass: guard, window width and step of the SQLite rebuild detector agree.",
 "C19": " Second pass: exclusion side effects only on matching resources; no planner re-creates a table from ModifyTable.T (SQLite rebuild: known finding D16).",
 "C20": " Second pass: file bytes come from a buffer created in the same function; no in-place filter/delete on an input slice in planner/differ files.",
}
THIRD_PASS = {
 "C01": " Third pass: referential actions printed under a guard on that same field; copyRows lists a column only where it is known not to be generated; the SeqNo of an inspected SQLite key part is the engine's ordinal (query/consumer agreement over the pragma queries).",
 "C02": " Third pass: the position handed to IndexPartAttrChanged indexes the very slices from.Parts/to.Parts (not separately sorted copies); SQLite defaults compared exactly.",
 "C03": " Third pass: no byte-walker of the sqlite package treats a backslash as an escape; a quoted literal loses its quotes only as the operand of an unescaping call.",
 "C04": " Third pass: sort comparators read only the slice being sorted; SortChanges emits from the regrouped list its edges were computed over.",
 "C05": " Third pass: the planner's skipFKs flag is monotone; only Driver.OpenTx opens a transaction in sql/sqlite (foreign keys are switched off before BEGIN).",
 "C06": " Third pass: the sum-file writer and reader agree on the separator (split at the last one); every write-open of a Dir implementation truncates.",
 "C07": " Third pass: the delimiter escape table of the writer is the inverse of the reader's table, pair by pair; conditional escaping follows the template branches.",
 "C08": " Third pass: the cursor invariant s.input == s.src[a:] and s.total == a + s.pos is proved by a symbolic linear/substring abstract interpretation of every Scanner method (E-lin); every scanner loop consumes input and tests the end marker on every path through an iteration.",
 "C09": " Third pass: no statement is executed while Revision.Total is stale (found D26); index provenance (an index found in slice B indexes B only) over the migrate package.",
 "C10": " Third pass: index provenance over the migrate package.",
 "C12": " Third pass: PartialHashes/Applied/Total are stored only by Execute; every Set<Field> of the generated SetRevision is unconditional (an upsert cannot clear a skipped column).",
 "C13": " Third pass: every field of a revision is persisted on every write; ApplyChanges on a client is reached only through applyChanges, which honours --tx-mode.",
 "C14": " Third pass: every *sql.Rows of the SQLite driver is closed on every CFG path from its acquisition, with callee summaries (found D24); the deferred restore does not run with a context the same function bounded by a deadline, and no deadline-bounded context of the command layer is handed to a call that can reach Snapshot.",
 "C15": " Third pass: a schema.Comment is written whenever it is present (presence round-trip); a quoted literal loses its quotes only as the operand of an unescaping call.",
 "C16": " Third pass: no qualifier-aware writer is called on a Builder.Clone(); CheckChangesScope has a case for every table-carrying change kind the planners accept at top level.",
 "C18": " Third pass: every write of SpanDropped accumulates; every statement-executing DevLoader method returns a realm derived from an inspection, never only the start realm it was given.",
 "C19": " Third pass: the desired-state readers choose between ExcludeSchema and IncludeSchema with one condition on the reported scope; DiffSkipChanges appends.",
 "C20": " Third pass: no clock/random/environment call reachable from the planners, differs, marshaller, formatter and checksum; the planner files never store into a schema object that is or was obtained from a parameter (two idempotent normalisations listed by name with their reason); the slice helpers of sql/schema never build their result in the argument's backing array.",
}
for _k, _v in SECOND_PASS.items():
    CLAIMED[_k]["text"] += _v
for _k, _v in THIRD_PASS.items():
    CLAIMED[_k]["text"] += _v
FOURTH_PASS = {
 "C01": " Fourth pass: every CHECK writer parenthesises through sqlx.MayWrap; a DropIndex of an implicit index is not alterable; a regexp built around an identifier quotes and right-delimits it (decided on the regexp/syntax tree); every attribute the column writer consults is compared by the differ.",
 "C02": " Fourth pass: a field of a sqlx.Has target is read only where its flag is known true (truth-table over the function's Has flags, reported where the function itself guards another read of the value); no self-comparison; a reported CHECK change is withheld only on a path that established d.Maria().",
 "C03": " Fourth pass: LIKE patterns of the inspector's queries escape '_'; every column-clause shape the planner's column writer can emit before AUTOINCREMENT (CFG path enumeration) is matched by the inspector's pattern constant; converter arms decided by different attribute keys do not exclude each other; dynamic regular expressions quote and delimit identifiers.",
 "C04": " Fourth pass: dependsOn examines every FK-declaring change kind; skipAutoChanges looks up only own-table columns in the dropped-column set; sorting by a classification function alone is stable.",
 "C05": " Fourth pass: every registration of the SQLite driver wires the FK-aware transaction opener.",
 "C06": " Fourth pass: every Dir.Files orders by name alone; every PreRunE completes the flags from the project file before folding --dir-format into the URL.",
 "C07": " Fourth pass: the template function guarding the goose begin/end pragmas is true for every multi-line statement; enum/set values reach SQL text only through an escaping function (mysql.formatValues: known finding D36).",
 "C08": " Fourth pass: the cursor invariant is also proved on error returns of methods whose callers carry on after the error; the text handed to Scanner.init/Scan is the caller's parameter, never reassigned.",
 "C09": " Fourth pass: Executor.dir is restored on every path of ExecuteTo; FilesFromLastCheckpoint selects the last checkpoint.",
 "C11": " Fourth pass: values derived from the revision list are not used after the list was re-read.",
 "C12": " Fourth pass: LogError.Stmt is used only where it is known non-nil; every slice indexed in the history comparison is bounded by its own length (found D38).",
 "C13": " Fourth pass: every exit of the SQLite commit/rollback closures re-enables foreign keys; every identity decision over foreign-key violations uses all fields.",
 "C14": " Fourth pass: the deferred restore is called on every path of its closure; the MySQL/PostgreSQL Snapshot accepts a database only on paths that counted its schemas/tables.",
 "C15": " Fourth pass: no case-sensitive comparison under a case-insensitive guard on the same string; mysql.FormatType prints the time precision only under a non-zero guard; a value-carrying attribute is written with its value (mysql.checkSpec: known finding D39).",
 "C16": " Fourth pass: plan options received are forwarded to PlanChanges; PostgreSQL type statements name the type through the qualifier-aware helpers, the text after TYPE comes from the qualifier-aware formatter, and the schema prefix is not conditional on the object having a schema (found D40-D42).",
 "C17": " Fourth pass: scratch planner states inherit PlanOptions; a branch guarded by a comparison with a planner-state field writes that same field.",
 "C18": " Fourth pass: every executed statement gets its Change; no strings.Trim* cutset with letters or digits.",
 "C19": " Fourth pass: the indexes of an excluded column are found through the table's index parts; (*Diff).Extend returns the value that received the inherited SkipChanges; the selector pattern accepts the separator the selector list is split on.",
 "C20": " Fourth pass: the two listed in-place normalisations of the planners are accepted only while the guard that makes them idempotent encloses the store.",
}
for _k, _v in FOURTH_PASS.items():
    CLAIMED[_k]["text"] += _v

FIFTH_PASS = {
 "C01": " Fifth pass: rows.Scan targets stand at the position of the selected column of the same name; self-comparison also through single-assignment locals.",
 "C02": " Fifth pass: in indexDiffT every match is marked, compared with indexChange and claimed once (D43/D44 known findings); every differ function with a pair of same-typed parameters consults both.",
 "C03": " Fifth pass: quote trimming in the SQLite inspector operates on a blank-trimmed operand; Scan order follows the SELECT list; no Go-quoted run-time string is written as HCL expression text (found D45, D48).",
 "C04": " Fifth pass: SameTable/SameSchema compare names exactly.",
 "C05": " Fifth pass: no path from the error edge of ExecContext in an ApplyChanges loop to the next iteration.",
 "C06": " Fifth pass: a cmdapi function that keeps the result of migrate.Validate returns nil only where it is known nil (import is the listed tolerant consumer); HashFile.Sum delimits its fields and UnmarshalText takes entries as written (D46/D47 known findings).",
 "C07": " Fifth pass: FileStmtDecls hands a file to the driver scanner only where it was established to be a *LocalFile.",
 "C08": " Fifth pass: every look-behind read s.input[s.pos-K], K>=2, stands under conditions establishing s.pos >= K.",
 "C09": " Fifth pass: the EntRevisions readers report ErrRevisionNotExist only under ent.IsNotFound; a pragma line the goose/dbmate filter removes is recognised by the state switch; a state consumed by an `if state == V` block is consumed in the iteration that set it.",
 "C10": " Fifth pass: the EntRevisions readers report ErrRevisionNotExist only under ent.IsNotFound.",
 "C11": " Fifth pass: every use of directiveCheckpoint goes through AddDirective or LocalFile.Directive; the exec_order enum maps one-to-one onto the flag values the option switch handles (expression evaluated on the enum constants); LocalFile.comments recognises the scanner's line-comment openers.",
 "C12": " Fifth pass: Executor.dir restored on every path (also under C12); the bytes written into the statement hash are the statement text itself.",
 "C13": " Fifth pass: LocalFile.comments recognises every line-comment opener the scanner skips (file directives live there).",
 "C14": " Fifth pass: an Executor built with NopRevisionReadWriter is used through Replay only; the PostgreSQL restore closures apply a computed diff only through withCascade.",
 "C15": " Fifth pass: no Go-quoted run-time string as HCL expression text (found D45, D48); a store into RefColumns/Columns of one foreign key reads the same-named field of the other; a postgres function that recognises an array type by name keeps an ArrayType.",
 "C16": " Fifth pass: the SchemaQualifier store is reached on every path that did not establish URL.Schema == \"\"; CheckChangesScope counts the schemas of tables referenced by foreign keys (found D49).",
 "C17": " Fifth pass: the reverse of DROP TABLE is computed from the dropped table itself in every dialect; detachReferences keeps a table change over a copy without the split-off foreign keys.",
 "C18": " Fifth pass: statement-level nolint rules are stored from values of the same iteration only; destructive.New stores its default on every path to a successful return.",
 "C19": " Fifth pass: the exported state-reader configuration carries every option that has a counterpart; wherever diff options are at hand every RealmDiff/SchemaDiff/TableDiff call forwards them.",
 "C20": " Fifth pass: plain values collected from a map are sorted by a comparator over the values themselves; a preferred/fallback search loop does not stop at the fallback.",
}
for _k, _v in FIFTH_PASS.items():
    CLAIMED[_k]["text"] += _v
SIXTH_PASS = {
 "C01": " Sixth pass: self-comparison also through locals filled by sqlx.Has; each side of a from/to pair is normalised under a condition on that side only.",
 "C02": " Sixth pass: each side of a from/to pair is normalised under a condition on that side only (ReferenceChanged); no strings.Trim* cutset mentions the string it trims (found D50).",
 "C03": " Sixth pass: the SQLite inspector classifies both ' and \" quoted defaults as literals.",
 "C06": " Sixth pass: no bounded read (io.LimitReader, CopyN, ReadFull, LimitedReader) in sql/migrate; readHashFile reads the sum file whole.",
 "C10": " Sixth pass: the effective-mode derivation point is found by shape when tx.modeFor was renamed or turned into a package function.",
 "C13": " Sixth pass: tx.mode may be read in the derivation function or handed to it as an argument.",
 "C04": " Sixth pass: the expansion of a Modify* builds Drop* from .From and Add* from .To (mirrored in reverse lists).",
 "C05": " Sixth pass: the SQLite inspector's Scan order rule (R03q) is also decided here, since a swapped STRICT/WITHOUT ROWID flag changes value affinities on a rebuild.",
 "C07": " Sixth pass: a dialect scanned with BackslashEscapes quotes literals through strconv.Quote or an explicit backslash replacement; a %s argument produced by a named function returning only constants is accepted.",
 "C09": " Sixth pass: an anchored method turned into a package function of the same name is still resolved.",
 "C11": " Sixth pass: (*LocalFile).Directive hands no required prefix to the directive matcher.",
 "C19": " Sixth pass: a config literal rebuilt from a value of the same struct type sets every field (stateReader env:// hop).",
 "C20": " Sixth pass: no package-level variable holds a running hash or a bytes.Buffer / strings.Builder.",
}
for _k, _v in SIXTH_PASS.items():
    CLAIMED[_k]["text"] += _v

NA = {}

def main():
    props = [json.loads(l) for l in open(os.path.join(V, "properties.jsonl"))]
    checks, na = [], []
    for p in props:
        pid = p["id"]
        if pid in CLAIMED:
            c = CLAIMED[pid]
            checks.append({
                "property_id": pid,
                "quick_cmd": f"./run.sh {pid} quick",
                "thorough_cmd": f"./run.sh {pid} thorough",
                "evidence_file": f"/verif/evidence/{pid}.json",
                "replay_cmd_template": f"cat {{path}}; ./run.sh {pid} quick",
                "engine": "atlascheck",
                "technique": c["technique"],
                "level_claimed": {"category": "other", "text": c["text"], "design_ref": c["ref"]},
                "level_note": c["note"] + TRUST,
            })
        else:
            na.append({"property_id": pid, "reason": NA.get(pid, "static check not built yet (work in progress; see DESIGN.md §3 for the planned rules)")})
    m = {
        "version": 1,
        "setup_cmd": "./setup.sh",
        "hooks": {
            "guard": "verif",
            "enable": "no hooks: the checker only reads /repo's source (go/packages); nothing in /repo is instrumented",
            "baseline_off_cmd": "./scripts/baseline.sh",
            "source_commits": [],
            "add_only": True,
        },
        "engines": [{
            "name": "atlascheck",
            "path": "/verif/atlascheck",
            "serves_properties": sorted(CLAIMED),
            "kind_free_text": "repo-specific static analyser (Go, x/tools v0.50.0): typed AST rules, go/cfg path rules, go/ssa flow rules, call-graph effect rules; one process per property, loads both modules from /repo's working tree on every run",
        }],
        "checks": checks,
        "not_applicable": na,
        "notes": "All claims are level 'other': a structural necessary condition of the property is decided for all inputs/paths by static analysis; what is not decided is in level_note. Fix commits in /repo: see known_findings.txt ('fixed:' lines). baseline.sh overrides init.defaultBranch=master because the sandbox's global git config (main) breaks TestGitChangeDetector independently of /repo.",
    }
    json.dump(m, open(os.path.join(V, "MANIFEST.json"), "w"), indent=1)
    print("checks:", len(checks), "not_applicable:", len(na))

main()
