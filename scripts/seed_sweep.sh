#!/bin/bash
# Runs every kept seed (seeded/*/patch.diff) against the check of its property and writes seeded/RESULTS.md.
cd /verif
out=seeded/RESULTS.md
echo "| seed | property | verdict | rule(s) |" > $out.tmp
echo "|---|---|---|---|" >> $out.tmp
for d in seeded/*/; do
  n=$(basename $d)
  [ -f $d/patch.diff ] || continue
  if [ -f $d/meta.json ]; then prop=$(python3 -c "import json;print(json.load(open('$d/meta.json'))['property'])"); else prop=$(grep "^$n " seeded/regress.map | cut -d' ' -f2); fi
  [ -n "$prop" ] || continue
  props="$prop $(grep "^$n " seeded/extra.map 2>/dev/null | cut -d' ' -f2-)"
  res=$(scripts/seed.sh check /verif/$d/patch.diff $props 2>&1)
  verdict=MISSED; rules=""
  if echo "$res" | grep -q CAUGHT; then verdict=CAUGHT; rules=$(echo "$res" | grep CAUGHT | grep -o 'rule=[A-Za-z0-9+]*' | sort -u | tr '\n' ' '); fi
  echo "| $n | $props | $verdict | $rules |" >> $out.tmp
  echo "$n $verdict $rules"
done
mv $out.tmp $out
