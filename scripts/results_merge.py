#!/usr/bin/env python3
"""Rebuilds seeded/RESULTS.md from the evidence files that carry a self_validation section (thorough tier);
rows of properties whose committed evidence is of the quick tier are kept from the previous table, and seeds
that have no row yet are taken from the per-seed check logs given as arguments (scripts/seed.sh check output)."""
import json, re, sys, glob, os
V = "/verif"
old = {}
for l in open(f"{V}/seeded/RESULTS.md").read().splitlines()[2:]:
    c = [x.strip() for x in l.strip("|").split("|")]
    if len(c) == 5:
        old[(c[0], c[1])] = c
rows = {}
props = [json.loads(l)["id"] for l in open(f"{V}/properties.jsonl")]
thorough = set()
for p in props:
    ev = json.load(open(f"{V}/evidence/{p}.json"))
    sv = ev["coverage"].get("self_validation")
    if ev.get("tier") == "thorough" and sv:
        thorough.add(p)
        for s in sv:
            rows[(s["seed"], p)] = [s["seed"], p, s.get("status") or "", "yes" if s.get("fired") else "NO", " ".join(s.get("rules") or [])]
for k, c in old.items():
    if k[1] not in thorough:
        rows.setdefault(k, c)
for log in sys.argv[1:]:
    m = re.search(r"chk_(C\d\d)\.log", log)
    if not m:
        continue
    seed = m.group(1) + "-11"
    for l in open(log):
        mm = re.match(r"(CAUGHT|MISSED) (C\d\d)(.*)", l)
        if mm and mm.group(2) not in thorough and mm.group(2) == m.group(1):
            rules = sorted(set(re.findall(r"rule=(R\w+)", mm.group(3))))
            rows.setdefault((seed, mm.group(2)), [seed, mm.group(2), "ran (quick, scratch worktree)", "yes" if mm.group(1) == "CAUGHT" else "NO", " ".join(rules)])
with open(f"{V}/seeded/RESULTS.md", "w") as f:
    f.write("| seed | checked by | status | caught | rules that fired |\n|---|---|---|---|---|\n")
    for k in sorted(rows):
        f.write("| " + " | ".join(rows[k]) + " |\n")
n = len(rows); c = sum(1 for r in rows.values() if r[3] == "yes")
print(f"{c}/{n} seed runs caught; thorough evidence for {sorted(thorough)}")
