#!/bin/bash
# usage: ./run.sh <property id> [quick|thorough]
# Builds the checker (cached by the go tool) and analyses /repo's current working tree.
set -u
cd "$(dirname "$0")"
export GOFLAGS=-mod=mod GOPROXY=off GOSUMDB=off GOTOOLCHAIN=local GOWORK=off
export PATH=/opt/veriftools/go1.26.8/bin:$PATH
BIN=/verif/bin/atlascheck
mkdir -p /verif/bin /verif/evidence
( cd atlascheck && go build -o "$BIN" . ) || { echo "VIOLATION property=$1 replay=/verif/atlascheck (checker build failed)"; exit 1; }
exec "$BIN" -prop "$1" -tier "${2:-${VERIF_TIER:-quick}}"
