package main

// Rules added after the fifth round of independent seeds.

import (
	"fmt"
	"go/ast"
	"go/token"
	"go/types"
	"reflect"
	"strings"

	"golang.org/x/tools/go/cfg"
)

// R03q: scan targets line up with the selected columns.
const ruleTextScanOrder = "query/consumer agreement on column order (SQLite inspector): when a rows.Scan target variable has the same name as a column (or column alias) selected by the query that feeds the cursor, it stands at that column's position in the Scan call; `SELECT …, wr, strict` scanned into (&strict, &wr) swaps WITHOUT ROWID and STRICT on every table that has exactly one of them"

func checkScanOrder(c *Ctx, rule string) {
	n := 0
	unq := func(s string) string { return strings.ToLower(strings.Trim(strings.TrimSpace(s), "`\"[]")) }
	colNames := func(q string) []string {
		lq := strings.ToLower(q)
		i, j := strings.Index(lq, "select"), strings.Index(lq, "from")
		if i < 0 || j < i {
			return nil
		}
		var out []string
		depth, start := 0, i+len("select")
		flush := func(seg string) {
			seg = strings.TrimSpace(seg)
			l := strings.ToLower(seg)
			if k := strings.LastIndex(l, " as "); k >= 0 {
				seg = seg[k+4:]
			} else if k := strings.LastIndex(seg, "."); k >= 0 && !strings.ContainsAny(seg, "( ") {
				seg = seg[k+1:]
			}
			out = append(out, unq(seg))
		}
		for k := start; k < j; k++ {
			switch q[k] {
			case '(':
				depth++
			case ')':
				depth--
			case ',':
				if depth == 0 {
					flush(q[start:k])
					start = k + 1
				}
			}
		}
		flush(q[start:j])
		return out
	}
	c.AllFuncs(false, func(fi *FuncInfo) {
		if fi.Pkg.PkgPath != pSqlite {
			return
		}
		info := fi.Info()
		// the query constant used by this function (directly, through Sprintf, or a `query := const` local)
		var q string
		ast.Inspect(fi.Decl.Body, func(m ast.Node) bool {
			if q != "" {
				return false
			}
			switch x := m.(type) {
			case *ast.CallExpr:
				se, ok := x.Fun.(*ast.SelectorExpr)
				if !ok || (se.Sel.Name != "QueryContext" && se.Sel.Name != "Query") {
					return true
				}
				for _, a := range x.Args {
					if s, ok := stringConst(info, a); ok {
						q = s
					}
					if inner, ok := ast.Unparen(a).(*ast.CallExpr); ok && funcIs(calleeOf(info, inner), "fmt", "", "Sprintf") && len(inner.Args) > 0 {
						if s, ok := stringConst(info, inner.Args[0]); ok {
							q = s
						}
					}
					if id, ok := ast.Unparen(a).(*ast.Ident); ok {
						obj := info.ObjectOf(id)
						ast.Inspect(fi.Decl.Body, func(k ast.Node) bool {
							switch d := k.(type) {
							case *ast.ValueSpec:
								for i, nm := range d.Names {
									if info.ObjectOf(nm) == obj && i < len(d.Values) {
										if s, ok := stringConst(info, d.Values[i]); ok && q == "" {
											q = s
										}
									}
								}
							case *ast.AssignStmt:
								for i, l := range d.Lhs {
									if lid, ok := l.(*ast.Ident); ok && info.ObjectOf(lid) == obj && i < len(d.Rhs) && d.Tok == token.DEFINE {
										if s, ok := stringConst(info, d.Rhs[i]); ok && q == "" {
											q = s
										}
									}
								}
							}
							return true
						})
					}
				}
			}
			return true
		})
		if q == "" {
			return
		}
		cols := colNames(q)
		if len(cols) == 0 {
			return
		}
		ast.Inspect(fi.Decl.Body, func(m ast.Node) bool {
			call, ok := m.(*ast.CallExpr)
			if !ok {
				return true
			}
			se, ok := call.Fun.(*ast.SelectorExpr)
			if !ok || se.Sel.Name != "Scan" || !typeIs(derefType(info.TypeOf(se.X)), "database/sql", "Rows") || len(call.Args) != len(cols) {
				return true
			}
			n++
			c.funcs[fi.Name] = true
			bad := ""
			for ai, a := range call.Args {
				un, ok := ast.Unparen(a).(*ast.UnaryExpr)
				if !ok || un.Op != token.AND {
					continue
				}
				id := rootIdent(un.X)
				if id == nil {
					continue
				}
				name := strings.ToLower(id.Name)
				for ci, col := range cols {
					if col == name && ci != ai && cols[ai] != name {
						bad = fmt.Sprintf("&%s is target %d but column %q is selected at position %d", id.Name, ai+1, col, ci+1)
					}
				}
			}
			c.Check(rule, fi.Name+"|Scan targets follow the SELECT list", call.Pos(), bad == "", "%s scans the cursor of `%s` in a different order than the query selects (%s): the values of the two columns are swapped in the inspected schema", fi.Name, firstLine(strings.TrimSpace(q)), bad)
			return true
		})
	})
	if n < 2 {
		c.Unresolved(rule, "rows.Scan calls fed by a constant query in sql/sqlite (fewer than 2)")
	}
}

// R02r: a matched object is marked as matched before the search moves on.
const ruleTextMatchedMarked = "bookkeeping of matched objects: in the differ's index loop (Diff.indexDiffT) every `continue` that follows the discovery of a counterpart in the other table (a look-up whose second result was tested true) is preceded, in that branch, by the store that marks the counterpart as existing (exists[x] = true); the second loop adds every index of the desired table that is not marked, so an unmarked match is reported as a spurious AddIndex although nothing was edited; the matched pair is compared in full (indexChange) before the loop moves on, and a counterpart that was not found by its unique name is accepted only if it is not marked yet"

func checkMatchedMarked(c *Ctx, rule string) {
	fi := c.Func(rule, pSqlx, "Diff", "indexDiffT")
	if fi == nil {
		return
	}
	info := fi.Info()
	// the marker map: map[*schema.Index]bool local
	var marker types.Object
	ast.Inspect(fi.Decl.Body, func(m ast.Node) bool {
		if vs, ok := m.(*ast.ValueSpec); ok {
			for _, nm := range vs.Names {
				if mt, ok := info.TypeOf(nm).Underlying().(*types.Map); ok && typeIs(derefType(mt.Key()), pSchema, "Index") {
					marker = info.ObjectOf(nm)
				}
			}
		}
		if as, ok := m.(*ast.AssignStmt); ok && as.Tok == token.DEFINE {
			for _, l := range as.Lhs {
				if id, ok := l.(*ast.Ident); ok {
					if mt, ok := info.TypeOf(id).Underlying().(*types.Map); ok && typeIs(derefType(mt.Key()), pSchema, "Index") {
						marker = info.ObjectOf(id)
					}
				}
			}
		}
		return true
	})
	if marker == nil {
		c.Unresolved(rule, "indexDiffT: the map that marks matched indexes")
		return
	}
	n := 0
	pm := parentMap(fi.Decl)
	found := map[types.Object]string{}
	ast.Inspect(fi.Decl.Body, func(m ast.Node) bool {
		as, ok := m.(*ast.AssignStmt)
		if !ok || len(as.Lhs) != 2 || len(as.Rhs) != 1 {
			return true
		}
		call, ok := ast.Unparen(as.Rhs[0]).(*ast.CallExpr)
		if !ok {
			return true
		}
		tup, ok := info.TypeOf(call).(*types.Tuple)
		if !ok || tup.Len() != 2 || !typeIs(derefType(tup.At(0).Type()), pSchema, "Index") {
			return true
		}
		if id, ok := as.Lhs[1].(*ast.Ident); ok && id.Name != "_" {
			found[info.ObjectOf(id)] = "look-up"
			if fn := calleeOf(info, call); fn != nil {
				found[info.ObjectOf(id)] = fn.Name()
			}
		}
		return true
	})
	isMark := func(st ast.Stmt) bool {
		as, ok := st.(*ast.AssignStmt)
		if !ok {
			return false
		}
		for _, l := range as.Lhs {
			if ix, ok := ast.Unparen(l).(*ast.IndexExpr); ok {
				if id, ok := ast.Unparen(ix.X).(*ast.Ident); ok && info.ObjectOf(id) == marker {
					return true
				}
			}
		}
		return false
	}
	ast.Inspect(fi.Decl.Body, func(m ast.Node) bool {
		br, ok := m.(*ast.BranchStmt)
		if !ok || br.Tok != token.CONTINUE || br.Label != nil {
			return true
		}
		loop, _ := enclosing(pm, br, func(nd ast.Node) bool { st, ok := nd.(ast.Stmt); return ok && loopBodyOf(st) != nil }).(ast.Stmt)
		if loop == nil {
			return true
		}
		// only the loop that marks (the one that searches for counterparts)
		marks := false
		ast.Inspect(loopBodyOf(loop), func(k ast.Node) bool {
			if st, ok := k.(ast.Stmt); ok && isMark(st) {
				marks = true
			}
			return !marks
		})
		if !marks {
			return true
		}
		// only continues taken after a counterpart was found: under an if whose condition consults the found-flag of a look-up that returns (*schema.Index, bool)
		after, via := false, ""
		for child, p := ast.Node(br), pm[br]; p != nil && child != ast.Node(loop); child, p = p, pm[p] {
			if ifs, ok := p.(*ast.IfStmt); ok && child == ast.Node(ifs.Body) {
				ast.Inspect(ifs.Cond, func(k ast.Node) bool {
					if id, ok := k.(*ast.Ident); ok && found[info.ObjectOf(id)] != "" && !after {
						after, via = true, found[info.ObjectOf(id)]
					}
					return true
				})
			}
		}
		if !after {
			return true
		}
		n++
		c.funcs[fi.Name] = true
		// a marking statement that stands, in a block enclosing the continue, before the statement that holds it
		marked := false
		for child, p := ast.Node(br), pm[br]; p != nil && child != ast.Node(loop); child, p = p, pm[p] {
			var list []ast.Stmt
			switch b := p.(type) {
			case *ast.BlockStmt:
				list = b.List
			case *ast.CaseClause:
				list = b.Body
			}
			for _, st := range list {
				if st == child {
					break
				}
				if isMark(st) {
					marked = true
				}
			}
		}
		// (b) the matched pair is compared in full, (c) a counterpart found by similarity (not by its unique name) is claimed only once
		compared, once, byName := false, false, true
		for child, p := ast.Node(br), pm[br]; p != nil && child != ast.Node(loop); child, p = p, pm[p] {
			var list []ast.Stmt
			switch b := p.(type) {
			case *ast.BlockStmt:
				list = b.List
			case *ast.CaseClause:
				list = b.Body
			case *ast.IfStmt:
				if child == ast.Node(b.Body) {
					if b.Init != nil {
						list = append(list, b.Init)
					}
					ast.Inspect(b.Cond, func(k ast.Node) bool {
						if un, ok := k.(*ast.UnaryExpr); ok && un.Op == token.NOT {
							if ix, ok := ast.Unparen(un.X).(*ast.IndexExpr); ok {
								if id, ok := ast.Unparen(ix.X).(*ast.Ident); ok && info.ObjectOf(id) == marker {
									once = true
								}
							}
						}
						return true
					})
				}
			}
			for _, st := range list {
				if st == child {
					break
				}
				// only what the statement always evaluates (not the bodies of its branches)
				var always []ast.Node
				switch x := st.(type) {
				case *ast.IfStmt:
					always = []ast.Node{x.Init, x.Cond}
				case *ast.ForStmt:
					always = []ast.Node{x.Init}
				case *ast.RangeStmt:
					always = []ast.Node{x.X}
				case *ast.SwitchStmt:
					always = []ast.Node{x.Init, x.Tag}
				case *ast.TypeSwitchStmt:
					always = []ast.Node{x.Init, x.Assign}
				case *ast.SelectStmt, *ast.BlockStmt, *ast.LabeledStmt:
				default:
					always = []ast.Node{st}
				}
				for _, an := range always {
					if an == nil || reflect.ValueOf(an).IsNil() {
						continue
					}
					ast.Inspect(an, func(k ast.Node) bool {
						if _, ok := k.(*ast.FuncLit); ok {
							return false
						}
						call, ok := k.(*ast.CallExpr)
						if !ok {
							return true
						}
						fn := calleeOf(info, call)
						if funcIs(fn, pSqlx, "Diff", "indexChange") {
							compared = true
						}
						if tup, ok := info.TypeOf(call).(*types.Tuple); ok && tup.Len() == 2 && typeIs(derefType(tup.At(0).Type()), pSchema, "Index") && !funcIs(fn, pSchema, "Table", "Index") {
							// is this the look-up whose flag guards the continue?
							byName = false
						}
						return true
					})
				}
			}
		}
		c.Check(rule, "sqlx.(Diff).indexDiffT|the match found by "+via+" is compared with indexChange", br.Pos(), compared, "indexDiffT accepts a counterpart for an index and moves on without passing the pair to indexChange: an edit of the index's attributes or comment (USING HASH, COMMENT 'new', a predicate, INCLUDE columns) is never reported")
		c.Check(rule, "sqlx.(Diff).indexDiffT|the match found by "+via+" is claimed only once", br.Pos(), byName || once, "indexDiffT accepts a counterpart found by similarity without testing that %s does not mark it already: two indexes of the current table are matched to the same desired index and the drop of the duplicate is never reported", marker.Name())
		c.Check(rule, "sqlx.(Diff).indexDiffT|the match found by "+via+" is marked", br.Pos(), marked, "indexDiffT moves on to the next index after finding its counterpart without marking the counterpart in %s: the loop over the desired indexes then reports it as AddIndex, so a schema compared with an identical copy yields a change", marker.Name())
		return true
	})
	if n < 2 {
		c.Unresolved(rule, "indexDiffT: continue statements after a match (fewer than 2)")
	}
}

// R02s: both sides of a comparison helper are looked at.
const ruleTextBothParamsUsed = "both sides are consulted: in the differ files, a function with two parameters of the same type (x1/x2, from/to, d1/d2 …) references each of them; a helper that parses or normalises the first one twice and never touches the second compares a value with itself and reports no change for any edit"

func checkBothParamsUsed(c *Ctx, rule string) {
	n := 0
	for _, pp := range []string{pSqlx, pMysql, pPostgres, pSqlite} {
		c.AllFuncs(false, func(fi *FuncInfo) {
			if fi.Pkg.PkgPath != pp {
				return
			}
			base := c.Fset.Position(fi.Decl.Pos()).Filename
			base = base[strings.LastIndex(base, "/")+1:]
			if !strings.HasPrefix(base, "diff") {
				return
			}
			info := fi.Info()
			var ps []*ast.Ident
			for _, fld := range fi.Decl.Type.Params.List {
				for _, nm := range fld.Names {
					if nm.Name != "_" {
						ps = append(ps, nm)
					}
				}
			}
			// pairs of same-typed parameters
			for i := 0; i < len(ps); i++ {
				for j := i + 1; j < len(ps); j++ {
					if !types.Identical(info.TypeOf(ps[i]), info.TypeOf(ps[j])) {
						continue
					}
					if _, isCtx := info.TypeOf(ps[i]).Underlying().(*types.Interface); isCtx && typeIs(info.TypeOf(ps[i]), "context", "Context") {
						continue
					}
					n++
					c.funcs[fi.Name] = true
					used := map[types.Object]bool{}
					ast.Inspect(fi.Decl.Body, func(m ast.Node) bool {
						if id, ok := m.(*ast.Ident); ok {
							if o := info.Uses[id]; o != nil {
								used[o] = true
							}
						}
						return true
					})
					oi, oj := info.ObjectOf(ps[i]), info.ObjectOf(ps[j])
					bad := ""
					switch {
					case used[oi] && !used[oj]:
						bad = ps[j].Name
					case used[oj] && !used[oi]:
						bad = ps[i].Name
					}
					c.Check(rule, fi.Name+"|"+ps[i].Name+" and "+ps[j].Name+" are both consulted", fi.Decl.Pos(), bad == "", "%s never looks at its parameter %s although it consults the other one of the pair: the two sides of the comparison are the same value, so an edit is never reported", fi.Name, bad)
				}
			}
		})
	}
	if n < 20 {
		c.Unresolved(rule, "differ functions with a pair of same-typed parameters (fewer than 20)")
	}
}

// R04l: identity of tables and schemas is exact.
const ruleTextExactIdentity = "object identity is exact: the shared identity predicates of sqlx (SameTable, SameSchema) compare names with == only — no case folding or normalisation; the dependency edges of SortChanges are computed with them while sortMap keys by the exact name, so a folded comparison adds an edge between two different tables (`b` and `B`) and removes the real inverse edge"

func checkExactIdentity(c *Ctx, rule string) {
	n := 0
	for _, name := range []string{"SameTable", "SameSchema"} {
		fi := c.LookupFunc(pSqlx, "", name)
		if fi == nil || fi.Decl.Body == nil {
			continue
		}
		info := fi.Info()
		n++
		c.funcs[fi.Name] = true
		bad := ""
		ast.Inspect(fi.Decl.Body, func(m ast.Node) bool {
			call, ok := m.(*ast.CallExpr)
			if !ok {
				return true
			}
			fn := calleeOf(info, call)
			if fn != nil && fn.Pkg() != nil && fn.Pkg().Path() == "strings" && (fn.Name() == "EqualFold" || fn.Name() == "ToLower" || fn.Name() == "ToUpper" || fn.Name() == "TrimSpace") {
				bad = types.ExprString(call)
			}
			return true
		})
		c.Check(rule, "sqlx."+name+"|names compared exactly", fi.Decl.Pos(), bad == "", "sqlx.%s normalises the names it compares (%s): two different objects whose names differ only in that respect are taken for one, and the plan orders (or skips) changes of the wrong table", name, bad)
	}
	if n < 2 {
		c.Unresolved(rule, "sqlx.SameTable / sqlx.SameSchema")
	}
}

// R05j: applying a plan stops at the first failing statement.
const ruleTextApplyStops = "ApplyChanges stops at the first failing statement: in sqlx.ApplyChanges (and the dialect ApplyChanges methods that execute a plan in a loop) no path leads from the error edge of the statement's ExecContext to the next iteration; the SQLite rebuild is CREATE new_t, INSERT…SELECT, DROP t, RENAME — if a failed row copy is skipped, the DROP still runs and every row of the table is lost"

func checkApplyStops(c *Ctx, rule string) {
	n := 0
	for _, pp := range []string{pSqlx, pSqlite, pMysql, pPostgres} {
		c.AllFuncs(false, func(fi *FuncInfo) {
			if fi.Pkg.PkgPath != pp || fi.Decl.Name.Name != "ApplyChanges" {
				return
			}
			info := fi.Info()
			f := newFlow(info, fi.Decl.Body)
			ast.Inspect(fi.Decl.Body, func(m ast.Node) bool {
				loop, ok := m.(ast.Stmt)
				if !ok || loopBodyOf(loop) == nil {
					return true
				}
				execs := false
				for _, call := range callsIn(loopBodyOf(loop), false) {
					if fn := calleeOf(info, call); fn != nil && fn.Name() == "ExecContext" {
						execs = true
					}
				}
				if !execs {
					return true
				}
				n++
				c.funcs[fi.Name] = true
				_, next := loopBlocks(f, loop)
				// start: the error branch of the ExecContext node
				bad := false
				for _, pt := range f.find(func(nd ast.Node) bool {
					return nodeHasCall(info, nd, func(fn *types.Func, _ *ast.CallExpr) bool { return fn.Name() == "ExecContext" }) != nil
				}) {
					errB, _, _, ok := f.errBranch(pt)
					if !ok || errB == nil {
						continue
					}
					if f.reachBlockEdges([]point{{errB, 0}}, nil, next, nil) || next(errB) {
						bad = true
					}
				}
				c.Check(rule, fi.Name+"|an execution error ends the loop", loop.Pos(), !bad, "%s can go on with the next planned statement after ExecContext returned an error: later statements of a multi-statement change (the DROP after a failed row copy) run on a state the plan did not foresee, and the error is lost", fi.Name)
				return true
			})
		})
	}
	if n < 1 {
		c.Unresolved(rule, "ApplyChanges functions that execute the plan in a loop")
	}
}

var _ = cfg.KindRangeBody

// R03r: quotes are stripped from a name only after the surrounding blanks are gone.
const ruleTextTrimOrder = "quote stripping in the SQLite inspector: wherever strings.Trim removes a cutset of quote characters (and no blank) from a piece of the stored CREATE statement, its operand has already passed strings.TrimSpace (inside the operand, or in the single assignment that defines it); `(\"a\", \"b\")` splits into `\"a\"` and ` \"b\"`, and trimming the quotes first leaves the opening quote of every column but the first in the name, so the constraint no longer finds its column"

func checkTrimOrder(c *Ctx, rule string) {
	n := 0
	c.AllFuncs(false, func(fi *FuncInfo) {
		if fi.Pkg.PkgPath != pSqlite {
			return
		}
		info := fi.Info()
		hasTrimSpace := func(e ast.Expr) bool {
			found := false
			ast.Inspect(e, func(k ast.Node) bool {
				if call, ok := k.(*ast.CallExpr); ok {
					if fn := calleeOf(info, call); funcIs(fn, "strings", "", "TrimSpace") || funcIs(fn, "strings", "", "Fields") {
						found = true
					}
				}
				return !found
			})
			return found
		}
		ast.Inspect(fi.Decl.Body, func(m ast.Node) bool {
			call, ok := m.(*ast.CallExpr)
			if !ok || !funcIs(calleeOf(info, call), "strings", "", "Trim") || len(call.Args) != 2 {
				return true
			}
			cut, ok := stringConst(info, call.Args[1])
			if !ok || !strings.ContainsAny(cut, "`\"'") || strings.ContainsAny(cut, " \t") {
				return true
			}
			n++
			c.funcs[fi.Name] = true
			good := hasTrimSpace(call.Args[0])
			if id, ok := ast.Unparen(call.Args[0]).(*ast.Ident); ok && !good {
				obj := info.ObjectOf(id)
				defs, trimmed := 0, 0
				ast.Inspect(fi.Decl.Body, func(k ast.Node) bool {
					if as, ok := k.(*ast.AssignStmt); ok {
						for i, l := range as.Lhs {
							if lid, ok := l.(*ast.Ident); ok && info.ObjectOf(lid) == obj {
								defs++
								if len(as.Rhs) == len(as.Lhs) && hasTrimSpace(as.Rhs[i]) {
									trimmed++
								}
							}
						}
					}
					return true
				})
				good = defs > 0 && defs == trimmed
			}
			c.Check(rule, fmt.Sprintf("%s|quote Trim %d operates on a blank-trimmed operand", fi.Name, n), call.Pos(), good, "%s strips the quotes %q from %s before the surrounding blanks are removed: a piece that starts (or ends) with a blank keeps its quote, and the name read from the stored statement differs from the column's name", fi.Name, cut, types.ExprString(call.Args[0]))
			return true
		})
	})
	if n < 1 {
		c.Unresolved(rule, "strings.Trim calls with a quote cutset in sql/sqlite")
	}
}
