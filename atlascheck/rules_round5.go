package main

// Rules added after the fifth round of independent seeds.

import (
	"fmt"
	"go/ast"
	"go/constant"
	"go/token"
	"go/types"
	"regexp"
	"sort"
	"strings"

	"golang.org/x/tools/go/cfg"
)

// R03q: scan targets line up with the selected columns.
const ruleTextScanOrder = "query/consumer agreement on column order (SQLite inspector): when a rows.Scan target variable has the same name as a column (or column alias) selected by the query that feeds the cursor, it stands at that column's position in the Scan call; `SELECT …, wr, strict` scanned into (&strict, &wr) swaps WITHOUT ROWID and STRICT on every table that has exactly one of them"

func checkScanOrder(c *Ctx, rule string) {
	n := 0
	unq := func(s string) string { return strings.ToLower(strings.Trim(strings.TrimSpace(s), "`\"[]")) }
	colNames := func(q string) []string {
		lq := strings.ToLower(q)
		i, j := strings.Index(lq, "select"), strings.Index(lq, "from")
		if i < 0 || j < i {
			return nil
		}
		var out []string
		depth, start := 0, i+len("select")
		flush := func(seg string) {
			seg = strings.TrimSpace(seg)
			l := strings.ToLower(seg)
			if k := strings.LastIndex(l, " as "); k >= 0 {
				seg = seg[k+4:]
			} else if k := strings.LastIndex(seg, "."); k >= 0 && !strings.ContainsAny(seg, "( ") {
				seg = seg[k+1:]
			}
			out = append(out, unq(seg))
		}
		for k := start; k < j; k++ {
			switch q[k] {
			case '(':
				depth++
			case ')':
				depth--
			case ',':
				if depth == 0 {
					flush(q[start:k])
					start = k + 1
				}
			}
		}
		flush(q[start:j])
		return out
	}
	c.AllFuncs(false, func(fi *FuncInfo) {
		if fi.Pkg.PkgPath != pSqlite {
			return
		}
		info := fi.Info()
		// the query constant used by this function (directly, through Sprintf, or a `query := const` local)
		var q string
		ast.Inspect(fi.Decl.Body, func(m ast.Node) bool {
			if q != "" {
				return false
			}
			switch x := m.(type) {
			case *ast.CallExpr:
				se, ok := x.Fun.(*ast.SelectorExpr)
				if !ok || (se.Sel.Name != "QueryContext" && se.Sel.Name != "Query") {
					return true
				}
				for _, a := range x.Args {
					if s, ok := stringConst(info, a); ok {
						q = s
					}
					if inner, ok := ast.Unparen(a).(*ast.CallExpr); ok && funcIs(calleeOf(info, inner), "fmt", "", "Sprintf") && len(inner.Args) > 0 {
						if s, ok := stringConst(info, inner.Args[0]); ok {
							q = s
						}
					}
					if id, ok := ast.Unparen(a).(*ast.Ident); ok {
						obj := info.ObjectOf(id)
						ast.Inspect(fi.Decl.Body, func(k ast.Node) bool {
							switch d := k.(type) {
							case *ast.ValueSpec:
								for i, nm := range d.Names {
									if info.ObjectOf(nm) == obj && i < len(d.Values) {
										if s, ok := stringConst(info, d.Values[i]); ok && q == "" {
											q = s
										}
									}
								}
							case *ast.AssignStmt:
								for i, l := range d.Lhs {
									if lid, ok := l.(*ast.Ident); ok && info.ObjectOf(lid) == obj && i < len(d.Rhs) && d.Tok == token.DEFINE {
										if s, ok := stringConst(info, d.Rhs[i]); ok && q == "" {
											q = s
										}
									}
								}
							}
							return true
						})
					}
				}
			}
			return true
		})
		if q == "" {
			return
		}
		cols := colNames(q)
		if len(cols) == 0 {
			return
		}
		ast.Inspect(fi.Decl.Body, func(m ast.Node) bool {
			call, ok := m.(*ast.CallExpr)
			if !ok {
				return true
			}
			se, ok := call.Fun.(*ast.SelectorExpr)
			if !ok || se.Sel.Name != "Scan" || !typeIs(derefType(info.TypeOf(se.X)), "database/sql", "Rows") || len(call.Args) != len(cols) {
				return true
			}
			n++
			c.funcs[fi.Name] = true
			bad := ""
			for ai, a := range call.Args {
				un, ok := ast.Unparen(a).(*ast.UnaryExpr)
				if !ok || un.Op != token.AND {
					continue
				}
				id := rootIdent(un.X)
				if id == nil {
					continue
				}
				name := strings.ToLower(id.Name)
				for ci, col := range cols {
					if col == name && ci != ai && cols[ai] != name {
						bad = fmt.Sprintf("&%s is target %d but column %q is selected at position %d", id.Name, ai+1, col, ci+1)
					}
				}
			}
			c.Check(rule, fi.Name+"|Scan targets follow the SELECT list", call.Pos(), bad == "", "%s scans the cursor of `%s` in a different order than the query selects (%s): the values of the two columns are swapped in the inspected schema", fi.Name, firstLine(strings.TrimSpace(q)), bad)
			return true
		})
	})
	if n < 2 {
		c.Unresolved(rule, "rows.Scan calls fed by a constant query in sql/sqlite (fewer than 2)")
	}
}

// R02r: a matched object is marked as matched before the search moves on.
const ruleTextMatchedMarked = "bookkeeping of matched objects: in the differ's index loop (Diff.indexDiffT) every path from the discovery of a counterpart in the other table (the edge on which the found-flag of a look-up with results (*schema.Index, …, bool) is true) to the next iteration passes the store that marks the counterpart as existing (exists[x] = true); the second loop adds every index of the desired table that is not marked, so an unmarked match is reported as a spurious AddIndex although nothing was edited; the matched pair is compared in full (indexChange) before the loop moves on, and a counterpart that was not found by its unique name is accepted only if it is not marked yet"

func checkMatchedMarked(c *Ctx, rule string) {
	fi := c.Func(rule, pSqlx, "Diff", "indexDiffT")
	if fi == nil {
		return
	}
	info := fi.Info()
	isIndexMap := func(t types.Type) bool {
		if t == nil {
			return false
		}
		mt, ok := t.Underlying().(*types.Map)
		return ok && typeIs(derefType(mt.Key()), pSchema, "Index")
	}
	// the marker map: a local map[*schema.Index]bool
	var marker types.Object
	ast.Inspect(fi.Decl.Body, func(m ast.Node) bool {
		if id, ok := m.(*ast.Ident); ok {
			if v, ok := info.Defs[id].(*types.Var); ok && isIndexMap(v.Type()) && marker == nil {
				marker = v
			}
		}
		return true
	})
	if marker == nil {
		c.Unresolved(rule, "indexDiffT: the map that marks matched indexes")
		return
	}
	// a method of the marker's type that stores into its receiver (set.add(x))
	storingMethod := func(call *ast.CallExpr) bool {
		se, ok := call.Fun.(*ast.SelectorExpr)
		if !ok {
			return false
		}
		id, ok := ast.Unparen(se.X).(*ast.Ident)
		if !ok || info.ObjectOf(id) != marker {
			return false
		}
		hf := c.FuncInfoOf(calleeOf(info, call))
		if hf == nil || hf.Decl.Body == nil || hf.Decl.Recv == nil || len(hf.Decl.Recv.List) == 0 || len(hf.Decl.Recv.List[0].Names) == 0 {
			return false
		}
		hinfo := hf.Info()
		recv := hinfo.ObjectOf(hf.Decl.Recv.List[0].Names[0])
		stores := false
		ast.Inspect(hf.Decl.Body, func(k ast.Node) bool {
			if as, ok := k.(*ast.AssignStmt); ok {
				for _, l := range as.Lhs {
					if ix, ok := ast.Unparen(l).(*ast.IndexExpr); ok {
						if rid, ok := ast.Unparen(ix.X).(*ast.Ident); ok && hinfo.ObjectOf(rid) == recv {
							stores = true
						}
					}
				}
			}
			return true
		})
		return stores
	}
	isMark := func(nd ast.Node) bool {
		switch x := nd.(type) {
		case *ast.AssignStmt:
			for _, l := range x.Lhs {
				if ix, ok := ast.Unparen(l).(*ast.IndexExpr); ok {
					if id, ok := ast.Unparen(ix.X).(*ast.Ident); ok && info.ObjectOf(id) == marker {
						return true
					}
				}
			}
		case *ast.ExprStmt:
			if call, ok := ast.Unparen(x.X).(*ast.CallExpr); ok && storingMethod(call) {
				return true
			}
		}
		return false
	}
	// the loop that marks
	var loop ast.Stmt
	ast.Inspect(fi.Decl.Body, func(m ast.Node) bool {
		st, ok := m.(ast.Stmt)
		if !ok || loopBodyOf(st) == nil || loop != nil {
			return loop == nil
		}
		marks := false
		ast.Inspect(loopBodyOf(st), func(k ast.Node) bool {
			if isMark(k) {
				marks = true
			}
			return !marks
		})
		if marks {
			loop = st
		}
		return loop == nil
	})
	if loop == nil {
		c.Unresolved(rule, "indexDiffT: the loop that marks matched indexes")
		return
	}
	// look-ups inside that loop: x, …, ok := call(…) with results (*schema.Index, …, bool)
	type lookup struct {
		flag    types.Object
		similar bool // found otherwise than by its unique name (anything but (*schema.Table).Index)
		call    *ast.CallExpr
	}
	var lookups []lookup
	ast.Inspect(loopBodyOf(loop), func(m ast.Node) bool {
		as, ok := m.(*ast.AssignStmt)
		if !ok || len(as.Rhs) != 1 || len(as.Lhs) < 2 {
			return true
		}
		call, ok := ast.Unparen(as.Rhs[0]).(*ast.CallExpr)
		if !ok {
			return true
		}
		tup, ok := info.TypeOf(call).(*types.Tuple)
		if !ok || tup.Len() != len(as.Lhs) || !typeIs(derefType(tup.At(0).Type()), pSchema, "Index") {
			return true
		}
		if b, ok := tup.At(tup.Len() - 1).Type().Underlying().(*types.Basic); !ok || b.Kind() != types.Bool {
			return true
		}
		id, ok := as.Lhs[len(as.Lhs)-1].(*ast.Ident)
		if !ok || id.Name == "_" {
			return true
		}
		lookups = append(lookups, lookup{info.ObjectOf(id), !funcIs(calleeOf(info, call), pSchema, "Table", "Index"), call})
		return true
	})
	if len(lookups) == 0 {
		c.Unresolved(rule, "indexDiffT: look-ups of a counterpart index (results (*schema.Index, …, bool)) in the marking loop")
		return
	}
	c.funcs[fi.Name] = true
	f := newFlow(info, fi.Decl.Body)
	_, next := loopBlocks(f, loop)
	comparesPair := func(nd ast.Node) bool {
		return nodeHasCall(info, nd, func(fn *types.Func, _ *ast.CallExpr) bool { return funcIs(fn, pSqlx, "Diff", "indexChange") }) != nil
	}
	// does a path lead from the edge on which `flag` is known true to the next iteration without passing `through`?
	escapes := func(flag types.Object, through nodePred) bool {
		isFlag := func(e ast.Expr, want bool) func(ast.Expr, bool) bool {
			return func(e ast.Expr, val bool) bool {
				id, ok := ast.Unparen(e).(*ast.Ident)
				return ok && info.ObjectOf(id) == flag && val == want
			}
		}
		bad := false
		for _, b := range f.G.Blocks {
			if !b.Live {
				continue
			}
			for si := range b.Succs {
				if len(b.Succs) != 2 || !edgeImplies(b, si, isFlag(nil, true)) {
					continue
				}
				start := b.Succs[si]
				if next(start) {
					bad = true
					continue
				}
				if f.reachBlockEdges([]point{{start, 0}}, through, next, func(eb *cfg.Block, esi int) bool {
					return len(eb.Succs) == 2 && edgeImplies(eb, esi, isFlag(nil, false))
				}) {
					bad = true
				}
			}
		}
		return bad
	}
	// is the marker consulted in the marking loop (other than by the marking stores), or handed to a look-up?
	markerRead := false
	ast.Inspect(loopBodyOf(loop), func(m ast.Node) bool {
		if es, ok := m.(*ast.ExprStmt); ok && isMark(es) {
			return false
		}
		if as, ok := m.(*ast.AssignStmt); ok && isMark(as) {
			for _, r := range as.Rhs {
				ast.Inspect(r, func(k ast.Node) bool {
					if id, ok := k.(*ast.Ident); ok && info.ObjectOf(id) == marker {
						markerRead = true
					}
					return true
				})
			}
			return false
		}
		if id, ok := m.(*ast.Ident); ok && info.ObjectOf(id) == marker {
			markerRead = true
		}
		return true
	})
	markedName, markedSim, compared, anySim, anyName := true, true, true, false, false
	var simPos token.Pos
	for _, lk := range lookups {
		esc := escapes(lk.flag, isMark)
		if lk.similar {
			anySim = true
			simPos = lk.call.Pos()
			if esc {
				markedSim = false
			}
			if escapes(lk.flag, comparesPair) {
				compared = false
			}
		} else {
			anyName = true
			if esc {
				markedName = false
			}
		}
	}
	if anyName {
		c.Check(rule, "sqlx.(Diff).indexDiffT|a counterpart found by its name is marked", loop.Pos(), markedName, "indexDiffT moves on to the next index after finding its counterpart by name without marking the counterpart in %s: the loop over the desired indexes then reports it as AddIndex, so a schema compared with an identical copy yields a change", marker.Name())
	}
	if anySim {
		c.Check(rule, "sqlx.(Diff).indexDiffT|a counterpart found by similarity is marked", simPos, markedSim, "indexDiffT moves on to the next index after finding a similar counterpart without marking it in %s: the loop over the desired indexes then reports it as AddIndex, so a schema compared with an identical copy yields a change", marker.Name())
		c.Check(rule, "sqlx.(Diff).indexDiffT|a counterpart found by similarity is compared with indexChange", simPos, compared, "indexDiffT accepts a counterpart found otherwise than by its name and moves on without passing the pair to indexChange on some path: an edit of the index's attributes or comment (USING HASH, COMMENT 'new', a predicate, INCLUDE columns) is never reported")
		c.Check(rule, "sqlx.(Diff).indexDiffT|a counterpart found by similarity is claimed only once", simPos, markerRead, "indexDiffT accepts a counterpart found by similarity without consulting %s: two indexes of the current table are matched to the same desired index and the drop of the duplicate is never reported", marker.Name())
	}
}

// R02s: both sides of a comparison helper are looked at.
const ruleTextBothParamsUsed = "both sides are consulted: in the differ files, a function with two parameters of the same type (x1/x2, from/to, d1/d2 …) references each of them; a helper that parses or normalises the first one twice and never touches the second compares a value with itself and reports no change for any edit"

func checkBothParamsUsed(c *Ctx, rule string) {
	n := 0
	for _, pp := range []string{pSqlx, pMysql, pPostgres, pSqlite} {
		c.AllFuncs(false, func(fi *FuncInfo) {
			if fi.Pkg.PkgPath != pp {
				return
			}
			base := c.Fset.Position(fi.Decl.Pos()).Filename
			base = base[strings.LastIndex(base, "/")+1:]
			if !strings.HasPrefix(base, "diff") {
				return
			}
			info := fi.Info()
			var ps []*ast.Ident
			for _, fld := range fi.Decl.Type.Params.List {
				for _, nm := range fld.Names {
					if nm.Name != "_" {
						ps = append(ps, nm)
					}
				}
			}
			// pairs of same-typed parameters
			for i := 0; i < len(ps); i++ {
				for j := i + 1; j < len(ps); j++ {
					if !types.Identical(info.TypeOf(ps[i]), info.TypeOf(ps[j])) {
						continue
					}
					if _, isCtx := info.TypeOf(ps[i]).Underlying().(*types.Interface); isCtx && typeIs(info.TypeOf(ps[i]), "context", "Context") {
						continue
					}
					n++
					c.funcs[fi.Name] = true
					used := map[types.Object]bool{}
					ast.Inspect(fi.Decl.Body, func(m ast.Node) bool {
						if id, ok := m.(*ast.Ident); ok {
							if o := info.Uses[id]; o != nil {
								used[o] = true
							}
						}
						return true
					})
					oi, oj := info.ObjectOf(ps[i]), info.ObjectOf(ps[j])
					bad := ""
					switch {
					case used[oi] && !used[oj]:
						bad = ps[j].Name
					case used[oj] && !used[oi]:
						bad = ps[i].Name
					}
					c.Check(rule, fi.Name+"|"+ps[i].Name+" and "+ps[j].Name+" are both consulted", fi.Decl.Pos(), bad == "", "%s never looks at its parameter %s although it consults the other one of the pair: the two sides of the comparison are the same value, so an edit is never reported", fi.Name, bad)
				}
			}
		})
	}
	if n < 20 {
		c.Unresolved(rule, "differ functions with a pair of same-typed parameters (fewer than 20)")
	}
}

// R04l: identity of tables and schemas is exact.
const ruleTextExactIdentity = "object identity is exact: the shared identity predicates of sqlx (SameTable, SameSchema) compare names with == only — no case folding or normalisation; the dependency edges of SortChanges are computed with them while sortMap keys by the exact name, so a folded comparison adds an edge between two different tables (`b` and `B`) and removes the real inverse edge"

func checkExactIdentity(c *Ctx, rule string) {
	n := 0
	for _, name := range []string{"SameTable", "SameSchema"} {
		fi := c.LookupFunc(pSqlx, "", name)
		if fi == nil || fi.Decl.Body == nil {
			continue
		}
		info := fi.Info()
		n++
		c.funcs[fi.Name] = true
		bad := ""
		ast.Inspect(fi.Decl.Body, func(m ast.Node) bool {
			call, ok := m.(*ast.CallExpr)
			if !ok {
				return true
			}
			fn := calleeOf(info, call)
			if fn != nil && fn.Pkg() != nil && fn.Pkg().Path() == "strings" && (fn.Name() == "EqualFold" || fn.Name() == "ToLower" || fn.Name() == "ToUpper" || fn.Name() == "TrimSpace") {
				bad = types.ExprString(call)
			}
			return true
		})
		c.Check(rule, "sqlx."+name+"|names compared exactly", fi.Decl.Pos(), bad == "", "sqlx.%s normalises the names it compares (%s): two different objects whose names differ only in that respect are taken for one, and the plan orders (or skips) changes of the wrong table", name, bad)
	}
	if n < 2 {
		c.Unresolved(rule, "sqlx.SameTable / sqlx.SameSchema")
	}
}

// R05j: applying a plan stops at the first failing statement.
const ruleTextApplyStops = "ApplyChanges stops at the first failing statement: in sqlx.ApplyChanges (and the dialect ApplyChanges methods that execute a plan in a loop) no path leads from the error edge of the statement's ExecContext to the next iteration; the SQLite rebuild is CREATE new_t, INSERT…SELECT, DROP t, RENAME — if a failed row copy is skipped, the DROP still runs and every row of the table is lost"

func checkApplyStops(c *Ctx, rule string) {
	n := 0
	for _, pp := range []string{pSqlx, pSqlite, pMysql, pPostgres} {
		// the ApplyChanges functions and the package-local functions they call (the loop may live in a helper)
		var units []*FuncInfo
		c.AllFuncs(false, func(fi *FuncInfo) {
			if fi.Pkg.PkgPath != pp || fi.Decl.Name.Name != "ApplyChanges" || fi.Decl.Body == nil {
				return
			}
			units = append(units, fi)
			for _, call := range callsIn(fi.Decl.Body, true) {
				if fn := calleeOf(fi.Info(), call); fn != nil && fn.Pkg() != nil && fn.Pkg().Path() == pp {
					if hf := c.FuncInfoOf(fn); hf != nil && hf.Decl.Body != nil && hf.Decl != fi.Decl {
						units = append(units, hf)
					}
				}
			}
		})
		seenUnit := map[*ast.FuncDecl]bool{}
		for _, fi := range units {
			if seenUnit[fi.Decl] {
				continue
			}
			seenUnit[fi.Decl] = true
			info := fi.Info()
			f := newFlow(info, fi.Decl.Body)
			ast.Inspect(fi.Decl.Body, func(m ast.Node) bool {
				loop, ok := m.(ast.Stmt)
				if !ok || loopBodyOf(loop) == nil {
					return true
				}
				execs := false
				for _, call := range callsIn(loopBodyOf(loop), false) {
					if fn := calleeOf(info, call); fn != nil && fn.Name() == "ExecContext" {
						execs = true
					}
				}
				if !execs {
					return true
				}
				n++
				c.funcs[fi.Name] = true
				_, next := loopBlocks(f, loop)
				// start: the error branch of the ExecContext node
				bad := false
				for _, pt := range f.find(func(nd ast.Node) bool {
					return nodeHasCall(info, nd, func(fn *types.Func, _ *ast.CallExpr) bool { return fn.Name() == "ExecContext" }) != nil
				}) {
					errB, _, _, ok := f.errBranch(pt)
					if !ok || errB == nil {
						continue
					}
					if f.reachBlockEdges([]point{{errB, 0}}, nil, next, nil) || next(errB) {
						bad = true
					}
				}
				c.Check(rule, fi.Name+"|an execution error ends the loop", loop.Pos(), !bad, "%s can go on with the next planned statement after ExecContext returned an error: later statements of a multi-statement change (the DROP after a failed row copy) run on a state the plan did not foresee, and the error is lost", fi.Name)
				return true
			})
		}
	}
	if n < 1 {
		c.Unresolved(rule, "ApplyChanges functions that execute the plan in a loop")
	}
}

var _ = cfg.KindRangeBody

// R03r: quotes are stripped from a name only after the surrounding blanks are gone.
const ruleTextTrimOrder = "quote stripping in the SQLite inspector: wherever strings.Trim removes a cutset of quote characters (and no blank) from a piece of the stored CREATE statement, its operand has already passed strings.TrimSpace (inside the operand, or in the single assignment that defines it); `(\"a\", \"b\")` splits into `\"a\"` and ` \"b\"`, and trimming the quotes first leaves the opening quote of every column but the first in the name, so the constraint no longer finds its column"

func checkTrimOrder(c *Ctx, rule string) {
	n := 0
	c.AllFuncs(false, func(fi *FuncInfo) {
		if fi.Pkg.PkgPath != pSqlite {
			return
		}
		info := fi.Info()
		hasTrimSpace := func(e ast.Expr) bool {
			found := false
			ast.Inspect(e, func(k ast.Node) bool {
				if call, ok := k.(*ast.CallExpr); ok {
					if fn := calleeOf(info, call); funcIs(fn, "strings", "", "TrimSpace") || funcIs(fn, "strings", "", "Fields") {
						found = true
					}
				}
				return !found
			})
			return found
		}
		ast.Inspect(fi.Decl.Body, func(m ast.Node) bool {
			call, ok := m.(*ast.CallExpr)
			if !ok || !funcIs(calleeOf(info, call), "strings", "", "Trim") || len(call.Args) != 2 {
				return true
			}
			cut, ok := stringConst(info, call.Args[1])
			if !ok || !strings.ContainsAny(cut, "`\"'") || strings.ContainsAny(cut, " \t") {
				return true
			}
			n++
			c.funcs[fi.Name] = true
			good := hasTrimSpace(call.Args[0])
			if id, ok := ast.Unparen(call.Args[0]).(*ast.Ident); ok && !good {
				obj := info.ObjectOf(id)
				defs, trimmed := 0, 0
				ast.Inspect(fi.Decl.Body, func(k ast.Node) bool {
					if as, ok := k.(*ast.AssignStmt); ok {
						for i, l := range as.Lhs {
							if lid, ok := l.(*ast.Ident); ok && info.ObjectOf(lid) == obj {
								defs++
								if len(as.Rhs) == len(as.Lhs) && hasTrimSpace(as.Rhs[i]) {
									trimmed++
								}
							}
						}
					}
					return true
				})
				good = defs > 0 && defs == trimmed
			}
			c.Check(rule, fmt.Sprintf("%s|quote Trim %d operates on a blank-trimmed operand", fi.Name, n), call.Pos(), good, "%s strips the quotes %q from %s before the surrounding blanks are removed: a piece that starts (or ends) with a blank keeps its quote, and the name read from the stored statement differs from the column's name", fi.Name, cut, types.ExprString(call.Args[0]))
			return true
		})
	})
	if n < 1 {
		c.Unresolved(rule, "strings.Trim calls with a quote cutset in sql/sqlite")
	}
}

// R08i: look-behind reads stay inside the input.
const ruleTextLookBehind = "look-behind bounds in the statement scanner: every read s.input[s.pos-K] or s.input[s.pos-K:] with K >= 2 in a Scanner method stands where the enclosing conditions (&& operands to its left, if and case conditions) establish s.pos >= K (s.pos > K-1, s.pos >= K, s.pos == n with n >= K); one byte of look-behind is granted by the rune just consumed, two are not: a quote (or BEGIN) at the very start of a statement would index s.input[-1] and the scanner, which must be total, panics"

func checkLookBehind(c *Ctx, rule string) {
	n := 0
	c.AllFuncs(false, func(fi *FuncInfo) {
		if fi.Pkg.PkgPath != pMigrate || recvName(fi.Decl) != "Scanner" {
			return
		}
		info := fi.Info()
		pm := parentMap(fi.Decl)
		ord := 0
		isPos := func(e ast.Expr) bool {
			se, ok := ast.Unparen(e).(*ast.SelectorExpr)
			return ok && se.Sel.Name == "pos" && typeIs(derefType(info.TypeOf(se.X)), pMigrate, "Scanner")
		}
		isInput := func(e ast.Expr) bool {
			se, ok := ast.Unparen(e).(*ast.SelectorExpr)
			return ok && se.Sel.Name == "input" && typeIs(derefType(info.TypeOf(se.X)), pMigrate, "Scanner")
		}
		// K of an expression s.pos-K
		behind := func(e ast.Expr) (int64, bool) {
			be, ok := ast.Unparen(e).(*ast.BinaryExpr)
			if !ok || be.Op != token.SUB || !isPos(be.X) {
				return 0, false
			}
			return intConst(info, be.Y)
		}
		ast.Inspect(fi.Decl.Body, func(m ast.Node) bool {
			var idx ast.Expr
			var node ast.Node
			switch x := m.(type) {
			case *ast.IndexExpr:
				if isInput(x.X) {
					idx, node = x.Index, x
				}
			case *ast.SliceExpr:
				if isInput(x.X) && x.Low != nil {
					idx, node = x.Low, x
				}
			}
			if idx == nil {
				return true
			}
			k, ok := behind(idx)
			if !ok || k < 2 {
				return true
			}
			n++
			ord++
			c.funcs[fi.Name] = true
			var lower int64
			for _, f := range enclosingFacts(pm, node) {
				be, ok := ast.Unparen(f.expr).(*ast.BinaryExpr)
				if !ok {
					continue
				}
				op, x, y := be.Op, be.X, be.Y
				if isPos(y) { // n < s.pos → s.pos > n
					x, y = y, x
					switch op {
					case token.LSS:
						op = token.GTR
					case token.LEQ:
						op = token.GEQ
					case token.GTR:
						op = token.LSS
					case token.GEQ:
						op = token.LEQ
					}
				}
				v, isC := intConst(info, y)
				if !isPos(x) || !isC {
					continue
				}
				if !f.val {
					switch op {
					case token.LSS:
						op = token.GEQ
					case token.LEQ:
						op = token.GTR
					case token.NEQ:
						op = token.EQL
					default:
						continue
					}
				}
				switch op {
				case token.GTR:
					lower = max(lower, v+1)
				case token.GEQ, token.EQL:
					lower = max(lower, v)
				}
			}
			c.Check(rule, fmt.Sprintf("%s|look-behind %d of %d bytes is within the input", fi.Name, ord, k), node.Pos(), lower >= k, "%s reads %s where only s.pos >= %d is established: at the start of the input (or of a statement, after the consumed text was cut off) the index is negative and Scan panics instead of returning statements or an error", fi.Name, types.ExprString(node.(ast.Expr)), lower)
			return true
		})
	})
	if n < 2 {
		c.Unresolved(rule, "reads of s.input[s.pos-K] with K >= 2 in the Scanner methods (fewer than 2)")
	}
}

func intConst(info *types.Info, e ast.Expr) (int64, bool) {
	tv, ok := info.Types[e]
	if !ok || tv.Value == nil || tv.Value.Kind() != constant.Int {
		return 0, false
	}
	return constant.Int64Val(tv.Value)
}

// R15p: strings of the schema are written as HCL string values, never as expression text.
const ruleTextNoQuotedExprText = "strings of the schema reach the document as string values: in the schema→spec writers (dialect sqlspec files and specutil) the text handed to a raw-expression or reference constructor (specutil.VarAttr, schemahcl.RefAttr/RefValue/RawAttr, a Ref or RawExpr literal), and the text the schemahcl attribute writer prints itself (functions reachable from State.writeAttr, e.g. the arguments of a type expression), is never a Go-quoted string (strconv.Quote, fmt.Sprintf with %q) of a schema value: Go quoting knows nothing of HCL templates, so a predicate containing `${` or `%{` is read back as an interpolation (or does not parse), while schemahcl.StringAttr escapes them"

func checkNoQuotedExprText(c *Ctx, rule string) {
	n := 0
	for _, pp := range []string{pSqlite, pMysql, pPostgres, pSpecutil} {
		c.AllFuncs(false, func(fi *FuncInfo) {
			if fi.Pkg.PkgPath != pp {
				return
			}
			info := fi.Info()
			goQuoted := func(e ast.Expr) string {
				out := ""
				ast.Inspect(e, func(k ast.Node) bool {
					call, ok := k.(*ast.CallExpr)
					if !ok || out != "" {
						return out == ""
					}
					fn := calleeOf(info, call)
					switch {
					case funcIs(fn, "strconv", "", "Quote"):
						if _, isConst := stringConst(info, call.Args[0]); !isConst {
							out = types.ExprString(call)
						}
					case funcIs(fn, "fmt", "", "Sprintf") && len(call.Args) > 1:
						if f, ok := stringConst(info, call.Args[0]); ok && strings.Contains(f, "%q") {
							out = types.ExprString(call)
						}
					}
					return true
				})
				return out
			}
			ord := 0
			ast.Inspect(fi.Decl.Body, func(m ast.Node) bool {
				var text ast.Expr
				var pos token.Pos
				switch x := m.(type) {
				case *ast.CallExpr:
					fn := calleeOf(info, x)
					switch {
					case funcIs(fn, pSpecutil, "", "VarAttr"), funcIs(fn, pHCL, "", "RawAttr"):
						if len(x.Args) == 2 {
							text, pos = x.Args[1], x.Pos()
						}
					case funcIs(fn, pHCL, "", "RefValue"):
						if len(x.Args) == 1 {
							text, pos = x.Args[0], x.Pos()
						}
					}
				case *ast.CompositeLit:
					t := derefType(info.TypeOf(x))
					if typeIs(t, pHCL, "Ref") || typeIs(t, pHCL, "RawExpr") {
						for _, el := range x.Elts {
							if kv, ok := el.(*ast.KeyValueExpr); ok {
								if id, ok := kv.Key.(*ast.Ident); ok && (id.Name == "V" || id.Name == "X") {
									text, pos = kv.Value, x.Pos()
								}
							}
						}
					}
				}
				if text == nil {
					return true
				}
				n++
				ord++
				c.funcs[fi.Name] = true
				q := goQuoted(text)
				c.Check(rule, fmt.Sprintf("%s|expression text %d is not a Go-quoted schema string", fi.Name, ord), pos, q == "", "%s writes %s into the document as expression text: a value containing ${ or %%{ (an index predicate `b <> '${x}'`) is read back as a template interpolation or fails to parse, so the HCL does not evaluate to the schema it was written from", fi.Name, q)
				return true
			})
		})
	}
	// the document writer itself: in the schemahcl functions statically reachable from State.writeAttr (type
	// expressions such as enum("a","b") are printed as text there) no Go-quoted run-time string is produced
	if root := c.LookupFunc(pHCL, "State", "writeAttr"); root != nil && root.Decl.Body != nil {
		seen := map[*types.Func]bool{root.Obj: true}
		work := []*FuncInfo{root}
		for len(work) > 0 {
			fi := work[0]
			work = work[1:]
			info := fi.Info()
			q := ""
			var qpos token.Pos
			for _, call := range callsIn(fi.Decl.Body, true) {
				fn := calleeOf(info, call)
				if fn == nil {
					continue
				}
				if funcIs(fn, "strconv", "", "Quote") && len(call.Args) == 1 {
					if _, isConst := stringConst(info, call.Args[0]); !isConst && q == "" {
						q, qpos = types.ExprString(call), call.Pos()
					}
				}
				if fn.Pkg() != nil && fn.Pkg().Path() == pHCL && !seen[fn] {
					seen[fn] = true
					if hf := c.FuncInfoOf(fn); hf != nil && hf.Decl.Body != nil {
						work = append(work, hf)
					}
				}
			}
			n++
			c.funcs[fi.Name] = true
			c.Check(rule, fi.Name+"|document text is not a Go-quoted run-time string", nodePosOr(qpos, fi.Decl.Pos()), q == "", "%s, reached from the attribute writer, prints %s into the document: Go quoting leaves ${ and %%{ alone, so a string of the schema that contains them (an enum value) is read back as a template and the type does not evaluate to what was written", fi.Name, q)
		}
	} else {
		c.Unresolved(rule, "schemahcl.(State).writeAttr")
	}
	if n < 10 {
		c.Unresolved(rule, "raw-expression / reference attribute constructions in the spec writers (fewer than 10)")
	}
}

// R07l: the dialect scanner reads only native files.
const ruleTextNativeOnly = "reader/format agreement: migrate.FileStmtDecls hands the file's bytes to the driver's statement scanner (StmtScanner.ScanStmts) only where the file was established to be a *LocalFile, the native format; the files of the other formats (goose, dbmate, flyway, liquibase, golang-migrate wrappers) carry their down section and their directives in the same bytes and must be split by their own StmtDecls — scanned raw, the reverse statements are returned (and executed) after the planned ones"

func checkNativeOnly(c *Ctx, rule string) {
	fi := c.LookupFunc(pMigrate, "", "FileStmtDecls")
	if fi == nil || fi.Decl.Body == nil {
		c.Unresolved(rule, "migrate.FileStmtDecls")
		return
	}
	info := fi.Info()
	pm := parentMap(fi.Decl)
	f := newFlow(info, fi.Decl.Body)
	isLocalAssert := func(e ast.Expr) bool {
		ta, ok := ast.Unparen(e).(*ast.TypeAssertExpr)
		return ok && ta.Type != nil && typeIs(derefType(info.TypeOf(ta.Type)), pMigrate, "LocalFile")
	}
	// found-flags of f.(*LocalFile)
	flags := map[types.Object]bool{}
	ast.Inspect(fi.Decl.Body, func(m ast.Node) bool {
		if as, ok := m.(*ast.AssignStmt); ok && len(as.Lhs) == 2 && len(as.Rhs) == 1 && isLocalAssert(as.Rhs[0]) {
			if id, ok := as.Lhs[1].(*ast.Ident); ok {
				flags[info.ObjectOf(id)] = true
			}
		}
		return true
	})
	n := 0
	ast.Inspect(fi.Decl.Body, func(m ast.Node) bool {
		call, ok := m.(*ast.CallExpr)
		if !ok {
			return true
		}
		fn := calleeOf(info, call)
		if fn == nil || fn.Name() != "ScanStmts" {
			return true
		}
		n++
		c.funcs[fi.Name] = true
		good := false
		// inside a type-switch case for *LocalFile
		if cc, ok := enclosing(pm, call, func(nd ast.Node) bool { _, ok := nd.(*ast.CaseClause); return ok }).(*ast.CaseClause); ok {
			if _, isTS := pm[pm[cc]].(*ast.TypeSwitchStmt); isTS && len(cc.List) == 1 && typeIs(derefType(info.TypeOf(cc.List[0])), pMigrate, "LocalFile") {
				good = true
			}
		}
		if !good {
			good = f.allPathsImply(call, func(e ast.Expr, val bool) bool {
				id, ok := ast.Unparen(e).(*ast.Ident)
				return ok && val && flags[info.ObjectOf(id)]
			})
		}
		c.Check(rule, "migrate.FileStmtDecls|the driver scanner reads only *LocalFile", call.Pos(), good, "FileStmtDecls passes the raw bytes of any file to the driver's ScanStmts: a goose/dbmate/flyway file is no longer split by its own reader, so the statements of its down section follow the planned ones in what FileStmts returns and `migrate apply` executes them")
		return true
	})
	if n < 1 {
		c.Unresolved(rule, "the call of StmtScanner.ScanStmts in migrate.FileStmtDecls")
	}
}

// R06k: a validation helper succeeds only when the validation did.
const ruleTextValidateStrict = "a missing or wrong sum is never waved through: in the cmdapi functions that assign the result of migrate.Validate to an error variable, every `return nil` stands where that variable is known to be nil (every path to it takes a branch implying err == nil); the tolerant consumers are enumerated with their reason (`migrate import` reads a foreign directory that has no sum yet). checkDir is the PreRunE of new/diff/hash/set/status/validate: a branch that accepts ErrChecksumNotFound lets a directory whose atlas.sum was deleted after tampering be re-hashed as if it were intact"

var validateTolerant = map[string]string{
	"cmdapi.migrateImportCmd": "imports a directory written by another tool: it has no atlas.sum yet (ErrChecksumNotFound accepted, any other error returned)",
}

func checkValidateStrict(c *Ctx, rule string) {
	n := 0
	c.AllFuncs(true, func(fi *FuncInfo) {
		if fi.Pkg.PkgPath != pCmdapi {
			return
		}
		info := fi.Info()
		// bodies: the declaration and each function literal separately
		var bodies []*ast.BlockStmt
		bodies = append(bodies, fi.Decl.Body)
		ast.Inspect(fi.Decl.Body, func(m ast.Node) bool {
			if fl, ok := m.(*ast.FuncLit); ok {
				bodies = append(bodies, fl.Body)
			}
			return true
		})
		for _, body := range bodies {
			var errVar types.Object
			var assigned token.Pos
			walkShallow(body, func(m ast.Node) bool {
				as, ok := m.(*ast.AssignStmt)
				if !ok || len(as.Lhs) != 1 || len(as.Rhs) != 1 {
					return true
				}
				call, ok := ast.Unparen(as.Rhs[0]).(*ast.CallExpr)
				if !ok || !funcIs(calleeOf(info, call), pMigrate, "", "Validate") {
					return true
				}
				if id, ok := as.Lhs[0].(*ast.Ident); ok {
					errVar, assigned = info.ObjectOf(id), as.End()
				}
				return true
			})
			if errVar == nil {
				continue
			}
			n++
			c.funcs[fi.Name] = true
			tolerantAs := fi.Name
			if _, ok := validateTolerant[tolerantAs]; !ok {
				// a function referenced from one listed consumer only (its PreRunE moved into a constructor) inherits the entry
				refs := map[string]bool{}
				c.AllFuncs(true, func(g *FuncInfo) {
					if g.Pkg != fi.Pkg || g.Decl.Body == nil || g.Decl == fi.Decl {
						return
					}
					ast.Inspect(g.Decl.Body, func(k ast.Node) bool {
						if id, ok := k.(*ast.Ident); ok && g.Info().Uses[id] == types.Object(fi.Obj) {
							refs[g.Name] = true
						}
						return true
					})
				})
				if len(refs) == 1 {
					for r := range refs {
						tolerantAs = r
					}
				}
			}
			if why, ok := validateTolerant[tolerantAs]; ok {
				c.Check(rule, tolerantAs+"|listed tolerant consumer", body.Pos(), true, "%s", why)
				continue
			}
			f := newFlow(info, body)
			var bad ast.Node
			walkShallow(body, func(m ast.Node) bool {
				ret, ok := m.(*ast.ReturnStmt)
				if !ok || len(ret.Results) == 0 || bad != nil {
					return true
				}
				last := ast.Unparen(ret.Results[len(ret.Results)-1])
				if id, ok := last.(*ast.Ident); !ok || id.Name != "nil" {
					return true
				}
				// only returns after the validation
				if ret.Pos() < assigned {
					return true
				}
				if !f.allPathsImply(ret, func(e ast.Expr, val bool) bool {
					// only tests made after the validation result was stored
					if e.Pos() < assigned {
						return false
					}
					be, ok := ast.Unparen(e).(*ast.BinaryExpr)
					if !ok {
						return false
					}
					x, y := ast.Unparen(be.X), ast.Unparen(be.Y)
					if id, ok := y.(*ast.Ident); !ok || id.Name != "nil" {
						return false
					}
					id, ok := x.(*ast.Ident)
					if !ok || info.ObjectOf(id) != errVar {
						return false
					}
					return be.Op == token.EQL && val || be.Op == token.NEQ && !val
				}) {
					bad = ret
				}
				return true
			})
			c.Check(rule, fi.Name+"|success only after a successful validation", nodePos(bad, body.Pos()), bad == nil, "%s returns nil at %s although migrate.Validate may have returned an error on that path: the command goes on (and re-hashes) a directory whose sum file is missing or does not match", fi.Name, c.nodeAtOrEnd(bad))
		}
	})
	if n < 2 {
		c.Unresolved(rule, "cmdapi functions that keep the result of migrate.Validate in a variable (fewer than 2)")
	}
}

// R10i: a failed read of the history is not "no such revision".
const ruleTextNotFoundOnly = "the history storage distinguishes absence from failure: in the EntRevisions readers (ReadRevision, CurrentRevision) migrate.ErrRevisionNotExist is returned only where ent.IsNotFound(err) was tested and true; every other error of the query is returned as it is. Executor.Execute treats ErrRevisionNotExist as `this file was never started`: if a transient failure (a locked SQLite database, a dropped connection) is reported that way, the partially applied file is restarted from its first statement and its partial revision is overwritten"

func checkNotFoundOnly(c *Ctx, rule string) {
	n := 0
	c.AllFuncs(true, func(fi *FuncInfo) {
		// the EntRevisions readers and the package-local helpers they share
		if fi.Pkg.PkgPath != pCmdmig || fi.Decl.Body == nil {
			return
		}
		info := fi.Info()
		f := newFlow(info, fi.Decl.Body)
		walkShallow(fi.Decl.Body, func(m ast.Node) bool {
			ret, ok := m.(*ast.ReturnStmt)
			if !ok || len(ret.Results) == 0 {
				return true
			}
			se, ok := ast.Unparen(ret.Results[len(ret.Results)-1]).(*ast.SelectorExpr)
			if !ok || se.Sel.Name != "ErrRevisionNotExist" {
				return true
			}
			n++
			c.funcs[fi.Name] = true
			good := f.allPathsImply(ret, func(e ast.Expr, val bool) bool {
				call, ok := ast.Unparen(e).(*ast.CallExpr)
				if !ok || !val {
					return false
				}
				fn := calleeOf(info, call)
				return fn != nil && fn.Name() == "IsNotFound"
			})
			c.Check(rule, fi.Name+"|ErrRevisionNotExist only for a not-found result", ret.Pos(), good, "%s reports migrate.ErrRevisionNotExist on a path where the query error was not established to be a not-found error: a transient read failure makes the executor believe the file was never started, and the statements already applied are executed again", fi.Name)
			return true
		})
	})
	if n < 1 {
		c.Unresolved(rule, "returns of migrate.ErrRevisionNotExist in the EntRevisions readers")
	}
}

// R11l: one look-up decides whether a file is a checkpoint and which tag it has.
const ruleTextCheckpointLookup = "sibling agreement of the checkpoint readers: in sql/migrate every use of the directive name constant directiveCheckpoint is an argument of the writer (AddDirective) or of the one reader (LocalFile.Directive, which searches all header comments); isCheckpoint and checkpointTag therefore agree on every file. A reader that goes to the lower-level matcher itself (first comment only, another prefix) calls a file a regular migration that its sibling, WriteCheckpoint and the sum treat as a checkpoint: a first run replays the files the checkpoint already contains"

func checkCheckpointLookup(c *Ctx, rule string) {
	readers, writers := 0, 0
	c.AllFuncs(false, func(fi *FuncInfo) {
		if fi.Pkg.PkgPath != pMigrate || fi.Decl.Body == nil {
			return
		}
		info := fi.Info()
		pm := parentMap(fi.Decl)
		ord := 0
		ast.Inspect(fi.Decl.Body, func(m ast.Node) bool {
			id, ok := m.(*ast.Ident)
			if !ok {
				return true
			}
			cst, ok := info.Uses[id].(*types.Const)
			if !ok || cst.Name() != "directiveCheckpoint" || cst.Pkg() == nil || cst.Pkg().Path() != pMigrate {
				return true
			}
			ord++
			c.funcs[fi.Name] = true
			call, _ := enclosing(pm, id, func(nd ast.Node) bool { _, ok := nd.(*ast.CallExpr); return ok }).(*ast.CallExpr)
			good, what := false, "outside a call"
			if call != nil {
				fn := calleeOf(info, call)
				what = "passed to " + types.ExprString(call.Fun)
				switch {
				case fn != nil && fn.Name() == "AddDirective":
					good = true
					writers++
				case fn != nil && fn.Name() == "Directive" && recvTypeName(fn) != "":
					good = true
					readers++
				}
			}
			c.Check(rule, fmt.Sprintf("%s|use %d of directiveCheckpoint goes through the shared reader or writer", fi.Name, ord), id.Pos(), good, "%s consults the checkpoint directive on its own (%s) instead of through LocalFile.Directive: it can disagree with its siblings (isCheckpoint / checkpointTag / WriteCheckpoint) about which files are checkpoints, and the pending-file computation of a first run starts at the wrong file", fi.Name, what)
			return true
		})
	})
	if readers < 1 || writers < 1 {
		c.Unresolved(rule, fmt.Sprintf("readers (%d) and writers (%d) of directiveCheckpoint in sql/migrate", readers, writers))
	}
}

// R11m: the project file's exec_order vocabulary maps onto the flag's vocabulary one to one.
const ruleTextExecOrderVocab = "vocabulary agreement for the execution order: the enum values declared for env.migration.exec_order (schemahcl.WithScopedEnums), pushed through the expression setMigrateEnvFlags hands to maySetFlag(cmd, flagExecOrder, …) — the lower-case/underscore transformation, a constant table or a switch helper, evaluated here on each enum constant — give pairwise different values, each of them either the flag's default (execOrderLinear) or a case of the switch in migrateApplyFlags.migrateOptions, and every case of that switch is the image of some enum value. A table entry that sends NON_LINEAR to linear-skip makes the project file select another order than the flag of the same name: an out-of-order file is skipped forever instead of being run first"

func checkExecOrderVocab(c *Ctx, rule string) {
	// 1. enum constants
	var enums []string
	c.AllFuncs(false, func(fi *FuncInfo) {
		if fi.Pkg.PkgPath != pCmdapi || fi.Decl.Body == nil {
			return
		}
		info := fi.Info()
		ast.Inspect(fi.Decl.Body, func(m ast.Node) bool {
			call, ok := m.(*ast.CallExpr)
			if !ok || !funcIs(calleeOf(info, call), pHCL, "", "WithScopedEnums") || len(call.Args) < 2 {
				return true
			}
			if k, ok := stringConst(info, call.Args[0]); !ok || k != "env.migration.exec_order" {
				return true
			}
			for _, a := range call.Args[1:] {
				if v, ok := stringConst(info, a); ok {
					enums = append(enums, v)
				}
			}
			return true
		})
	})
	// 2. flag values handled
	handled := map[string]bool{}
	if mo := c.LookupFunc(pCmdapi, "migrateApplyFlags", "migrateOptions"); mo != nil {
		info := mo.Info()
		ast.Inspect(mo.Decl.Body, func(m ast.Node) bool {
			sw, ok := m.(*ast.SwitchStmt)
			if !ok || sw.Tag == nil {
				return true
			}
			for _, cl := range sw.Body.List {
				for _, e := range cl.(*ast.CaseClause).List {
					if v, ok := stringConst(info, e); ok && strings.Contains(strings.ToLower(types.ExprString(e)), "order") {
						handled[v] = true
					}
				}
			}
			return true
		})
	}
	fi := c.LookupFunc(pCmdapi, "", "setMigrateEnvFlags")
	if len(enums) < 2 || len(handled) < 1 || fi == nil {
		c.Unresolved(rule, fmt.Sprintf("exec_order vocabulary: enums=%v flag cases=%v setMigrateEnvFlags=%v", enums, keys(handled), fi != nil))
		return
	}
	info := fi.Info()
	var arg ast.Expr
	ast.Inspect(fi.Decl.Body, func(m ast.Node) bool {
		call, ok := m.(*ast.CallExpr)
		if !ok || len(call.Args) != 3 {
			return true
		}
		if fn := calleeOf(info, call); fn == nil || fn.Name() != "maySetFlag" {
			return true
		}
		if id, ok := ast.Unparen(call.Args[1]).(*ast.Ident); ok && id.Name == "flagExecOrder" {
			arg = call.Args[2]
		}
		return true
	})
	if arg == nil {
		// table-driven form: a {flagExecOrder, value} pair (or a keyed entry) in a literal the flags are set from
		ast.Inspect(fi.Decl.Body, func(m ast.Node) bool {
			cl, ok := m.(*ast.CompositeLit)
			if !ok || len(cl.Elts) != 2 {
				return true
			}
			first := cl.Elts[0]
			if kv, ok := first.(*ast.KeyValueExpr); ok {
				first = kv.Value
			}
			if id, ok := ast.Unparen(first).(*ast.Ident); ok && id.Name == "flagExecOrder" {
				second := cl.Elts[1]
				if kv, ok := second.(*ast.KeyValueExpr); ok {
					second = kv.Value
				}
				arg = second
			}
			return true
		})
		if arg == nil {
			ast.Inspect(fi.Decl.Body, func(m ast.Node) bool {
				if kv, ok := m.(*ast.KeyValueExpr); ok {
					if id, ok := ast.Unparen(kv.Key).(*ast.Ident); ok && id.Name == "flagExecOrder" {
						arg = kv.Value
					}
				}
				return true
			})
		}
	}
	if arg == nil {
		c.Unresolved(rule, "maySetFlag(cmd, flagExecOrder, …) in setMigrateEnvFlags")
		return
	}
	// 3. evaluate the expression on each enum value
	var eval func(pinfo *types.Info, e ast.Expr, in string, params map[types.Object]string) (string, bool)
	eval = func(pinfo *types.Info, e ast.Expr, in string, params map[types.Object]string) (string, bool) {
		e = ast.Unparen(e)
		if v, ok := stringConst(pinfo, e); ok {
			return v, true
		}
		switch x := e.(type) {
		case *ast.Ident:
			if v, ok := params[pinfo.ObjectOf(x)]; ok {
				return v, true
			}
		case *ast.SelectorExpr:
			if x.Sel.Name == "ExecOrder" {
				return in, true
			}
		case *ast.IndexExpr:
			k, ok := eval(pinfo, x.Index, in, params)
			if !ok {
				return "", false
			}
			id, ok := ast.Unparen(x.X).(*ast.Ident)
			if !ok {
				return "", false
			}
			lit := c.pkgVarLiteral(pinfo.ObjectOf(id))
			if lit == nil {
				return "", false
			}
			linfo := c.infoOf(pinfo.ObjectOf(id))
			for _, el := range lit.Elts {
				kv, ok := el.(*ast.KeyValueExpr)
				if !ok {
					continue
				}
				if kk, ok := stringConst(linfo, kv.Key); ok && kk == k {
					return eval(linfo, kv.Value, in, nil)
				}
			}
			return "", true // missing key: zero value
		case *ast.CallExpr:
			fn := calleeOf(pinfo, x)
			if fn == nil {
				return "", false
			}
			if fn.Pkg() != nil && fn.Pkg().Path() == "strings" {
				var as []string
				for _, a := range x.Args {
					v, ok := eval(pinfo, a, in, params)
					if !ok {
						return "", false
					}
					as = append(as, v)
				}
				switch {
				case fn.Name() == "ToLower" && len(as) == 1:
					return strings.ToLower(as[0]), true
				case fn.Name() == "ToUpper" && len(as) == 1:
					return strings.ToUpper(as[0]), true
				case fn.Name() == "ReplaceAll" && len(as) == 3:
					return strings.ReplaceAll(as[0], as[1], as[2]), true
				case fn.Name() == "TrimSpace" && len(as) == 1:
					return strings.TrimSpace(as[0]), true
				}
				return "", false
			}
			// a package-local helper: one string parameter, body is a switch over it returning constants (or an expression)
			hf := c.funcOf(fn)
			if hf == nil || hf.Decl.Body == nil || len(x.Args) != 1 || hf.Decl.Type.Params.NumFields() != 1 {
				return "", false
			}
			av, ok := eval(pinfo, x.Args[0], in, params)
			if !ok {
				return "", false
			}
			hinfo := hf.Info()
			pobj := hinfo.ObjectOf(hf.Decl.Type.Params.List[0].Names[0])
			hp := map[types.Object]string{pobj: av}
			for _, st := range hf.Decl.Body.List {
				switch s := st.(type) {
				case *ast.ReturnStmt:
					if len(s.Results) == 1 {
						return eval(hinfo, s.Results[0], in, hp)
					}
				case *ast.SwitchStmt:
					if s.Tag == nil {
						return "", false
					}
					tv, ok := eval(hinfo, s.Tag, in, hp)
					if !ok {
						return "", false
					}
					var deflt *ast.CaseClause
					for _, cl := range s.Body.List {
						cc := cl.(*ast.CaseClause)
						if cc.List == nil {
							deflt = cc
							continue
						}
						for _, ce := range cc.List {
							if cv, ok := stringConst(hinfo, ce); ok && cv == tv {
								if len(cc.Body) == 1 {
									if r, ok := cc.Body[0].(*ast.ReturnStmt); ok && len(r.Results) == 1 {
										return eval(hinfo, r.Results[0], in, hp)
									}
								}
								return "", false
							}
						}
					}
					if deflt != nil && len(deflt.Body) == 1 {
						if r, ok := deflt.Body[0].(*ast.ReturnStmt); ok && len(r.Results) == 1 {
							return eval(hinfo, r.Results[0], in, hp)
						}
					}
				}
			}
			return "", false
		}
		return "", false
	}
	c.funcs[fi.Name] = true
	images := map[string]string{}
	deflt := ""
	if dc, ok := c.Pkg(pCmdapi).Types.Scope().Lookup("execOrderLinear").(*types.Const); ok {
		deflt = constant.StringVal(dc.Val())
	}
	for _, e := range enums {
		v, ok := eval(info, arg, e, nil)
		if !ok {
			c.Unresolved(rule, "the expression handed to maySetFlag(cmd, flagExecOrder, …): "+types.ExprString(arg)+" (not evaluable on "+e+")")
			return
		}
		prev, dup := images[v]
		c.Check(rule, "cmdapi.setMigrateEnvFlags|exec_order "+e+" selects a flag value of its own that the option switch knows", arg.Pos(), !dup && (handled[v] || v == deflt), "the project-file value exec_order = %s is turned into --exec-order %q (already the image of %q: %v; handled by migrateOptions: %v): the configuration selects another execution order than the flag of the same name, so out-of-order files are rejected, skipped or run first contrary to what was selected", e, v, prev, dup, handled[v] || v == deflt)
		if !dup {
			images[v] = e
		}
	}
	for h := range handled {
		_, ok := images[h]
		c.Check(rule, "cmdapi.setMigrateEnvFlags|flag value "+h+" is selectable from the project file", arg.Pos(), ok, "no exec_order enum value maps to the flag value %q", h)
	}
}

func (c *Ctx) funcOf(fn *types.Func) *FuncInfo { return c.FuncInfoOf(fn) }

// pkgVarLiteral returns the composite literal a package-level variable is initialised with.
func (c *Ctx) pkgVarLiteral(obj types.Object) *ast.CompositeLit {
	if obj == nil || obj.Pkg() == nil {
		return nil
	}
	p := c.byPath[obj.Pkg().Path()]
	if p == nil {
		return nil
	}
	for _, f := range p.Syntax {
		for _, d := range f.Decls {
			gd, ok := d.(*ast.GenDecl)
			if !ok {
				continue
			}
			for _, sp := range gd.Specs {
				vs, ok := sp.(*ast.ValueSpec)
				if !ok {
					continue
				}
				for i, nm := range vs.Names {
					if p.TypesInfo.Defs[nm] == obj && i < len(vs.Values) {
						if cl, ok := ast.Unparen(vs.Values[i]).(*ast.CompositeLit); ok {
							return cl
						}
					}
				}
			}
		}
	}
	return nil
}

func (c *Ctx) infoOf(obj types.Object) *types.Info {
	if obj == nil || obj.Pkg() == nil || c.byPath[obj.Pkg().Path()] == nil {
		return nil
	}
	return c.byPath[obj.Pkg().Path()].TypesInfo
}

// R13i: the header reader and the scanner agree on what starts a comment line.
const ruleTextCommentOpeners = "comment-opener agreement: every line-comment opener the statement scanner skips (the first argument of Scanner.comment(o, \"\\n\") in Scanner.stmt: `#`, `--`) is recognised by LocalFile.comments as the start of a header comment line with exactly that constant (strings.HasPrefix(content, o), directly or over a table of prefixes). File directives (atlas:txmode, atlas:checkpoint, atlas:delimiter …) live in those lines: a reader that wants `-- ` where the scanner accepts `--` drops the whole header of a file that has one `--` separator line, so its txmode directive is ignored and the file runs (and rolls back, or not) in the global transaction mode"

func checkCommentOpeners(c *Ctx, rule string) {
	st := c.LookupFunc(pMigrate, "Scanner", "stmt")
	cm := c.LookupFunc(pMigrate, "LocalFile", "comments")
	if st == nil || cm == nil || st.Decl.Body == nil || cm.Decl.Body == nil {
		c.Unresolved(rule, "migrate.(Scanner).stmt / migrate.(LocalFile).comments")
		return
	}
	sinfo, cinfo := st.Info(), cm.Info()
	var openers []string
	ast.Inspect(st.Decl.Body, func(m ast.Node) bool {
		call, ok := m.(*ast.CallExpr)
		if !ok || len(call.Args) != 2 {
			return true
		}
		if fn := calleeOf(sinfo, call); fn == nil || fn.Name() != "comment" {
			return true
		}
		o, ok1 := stringConst(sinfo, call.Args[0])
		e, ok2 := stringConst(sinfo, call.Args[1])
		if ok1 && ok2 && e == "\n" {
			openers = append(openers, o)
		}
		return true
	})
	// constants the header reader tests as prefixes: HasPrefix second arguments and elements of string tables in the function
	known := map[string]bool{}
	var collect func(body ast.Node, depth int)
	collect = func(body ast.Node, depth int) {
		ast.Inspect(body, func(m ast.Node) bool {
			switch x := m.(type) {
			case *ast.CallExpr:
				fn := calleeOf(cinfo, x)
				if funcIs(fn, "strings", "", "HasPrefix") && len(x.Args) == 2 {
					if v, ok := stringConst(cinfo, x.Args[1]); ok {
						known[v] = true
					}
				}
				// a package-local predicate the reader delegates the test to
				if depth < 2 && fn != nil && fn.Pkg() != nil && fn.Pkg().Path() == pMigrate {
					if hf := c.FuncInfoOf(fn); hf != nil && hf.Decl.Body != nil && hf.Decl != cm.Decl {
						collect(hf.Decl.Body, depth+1)
					}
				}
			case *ast.CompositeLit:
				for _, el := range x.Elts {
					if v, ok := stringConst(cinfo, el); ok {
						known[v] = true
					}
				}
			}
			return true
		})
	}
	collect(cm.Decl.Body, 0)
	c.funcs[cm.Name] = true
	for _, o := range openers {
		c.Check(rule, "migrate.(LocalFile).comments|recognises the scanner's line-comment opener "+o, cm.Decl.Pos(), known[o], "the statement scanner skips lines that start with %q as comments but LocalFile.comments tests only the prefixes %v: a header that contains such a line is not read as the file's comment block, its directives (atlas:txmode, atlas:checkpoint) are ignored and the file is executed under the global transaction mode", o, keys(known))
	}
	if len(openers) < 2 {
		c.Unresolved(rule, "line-comment openers of Scanner.stmt (fewer than 2)")
	}
}

// R14m: executors without a history only replay.
const ruleTextReplayOnly = "the dev database is only ever replayed: an Executor constructed with migrate.NopRevisionReadWriter (no revision history — the executors of migrate validate, of the directory state reader and of the planner's checkpoint) is used through Replay alone; Replay is the only entry point that takes the snapshot and defers the restore, so ExecuteN/Execute/ExecuteTo on such an executor runs the directory on the dev database and leaves every table it created behind"

func checkReplayOnly(c *Ctx, rule string) {
	n := 0
	c.AllFuncs(false, func(fi *FuncInfo) {
		if fi.Decl.Body == nil {
			return
		}
		info := fi.Info()
		ast.Inspect(fi.Decl.Body, func(m ast.Node) bool {
			as, ok := m.(*ast.AssignStmt)
			if !ok || len(as.Rhs) != 1 || len(as.Lhs) < 1 {
				return true
			}
			call, ok := ast.Unparen(as.Rhs[0]).(*ast.CallExpr)
			if !ok || !funcIs(calleeOf(info, call), pMigrate, "", "NewExecutor") || len(call.Args) < 3 {
				return true
			}
			if !typeIs(derefType(info.TypeOf(call.Args[2])), pMigrate, "NopRevisionReadWriter") {
				return true
			}
			id, ok := as.Lhs[0].(*ast.Ident)
			if !ok {
				return true
			}
			ex := info.ObjectOf(id)
			n++
			c.funcs[fi.Name] = true
			bad := ""
			pos := as.Pos()
			ast.Inspect(fi.Decl.Body, func(k ast.Node) bool {
				switch x := k.(type) {
				case *ast.SelectorExpr:
					if rid, ok := ast.Unparen(x.X).(*ast.Ident); ok && info.ObjectOf(rid) == ex && x.Sel.Name != "Replay" {
						if _, isFn := info.ObjectOf(x.Sel).(*types.Func); isFn && bad == "" {
							bad, pos = x.Sel.Name, x.Pos()
						}
					}
				}
				return true
			})
			c.Check(rule, fi.Name+"|the executor without history is used through Replay only", pos, bad == "", "%s calls %s on an executor built with NopRevisionReadWriter (a replay on the dev database): only Replay takes the snapshot and restores it, so the objects the migration files create stay in the dev database", fi.Name, bad)
			return true
		})
	})
	if n < 3 {
		c.Unresolved(rule, "executors constructed with migrate.NopRevisionReadWriter (fewer than 3)")
	}
}

// R14n: the PostgreSQL restore drops with CASCADE.
const ruleTextRestoreCascade = "the PostgreSQL restore functions (the closures built by SchemaRestoreFunc / RealmRestoreFunc) hand a computed diff to ApplyChanges only through withCascade: the community inspection does not see every dependent object (a view over a table created by the replay), a plain DROP TABLE is rejected by the server for such a table and the restore aborts with the dev database still full"

func checkRestoreCascade(c *Ctx, rule string) {
	n := 0
	// the restore constructors and the package-local functions their closures delegate to
	var runits []*FuncInfo
	seenU := map[*ast.FuncDecl]bool{}
	for _, name := range []string{"SchemaRestoreFunc", "RealmRestoreFunc"} {
		fi := c.LookupFunc(pPostgres, "Driver", name)
		if fi == nil || fi.Decl.Body == nil {
			continue
		}
		if !seenU[fi.Decl] {
			seenU[fi.Decl] = true
			runits = append(runits, fi)
		}
		for _, call := range callsIn(fi.Decl.Body, true) {
			fn := calleeOf(fi.Info(), call)
			if fn == nil || fn.Pkg() == nil || fn.Pkg().Path() != pPostgres || fn.Name() == "withCascade" || fn.Name() == "ApplyChanges" {
				continue
			}
			if hf := c.FuncInfoOf(fn); hf != nil && hf.Decl.Body != nil && !seenU[hf.Decl] {
				seenU[hf.Decl] = true
				runits = append(runits, hf)
			}
		}
	}
	for _, fi := range runits {
		info := fi.Info()
		ord := 0
		ast.Inspect(fi.Decl.Body, func(m ast.Node) bool {
			call, ok := m.(*ast.CallExpr)
			if !ok || len(call.Args) != 2 {
				return true
			}
			if fn := calleeOf(info, call); fn == nil || fn.Name() != "ApplyChanges" {
				return true
			}
			arg := ast.Unparen(call.Args[1])
			if _, isLit := arg.(*ast.CompositeLit); isLit {
				return true // a fixed list written out in the function (re-creating the public schema)
			}
			n++
			ord++
			c.funcs[fi.Name] = true
			good := false
			if inner, ok := arg.(*ast.CallExpr); ok {
				if fn := calleeOf(info, inner); fn != nil && fn.Name() == "withCascade" {
					good = true
				}
			}
			if id, ok := arg.(*ast.Ident); ok && !good {
				// a variable whose every assignment in the function is a withCascade call
				obj := info.ObjectOf(id)
				defs, casc := 0, 0
				ast.Inspect(fi.Decl.Body, func(k ast.Node) bool {
					if as, ok := k.(*ast.AssignStmt); ok {
						for i, l := range as.Lhs {
							if lid, ok := l.(*ast.Ident); ok && info.ObjectOf(lid) == obj {
								defs++
								if len(as.Rhs) == len(as.Lhs) {
									if ic, ok := ast.Unparen(as.Rhs[i]).(*ast.CallExpr); ok {
										if fn := calleeOf(info, ic); fn != nil && fn.Name() == "withCascade" {
											casc++
										}
									}
								}
							}
						}
					}
					return true
				})
				good = defs > 0 && defs == casc
			}
			c.Check(rule, fmt.Sprintf("%s|restore %d applies its diff with CASCADE", fi.Name, ord), call.Pos(), good, "%s applies the restore diff (%s) without withCascade: DROP TABLE of a table that an object outside the inspected set depends on (a view) is rejected, the restore fails and the dev database is handed back with the replayed tables in it", fi.Name, types.ExprString(arg))
			return true
		})
	}
	if n < 3 {
		c.Unresolved(rule, "ApplyChanges calls of the PostgreSQL restore functions (fewer than 3)")
	}
}

// R15q: a foreign key's reference columns are rewritten from its reference columns.
const ruleTextFKSides = "side agreement for foreign keys in the spec writers: an assignment that stores into X.Columns[i] or X.RefColumns[i] of one foreign key while reading the Columns / RefColumns of another foreign-key value reads the field of the same name (RefColumns from RefColumns, Columns from Columns). The two slices are index-aligned and of one type, so a slip compiles; QualifyReferences would write the child column's name into the qualified reference of the parent column, and the evaluated HCL points the key at another column or does not evaluate"

func checkFKSides(c *Ctx, rule string) {
	n := 0
	isFK := func(t types.Type) bool {
		t = derefType(t)
		return typeIs(t, pSchema, "ForeignKey") || typeIs(t, pSqlspec, "ForeignKey")
	}
	for _, pp := range []string{pSpecutil, pSqlite, pMysql, pPostgres} {
		c.AllFuncs(false, func(fi *FuncInfo) {
			if fi.Pkg.PkgPath != pp || fi.Decl.Body == nil {
				return
			}
			info := fi.Info()
			ord := 0
			side := func(e ast.Expr) (string, ast.Expr) {
				// X.Columns[...] / X.RefColumns[...] / X.Columns / X.RefColumns with X a foreign key
				e = ast.Unparen(e)
				if ix, ok := e.(*ast.IndexExpr); ok {
					e = ast.Unparen(ix.X)
				}
				se, ok := e.(*ast.SelectorExpr)
				if !ok || (se.Sel.Name != "Columns" && se.Sel.Name != "RefColumns") || !isFK(info.TypeOf(se.X)) {
					return "", nil
				}
				return se.Sel.Name, se.X
			}
			ast.Inspect(fi.Decl.Body, func(m ast.Node) bool {
				as, ok := m.(*ast.AssignStmt)
				if !ok || len(as.Lhs) != len(as.Rhs) {
					return true
				}
				for i, l := range as.Lhs {
					lf, lx := side(l)
					if lf == "" {
						continue
					}
					// the value, with single-definition locals replaced by what they were computed from (one level)
					rhsParts := []ast.Expr{as.Rhs[i]}
					ast.Inspect(as.Rhs[i], func(k ast.Node) bool {
						id, ok := k.(*ast.Ident)
						if !ok {
							return true
						}
						v, ok := info.Uses[id].(*types.Var)
						if !ok || v.IsField() {
							return true
						}
						var defs []ast.Expr
						ast.Inspect(fi.Decl.Body, func(q ast.Node) bool {
							if das, ok := q.(*ast.AssignStmt); ok && len(das.Lhs) == len(das.Rhs) {
								for di, dl := range das.Lhs {
									if did, ok := dl.(*ast.Ident); ok && info.ObjectOf(did) == types.Object(v) {
										defs = append(defs, das.Rhs[di])
									}
								}
							}
							return true
						})
						if len(defs) == 1 {
							rhsParts = append(rhsParts, defs[0])
						}
						return true
					})
					var other string
					for _, part := range rhsParts {
						ast.Inspect(part, func(k ast.Node) bool {
							e, ok := k.(ast.Expr)
							if !ok {
								return true
							}
							if rf, rx := side(e); rf != "" && types.ExprString(rx) != types.ExprString(lx) {
								if rf != lf {
									other = types.ExprString(e)
								}
								return false
							}
							return true
						})
					}
					reads := false
					for _, part := range rhsParts {
						ast.Inspect(part, func(k ast.Node) bool {
							if e, ok := k.(ast.Expr); ok {
								if rf, rx := side(e); rf != "" && types.ExprString(rx) != types.ExprString(lx) {
									reads = true
								}
							}
							return !reads
						})
					}
					if !reads {
						continue
					}
					n++
					ord++
					c.funcs[fi.Name] = true
					c.Check(rule, fmt.Sprintf("%s|store %d into %s reads the same side of the other key", fi.Name, ord, lf), as.Pos(), other == "", "%s stores into %s of a foreign key a value computed from %s of the other one: the reference is written with the name of a column of the wrong table, so the re-evaluated schema has the key pointing at a different column (or the document does not evaluate)", fi.Name, types.ExprString(l), other)
				}
				return true
			})
		})
	}
	if n < 1 {
		c.Unresolved(rule, "stores into Columns/RefColumns of a foreign key computed from another foreign key")
	}
}

// R15r: a type recognised as an array stays an array.
const ruleTextArrayKept = "recognition implies preservation for PostgreSQL arrays: every function of sql/postgres that recognises an array type by its name (a call of arrayType) keeps the array — it builds an ArrayType literal with its element, stores the resolved element into the Type field of an *ArrayType value, or hands the name on under the TypeArray tag (from which columnType builds the ArrayType); the HCL evaluator resolves `sql(\"state[]\")` against the enums of the document this way, and replacing the column's type by the enum itself turns an array column into a scalar one"

func checkArrayKept(c *Ctx, rule string) {
	n := 0
	c.AllFuncs(false, func(fi *FuncInfo) {
		if fi.Pkg.PkgPath != pPostgres || fi.Decl.Body == nil || fi.Decl.Name.Name == "arrayType" {
			return
		}
		info := fi.Info()
		recognises := false
		for _, call := range callsIn(fi.Decl.Body, true) {
			if funcIs(calleeOf(info, call), pPostgres, "", "arrayType") {
				recognises = true
			}
		}
		if !recognises {
			return
		}
		n++
		c.funcs[fi.Name] = true
		kept := false
		var keeps func(body ast.Node, binfo *types.Info, depth int)
		keeps = func(body ast.Node, binfo *types.Info, depth int) {
			ast.Inspect(body, func(m ast.Node) bool {
				switch x := m.(type) {
				case *ast.CompositeLit:
					if typeIs(derefType(binfo.TypeOf(x)), pPostgres, "ArrayType") {
						for _, el := range x.Elts {
							if kv, ok := el.(*ast.KeyValueExpr); ok {
								if id, ok := kv.Key.(*ast.Ident); ok && (id.Name == "Type" || id.Name == "T") {
									kept = true
								}
							}
						}
					}
				case *ast.AssignStmt:
					for _, l := range x.Lhs {
						if se, ok := ast.Unparen(l).(*ast.SelectorExpr); ok && se.Sel.Name == "Type" && typeIs(derefType(binfo.TypeOf(se.X)), pPostgres, "ArrayType") {
							kept = true
						}
					}
				case *ast.Ident:
					// the recognised name handed on under the array type tag (columnDesc{typ: TypeArray}): columnType builds the ArrayType from it
					if cst, ok := binfo.Uses[x].(*types.Const); ok && cst.Name() == "TypeArray" && cst.Pkg() != nil && cst.Pkg().Path() == pPostgres {
						kept = true
					}
				case *ast.CallExpr:
					// the recognised name handed to a package-local function that builds the array (ParseType → columnType)
					if depth > 0 {
						if fn := calleeOf(binfo, x); fn != nil && fn.Pkg() != nil && fn.Pkg().Path() == pPostgres && fn.Name() != "arrayType" {
							if hf := c.FuncInfoOf(fn); hf != nil && hf.Decl.Body != nil && hf.Decl != fi.Decl {
								keeps(hf.Decl.Body, hf.Info(), depth-1)
							}
						}
					}
				}
				return !kept
			})
		}
		keeps(fi.Decl.Body, info, 1)
		ast.Inspect(fi.Decl.Body, func(m ast.Node) bool {
			if kept {
				return false
			}
			switch x := m.(type) {
			case *ast.CompositeLit:
				if typeIs(derefType(info.TypeOf(x)), pPostgres, "ArrayType") {
					for _, el := range x.Elts {
						if kv, ok := el.(*ast.KeyValueExpr); ok {
							if id, ok := kv.Key.(*ast.Ident); ok && id.Name == "Type" {
								kept = true
							}
						}
					}
				}
			case *ast.AssignStmt:
				for _, l := range x.Lhs {
					if se, ok := ast.Unparen(l).(*ast.SelectorExpr); ok && se.Sel.Name == "Type" && typeIs(derefType(info.TypeOf(se.X)), pPostgres, "ArrayType") {
						kept = true
					}
				}
			}
			return true
		})
		c.Check(rule, fi.Name+"|a recognised array keeps its ArrayType", fi.Decl.Pos(), kept, "%s recognises an array type by name (arrayType) but never builds an ArrayType with its element nor stores the element into one: the column's type is replaced by the element type, an array-of-enum column evaluates to a scalar enum and the diff with the original reports a type change in both directions", fi.Name)
	})
	if n < 3 {
		c.Unresolved(rule, "functions of sql/postgres that call arrayType (fewer than 3)")
	}
}

// R12j: the statement hashes cover the statement text itself.
const ruleTextHashLiteralText = "what is hashed is what was executed: in Executor.Execute the bytes written into the running statement hash (the Write on the sha256 value inside the loop that fills the per-statement sums) are the conversion of the statement's Text and nothing else — no call normalises, trims or re-joins the text first. The sums are compared with Revision.PartialHashes to refuse a changed history: a normalised input makes every edit the normalisation hides (blanks inside a string literal of an applied INSERT) invisible, the run resumes and completes the revision"

func checkHashLiteralText(c *Ctx, rule string) {
	root := c.Func(rule, pMigrate, "Executor", "Execute")
	if root == nil {
		return
	}
	n := 0
	// Execute and the package-local functions it calls (two levels): the loop may live in a helper
	seen := map[*types.Func]bool{root.Obj: true}
	type item struct {
		f     *FuncInfo
		depth int
	}
	work := []item{{root, 0}}
	for len(work) > 0 {
		it := work[0]
		work = work[1:]
		fi := it.f
		info := fi.Info()
		if it.depth < 2 {
			for _, call := range callsIn(fi.Decl.Body, true) {
				if fn := calleeOf(info, call); fn != nil && fn.Pkg() != nil && fn.Pkg().Path() == pMigrate && !seen[fn] {
					seen[fn] = true
					if hf := c.FuncInfoOf(fn); hf != nil && hf.Decl.Body != nil {
						work = append(work, item{hf, it.depth + 1})
					}
				}
			}
		}
		ast.Inspect(fi.Decl.Body, func(m ast.Node) bool {
			loop, ok := m.(ast.Stmt)
			if !ok || loopBodyOf(loop) == nil {
				return true
			}
			for _, call := range callsIn(loopBodyOf(loop), false) {
				se, ok := call.Fun.(*ast.SelectorExpr)
				if !ok || !(se.Sel.Name == "Write" || se.Sel.Name == "WriteString") || len(call.Args) != 1 {
					continue
				}
				// receiver implements hash.Hash
				rt := info.TypeOf(se.X)
				if rt == nil || !strings.Contains(rt.String(), "hash.Hash") {
					continue
				}
				n++
				c.funcs[fi.Name] = true
				arg := ast.Unparen(call.Args[0])
				// accepted: []byte(X.Text) or X.Text of a *Stmt
				isText := func(e ast.Expr) bool {
					se, ok := ast.Unparen(e).(*ast.SelectorExpr)
					return ok && se.Sel.Name == "Text" && typeIs(derefType(info.TypeOf(se.X)), pMigrate, "Stmt")
				}
				good := false
				if conv, ok := arg.(*ast.CallExpr); ok && len(conv.Args) == 1 {
					if tv, ok := info.Types[conv.Fun]; ok && tv.IsType() && isText(conv.Args[0]) {
						good = true
					}
				}
				if isText(arg) {
					good = true
				}
				c.Check(rule, fmt.Sprintf("migrate.(Executor).Execute|hash input %d is the statement text", n), call.Pos(), good, "%s feeds %s into the statement hash instead of the bytes of the statement's text: an edit of an applied statement that the transformation hides is not seen as a changed history, so the file is resumed and its revision completed", fi.Name, types.ExprString(arg))
			}
			return true
		})
	}
	if n < 1 {
		c.Unresolved(rule, "the Write into the statement hash in Executor.Execute")
	}
}

// R09q: a pragma line the filter removes is a pragma line the state machine sees.
const ruleTextPragmaRecognised = "filter/recogniser agreement in the third-party readers (goose, dbmate StmtDecls): for every pragma word W of the reader's state switch, if the line filter (reGoosePragma / reDBMatePragma, evaluated here on constants) removes the line `<pragma>W` followed by blanks, the switch tag is normalised with strings.TrimSpace so that the same line is recognised as W. A line that is filtered but not recognised changes no state: `-- migrate:up ` with a trailing blank yields a file with no statements (recorded as applied although nothing ran), `-- migrate:down ` lets the down section be executed"

func checkPragmaRecognised(c *Ctx, rule string) {
	p := c.Pkg(pSqltool)
	n := 0
	for recv, reName := range map[string]string{"GooseFile": "reGoosePragma", "DBMateFile": "reDBMatePragma"} {
		fi := c.LookupFunc(pSqltool, recv, "StmtDecls")
		if fi == nil || fi.Decl.Body == nil {
			c.Unresolved(rule, "sqltool.("+recv+").StmtDecls")
			continue
		}
		// the filter pattern
		var src ast.Expr
		for _, file := range p.Syntax {
			ast.Inspect(file, func(m ast.Node) bool {
				if vs, ok := m.(*ast.ValueSpec); ok {
					for i, nm := range vs.Names {
						if nm.Name == reName && i < len(vs.Values) {
							if call, ok := vs.Values[i].(*ast.CallExpr); ok && len(call.Args) == 1 {
								src = call.Args[0]
							}
						}
					}
				}
				return true
			})
		}
		pattern, ok := "", false
		if src != nil {
			pattern, ok = evalString(p.TypesInfo, src)
		}
		if !ok {
			c.Unresolved(rule, "sqltool."+reName+": constant pattern")
			continue
		}
		re, err := regexp.Compile(pattern)
		if err != nil {
			c.Unresolved(rule, "sqltool."+reName+": "+err.Error())
			continue
		}
		// the reader and the package-local functions it calls (the line loop may live in a helper)
		runits := []*FuncInfo{fi}
		for _, call := range callsIn(fi.Decl.Body, true) {
			if fn := calleeOf(fi.Info(), call); fn != nil && fn.Pkg() != nil && fn.Pkg().Path() == pSqltool {
				if hf := c.FuncInfoOf(fn); hf != nil && hf.Decl.Body != nil && hf.Decl != fi.Decl && hf.Decl.Name.Name != "StmtDecls" {
					runits = append(runits, hf)
				}
			}
		}
		for _, fi := range runits {
			info := fi.Info()
			// a table-driven reader: the pragma word indexes a package-level table whose keys are the words
			ast.Inspect(fi.Decl.Body, func(m ast.Node) bool {
				ix, ok := m.(*ast.IndexExpr)
				if !ok {
					return true
				}
				tid, ok := ast.Unparen(ix.X).(*ast.Ident)
				if !ok {
					return true
				}
				lit := c.pkgVarLiteral(info.ObjectOf(tid))
				if lit == nil {
					return true
				}
				// the index: a local defined from strings.TrimPrefix(line, pragma), possibly trimmed
				pragma, trimmed := "", false
				scan := func(e ast.Expr) {
					ast.Inspect(e, func(k ast.Node) bool {
						if call, ok := k.(*ast.CallExpr); ok {
							fn := calleeOf(info, call)
							if (funcIs(fn, "strings", "", "TrimPrefix") || funcIs(fn, "strings", "", "CutPrefix")) && len(call.Args) == 2 {
								pragma, _ = stringConst(info, call.Args[1])
							}
							if funcIs(fn, "strings", "", "TrimSpace") || funcIs(fn, "strings", "", "Fields") {
								trimmed = true
							}
						}
						return true
					})
				}
				scan(ix.Index)
				if id, ok := ast.Unparen(ix.Index).(*ast.Ident); ok && pragma == "" {
					obj := info.ObjectOf(id)
					ast.Inspect(fi.Decl.Body, func(k ast.Node) bool {
						if as, ok := k.(*ast.AssignStmt); ok {
							for i, l := range as.Lhs {
								if lid, ok := l.(*ast.Ident); ok && info.ObjectOf(lid) == obj && i < len(as.Rhs) {
									scan(as.Rhs[i])
								}
							}
						}
						return true
					})
				}
				if pragma == "" {
					return true
				}
				for _, el := range lit.Elts {
					kv, ok := el.(*ast.KeyValueExpr)
					if !ok {
						continue
					}
					w, ok := stringConst(c.infoOf(info.ObjectOf(tid)), kv.Key)
					if !ok {
						continue
					}
					n++
					c.funcs[fi.Name] = true
					var lost []string
					for _, line := range []string{pragma + w + " ", pragma + w + "\t", pragma + " " + w, pragma + " " + w + "  "} {
						rest := strings.TrimPrefix(line, pragma)
						if re.MatchString(line) && rest != w && !trimmed {
							lost = append(lost, line)
						}
					}
					c.Check(rule, fi.Name+"|pragma "+w+" is recognised wherever the filter removes it", ix.Pos(), len(lost) == 0, "%s: the line filter %s removes the lines %q, but the transition table is indexed with the untrimmed remainder and does not recognise them as %q: the line vanishes without changing the state", fi.Name, reName, lost, w)
				}
				return true
			})
			// a reader that compares the pragma word with constants one by one (word == "Up" && state == …)
			{
				type wordVar struct {
					pragma  string
					trimmed bool
				}
				vars := map[types.Object]wordVar{}
				ast.Inspect(fi.Decl.Body, func(m ast.Node) bool {
					as, ok := m.(*ast.AssignStmt)
					if !ok || len(as.Lhs) != len(as.Rhs) {
						return true
					}
					for i, l := range as.Lhs {
						id, ok := l.(*ast.Ident)
						if !ok {
							continue
						}
						wv := wordVar{}
						ast.Inspect(as.Rhs[i], func(k ast.Node) bool {
							if call, ok := k.(*ast.CallExpr); ok {
								fn := calleeOf(info, call)
								if funcIs(fn, "strings", "", "TrimPrefix") && len(call.Args) == 2 {
									wv.pragma, _ = stringConst(info, call.Args[1])
								}
								if funcIs(fn, "strings", "", "TrimSpace") || funcIs(fn, "strings", "", "Fields") {
									wv.trimmed = true
								}
							}
							return true
						})
						if wv.pragma != "" {
							vars[info.ObjectOf(id)] = wv
						}
					}
					return true
				})
				seenWord := map[string]bool{}
				ast.Inspect(fi.Decl.Body, func(m ast.Node) bool {
					be, ok := m.(*ast.BinaryExpr)
					if !ok || be.Op != token.EQL {
						return true
					}
					id, ok := ast.Unparen(be.X).(*ast.Ident)
					if !ok {
						return true
					}
					wv, ok := vars[info.ObjectOf(id)]
					if !ok {
						return true
					}
					w, ok := stringConst(info, be.Y)
					if !ok || seenWord[w] {
						return true
					}
					seenWord[w] = true
					n++
					c.funcs[fi.Name] = true
					var lost []string
					for _, line := range []string{wv.pragma + w + " ", wv.pragma + w + "\t", wv.pragma + " " + w, wv.pragma + " " + w + "  "} {
						rest := strings.TrimPrefix(line, wv.pragma)
						if re.MatchString(line) && rest != w && !wv.trimmed {
							lost = append(lost, line)
						}
					}
					c.Check(rule, fi.Name+"|pragma "+w+" is recognised wherever the filter removes it", be.Pos(), len(lost) == 0, "%s: the line filter %s removes the lines %q, but the reader compares the untrimmed remainder with %q and does not recognise them: the line vanishes without changing the state", fi.Name, reName, lost, w)
					return true
				})
			}
			// the state switch: tag derived from strings.TrimPrefix(line, pragma)
			ast.Inspect(fi.Decl.Body, func(m ast.Node) bool {
				sw, ok := m.(*ast.SwitchStmt)
				if !ok || sw.Tag == nil {
					return true
				}
				var pragma string
				trimmed := false
				ast.Inspect(sw.Tag, func(k ast.Node) bool {
					if call, ok := k.(*ast.CallExpr); ok {
						fn := calleeOf(info, call)
						if funcIs(fn, "strings", "", "TrimPrefix") && len(call.Args) == 2 {
							pragma, _ = stringConst(info, call.Args[1])
						}
						if funcIs(fn, "strings", "", "TrimSpace") || funcIs(fn, "strings", "", "Fields") {
							trimmed = true
						}
					}
					return true
				})
				if pragma == "" {
					// the tag may be a local defined from TrimPrefix
					if id, ok := ast.Unparen(sw.Tag).(*ast.Ident); ok {
						obj := info.ObjectOf(id)
						ast.Inspect(fi.Decl.Body, func(k ast.Node) bool {
							if as, ok := k.(*ast.AssignStmt); ok {
								for i, l := range as.Lhs {
									if lid, ok := l.(*ast.Ident); ok && info.ObjectOf(lid) == obj && i < len(as.Rhs) {
										ast.Inspect(as.Rhs[i], func(q ast.Node) bool {
											if call, ok := q.(*ast.CallExpr); ok {
												fn := calleeOf(info, call)
												if funcIs(fn, "strings", "", "TrimPrefix") && len(call.Args) == 2 {
													pragma, _ = stringConst(info, call.Args[1])
												}
												if funcIs(fn, "strings", "", "TrimSpace") || funcIs(fn, "strings", "", "Fields") {
													trimmed = true
												}
											}
											return true
										})
									}
								}
							}
							return true
						})
					}
				}
				if pragma == "" {
					return true
				}
				for _, cl := range sw.Body.List {
					for _, e := range cl.(*ast.CaseClause).List {
						w, ok := stringConst(info, e)
						if !ok {
							continue
						}
						n++
						c.funcs[fi.Name] = true
						// lines the filter removes although the raw remainder differs from W
						var lost []string
						for _, line := range []string{pragma + w + " ", pragma + w + "\t", pragma + " " + w, pragma + " " + w + "  "} {
							rest := strings.TrimPrefix(line, pragma)
							if re.MatchString(line) && rest != w && !trimmed {
								lost = append(lost, line)
							}
						}
						c.Check(rule, fi.Name+"|pragma "+w+" is recognised wherever the filter removes it", sw.Pos(), len(lost) == 0, "%s: the line filter %s removes the lines %q, but the state switch compares the untrimmed remainder with %q and does not recognise them: the line vanishes without changing the state, so the statements after it are attributed to the wrong section (none is run although the file is recorded as applied, or the down section is executed)", fi.Name, reName, lost, w)
					}
				}
				return true
			})
		}
	}
	if n < 4 {
		c.Unresolved(rule, "pragma words of the goose/dbmate state switches (fewer than 4)")
	}
}

// R09r: a state set by a pragma line is consumed in the same iteration.
const ruleTextStateConsumed = "typestate of the line readers: when the loop body of a third-party reader contains a block `if state == V { state = …; … }` that consumes the state V (goose: the end-of-statement state, which emits the delimiter and returns to `up`), every store `state = V` reaches that block within the same iteration: under the assumption state == V, the next iteration is not reachable from the store without passing another store to state. A `continue` between the two defers the consumption to the next line, which is then dropped (the filter condition `state != end` holds it back): the statement that directly follows `-- +goose StatementEnd` is never executed although the file is recorded as fully applied"

func checkStateConsumed(c *Ctx, rule string) {
	n := 0
	for _, recv := range []string{"GooseFile", "DBMateFile"} {
		fi := c.LookupFunc(pSqltool, recv, "StmtDecls")
		if fi == nil || fi.Decl.Body == nil {
			continue
		}
		info := fi.Info()
		f := newFlow(info, fi.Decl.Body)
		var loop ast.Stmt
		ast.Inspect(fi.Decl.Body, func(m ast.Node) bool {
			if st, ok := m.(ast.Stmt); ok && loopBodyOf(st) != nil && loop == nil {
				loop = st
			}
			return loop == nil
		})
		if loop == nil {
			continue
		}
		constOf := func(e ast.Expr) (string, bool) {
			tv, ok := info.Types[e]
			if !ok || tv.Value == nil {
				return "", false
			}
			return tv.Value.ExactString(), true
		}
		// consuming blocks: if <v> == V { … <v> = … }
		type consumer struct {
			obj  types.Object
			val  string
			name string
			ifs  *ast.IfStmt
		}
		var cons []consumer
		ast.Inspect(loopBodyOf(loop), func(m ast.Node) bool {
			ifs, ok := m.(*ast.IfStmt)
			if !ok {
				return true
			}
			be, ok := ast.Unparen(ifs.Cond).(*ast.BinaryExpr)
			if !ok || be.Op != token.EQL {
				return true
			}
			id, ok := ast.Unparen(be.X).(*ast.Ident)
			if !ok {
				return true
			}
			v, ok := constOf(be.Y)
			if !ok {
				return true
			}
			stores := false
			ast.Inspect(ifs.Body, func(k ast.Node) bool {
				if as, ok := k.(*ast.AssignStmt); ok {
					for _, l := range as.Lhs {
						if lid, ok := l.(*ast.Ident); ok && info.ObjectOf(lid) == info.ObjectOf(id) {
							stores = true
						}
					}
				}
				return true
			})
			if stores {
				cons = append(cons, consumer{info.ObjectOf(id), v, types.ExprString(be.Y), ifs})
			}
			return true
		})
		_, next := loopBlocks(f, loop)
		for _, cn := range cons {
			isStore := func(nd ast.Node) bool {
				as, ok := nd.(*ast.AssignStmt)
				if !ok {
					return false
				}
				for _, l := range as.Lhs {
					if lid, ok := l.(*ast.Ident); ok && info.ObjectOf(lid) == cn.obj {
						return true
					}
				}
				return false
			}
			atom := func(e ast.Expr) int {
				be, ok := ast.Unparen(e).(*ast.BinaryExpr)
				if !ok || (be.Op != token.EQL && be.Op != token.NEQ) {
					return -1
				}
				id, ok := ast.Unparen(be.X).(*ast.Ident)
				if !ok || info.ObjectOf(id) != cn.obj {
					return -1
				}
				v, ok := constOf(be.Y)
				if !ok {
					return -1
				}
				eq := v == cn.val
				if be.Op == token.NEQ {
					eq = !eq
				}
				if eq {
					return 1
				}
				return 0
			}
			for _, pt := range f.find(func(nd ast.Node) bool {
				as, ok := nd.(*ast.AssignStmt)
				if !ok || !isStore(nd) || len(as.Rhs) != 1 || cn.ifs.Pos() <= as.Pos() && as.End() <= cn.ifs.End() {
					return false
				}
				if !(loop.Pos() <= as.Pos() && as.End() <= loop.End()) {
					return false
				}
				// a store of the constant V, or of a value that is not a constant (a table-driven transition may yield V)
				v, ok := constOf(as.Rhs[0])
				return !ok || v == cn.val
			}) {
				n++
				c.funcs[fi.Name] = true
				escaped := f.reachBlockEdges([]point{after(pt)}, isStore, next, func(b *cfg.Block, si int) bool {
					cond, _, _ := condOf(b)
					if cond == nil {
						return false
					}
					if syn, ok := taggedCase[cond]; ok {
						cond = syn
					}
					switch eval3(cond, atom) {
					case 1:
						return si == 1
					case 0:
						return si == 0
					}
					return false
				})
				c.Check(rule, fmt.Sprintf("%s|state %s set by a pragma is consumed in the same iteration", fi.Name, cn.name), pt.b.Nodes[pt.i].Pos(), !escaped, "%s: after the store of the state %s the loop can start its next iteration without running the block that consumes it (`if %s`): the consumption happens one line late, and that line — the first line after the pragma — is dropped from the statements", fi.Name, cn.name, types.ExprString(cn.ifs.Cond))
			}
		}
	}
	if n < 1 {
		c.Unresolved(rule, "stores of a consumed state in the goose/dbmate readers")
	}
}

// R16n: the qualifier decision does not depend on other options.
const ruleTextQualifierIndependent = "the schema-scope decision is independent of the other plan options: in a function of the command layer that stores PlanOptions.SchemaQualifier under a test of `<client>.URL.Schema != \"\"`, no path from the entry of the innermost function body holding the store reaches its exit without the store unless it took an edge implying URL.Schema == \"\". Folding the test into a switch behind another option (`case len(indent) > 0: …; case client.URL.Schema != \"\": …`) skips the store whenever that option is given, and the schema-bound connection gets statements that name its schema"

func checkQualifierIndependent(c *Ctx, rule string) {
	n := 0
	c.AllFuncs(false, func(fi *FuncInfo) {
		if !strings.HasPrefix(fi.Pkg.PkgPath, modCmd) || fi.Decl.Body == nil {
			return
		}
		info := fi.Info()
		pm := parentMap(fi.Decl)
		ast.Inspect(fi.Decl.Body, func(m ast.Node) bool {
			as, ok := m.(*ast.AssignStmt)
			if !ok {
				return true
			}
			isStore := false
			for _, l := range as.Lhs {
				if isField(info, l, pMigrate, "PlanOptions", "SchemaQualifier") {
					isStore = true
				}
			}
			if !isStore {
				return true
			}
			// the function body that holds both the store (possibly inside a closure built there) and the URL.Schema test
			var node ast.Node = as
			var body *ast.BlockStmt
			for {
				body = fi.Decl.Body
				fl, _ := enclosing(pm, node, func(nd ast.Node) bool { _, ok := nd.(*ast.FuncLit); return ok }).(*ast.FuncLit)
				if fl != nil {
					body = fl.Body
				}
				if underSchemaScope(info, body, parentMap(body), node) {
					break
				}
				if fl == nil {
					// an option function declared at package level: the decision is where the function is handed out
					if fi.Decl.Recv == nil && fi.Decl.Type.Params.NumFields() == 1 && typeIs(derefType(info.TypeOf(fi.Decl.Type.Params.List[0].Type)), pMigrate, "PlanOptions") {
						c.AllFuncs(false, func(uf *FuncInfo) {
							if uf.Pkg != fi.Pkg || uf.Decl.Body == nil || uf == fi {
								return
							}
							uinfo := uf.Info()
							ast.Inspect(uf.Decl.Body, func(k ast.Node) bool {
								id, isID := k.(*ast.Ident)
								if !isID || uinfo.ObjectOf(id) != types.Object(fi.Obj) {
									return true
								}
								n++
								c.funcs[uf.Name] = true
								esc := qualifierEscapes(uinfo, uf.Decl.Body, id)
								c.Check(rule, uf.Name+"|the qualifier store is reached whenever the connection is schema-bound", id.Pos(), !esc, "%s can finish configuring the plan options without handing out %s on a path that never established URL.Schema == \"\": for a schema-bound connection the statements then carry the schema's name (the decision depends on an unrelated option)", uf.Name, fi.Decl.Name.Name)
								return true
							})
						})
					}
					return true // otherwise not decided by a URL.Schema test in this function (R16d reports it)
				}
				node = fl
			}
			n++
			c.funcs[fi.Name] = true
			escaped := qualifierEscapes(info, body, node)
			c.Check(rule, fi.Name+"|the qualifier store is reached whenever the connection is schema-bound", as.Pos(), !escaped, "%s can finish configuring the plan options without storing SchemaQualifier on a path that never established URL.Schema == \"\": for a schema-bound connection the statements then carry the schema's name (the decision depends on an unrelated option)", fi.Name)
			return true
		})
	})
	if n < 2 {
		c.Unresolved(rule, "guarded stores of PlanOptions.SchemaQualifier in the command layer (fewer than 2)")
	}
}

// R17m: the reverse of DROP TABLE is computed from the dropped table itself.
const ruleTextReverseFromDropped = "sibling agreement of the dropTable planners (SQLite, MySQL, PostgreSQL): the scratch addTable call that computes the reverse of DROP TABLE receives an AddTable whose T is the DropTable's own T (the expression <drop>.T, directly, in the literal, or through a local defined once from it) — not a copy with fields removed: whatever is filtered from the copy (the sqlite_autoindex indexes of UNIQUE constraints) is missing from the CREATE TABLE of the down migration although the plan is reported reversible"

func checkReverseFromDropped(c *Ctx, rule string) {
	n := 0
	for _, pp := range []string{pSqlite, pMysql, pPostgres} {
		fi := c.LookupFunc(pp, "state", "dropTable")
		if fi == nil || fi.Decl.Body == nil {
			continue
		}
		info := fi.Info()
		// the DropTable parameter
		var drop types.Object
		for _, fld := range fi.Decl.Type.Params.List {
			for _, nm := range fld.Names {
				if typeIs(derefType(info.TypeOf(nm)), pSchema, "DropTable") {
					drop = info.ObjectOf(nm)
				}
			}
		}
		if drop == nil {
			continue
		}
		isDropT := func(e ast.Expr) bool {
			se, ok := ast.Unparen(e).(*ast.SelectorExpr)
			if !ok || se.Sel.Name != "T" {
				return false
			}
			id, ok := ast.Unparen(se.X).(*ast.Ident)
			return ok && info.ObjectOf(id) == drop
		}
		var resolves func(e ast.Expr, depth int) bool
		resolves = func(e ast.Expr, depth int) bool {
			if isDropT(e) {
				return true
			}
			id, ok := ast.Unparen(e).(*ast.Ident)
			if !ok || depth > 2 {
				return false
			}
			obj := info.ObjectOf(id)
			defs, good := 0, 0
			ast.Inspect(fi.Decl.Body, func(k ast.Node) bool {
				if as, ok := k.(*ast.AssignStmt); ok {
					for i, l := range as.Lhs {
						if lid, ok := l.(*ast.Ident); ok && info.ObjectOf(lid) == obj {
							defs++
							if len(as.Rhs) == len(as.Lhs) && resolves(as.Rhs[i], depth+1) {
								good++
							}
						}
					}
				}
				return true
			})
			return defs == 1 && good == 1
		}
		for _, call := range callsIn(fi.Decl.Body, false) {
			fn := calleeOf(info, call)
			if fn == nil || fn.Name() != "addTable" {
				continue
			}
			n++
			c.funcs[fi.Name] = true
			good := false
			for _, a := range call.Args {
				lit := ast.Unparen(a)
				if un, ok := lit.(*ast.UnaryExpr); ok && un.Op == token.AND {
					lit = ast.Unparen(un.X)
				}
				if id, ok := lit.(*ast.Ident); ok {
					// a local defined once from the literal
					obj := info.ObjectOf(id)
					ast.Inspect(fi.Decl.Body, func(k ast.Node) bool {
						if as, ok := k.(*ast.AssignStmt); ok && len(as.Lhs) == len(as.Rhs) {
							for i, l := range as.Lhs {
								if lid, ok := l.(*ast.Ident); ok && info.ObjectOf(lid) == obj {
									lit = ast.Unparen(as.Rhs[i])
									if un, ok := lit.(*ast.UnaryExpr); ok && un.Op == token.AND {
										lit = ast.Unparen(un.X)
									}
								}
							}
						}
						return true
					})
				}
				cl, ok := lit.(*ast.CompositeLit)
				if !ok || !typeIs(derefType(info.TypeOf(cl)), pSchema, "AddTable") {
					continue
				}
				for _, el := range cl.Elts {
					if kv, ok := el.(*ast.KeyValueExpr); ok {
						if id, ok := kv.Key.(*ast.Ident); ok && id.Name == "T" && resolves(kv.Value, 0) {
							good = true
						}
					}
				}
			}
			c.Check(rule, fi.Name+"|the reverse is computed from the dropped table", call.Pos(), good, "%s computes the reverse of DROP TABLE from something other than the dropped table itself (the AddTable handed to the scratch addTable does not carry <drop>.T): what the copy leaves out is not recreated by the down migration, so up then down does not restore the schema", fi.Name)
		}
	}
	if n < 3 {
		c.Unresolved(rule, "scratch addTable calls in the dropTable planners (fewer than 3)")
	}
}

// R17n: a table whose foreign keys are split off is kept without them.
const ruleTextDetachedCopy = "detachReferences splits consistently: in every branch that moves foreign-key changes of a table change into a ModifyTable of their own (an append of a ModifyTable whose Changes is the collected list), the table change that stays behind is rebuilt over a copy of the table whose ForeignKeys field was reassigned in that branch (the AddTable keeps only self references, the DropTable none). The forward plan does not show the difference; the reverse of the kept DropTable is a CREATE TABLE computed from its table, and with the foreign keys still on it the down migration references tables that do not exist yet and defines each key twice"

func checkDetachedCopy(c *Ctx, rule string) {
	fi := c.Func(rule, pSqlx, "", "detachReferences")
	if fi == nil {
		return
	}
	info := fi.Info()
	n := 0
	ast.Inspect(fi.Decl.Body, func(m ast.Node) bool {
		cc, ok := m.(*ast.CaseClause)
		if !ok || len(cc.List) != 1 {
			return true
		}
		t := derefType(info.TypeOf(cc.List[0]))
		kind := ""
		switch {
		case typeIs(t, pSchema, "AddTable"):
			kind = "AddTable"
		case typeIs(t, pSchema, "DropTable"):
			kind = "DropTable"
		default:
			return true
		}
		// the branch: the clause and the package-local functions it delegates to
		type scope struct {
			info *types.Info
			body []ast.Stmt
		}
		scopes := []scope{{info, cc.Body}}
		for _, st := range cc.Body {
			for _, call := range callsIn(st, true) {
				if fn := calleeOf(info, call); fn != nil && fn.Pkg() != nil && fn.Pkg().Path() == pSqlx {
					if hf := c.FuncInfoOf(fn); hf != nil && hf.Decl.Body != nil && hf.Decl != fi.Decl {
						scopes = append(scopes, scope{hf.Info(), hf.Decl.Body.List})
					}
				}
			}
		}
		splits, cleared, rebuilt := false, false, false
		for _, sc := range scopes {
			if len(fkAssignments(c, sc.info, sc.body)) > 0 {
				cleared = true
			}
			for _, st := range sc.body {
				ast.Inspect(st, func(k ast.Node) bool {
					if cl, ok := k.(*ast.CompositeLit); ok {
						t := derefType(sc.info.TypeOf(cl))
						if typeIs(t, pSchema, "ModifyTable") {
							splits = true
						}
						if typeIs(t, pSchema, kind) {
							rebuilt = true
						}
					}
					return true
				})
			}
		}
		if splits {
			n++
			c.funcs[fi.Name] = true
			c.Check(rule, "sqlx.detachReferences|the "+kind+" kept after splitting its foreign keys carries a copy without them", cc.Pos(), cleared && rebuilt, "detachReferences moves the foreign keys of a %s into a ModifyTable of their own but keeps the original change (ForeignKeys reassigned on a copy: %v, change rebuilt: %v): the reverse of the kept change is computed from a table that still has the keys, so the down migration adds them twice and before the referenced tables exist", kind, cleared, rebuilt)
		}
		return true
	})
	if n < 2 {
		c.Unresolved(rule, "branches of detachReferences that split foreign keys off a table change (fewer than 2)")
	}
}

// R18k: a statement's nolint directive applies to that statement only.
const ruleTextNolintLocal = "statement-level suppressions stay with their statement: in migratelint.nolintRules, inside the loop over the file's changes, the value stored under pos2rules[<that change's position>] is computed from values defined in the same iteration (the directives of c.Stmt, or the file directive of an enclosing loop) — never from a variable declared outside the loop and appended to inside it. Such an accumulator carries `-- atlas:nolint` of an earlier statement to every later one: a DROP TABLE further down is not reported and lint exits 0"

func checkNolintLocal(c *Ctx, rule string) {
	fi := c.Func(rule, pLint, "", "nolintRules")
	if fi == nil {
		return
	}
	info := fi.Info()
	pm := parentMap(fi.Decl)
	storesRules := func(inf *types.Info, e ast.Expr) bool {
		ix, ok := ast.Unparen(e).(*ast.IndexExpr)
		if !ok {
			return false
		}
		se, ok := ast.Unparen(ix.X).(*ast.SelectorExpr)
		return ok && se.Sel.Name == "pos2rules"
	}
	// sinks: a store into pos2rules[key], or a call of a package-local helper that makes such a store
	// (its arguments are then the key and the value)
	type sink struct {
		node   ast.Node
		keys   []ast.Expr
		values []ast.Expr
	}
	var sinks []sink
	ast.Inspect(fi.Decl.Body, func(m ast.Node) bool {
		switch x := m.(type) {
		case *ast.AssignStmt:
			if len(x.Lhs) == 1 && len(x.Rhs) == 1 && storesRules(info, x.Lhs[0]) {
				sinks = append(sinks, sink{x, []ast.Expr{ast.Unparen(x.Lhs[0]).(*ast.IndexExpr).Index}, []ast.Expr{x.Rhs[0]}})
			}
		case *ast.CallExpr:
			fn := calleeOf(info, x)
			if fn == nil || fn.Pkg() == nil || fn.Pkg().Path() != pLint {
				return true
			}
			hf := c.FuncInfoOf(fn)
			if hf == nil || hf.Decl.Body == nil {
				return true
			}
			helper := false
			ast.Inspect(hf.Decl.Body, func(k ast.Node) bool {
				if as, ok := k.(*ast.AssignStmt); ok && len(as.Lhs) == 1 && storesRules(hf.Info(), as.Lhs[0]) {
					helper = true
				}
				return true
			})
			if helper {
				sinks = append(sinks, sink{x, x.Args, x.Args})
			}
		}
		return true
	})
	n := 0
	for _, sk := range sinks {
		// the loop over the changes: the outermost enclosing range loop whose element occurs in the key
		var chg *ast.RangeStmt
		for p := pm[sk.node]; p != nil; p = pm[p] {
			rs, ok := p.(*ast.RangeStmt)
			if !ok {
				continue
			}
			v, ok := rs.Value.(*ast.Ident)
			if !ok {
				continue
			}
			for _, key := range sk.keys {
				ast.Inspect(key, func(k ast.Node) bool {
					if id, ok := k.(*ast.Ident); ok && info.ObjectOf(id) == info.ObjectOf(v) {
						chg = rs
					}
					return true
				})
			}
		}
		if chg == nil {
			continue
		}
		n++
		c.funcs[fi.Name] = true
		carried := ""
		for _, val := range sk.values {
			ast.Inspect(val, func(k ast.Node) bool {
				id, ok := k.(*ast.Ident)
				if !ok {
					return true
				}
				v, ok := info.Uses[id].(*types.Var)
				if !ok || v.IsField() || v.Pos() >= chg.Pos() && v.Pos() < chg.End() || v.Pkg() == nil || v.Parent() == v.Pkg().Scope() {
					return true
				}
				// declared outside the changes loop: is it assigned inside it?
				ast.Inspect(chg.Body, func(q ast.Node) bool {
					if st, ok := q.(*ast.AssignStmt); ok {
						for _, l := range st.Lhs {
							if lid, ok := ast.Unparen(l).(*ast.Ident); ok && info.ObjectOf(lid) == types.Object(v) {
								carried = v.Name()
							}
						}
					}
					return true
				})
				return true
			})
		}
		c.Check(rule, fmt.Sprintf("migratelint.nolintRules|store %d keeps rules with the statement they were written on", n), sk.node.Pos(), carried == "", "nolintRules stores under a statement's position a value built from %s, a variable declared outside the loop over the changes and appended to inside it: the suppression written on one statement is applied to every later statement, so a destructive statement further down the file is not reported", carried)
	}
	if n < 2 {
		c.Unresolved(rule, "stores into pos2rules inside the loops of nolintRules (fewer than 2)")
	}
}

// R18l: a default is set whatever the configuration block contains.
const ruleTextDefaultUnconditional = "defaults precede overrides: in the analyzer constructors of sql/sqlcheck (New functions) a store of a default into an option field (X.Error = sqlx.P(true): destructive changes fail the run) lies on every path from the entry to a successful return — it is not conditional on the configuration block being absent. Resource.As leaves a pointer option nil when the attribute is missing, so an empty `destructive {}` block would turn the failing diagnostic into a warning and lint exits 0"

func checkDefaultUnconditional(c *Ctx, rule string) {
	n := 0
	c.AllFuncs(false, func(fi *FuncInfo) {
		if !strings.HasPrefix(fi.Pkg.PkgPath, pSqlcheck) || fi.Decl.Name.Name != "New" || fi.Decl.Body == nil || fi.Decl.Recv != nil {
			return
		}
		info := fi.Info()
		f := newFlow(info, fi.Decl.Body)
		// a CFG node that stores the default: X.F = sqlx.P(v), or a literal with a field F: sqlx.P(v)
		isDefault := func(nd ast.Node) bool {
			hit := false
			ast.Inspect(nd, func(k ast.Node) bool {
				if _, ok := k.(*ast.FuncLit); ok {
					return false
				}
				switch x := k.(type) {
				case *ast.AssignStmt:
					if len(x.Rhs) == 1 && len(x.Lhs) == 1 {
						if call, ok := ast.Unparen(x.Rhs[0]).(*ast.CallExpr); ok && funcIs(calleeOf(info, call), pSqlx, "", "P") {
							if _, isSel := ast.Unparen(x.Lhs[0]).(*ast.SelectorExpr); isSel {
								hit = true
							}
						}
					}
				case *ast.KeyValueExpr:
					if call, ok := ast.Unparen(x.Value).(*ast.CallExpr); ok && funcIs(calleeOf(info, call), pSqlx, "", "P") {
						hit = true
					}
				}
				return !hit
			})
			return hit
		}
		if len(f.find(isDefault)) == 0 {
			return
		}
		n++
		c.funcs[fi.Name] = true
		okRet := func(nd ast.Node) bool {
			ret, ok := nd.(*ast.ReturnStmt)
			if !ok || len(ret.Results) != 2 {
				return false
			}
			id, ok := ast.Unparen(ret.Results[1]).(*ast.Ident)
			return ok && id.Name == "nil"
		}
		w, found := f.reach([]point{f.entry()}, isDefault, okRet, false)
		c.Check(rule, fi.Name+"|the default is stored on every path to a successful return", nodePos(w, fi.Decl.Pos()), !found, "%s can return successfully (%s) without having stored the default of its option: with a configuration block that does not mention the option, the option stays nil and the analyzer's diagnostics no longer fail the run", fi.Name, c.nodeAtOrEnd(w))
	})
	if n < 1 {
		c.Unresolved(rule, "analyzer constructors that store a default option (sqlx.P)")
	}
}

// R19m: the exported reader configuration carries every option of the internal one.
const ruleTextConfigComplete = "option forwarding is complete: where a method of the command layer converts its receiver into another configuration struct by a keyed composite literal whose values are fields of the receiver (stateReaderConfig.Exported → cmdext.StateReaderConfig), every field of the target type that has a counterpart of the same name (ignoring case) in the receiver is set in the literal. A dropped key compiles and leaves the zero value: without Exclude the file-based state readers (HCL, SQL, migration directory) return the excluded resources and the plan creates or alters them"

func checkConfigComplete(c *Ctx, rule string) {
	n := 0
	c.AllFuncs(false, func(fi *FuncInfo) {
		if !strings.HasPrefix(fi.Pkg.PkgPath, modCmd) || fi.Decl.Recv == nil || fi.Decl.Body == nil || len(fi.Decl.Recv.List) == 0 || len(fi.Decl.Recv.List[0].Names) == 0 {
			return
		}
		info := fi.Info()
		recv := info.ObjectOf(fi.Decl.Recv.List[0].Names[0])
		if recv == nil {
			return
		}
		rst, ok := derefType(recv.Type()).Underlying().(*types.Struct)
		if !ok {
			return
		}
		ast.Inspect(fi.Decl.Body, func(m ast.Node) bool {
			cl, ok := m.(*ast.CompositeLit)
			if !ok {
				return true
			}
			tst, ok := derefType(info.TypeOf(cl)).Underlying().(*types.Struct)
			if !ok || tst == rst {
				return true
			}
			set := map[string]bool{}
			fromRecv := 0
			for _, el := range cl.Elts {
				kv, ok := el.(*ast.KeyValueExpr)
				if !ok {
					return true
				}
				if id, ok := kv.Key.(*ast.Ident); ok {
					set[id.Name] = true
				}
				if se, ok := ast.Unparen(kv.Value).(*ast.SelectorExpr); ok {
					if id, ok := ast.Unparen(se.X).(*ast.Ident); ok && info.ObjectOf(id) == recv {
						fromRecv++
					}
				}
			}
			if fromRecv < 3 {
				return true
			}
			n++
			c.funcs[fi.Name] = true
			var missing []string
			for i := 0; i < tst.NumFields(); i++ {
				tf := tst.Field(i)
				if set[tf.Name()] {
					continue
				}
				for j := 0; j < rst.NumFields(); j++ {
					if strings.EqualFold(rst.Field(j).Name(), tf.Name()) {
						missing = append(missing, tf.Name())
					}
				}
			}
			c.Check(rule, fi.Name+"|every option with a counterpart is copied", cl.Pos(), len(missing) == 0, "%s builds a %s from its receiver but leaves out %v although the receiver has fields of the same name: the option is silently reset to its zero value on the way (no --exclude for file-based states: excluded resources come back and are planned)", fi.Name, types.ExprString(cl.Type), missing)
			return true
		})
	})
	if n < 1 {
		c.Unresolved(rule, "receiver-to-configuration conversions in the command layer (stateReaderConfig.Exported)")
	}
}

// R19n: wherever diff options are at hand, every diff call gets them.
const ruleTextDiffOptsForwarded = "the diff policy reaches every comparison: in a function of sql/migrate or of the command layer that has a []schema.DiffOption at hand (a variadic parameter, a local, or a field of its receiver such as Planner.diffOpts), every call of RealmDiff / SchemaDiff / TableDiff passes it on (a variadic argument of that type). The migration planner compares in two scopes; a branch that forgets the options plans the changes the policy disabled (DROP TABLE, DROP COLUMN) whenever the dev connection is not bound to a schema"

func checkDiffOptsForwarded(c *Ctx, rule string) {
	n := 0
	isOpts := func(t types.Type) bool {
		sl, ok := t.Underlying().(*types.Slice)
		return ok && typeIs(sl.Elem(), pSchema, "DiffOption")
	}
	c.AllFuncs(false, func(fi *FuncInfo) {
		if fi.Decl.Body == nil || !(fi.Pkg.PkgPath == pMigrate || strings.HasPrefix(fi.Pkg.PkgPath, modCmd)) {
			return
		}
		info := fi.Info()
		have := false
		if fi.Decl.Recv != nil && len(fi.Decl.Recv.List) > 0 {
			if st, ok := derefType(info.TypeOf(fi.Decl.Recv.List[0].Type)).Underlying().(*types.Struct); ok {
				for i := 0; i < st.NumFields(); i++ {
					if isOpts(st.Field(i).Type()) {
						have = true
					}
				}
			}
		}
		ast.Inspect(fi.Decl, func(m ast.Node) bool {
			if id, ok := m.(*ast.Ident); ok {
				if v, ok := info.Defs[id].(*types.Var); ok && isOpts(v.Type()) {
					have = true
				}
			}
			return true
		})
		if !have {
			return
		}
		ord := 0
		for _, call := range callsIn(fi.Decl.Body, true) {
			fn := calleeOf(info, call)
			if fn == nil || !(fn.Name() == "RealmDiff" || fn.Name() == "SchemaDiff" || fn.Name() == "TableDiff") {
				continue
			}
			sig, ok := fn.Type().(*types.Signature)
			if !ok || !sig.Variadic() {
				continue
			}
			n++
			ord++
			c.funcs[fi.Name] = true
			forwarded := call.Ellipsis.IsValid() && len(call.Args) > 0 && isOpts(info.TypeOf(call.Args[len(call.Args)-1]))
			c.Check(rule, fmt.Sprintf("%s|diff call %d (%s) receives the diff options", fi.Name, ord, fn.Name()), call.Pos(), forwarded, "%s has diff options at hand but calls %s without them: the changes the policy disabled (drop table, drop column, drop index) are produced on this path and reach the plan", fi.Name, fn.Name())
		}
	})
	if n < 4 {
		c.Unresolved(rule, "diff calls in functions holding diff options (fewer than 4)")
	}
}

// R20j: names collected from a map are sorted by a total order.
const ruleTextTotalOrderOverMapKeys = "a sort that removes map iteration order is total: where a slice of plain values (names, keys) is filled inside a `range` over a map and then sorted with a comparator (sort.Slice / sort.SliceStable / slices.SortFunc), the comparator compares the elements themselves (s[i] < s[j], strings.Compare(a, b), or their fields) — not a projection computed by a call (filepath.Base(s[i]), strings.ToLower(s[i])): distinct elements with equal projections tie, the tie is broken by the order the map happened to deliver, and the output (the order in which the parsed files are merged, hence tables, HCL and CREATE TABLE order) differs from run to run"

func checkTotalOrderOverMapKeys(c *Ctx, rule string) {
	n := 0
	c.AllFuncs(false, func(fi *FuncInfo) {
		if fi.Decl.Body == nil || strings.Contains(fi.Pkg.PkgPath, "/internal/integration") {
			return
		}
		info := fi.Info()
		// slices appended to inside a range over a map
		fromMap := map[types.Object]bool{}
		ast.Inspect(fi.Decl.Body, func(m ast.Node) bool {
			rs, ok := m.(*ast.RangeStmt)
			if !ok {
				return true
			}
			if _, isMap := info.TypeOf(rs.X).Underlying().(*types.Map); !isMap {
				return true
			}
			ast.Inspect(rs.Body, func(k ast.Node) bool {
				if as, ok := k.(*ast.AssignStmt); ok && len(as.Lhs) == 1 && len(as.Rhs) == 1 {
					if call, ok := ast.Unparen(as.Rhs[0]).(*ast.CallExpr); ok {
						if id, ok := call.Fun.(*ast.Ident); ok && id.Name == "append" {
							if lid, ok := ast.Unparen(as.Lhs[0]).(*ast.Ident); ok {
								fromMap[info.ObjectOf(lid)] = true
							}
						}
					}
				}
				return true
			})
			return true
		})
		if len(fromMap) == 0 {
			return
		}
		for _, call := range callsIn(fi.Decl.Body, false) {
			fn := calleeOf(info, call)
			if fn == nil || fn.Pkg() == nil {
				continue
			}
			// sorts that are total by construction over plain values
			if len(call.Args) == 1 && (fn.Pkg().Path() == "sort" && (fn.Name() == "Strings" || fn.Name() == "Ints" || fn.Name() == "Float64s") || fn.Pkg().Path() == "slices" && fn.Name() == "Sort") {
				if sid, ok := ast.Unparen(call.Args[0]).(*ast.Ident); ok && fromMap[info.ObjectOf(sid)] {
					n++
					c.funcs[fi.Name] = true
					c.Check(rule, fi.Name+"|the sort over "+sid.Name+" (filled from a map) compares the elements themselves", call.Pos(), true, "")
				}
				continue
			}
			if len(call.Args) != 2 {
				continue
			}
			isSort := fn.Pkg().Path() == "sort" && (fn.Name() == "Slice" || fn.Name() == "SliceStable") || fn.Pkg().Path() == "slices" && (fn.Name() == "SortFunc" || fn.Name() == "SortStableFunc")
			if !isSort {
				continue
			}
			sid, ok := ast.Unparen(call.Args[0]).(*ast.Ident)
			if !ok || !fromMap[info.ObjectOf(sid)] {
				continue
			}
			lit, ok := ast.Unparen(call.Args[1]).(*ast.FuncLit)
			if !ok {
				continue
			}
			// only slices of plain values (the map's keys): for records, a key accessor is the normal comparator
			if sl, ok := info.TypeOf(sid).Underlying().(*types.Slice); !ok {
				continue
			} else if _, basic := sl.Elem().Underlying().(*types.Basic); !basic {
				continue
			}
			n++
			c.funcs[fi.Name] = true
			// element expressions: s[i] (sort.Slice) or the parameters (slices.SortFunc)
			params := map[types.Object]bool{}
			if fn.Pkg().Path() == "slices" {
				for _, fld := range lit.Type.Params.List {
					for _, nm := range fld.Names {
						params[info.ObjectOf(nm)] = true
					}
				}
			}
			isElem := func(e ast.Expr) bool {
				e = ast.Unparen(e)
				if ix, ok := e.(*ast.IndexExpr); ok {
					if id, ok := ast.Unparen(ix.X).(*ast.Ident); ok && info.ObjectOf(id) == info.ObjectOf(sid) {
						return true
					}
				}
				if id, ok := e.(*ast.Ident); ok && params[info.ObjectOf(id)] {
					return true
				}
				return false
			}
			pm := parentMap(lit)
			projected := ""
			ast.Inspect(lit.Body, func(k ast.Node) bool {
				e, ok := k.(ast.Expr)
				if !ok || !isElem(e) || projected != "" {
					return true
				}
				// climb through selectors; a call that takes the element (or a field of it) as an argument is a projection,
				// unless it is a comparison function taking both elements
				var cur ast.Node = e
				for p := pm[cur]; p != nil; cur, p = p, pm[p] {
					switch x := p.(type) {
					case *ast.SelectorExpr, *ast.ParenExpr, *ast.StarExpr:
						continue
					case *ast.CallExpr:
						if x.Fun == cur {
							// method call on the element: a projection as well
							projected = types.ExprString(x)
							return false
						}
						cf := calleeOf(info, x)
						if cf != nil && cf.Pkg() != nil && (cf.Name() == "Compare" && (cf.Pkg().Path() == "strings" || cf.Pkg().Path() == "cmp" || cf.Pkg().Path() == "bytes")) {
							return false
						}
						projected = types.ExprString(x)
						return false
					}
					break
				}
				return false
			})
			c.Check(rule, fi.Name+"|the sort over "+sid.Name+" (filled from a map) compares the elements themselves", call.Pos(), projected == "", "%s sorts %s, which was filled in map iteration order, by a projection of its elements (%s): different elements with the same projection keep the order the map delivered them in, so the result differs between runs of the same input", fi.Name, sid.Name, projected)
		}
	})
	if n < 1 {
		c.Unresolved(rule, "comparator sorts over slices of plain values filled from a map")
	}
}

// R20k: a search with a preferred and a fallback candidate does not stop at the fallback.
const ruleTextPreferredSearch = "declaration order does not pick the match: where a function searches a list for a preferred candidate and a fallback (two result variables, returned in that order of precedence after the loop — similarCheck: by name, then by expression), the loop goes on while the preferred candidate is missing and elements remain: its condition can be false with elements left only if the preferred variable is set (decided by enumerating the truth assignments of the condition's atoms), and a break in its body stands under `preferred != nil`. A loop that stops at the first candidate of either kind returns the fallback when it happens to be declared first, so permuting the checks of a table changes the reported changes, not just their order"

func checkPreferredSearch(c *Ctx, rule string) {
	n := 0
	for _, pp := range []string{pSqlx, pMysql, pPostgres, pSqlite} {
		c.AllFuncs(false, func(fi *FuncInfo) {
			if fi.Pkg.PkgPath != pp || fi.Decl.Body == nil {
				return
			}
			info := fi.Info()
			// after a loop: `if P != nil { return P… }` followed by `if F != nil { return F… }`
			list := fi.Decl.Body.List
			for li, st := range list {
				var loop ast.Stmt
				var loopCond ast.Expr
				var loopBody *ast.BlockStmt
				switch x := st.(type) {
				case *ast.ForStmt:
					loop, loopCond, loopBody = x, x.Cond, x.Body
				case *ast.RangeStmt:
					loop, loopBody = x, x.Body
				}
				if loop == nil || li+1 >= len(list) {
					continue
				}
				condRet := func(cond ast.Expr, body []ast.Stmt) types.Object {
					if cond == nil || len(body) != 1 {
						return nil
					}
					be, ok := ast.Unparen(cond).(*ast.BinaryExpr)
					if !ok || be.Op != token.NEQ {
						return nil
					}
					id, ok := ast.Unparen(be.X).(*ast.Ident)
					if !ok {
						return nil
					}
					if nid, ok := ast.Unparen(be.Y).(*ast.Ident); !ok || nid.Name != "nil" {
						return nil
					}
					ret, ok := body[0].(*ast.ReturnStmt)
					if !ok || len(ret.Results) == 0 {
						return nil
					}
					if rid, ok := ast.Unparen(ret.Results[0]).(*ast.Ident); !ok || info.ObjectOf(rid) != info.ObjectOf(id) {
						return nil
					}
					return info.ObjectOf(id)
				}
				// the ordered `X != nil → return X` decisions that follow the loop: an if sequence or the cases of a tagless switch
				var order []types.Object
				for _, s := range list[li+1:] {
					switch x := s.(type) {
					case *ast.IfStmt:
						if x.Else == nil {
							if o := condRet(x.Cond, x.Body.List); o != nil {
								order = append(order, o)
								continue
							}
						}
					case *ast.SwitchStmt:
						if x.Tag == nil {
							for _, cl := range x.Body.List {
								cc := cl.(*ast.CaseClause)
								if len(cc.List) == 1 {
									if o := condRet(cc.List[0], cc.Body); o != nil {
										order = append(order, o)
									}
								}
							}
						}
					}
					break
				}
				retOf := func(s ast.Stmt) types.Object {
					ifs, ok := s.(*ast.IfStmt)
					if !ok || ifs.Else != nil || len(ifs.Body.List) != 1 {
						return nil
					}
					be, ok := ast.Unparen(ifs.Cond).(*ast.BinaryExpr)
					if !ok || be.Op != token.NEQ {
						return nil
					}
					id, ok := ast.Unparen(be.X).(*ast.Ident)
					if !ok {
						return nil
					}
					if nid, ok := ast.Unparen(be.Y).(*ast.Ident); !ok || nid.Name != "nil" {
						return nil
					}
					ret, ok := ifs.Body.List[0].(*ast.ReturnStmt)
					if !ok || len(ret.Results) == 0 {
						return nil
					}
					if rid, ok := ast.Unparen(ret.Results[0]).(*ast.Ident); !ok || info.ObjectOf(rid) != info.ObjectOf(id) {
						return nil
					}
					return info.ObjectOf(id)
				}
				_ = retOf
				if len(order) < 2 || order[0] == order[1] {
					continue
				}
				pref, fall := order[0], order[1]
				n++
				c.funcs[fi.Name] = true
				// atoms of the loop condition
				atoms := map[string]ast.Expr{}
				var collect func(e ast.Expr)
				collect = func(e ast.Expr) {
					e = ast.Unparen(e)
					switch x := e.(type) {
					case *ast.UnaryExpr:
						if x.Op == token.NOT {
							collect(x.X)
							return
						}
					case *ast.BinaryExpr:
						if x.Op == token.LAND || x.Op == token.LOR {
							collect(x.X)
							collect(x.Y)
							return
						}
					}
					atoms[types.ExprString(e)] = e
				}
				if loopCond != nil {
					collect(loopCond)
				}
				var names []string
				for k := range atoms {
					names = append(names, k)
				}
				sort.Strings(names)
				var ev func(e ast.Expr, asg map[string]bool) bool
				ev = func(e ast.Expr, asg map[string]bool) bool {
					e = ast.Unparen(e)
					switch x := e.(type) {
					case *ast.UnaryExpr:
						if x.Op == token.NOT {
							return !ev(x.X, asg)
						}
					case *ast.BinaryExpr:
						switch x.Op {
						case token.LAND:
							return ev(x.X, asg) && ev(x.Y, asg)
						case token.LOR:
							return ev(x.X, asg) || ev(x.Y, asg)
						}
					}
					return asg[types.ExprString(e)]
				}
				// classification of atoms: "pref is nil" (value when pref == nil), bound atoms (elements remain)
				prefNil := func(e ast.Expr) (is bool, whenTrue bool) {
					be, ok := ast.Unparen(e).(*ast.BinaryExpr)
					if !ok || (be.Op != token.EQL && be.Op != token.NEQ) {
						return false, false
					}
					id, ok := ast.Unparen(be.X).(*ast.Ident)
					if !ok || info.ObjectOf(id) != pref {
						return false, false
					}
					if nid, ok := ast.Unparen(be.Y).(*ast.Ident); !ok || nid.Name != "nil" {
						return false, false
					}
					return true, be.Op == token.EQL
				}
				isBound := func(e ast.Expr) bool {
					be, ok := ast.Unparen(e).(*ast.BinaryExpr)
					return ok && (be.Op == token.LSS || be.Op == token.LEQ || be.Op == token.GTR || be.Op == token.GEQ)
				}
				bad := len(names) > 12
				for m := 0; !bad && m < 1<<len(names); m++ {
					asg := map[string]bool{}
					for i, nm := range names {
						asg[nm] = m&(1<<i) != 0
					}
					// elements remain, the preferred candidate is missing
					applies := true
					for nm, e := range atoms {
						if isBound(e) && !asg[nm] {
							applies = false
						}
						if is, whenTrue := prefNil(e); is && asg[nm] != whenTrue {
							applies = false
						}
					}
					if applies && loopCond != nil && !ev(loopCond, asg) {
						bad = true
					}
				}
				// breaks in the body must be under pref != nil
				pm := parentMap(loop)
				ast.Inspect(loopBody, func(k ast.Node) bool {
					br, ok := k.(*ast.BranchStmt)
					if !ok || br.Tok != token.BREAK {
						return true
					}
					if _, inner := enclosing(pm, br, func(nd ast.Node) bool {
						switch nd.(type) {
						case *ast.SwitchStmt, *ast.TypeSwitchStmt, *ast.SelectStmt:
							return true
						case *ast.ForStmt, *ast.RangeStmt:
							return nd != ast.Node(loop)
						}
						return false
					}).(ast.Stmt); inner {
						return true
					}
					guarded := false
					for _, fct := range enclosingFacts(pm, br) {
						if is, whenTrue := prefNil(fct.expr); is && fct.val != whenTrue {
							guarded = true
						}
					}
					if !guarded {
						bad = true
					}
					return true
				})
				c.Check(rule, fi.Name+"|the search continues until "+pref.Name()+" is found", loop.Pos(), !bad, "%s prefers %s over %s after its loop, but the loop can stop while %s is still nil and elements remain: which candidate is returned then depends on the order in which they are declared, so reordering the source changes the diff itself", fi.Name, pref.Name(), fall.Name(), pref.Name())
			}
		})
	}
	if n < 1 {
		c.Unresolved(rule, "search loops with a preferred and a fallback candidate in the differ packages (sqlx.similarCheck)")
	}
}

// R16o: the scope check counts the schemas a table refers to.
const ruleTextScopeCountsReferences = "the scope check sees every schema a change set touches: sqlx.CheckChangesScope records, next to the schema of each added / modified / dropped table, the schema of the tables its foreign keys reference (a store into the set of schema names whose key is read through ForeignKey.RefTable). With the empty qualifier the planners print REFERENCES \"users\" for a parent in another schema: unless the check rejects the change set, the reference is silently re-homed to the connected schema"

func checkScopeCountsReferences(c *Ctx, rule string) {
	fi := c.Func(rule, pSqlx, "", "CheckChangesScope")
	if fi == nil {
		return
	}
	c.funcs[fi.Name] = true
	// CheckChangesScope and the package-local functions it calls (two levels): a store into a set of
	// names (map keyed by string) whose key is read through ForeignKey.RefTable
	recorded, sets := false, 0
	seen := map[*types.Func]bool{fi.Obj: true}
	type item struct {
		f     *FuncInfo
		depth int
	}
	work := []item{{fi, 0}}
	for len(work) > 0 {
		it := work[0]
		work = work[1:]
		info := it.f.Info()
		body := it.f.Decl.Body
		refAlias := map[types.Object]bool{}
		viaRef := func(e ast.Expr) bool {
			found := false
			ast.Inspect(e, func(k ast.Node) bool {
				switch x := k.(type) {
				case *ast.SelectorExpr:
					if x.Sel.Name == "RefTable" && typeIs(derefType(info.TypeOf(x.X)), pSchema, "ForeignKey") {
						found = true
					}
				case *ast.Ident:
					if refAlias[info.ObjectOf(x)] {
						found = true
					}
				}
				return !found
			})
			return found
		}
		ast.Inspect(body, func(m ast.Node) bool {
			if as, ok := m.(*ast.AssignStmt); ok && len(as.Lhs) == len(as.Rhs) {
				for i, l := range as.Lhs {
					if id, ok := l.(*ast.Ident); ok && info.TypeOf(id) != nil && typeIs(derefType(info.TypeOf(id)), pSchema, "Table") && viaRef(as.Rhs[i]) {
						refAlias[info.ObjectOf(id)] = true
					}
				}
			}
			return true
		})
		ast.Inspect(body, func(m ast.Node) bool {
			if st, ok := m.(ast.Stmt); ok {
				if key, ok := nameSetKey(c, info, st); ok {
					sets++
					if viaRef(key) {
						recorded = true
					}
				}
			}
			switch x := m.(type) {
			case *ast.CallExpr:
				if it.depth < 2 {
					if fn := calleeOf(info, x); fn != nil && fn.Pkg() != nil && fn.Pkg().Path() == pSqlx && !seen[fn] {
						seen[fn] = true
						if hf := c.FuncInfoOf(fn); hf != nil && hf.Decl.Body != nil {
							work = append(work, item{hf, it.depth + 1})
						}
					}
				}
			}
			return true
		})
	}
	if sets == 0 {
		c.Unresolved(rule, "CheckChangesScope: stores into the set of schema names")
		return
	}
	c.Check(rule, "sqlx.CheckChangesScope|the schemas of referenced tables are counted", fi.Decl.Pos(), recorded, "CheckChangesScope never records the schema of a table reached through ForeignKey.RefTable: a table whose foreign key points into another schema passes the one-schema check, and under the empty qualifier the reference is printed without its schema, i.e. re-homed to the connected schema")
}

// qualifierEscapes reports whether the body can be left (return or end) without passing the CFG node that
// contains `node`, along edges none of which implies <x>.URL.Schema == "".
func qualifierEscapes(info *types.Info, body *ast.BlockStmt, node ast.Node) bool {
	f := newFlow(info, body)
	schemaTest := func(e ast.Expr, val bool) (isTest bool, nonEmpty bool) {
		be, ok := ast.Unparen(e).(*ast.BinaryExpr)
		if !ok || (be.Op != token.NEQ && be.Op != token.EQL) {
			return false, false
		}
		str, other := be.Y, be.X
		if s, ok := stringConst(info, be.X); ok && s == "" {
			str, other = be.X, be.Y
		}
		if s, ok := stringConst(info, str); !ok || s != "" {
			return false, false
		}
		if !strings.HasSuffix(types.ExprString(other), ".URL.Schema") {
			return false, false
		}
		return true, (be.Op == token.NEQ) == val
	}
	escaped := false
	seen := map[*cfg.Block]bool{}
	var walk func(b *cfg.Block)
	walk = func(b *cfg.Block) {
		if seen[b] || escaped {
			return
		}
		seen[b] = true
		for _, nd := range b.Nodes {
			if nd.Pos() <= node.Pos() && node.End() <= nd.End() {
				return
			}
			if isReturn(nd) {
				escaped = true
				return
			}
		}
		if len(b.Succs) == 0 {
			escaped = true
			return
		}
		cond, _, _ := condOf(b)
		for si, sb := range b.Succs {
			pruned := false
			if cond != nil && len(b.Succs) == 2 {
				for _, fct := range impliedFacts(cond, si == 0) {
					if is, nonEmpty := schemaTest(fct.expr, fct.val); is && !nonEmpty {
						pruned = true // an edge on which the connection is known not to be schema-bound
					}
				}
			}
			if !pruned {
				walk(sb)
			}
		}
	}
	walk(f.G.Blocks[0])
	return escaped
}

// nameSetKey: the statement records a name in a set keyed by string — `m[k] = …` directly, or `m.add(k)` through a
// method (or package-local function) that stores its parameter as a key of the map it is given. Returns k.
func nameSetKey(c *Ctx, info *types.Info, st ast.Node) (ast.Expr, bool) {
	isNameSet := func(t types.Type) bool {
		if t == nil {
			return false
		}
		mt, ok := t.Underlying().(*types.Map)
		if !ok {
			return false
		}
		b, ok := mt.Key().Underlying().(*types.Basic)
		return ok && b.Kind() == types.String
	}
	switch x := st.(type) {
	case *ast.AssignStmt:
		if len(x.Lhs) == 1 {
			if ix, ok := ast.Unparen(x.Lhs[0]).(*ast.IndexExpr); ok && isNameSet(info.TypeOf(ix.X)) {
				return ix.Index, true
			}
		}
	case *ast.ExprStmt:
		call, ok := ast.Unparen(x.X).(*ast.CallExpr)
		if !ok {
			return nil, false
		}
		hf := c.FuncInfoOf(calleeOf(info, call))
		if hf == nil || hf.Decl.Body == nil {
			return nil, false
		}
		hinfo := hf.Info()
		var params []types.Object
		if hf.Decl.Type.Params != nil {
			for _, fld := range hf.Decl.Type.Params.List {
				for _, nm := range fld.Names {
					params = append(params, hinfo.ObjectOf(nm))
				}
			}
		}
		if len(params) != len(call.Args) {
			return nil, false
		}
		var key ast.Expr
		ast.Inspect(hf.Decl.Body, func(k ast.Node) bool {
			as, ok := k.(*ast.AssignStmt)
			if !ok || len(as.Lhs) != 1 {
				return true
			}
			ix, ok := ast.Unparen(as.Lhs[0]).(*ast.IndexExpr)
			if !ok || !isNameSet(hinfo.TypeOf(ix.X)) {
				return true
			}
			if id, ok := ast.Unparen(ix.Index).(*ast.Ident); ok {
				for pi, po := range params {
					if hinfo.ObjectOf(id) == po {
						key = call.Args[pi]
					}
				}
			}
			return true
		})
		if key != nil {
			return key, true
		}
	}
	return nil, false
}
