package main

// Rules added after the sixth round of independent seeds.

import (
	"go/ast"
	"go/constant"
	"go/token"
	"go/types"
	"strings"
)

// R04m: the expansion of a Modify* change adds the new object and drops the old one.
const ruleTextModifyPolarity = "modify = drop old + add new: wherever a planner expands a schema.Modify{ForeignKey,Index,Check,…} into a drop and an add, the Drop* change is built from the Modify's From and the Add* change from its To (composite literals whose F/I/C/P field is a `.From` / `.To` selection on a *schema.Modify* value; literals stored into a reverse list are the mirror image). Re-adding `change.From` re-creates the foreign key to the OLD parent: the plan then drops that parent while the key still points at it, and the key to the new parent is never declared"

func checkModifyPolarity(c *Ctx, rule string) {
	n := 0
	for _, pp := range []string{pSqlx, pMysql, pPostgres, pSqlite} {
		c.AllFuncs(false, func(fi *FuncInfo) {
			if fi.Pkg.PkgPath != pp || fi.Decl.Body == nil {
				return
			}
			info := fi.Info()
			var stack []ast.Node
			ast.Inspect(fi.Decl.Body, func(m ast.Node) bool {
				if m == nil {
					stack = stack[:len(stack)-1]
					return true
				}
				stack = append(stack, m)
				cl, ok := m.(*ast.CompositeLit)
				if !ok {
					return true
				}
				nt, ok := derefType(info.TypeOf(cl)).(*types.Named)
				if !ok || nt.Obj().Pkg() == nil || nt.Obj().Pkg().Path() != pSchema {
					return true
				}
				kind := ""
				switch {
				case strings.HasPrefix(nt.Obj().Name(), "Add"):
					kind = "To"
				case strings.HasPrefix(nt.Obj().Name(), "Drop"):
					kind = "From"
				default:
					return true
				}
				// a literal that goes into a reverse list is the mirror image
				mirrored := false
				for i := len(stack) - 2; i >= 0 && !mirrored; i-- {
					switch x := stack[i].(type) {
					case *ast.AssignStmt:
						for _, l := range x.Lhs {
							if id := rootIdent(l); id != nil && strings.Contains(strings.ToLower(types.ExprString(l)), "rev") {
								mirrored = true
							}
						}
					case *ast.KeyValueExpr:
						if id, ok := x.Key.(*ast.Ident); ok && strings.Contains(strings.ToLower(id.Name), "rev") {
							mirrored = true
						}
					case *ast.FuncLit:
						i = -1
					}
				}
				for _, el := range cl.Elts {
					kv, ok := el.(*ast.KeyValueExpr)
					if !ok {
						continue
					}
					se, ok := ast.Unparen(kv.Value).(*ast.SelectorExpr)
					if !ok || (se.Sel.Name != "From" && se.Sel.Name != "To") {
						continue
					}
					mt, ok := derefType(info.TypeOf(se.X)).(*types.Named)
					if !ok || mt.Obj().Pkg() == nil || mt.Obj().Pkg().Path() != pSchema || !strings.HasPrefix(mt.Obj().Name(), "Modify") {
						continue
					}
					// same object family: ModifyForeignKey ↔ Add/DropForeignKey
					if strings.TrimPrefix(mt.Obj().Name(), "Modify") != strings.TrimPrefix(strings.TrimPrefix(nt.Obj().Name(), "Add"), "Drop") {
						continue
					}
					n++
					c.funcs[fi.Name] = true
					want := kind
					if mirrored {
						want = map[string]string{"To": "From", "From": "To"}[kind]
					}
					c.Check(rule, fi.Name+"|"+nt.Obj().Name()+" built from "+mt.Obj().Name()+"."+want, kv.Pos(), se.Sel.Name == want,
						"%s builds a schema.%s from %s (expected .%s): the expansion of the modification re-creates the old object / drops the new one, so the drop and create order of the referenced tables no longer matches the keys that really exist", fi.Name, nt.Obj().Name(), types.ExprString(se), want)
				}
				return true
			})
		})
	}
	if n == 0 {
		c.Unresolved(rule, "Add*/Drop* literals built from a Modify*'s From/To")
	}
}

// R11o: file directives are found whatever the comment opener.
const ruleTextDirectiveAnyPrefix = "file directives are recognised under every comment opener: (*LocalFile).Directive hands no constant string (a required prefix such as \"-- \") to the migrate-package matcher it calls; the checkpoint / baseline / txmode decisions read the file header through it, and a header written as `--atlas:checkpoint` or `# atlas:checkpoint` must keep deciding the pending set"

func checkDirectiveAnyPrefix(c *Ctx, rule string) {
	fi := c.Func(rule, pMigrate, "LocalFile", "Directive")
	if fi == nil {
		return
	}
	info := fi.Info()
	n := 0
	for _, call := range callsIn(fi.Decl.Body, true) {
		fn := calleeOf(info, call)
		if fn == nil || fn.Pkg() == nil || fn.Pkg().Path() != pMigrate {
			continue
		}
		sig, _ := fn.Type().(*types.Signature)
		if sig == nil || sig.Params().Len() < 2 {
			continue
		}
		n++
		bad := ""
		for _, a := range call.Args {
			if s, ok := stringConst(info, a); ok && s != "" {
				bad = types.ExprString(a)
			}
		}
		c.Check(rule, fi.Name+"|"+fn.Name()+" gets no required prefix", call.Pos(), bad == "", "%s passes the constant %s to %s: only comments that open exactly like that are searched for the directive, so a checkpoint (or baseline, txmode) header written with another accepted opener is ignored and the pending files are computed as if the directive were absent", fi.Name, bad, fn.Name())
	}
	if n == 0 {
		c.Unresolved(rule, "matcher call in (*LocalFile).Directive")
	}
}

// R19o: a config rebuilt field by field from a config of the same type keeps every field.
const ruleTextConfigSameType = "the exclude/include patterns survive every hop of the state-reader configuration: in the command layer, a composite literal of a struct type T that takes three or more of its fields from one parameter (or local) of type T / *T sets every field of T that carries the patterns or the policy (exclude, include, schemas …: every field of T, since the literal is a copy); the `env://` hop re-enters stateReader with such a config, and a copy that leaves out `exclude` inspects — and then plans DROP TABLE for — the excluded resources"

func checkConfigSameType(c *Ctx, rule string) {
	n := 0
	c.AllFuncs(false, func(fi *FuncInfo) {
		if !strings.HasPrefix(fi.Pkg.PkgPath, modCmd) || fi.Decl.Body == nil {
			return
		}
		info := fi.Info()
		ast.Inspect(fi.Decl.Body, func(m ast.Node) bool {
			cl, ok := m.(*ast.CompositeLit)
			if !ok {
				return true
			}
			nt, ok := derefType(info.TypeOf(cl)).(*types.Named)
			if !ok {
				return true
			}
			st, ok := nt.Underlying().(*types.Struct)
			if !ok {
				return true
			}
			set := map[string]bool{}
			from := map[types.Object]int{}
			for _, el := range cl.Elts {
				kv, ok := el.(*ast.KeyValueExpr)
				if !ok {
					return true
				}
				if id, ok := kv.Key.(*ast.Ident); ok {
					set[id.Name] = true
				}
				if se, ok := ast.Unparen(kv.Value).(*ast.SelectorExpr); ok {
					if id, ok := ast.Unparen(se.X).(*ast.Ident); ok {
						if o := info.ObjectOf(id); o != nil && types.Identical(derefType(o.Type()), nt) {
							from[o]++
						}
					}
				}
			}
			src := 0
			for _, k := range from {
				if k > src {
					src = k
				}
			}
			if src < 3 {
				return true
			}
			n++
			c.funcs[fi.Name] = true
			var missing []string
			for i := 0; i < st.NumFields(); i++ {
				if !set[st.Field(i).Name()] {
					missing = append(missing, st.Field(i).Name())
				}
			}
			c.Check(rule, fi.Name+"|copy of "+nt.Obj().Name()+" keeps every field", cl.Pos(), len(missing) == 0, "%s rebuilds a %s from another value of the same type but leaves out %v: the option is silently reset on the way (with `exclude` dropped, a state given as env://… is inspected without the patterns and the excluded resources are planned)", fi.Name, nt.Obj().Name(), missing)
			return true
		})
	})
	// zero instances on the reference tree (the copy is `cfg := *config`): the positive control is the struct itself
	ok := false
	if p := c.Pkg(pCmdapi); p != nil {
		if o := p.Types.Scope().Lookup("stateReaderConfig"); o != nil {
			if st, isSt := o.Type().Underlying().(*types.Struct); isSt {
				for i := 0; i < st.NumFields(); i++ {
					if st.Field(i).Name() == "exclude" {
						ok = true
					}
				}
			}
		}
	}
	c.Check(rule, "cmdapi|stateReaderConfig carries the exclude patterns (control)", token.NoPos, ok, "cmdapi.stateReaderConfig has no `exclude` field any more: the rule no longer knows where the patterns travel (%d same-type copies examined)", n)
}

// R20l: no hasher / buffer shared between calls.
const ruleTextNoSharedHasher = "per-call state: no package-level variable of the module holds a running hash (a type with Write, Sum, Reset and BlockSize) or a bytes.Buffer / strings.Builder; NewHashFile creates its sha256 state per call — a hasher kept in a package variable is written to by every concurrent directory checksum, so the same directory gets different sums (or sha256 panics) when two are computed at once"

func checkNoSharedHasher(c *Ctx, rule string) {
	isHasher := func(t types.Type) bool {
		want := map[string]bool{"Write": false, "Sum": false, "Reset": false, "BlockSize": false}
		ms := types.NewMethodSet(t)
		for i := 0; i < ms.Len(); i++ {
			if _, ok := want[ms.At(i).Obj().Name()]; ok {
				want[ms.At(i).Obj().Name()] = true
			}
		}
		if it, ok := t.Underlying().(*types.Interface); ok {
			for i := 0; i < it.NumMethods(); i++ {
				if _, ok := want[it.Method(i).Name()]; ok {
					want[it.Method(i).Name()] = true
				}
			}
		}
		for _, v := range want {
			if !v {
				return false
			}
		}
		return true
	}
	isBuf := func(t types.Type) bool {
		t = derefType(t)
		return typeIs(t, "bytes", "Buffer") || typeIs(t, "strings", "Builder")
	}
	seen := map[string]bool{}
	nvars, bad := 0, 0
	c.AllFuncs(false, func(fi *FuncInfo) {
		p := fi.Pkg
		if seen[p.PkgPath] {
			return
		}
		seen[p.PkgPath] = true
		sc := p.Types.Scope()
		for _, name := range sc.Names() {
			v, ok := sc.Lookup(name).(*types.Var)
			if !ok {
				continue
			}
			if pos := c.Fset.Position(v.Pos()); strings.HasSuffix(pos.Filename, "_test.go") {
				continue
			}
			nvars++
			if isHasher(v.Type()) || isBuf(v.Type()) {
				bad++
				c.Check(rule, shortPkg(p.PkgPath)+"."+name+"|package-level hasher/buffer", v.Pos(), false, "package variable %s.%s has type %s: its running state is shared by every call (and every goroutine) that uses it, so the output of one operation depends on what else runs at the same time", shortPkg(p.PkgPath), name, v.Type())
			}
		}
	})
	// positive control: the local hasher of NewHashFile is recognised by the predicate
	ctl := false
	if fi := c.Func(rule, pMigrate, "", "NewHashFile"); fi != nil {
		info := fi.Info()
		ast.Inspect(fi.Decl.Body, func(m ast.Node) bool {
			if id, ok := m.(*ast.Ident); ok {
				if v, ok := info.Defs[id].(*types.Var); ok && isHasher(v.Type()) {
					ctl = true
				}
			}
			return true
		})
		c.funcs[fi.Name] = true
	}
	c.Check(rule, "module|no package-level hasher or buffer", token.NoPos, bad == 0 && ctl && nvars >= 50, "%d of %d package-level variables hold a running hash or buffer (control: NewHashFile's local hasher recognised: %v)", bad, nvars, ctl)
}

// R02u: each side is normalised from itself.
const ruleTextNormaliseOwnSide = "each side is normalised by looking at that side only: in the differ files, in a function with a pair of parameters named from/to (or a/b-style pairs of the same type), an `if` whose body only assigns one of the two parameters tests only that parameter — `if to == \"\" || from == Restrict { to = NoAction }` leaves a RESTRICT on the desired side unfolded, and a schema compared with itself (or with its NO ACTION spelling) reports a foreign-key change that nobody made"

func checkNormaliseOwnSide(c *Ctx, rule string) {
	n := 0
	for _, pp := range []string{pSqlx, pMysql, pPostgres, pSqlite} {
		c.AllFuncs(false, func(fi *FuncInfo) {
			if fi.Pkg.PkgPath != pp || fi.Decl.Body == nil {
				return
			}
			base := c.Fset.Position(fi.Decl.Pos()).Filename
			base = base[strings.LastIndex(base, "/")+1:]
			if !strings.HasPrefix(base, "diff") {
				return
			}
			info := fi.Info()
			var from, to types.Object
			for _, fld := range fi.Decl.Type.Params.List {
				for _, nm := range fld.Names {
					switch nm.Name {
					case "from":
						from = info.ObjectOf(nm)
					case "to":
						to = info.ObjectOf(nm)
					}
				}
			}
			if from == nil || to == nil || !types.Identical(from.Type(), to.Type()) {
				return
			}
			ast.Inspect(fi.Decl.Body, func(m ast.Node) bool {
				is, ok := m.(*ast.IfStmt)
				if !ok || is.Else != nil || is.Init != nil || len(is.Body.List) == 0 {
					return true
				}
				var target types.Object
				for _, st := range is.Body.List {
					as, ok := st.(*ast.AssignStmt)
					if !ok || len(as.Lhs) != 1 || as.Tok != token.ASSIGN {
						return true
					}
					id, ok := as.Lhs[0].(*ast.Ident)
					if !ok {
						return true
					}
					o := info.ObjectOf(id)
					if (o != from && o != to) || (target != nil && target != o) {
						return true
					}
					target = o
					// the new value must not be computed from the other side either (that would be a copy, not a normalisation)
					other := from
					if o == from {
						other = to
					}
					uses := false
					ast.Inspect(as.Rhs[0], func(k ast.Node) bool {
						if id, ok := k.(*ast.Ident); ok && info.ObjectOf(id) == other {
							uses = true
						}
						return true
					})
					if uses {
						return true
					}
				}
				other := from
				if target == from {
					other = to
				}
				mentions := false
				ast.Inspect(is.Cond, func(k ast.Node) bool {
					if id, ok := k.(*ast.Ident); ok && info.ObjectOf(id) == other {
						mentions = true
					}
					return true
				})
				n++
				c.funcs[fi.Name] = true
				c.Check(rule, fi.Name+"|normalisation of "+target.Name()+" decided by "+target.Name(), is.Pos(), !mentions, "%s rewrites %s under a condition that reads %s (%s): the two sides are no longer normalised alike, so equal inputs can compare as different (spurious change) or different ones as equal (missed change)", fi.Name, target.Name(), other.Name(), types.ExprString(is.Cond))
				return true
			})
		})
	}
	if n == 0 {
		c.Unresolved(rule, "one-sided normalisations of from/to parameters in the differ files")
	}
}

// R07m: a dialect scanned with backslash escapes writes its literals with backslashes escaped.
const ruleTextBackslashBothWays = "escape/scan agreement, the other direction (R07d): a dialect whose Driver.ScanStmts enables BackslashEscapes produces its quoted literals through strconv.Quote or an explicit replacement of the backslash; a `quote` that escapes only the double quote writes a comment ending in `\\` as \"…\\\" — the scanner reads `\\\"` as an escaped quote, the literal never ends and the file no longer scans back into the planned statements"

func checkBackslashBothWays(c *Ctx, rule string) {
	n := 0
	for _, pp := range []string{pMysql, pPostgres, pSqlite} {
		sc := c.LookupFunc(pp, "Driver", "ScanStmts")
		if sc == nil {
			continue
		}
		enabled := false
		ast.Inspect(sc.Decl.Body, func(m ast.Node) bool {
			if kv, ok := m.(*ast.KeyValueExpr); ok {
				if id, ok := kv.Key.(*ast.Ident); ok && id.Name == "BackslashEscapes" {
					if v, ok := ast.Unparen(kv.Value).(*ast.Ident); ok && v.Name == "true" {
						enabled = true
					}
				}
			}
			return true
		})
		if !enabled {
			continue
		}
		c.AllFuncs(false, func(fi *FuncInfo) {
			if fi.Pkg.PkgPath != pp || fi.Decl.Name.Name != "quote" || fi.Decl.Recv != nil || fi.Decl.Body == nil {
				return
			}
			info := fi.Info()
			escapes := false
			for _, call := range callsIn(fi.Decl.Body, true) {
				fn := calleeOf(info, call)
				if fn == nil || fn.Pkg() == nil {
					continue
				}
				if fn.Pkg().Path() == "strconv" && (fn.Name() == "Quote" || fn.Name() == "AppendQuote") {
					escapes = true
				}
				if fn.Pkg().Path() == "strings" && strings.HasPrefix(fn.Name(), "Replace") || fn.Name() == "NewReplacer" {
					for _, a := range call.Args {
						if s, ok := stringConst(info, a); ok && s == `\` {
							escapes = true
						}
					}
				}
			}
			n++
			c.funcs[fi.Name] = true
			c.Check(rule, fi.Name+"|backslash escaped where the scanner honours it", fi.Decl.Pos(), escapes, "%s scans statements with BackslashEscapes but %s neither calls strconv.Quote nor replaces the backslash: a literal ending in a backslash swallows its closing quote when the migration file is read back", shortPkg(pp), fi.Name)
		})
	}
	if n == 0 {
		c.Unresolved(rule, "quote helper of a dialect scanned with BackslashEscapes")
	}
}

// R02t: a cutset that mentions the string it trims removes everything.
const ruleTextTrimSelfCutset = "no self-defeating trim: no strings.TrimLeft / TrimRight / Trim call in the module passes a cutset expression that mentions the very string being trimmed (`TrimLeft(s, s+\"_\")` is always \"\"); in mysql IsGeneratedIndexName that made the numeric suffix of `functional_index_N` unparsable, so the server-generated names of the second, third … expression index were not recognised and an unchanged table diffed as DROP INDEX + ADD INDEX (D50)"

func checkTrimSelfCutset(c *Ctx, rule string) {
	n := 0
	c.AllFuncs(false, func(fi *FuncInfo) {
		if fi.Decl.Body == nil {
			return
		}
		info := fi.Info()
		for _, call := range callsIn(fi.Decl.Body, true) {
			fn := calleeOf(info, call)
			if fn == nil || fn.Pkg() == nil || fn.Pkg().Path() != "strings" || len(call.Args) != 2 {
				continue
			}
			switch fn.Name() {
			case "TrimLeft", "TrimRight", "Trim":
			default:
				continue
			}
			n++
			subj := types.ExprString(ast.Unparen(call.Args[0]))
			if _, isConst := stringConst(info, call.Args[0]); isConst {
				continue
			}
			self := false
			ast.Inspect(call.Args[1], func(k ast.Node) bool {
				if e, ok := k.(ast.Expr); ok && types.ExprString(e) == subj {
					self = true
				}
				return true
			})
			if self {
				c.funcs[fi.Name] = true
				c.Check(rule, fi.Name+"|"+fn.Name()+" cutset mentions its subject", call.Pos(), false, "%s calls strings.%s(%s, %s): every character of the subject is in the cutset, the result is always empty", fi.Name, fn.Name(), subj, types.ExprString(call.Args[1]))
			}
		}
	})
	c.Check(rule, "module|no cutset mentions its subject", token.NoPos, n >= 5, "only %d strings.Trim/TrimLeft/TrimRight calls found in the module (expected at least 5): the rule no longer sees the calls it is about", n)
}

// R03t: the SQLite inspector takes both of SQLite's string quotes for a literal.
const ruleTextSqliteDefaultQuotes = "reader/engine agreement on string defaults (SQLite inspector): defaultExpr classifies a stored default as a literal through sqlx.IsQuoted with BOTH quote characters SQLite accepts for strings (' and the legacy \"); with one of them missing, `DEFAULT \"active\"` is inspected as a raw expression, exported as DEFAULT (\"active\") and rejected by an empty database (`default value of column is not constant`), so the SQL export no longer recreates the database"

func checkSqliteDefaultQuotes(c *Ctx, rule string) {
	fi := c.Func(rule, pSqlite, "", "defaultExpr")
	if fi == nil {
		return
	}
	have := map[int64]bool{}
	var pos token.Pos = fi.Decl.Pos()
	visit := func(f *FuncInfo) {
		for _, call := range callsIn(f.Decl.Body, true) {
			fn := calleeOf(f.Info(), call)
			if fn == nil || !funcIs(fn, pSqlx, "", "IsQuoted") {
				continue
			}
			pos = call.Pos()
			for _, a := range call.Args[1:] {
				if tv, ok := f.Info().Types[a]; ok && tv.Value != nil {
					if v, ok := constantInt64(tv.Value); ok {
						have[v] = true
					}
				}
			}
		}
	}
	visit(fi)
	// package-local helpers it calls (a predicate extracted from the case list)
	for _, call := range callsIn(fi.Decl.Body, true) {
		if fn := calleeOf(fi.Info(), call); fn != nil && fn.Pkg() != nil && fn.Pkg().Path() == pSqlite {
			if hf := c.FuncInfoOf(fn); hf != nil && hf.Decl.Body != nil && hf.Obj != fi.Obj {
				visit(hf)
			}
		}
	}
	if len(have) == 0 {
		c.Unresolved(rule, "sqlx.IsQuoted call in sqlite.defaultExpr")
		return
	}
	c.Check(rule, fi.Name+"|literal for both ' and \" quoted defaults", pos, have['\''] && have['"'], "%s recognises quoted defaults for the quote characters %v only: SQLite stores string defaults written with ' and with \", and the one that is not recognised is exported as an expression default the engine rejects", fi.Name, quoteSet(have))
}

func quoteSet(m map[int64]bool) []string {
	var out []string
	for _, q := range []int64{'\'', '"', '`'} {
		if m[q] {
			out = append(out, string(rune(q)))
		}
	}
	return out
}

// R06l: the sum file is read whole.
const ruleTextSumReadWhole = "the stored sum is read in full: no function of sql/migrate wraps a reader in io.LimitReader / io.LimitedReader or copies a bounded amount (io.CopyN, io.ReadFull, io.ReadAtLeast) — readHashFile hands the whole atlas.sum to UnmarshalText; a cap on the bytes read makes the stored sum of a large directory (≈ 12 000 files ≈ 1 MiB) end mid-line, and an untouched, freshly hashed directory fails validation"

func checkSumReadWhole(c *Ctx, rule string) {
	n, readers := 0, 0
	c.AllFuncs(false, func(fi *FuncInfo) {
		if fi.Pkg.PkgPath != pMigrate || fi.Decl.Body == nil {
			return
		}
		info := fi.Info()
		for _, call := range callsIn(fi.Decl.Body, true) {
			fn := calleeOf(info, call)
			if fn == nil || fn.Pkg() == nil || fn.Pkg().Path() != "io" {
				continue
			}
			switch fn.Name() {
			case "ReadAll":
				readers++
			case "LimitReader", "CopyN", "ReadFull", "ReadAtLeast":
				n++
				c.funcs[fi.Name] = true
				c.Check(rule, fi.Name+"|io."+fn.Name(), call.Pos(), false, "%s reads through io.%s: a file of the migration directory (or its sum file) longer than the bound is cut short, and the directory no longer validates against the sum Atlas itself wrote", fi.Name, fn.Name())
			}
		}
		ast.Inspect(fi.Decl.Body, func(m ast.Node) bool {
			if cl, ok := m.(*ast.CompositeLit); ok && typeIs(derefType(info.TypeOf(cl)), "io", "LimitedReader") {
				n++
				c.Check(rule, fi.Name+"|io.LimitedReader", cl.Pos(), false, "%s builds an io.LimitedReader: bounded read of a directory file", fi.Name)
			}
			return true
		})
	})
	rh := c.Func(rule, pMigrate, "", "readHashFile")
	whole := false
	if rh != nil {
		for _, call := range callsIn(rh.Decl.Body, true) {
			if fn := calleeOf(rh.Info(), call); fn != nil && fn.Pkg() != nil && (fn.Pkg().Path() == "io" && fn.Name() == "ReadAll" || fn.Pkg().Path() == "os" && fn.Name() == "ReadFile" || fn.Pkg().Path() == "io/fs" && fn.Name() == "ReadFile") {
				whole = true
			}
		}
	}
	c.Check(rule, "migrate|sum file read whole, no bounded reads", token.NoPos, n == 0 && whole && readers >= 1, "%d bounded reads in sql/migrate; readHashFile reads the file whole: %v (io.ReadAll calls in the package: %d)", n, whole, readers)
}

func constantInt64(v constant.Value) (int64, bool) {
	if v.Kind() != constant.Int {
		return 0, false
	}
	return constant.Int64Val(v)
}
