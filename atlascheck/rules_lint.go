package main

import (
	"go/ast"
	"go/token"
	"go/types"
	"strings"
)

func init() {
	register("C18", &propCheck{
		explanation: "Decision-table and ordering rules around the destructive-change analyzer. (a) Every registered driver analyzer list contains the destructive analyzer, whose default is to fail (Error = true). (b) The analyzer has a reporting branch for DropSchema, DropTable and ModifyTable→DropColumn; every diagnostic takes its position from the statement of the change being examined; an object is exempt only when its life span is exactly `temporary` (created and dropped in the file); a non-empty diagnostic list always reaches WriteReport and, with Error set, a non-nil return. (c) For SQLite the pass that merges the new_<table> rebuild into one ModifyTable runs before every analyzer that reads the changes. (d) Changes are derived per statement: execute, inspect, diff against the state before the statement, record the change with that statement, advance the state; the whole-file shortcut is used only for the first file when there is no base. (e) The lint runner records analyzer errors per file.",
		undecided:   []string{"what SQLite and the inspector actually report for a given SQL text (the heart of the property: whether a drop is seen at all)", "span tracking arithmetic in sqlcheck.File for every sequence", "the --latest window selection"},
		run:         runC18,
	})
}

func runC18(c *Ctx) {
	c.Rule("R18a", "registry: the analyzer list of every driver check package (mysqlcheck, postgrescheck, sqlitecheck) contains destructive.New's result; destructive.New defaults Error to true", 4)
	c.Rule("R18b", "decision table: destructive.Analyze reports DropSchema, DropTable and ModifyTable→DropColumn; each Diagnostic's Pos is the Stmt.Pos of the change being examined; exemptions compare a span with SpanTemporary (or the schema span with SpanDropped) for equality; non-empty diagnostics reach WriteReport and, with Error, a non-nil return", 5)
	c.Rule("R18c", "sqlite: in the list returned by sqlitecheck.analyzers the element that rewrites Pass.File.Changes (merge of the table rebuild) precedes every other analyzer", 1)
	c.Rule("R18d", "per-statement derivation in DevLoader.nextStmts: ExecContext ≺ inspect ≺ RealmDiff(state before, state after) ≺ append of a Change carrying this statement ≺ state advanced; DevLoader.LoadChanges uses the whole-file shortcut `first` only under len(base) == 0 for the first file", 6)
	c.Rule("R18e", "the lint runner appends every analyzer error of a file to the file report and keeps analysing the other analyzers", 2)

	c.Rule("R18g", "life-span lattice: in sql/sqlcheck every write of the constant SpanDropped to a ResourceSpan accumulates (`|=`, or `x = x | SpanDropped`), so an object added and dropped by the same file reaches SpanTemporary (Added|Dropped) — the value the destructive analyzer's exemption compares with — and a write of SpanAdded never clears it after a drop in the same switch arm", 3)
	checkSpanAccumulates(c, "R18g")
	c.Rule("R18k", ruleTextNolintLocal, 2)
	checkNolintLocal(c, "R18k")
	c.Rule("R18l", ruleTextDefaultUnconditional, 1)
	checkDefaultUnconditional(c, "R18l")
	c.Rule("R18i", ruleTextChangePerStmt, 1)
	checkChangePerStmt(c, "R18i")
	c.Rule("R18j", ruleTextTrimCutset, 1)
	checkTrimCutset(c, "R18j")
	c.Rule("R18h", "state threading: every DevLoader method that executes the statements of a file and returns the realm after it returns, on each success return, a realm derived from an inspection (the result of d.inspect, a variable with a definition copied from one, or the result of a sibling method under the same rule) — never only the `start` realm it was given", 3)
	checkRealmThreading(c, "R18h")
	c.Rule("R18f", ruleTextWindowGuard, 1)
	checkWindowGuard(c, "R18f")

	// ---- R18a
	for _, pp := range []string{modRoot + "/sql/mysql/mysqlcheck", modRoot + "/sql/postgres/postgrescheck", modRoot + "/sql/sqlite/sqlitecheck"} {
		fi := c.Func("R18a", pp, "", "analyzers")
		if fi == nil {
			continue
		}
		info := fi.Info()
		var dsObj types.Object
		ast.Inspect(fi.Decl.Body, func(m ast.Node) bool {
			if as, ok := m.(*ast.AssignStmt); ok && len(as.Rhs) == 1 {
				if call, ok := as.Rhs[0].(*ast.CallExpr); ok && funcIs(calleeOf(info, call), pSqlcheck+"/destructive", "", "New") {
					if id, ok := as.Lhs[0].(*ast.Ident); ok {
						dsObj = info.ObjectOf(id)
					}
				}
			}
			return true
		})
		inList := false
		ast.Inspect(fi.Decl.Body, func(m ast.Node) bool {
			r, ok := m.(*ast.ReturnStmt)
			if !ok || len(r.Results) != 2 {
				return true
			}
			if cl, ok := r.Results[0].(*ast.CompositeLit); ok {
				for _, e := range cl.Elts {
					if id, ok := e.(*ast.Ident); ok && dsObj != nil && info.ObjectOf(id) == dsObj {
						inList = true
					}
				}
			}
			return true
		})
		c.Check("R18a", shortPkg(pp)+"|destructive analyzer registered", fi.Decl.Pos(), dsObj != nil && inList, "%s.analyzers no longer returns the destructive analyzer", shortPkg(pp))
	}
	if nf := c.Func("R18a", pSqlcheck+"/destructive", "", "New"); nf != nil {
		info := nf.Info()
		def := false
		isTruePtr := func(e ast.Expr) bool {
			if call, ok := ast.Unparen(e).(*ast.CallExpr); ok && len(call.Args) == 1 {
				if tv := info.Types[call.Args[0]]; tv.Value != nil && tv.Value.String() == "true" {
					return true
				}
			}
			return false
		}
		ast.Inspect(nf.Decl.Body, func(m ast.Node) bool {
			switch x := m.(type) {
			case *ast.AssignStmt:
				if len(x.Lhs) == 1 && len(x.Rhs) == 1 {
					if se, ok := x.Lhs[0].(*ast.SelectorExpr); ok && se.Sel.Name == "Error" && isTruePtr(x.Rhs[0]) {
						def = true
					}
				}
			case *ast.KeyValueExpr:
				// the default given in the literal that builds the analyzer (Options{Error: sqlx.P(true)})
				if id, ok := x.Key.(*ast.Ident); ok && id.Name == "Error" && isTruePtr(x.Value) {
					def = true
				}
			}
			return true
		})
		c.Check("R18a", "destructive.New|Error defaults to true", nf.Decl.Pos(), def, "destructive.New must default Options.Error to true so that a destructive file fails the lint")
	}

	// ---- R18b
	if af := c.Func("R18b", pSqlcheck+"/destructive", "Analyzer", "Analyze"); af != nil {
		info := af.Info()
		cases, _ := caseTypes(info, af.Decl.Body, isChangeType)
		for _, k := range []string{"DropSchema", "DropTable", "ModifyTable"} {
			c.Check("R18b", "Analyze|case "+k, af.Decl.Pos(), cases[k], "the destructive analyzer has no case for %s", k)
		}
		dropCol := false
		ast.Inspect(af.Decl.Body, func(m ast.Node) bool {
			if ta, ok := m.(*ast.TypeAssertExpr); ok && ta.Type != nil && typeIs(info.TypeOf(ta.Type), pSchema, "DropColumn") {
				dropCol = true
			}
			return true
		})
		c.Check("R18b", "Analyze|ModifyTable→DropColumn", af.Decl.Pos(), dropCol, "the destructive analyzer no longer looks for DropColumn inside ModifyTable")
		// outer loop variable over p.File.Changes
		var scObj types.Object
		ast.Inspect(af.Decl.Body, func(m ast.Node) bool {
			if rs, ok := m.(*ast.RangeStmt); ok && scObj == nil && isField(info, rs.X, pSqlcheck, "File", "Changes") {
				if v, ok := rs.Value.(*ast.Ident); ok {
					scObj = info.ObjectOf(v)
				}
			}
			return true
		})
		nDiag := 0
		ast.Inspect(af.Decl.Body, func(m ast.Node) bool {
			cl, ok := m.(*ast.CompositeLit)
			if !ok || !typeIs(info.TypeOf(cl), pSqlcheck, "Diagnostic") {
				return true
			}
			nDiag++
			posOK := false
			for _, e := range cl.Elts {
				if kv, ok := e.(*ast.KeyValueExpr); ok && kv.Key.(*ast.Ident).Name == "Pos" {
					if se, ok := kv.Value.(*ast.SelectorExpr); ok && se.Sel.Name == "Pos" {
						if in, ok := se.X.(*ast.SelectorExpr); ok && in.Sel.Name == "Stmt" {
							if x, ok := in.X.(*ast.Ident); ok && info.ObjectOf(x) == scObj {
								posOK = true
							}
						}
					}
				}
			}
			c.Check("R18b", "Analyze|Diagnostic#"+itoa(nDiag)+" positioned at the examined statement", cl.Pos(), posOK, "a destructive diagnostic does not take its Pos from the statement of the change being examined (sc.Stmt.Pos)")
			return true
		})
		// span exemptions
		ast.Inspect(af.Decl.Body, func(m ast.Node) bool {
			call, ok := m.(*ast.CallExpr)
			if !ok {
				return true
			}
			fn := calleeOf(info, call)
			if fn == nil || recvTypeName(fn) != "File" || !strings.HasSuffix(fn.Name(), "Span") {
				return true
			}
			pm := parentMap(af.Decl.Body)
			be, isBin := pm[call].(*ast.BinaryExpr)
			okShape := false
			if isBin && (be.Op == token.EQL || be.Op == token.NEQ) {
				other := be.Y
				if be.Y == ast.Expr(call) {
					other = be.X
				}
				name := types.ExprString(other)
				switch {
				case strings.HasSuffix(name, "SpanTemporary"):
					okShape = true
				case strings.HasSuffix(name, "SpanDropped") && fn.Name() == "SchemaSpan":
					okShape = true
				}
			}
			c.Check("R18b", "Analyze|"+fn.Name()+" exemption is equality with SpanTemporary", call.Pos(), okShape, "the life span returned by %s is not compared for equality with SpanTemporary: an object that existed before the file and is dropped (even if something with its name is added again) must be reported", fn.Name())
			return true
		})
		// report + error
		f := newFlow(info, af.Decl.Body)
		var starts []point
		for _, b := range f.G.Blocks {
			cond, t, _ := condOf(b)
			if be, ok := cond.(*ast.BinaryExpr); ok && be.Op == token.GTR && lenArg(info, be.X) != nil {
				starts = append(starts, point{t, 0})
			}
		}
		if len(starts) == 0 {
			c.Unresolved("R18b", "Analyze: `if len(diags) > 0`")
		} else {
			isReport := f.callNode(func(fn *types.Func, _ *ast.CallExpr) bool { return fn.Name() == "WriteReport" })
			n, found := f.reach(starts, isReport, isReturn, true)
			c.Check("R18b", "Analyze|diagnostics reach WriteReport", nodePos(n, af.Decl.Pos()), !found, "with diagnostics collected the analyzer can return without writing the report")
			hasErr := false
			ast.Inspect(af.Decl.Body, func(m ast.Node) bool {
				ifs, ok := m.(*ast.IfStmt)
				if !ok || !strings.Contains(types.ExprString(ifs.Cond), ".Error") {
					return true
				}
				for _, st := range ifs.Body.List {
					if r, ok := st.(*ast.ReturnStmt); ok && len(r.Results) == 1 && !isNilIdent(info, r.Results[0]) {
						hasErr = true
					}
				}
				return true
			})
			c.Check("R18b", "Analyze|Error option turns the report into a failure", af.Decl.Pos(), hasErr, "with Options.Error set the analyzer must return a non-nil error after reporting")
		}
	}

	// ---- R18c
	if fi := c.Func("R18c", modRoot+"/sql/sqlite/sqlitecheck", "", "analyzers"); fi != nil {
		info := fi.Info()
		ok := false
		ast.Inspect(fi.Decl.Body, func(m ast.Node) bool {
			r, isRet := m.(*ast.ReturnStmt)
			if !isRet || len(r.Results) != 2 {
				return true
			}
			cl, isLit := r.Results[0].(*ast.CompositeLit)
			if !isLit || len(cl.Elts) < 2 {
				return true
			}
			// first element rewrites p.File.Changes
			rewrites := false
			ast.Inspect(cl.Elts[0], func(k ast.Node) bool {
				if as, isAs := k.(*ast.AssignStmt); isAs {
					for _, l := range as.Lhs {
						if isField(info, l, pSqlcheck, "File", "Changes") {
							rewrites = true
						}
					}
				}
				return true
			})
			laterRewrites := false
			for _, e := range cl.Elts[1:] {
				ast.Inspect(e, func(k ast.Node) bool {
					if as, isAs := k.(*ast.AssignStmt); isAs {
						for _, l := range as.Lhs {
							if isField(info, l, pSqlcheck, "File", "Changes") {
								laterRewrites = true
							}
						}
					}
					return true
				})
			}
			ok = rewrites && !laterRewrites
			return true
		})
		c.Check("R18c", "sqlitecheck.analyzers|rebuild merge runs first", fi.Decl.Pos(), ok, "the analyzer that merges the new_<table> rebuild into a ModifyTable must be the first element of the list: the destructive analyzer would otherwise see a DROP TABLE of the real table (false positive) or miss the dropped column")
	}

	// ---- R18d
	if fi := c.Func("R18d", pLint, "DevLoader", "nextStmts"); fi != nil {
		checkPerStatementStep(c, fi)
	}
	if fi := c.Func("R18d", pLint, "DevLoader", "LoadChanges"); fi != nil {
		info := fi.Info()
		pm := parentMap(fi.Decl.Body)
		n := 0
		ast.Inspect(fi.Decl.Body, func(m ast.Node) bool {
			call, ok := m.(*ast.CallExpr)
			if !ok || !funcIs(calleeOf(info, call), pLint, "DevLoader", "first") {
				return true
			}
			n++
			guarded := false
			child := ast.Node(call)
			baseEmpty, firstFile := false, false
			for p := pm[call]; p != nil; child, p = p, pm[p] {
				ifs, ok := p.(*ast.IfStmt)
				if !ok {
					continue
				}
				var facts []fact
				switch {
				case ifs.Body.Pos() <= child.Pos() && child.End() <= ifs.Body.End():
					facts = impliedFacts(ifs.Cond, true)
				case ifs.Else != nil && ifs.Else.Pos() <= child.Pos() && child.End() <= ifs.Else.End():
					facts = impliedFacts(ifs.Cond, false)
				}
				for _, fct := range facts {
					// facts that make a non-negative integer zero: x == 0 holds; x > 0, x != 0, x >= 1 fail
					be, ok := ast.Unparen(fct.expr).(*ast.BinaryExpr)
					if !ok {
						continue
					}
					tv := info.Types[be.Y]
					if tv.Value == nil {
						continue
					}
					k := tv.Value.String()
					zero := be.Op == token.EQL && fct.val && k == "0" ||
						be.Op == token.NEQ && !fct.val && k == "0" ||
						be.Op == token.GTR && !fct.val && k == "0" ||
						be.Op == token.GEQ && !fct.val && k == "1" ||
						be.Op == token.LSS && fct.val && k == "1" ||
						be.Op == token.LEQ && fct.val && k == "0"
					if !zero {
						continue
					}
					if a := lenArg(info, be.X); a != nil && types.ExprString(a) == "base" {
						baseEmpty = true
					} else if _, isID := ast.Unparen(be.X).(*ast.Ident); isID {
						firstFile = true
					}
				}
			}
			if baseEmpty && firstFile {
				guarded = true
			}
			c.Check("R18d", "LoadChanges|whole-file shortcut only for the first file without a base", call.Pos(), guarded, "DevLoader.first (one diff for the whole file, position 0) is used on a path that does not establish len(base) == 0 and i == 0: drops inside the file are merged away or mis-positioned when earlier files exist")
			return true
		})
		if n == 0 {
			c.Note("LoadChanges no longer calls first(): nothing to check for the shortcut")
			c.Check("R18d", "LoadChanges|no whole-file shortcut", fi.Decl.Pos(), true, "")
		}
	}

	// ---- R18e
	if fi := c.Func("R18e", pLint, "Runner", "analyze"); fi != nil {
		info := fi.Info()
		appends, joins := false, false
		ast.Inspect(fi.Decl.Body, func(m ast.Node) bool {
			switch x := m.(type) {
			case *ast.AssignStmt:
				if len(x.Rhs) == 1 {
					if call, ok := x.Rhs[0].(*ast.CallExpr); ok && builtinName(info, call) == "append" && len(call.Args) == 2 {
						if strings.HasSuffix(types.ExprString(call.Args[1]), ".Error()") {
							appends = true
						}
					}
					if se, ok := x.Lhs[0].(*ast.SelectorExpr); ok && se.Sel.Name == "Error" && isField(info, se, pLint, "FileReport", "Error") {
						joins = true
					}
				}
			}
			return true
		})
		c.Check("R18e", "Runner.analyze|analyzer errors collected", fi.Decl.Pos(), appends, "analyzer errors are no longer collected per file")
		c.Check("R18e", "Runner.analyze|file report carries the errors", fi.Decl.Pos(), joins, "the file report's Error is no longer set from the collected analyzer errors (the exit status depends on it)")
	}
}

func enclosingLoopOf(fi *FuncInfo, n ast.Node) ast.Node {
	pm := parentMap(fi.Decl.Body)
	// n is a CFG node; find it in the AST
	return enclosing(pm, n, isLoop)
}
