// atlascheck decides structural necessary conditions of the 20 given
// properties of ariga/atlas by static analysis of /repo's current source.
package main

import (
	"flag"
	"fmt"
	"os"
	"path/filepath"
	"runtime/debug"
	"sort"
	"strconv"
	"strings"
)

type propCheck struct {
	explanation string
	undecided   []string
	run         func(c *Ctx)
}

var props = map[string]*propCheck{}

func register(id string, p *propCheck) { props[id] = p }

func main() {
	prop := flag.String("prop", "", "property id (C01..C20)")
	tier := flag.String("tier", "quick", "quick|thorough")
	repo := flag.String("repo", envOr("ATLAS_REPO", "/repo"), "path of the atlas working tree")
	verif := flag.String("verif", envOr("VERIF_DIR", "/verif"), "path of /verif")
	list := flag.Bool("list", false, "list properties")
	overlayDir := flag.String("overlay-dir", "", "directory mirroring repo-relative paths whose files replace the working-tree files (self-validation)")
	outDir := flag.String("out", "", "write evidence/replay files under this directory instead of <verif>/evidence (self-validation children)")
	flag.Parse()
	childOverlayDir, childOutDir = *overlayDir, *outDir
	if *list {
		var ids []string
		for id := range props {
			ids = append(ids, id)
		}
		sort.Strings(ids)
		for _, id := range ids {
			fmt.Println(id)
		}
		return
	}
	if t := os.Getenv("VERIF_TIER"); t != "" && !isFlagSet("tier") {
		*tier = t
	}
	seed, _ := strconv.Atoi(os.Getenv("VERIF_SEED"))
	p := props[*prop]
	if p == nil {
		fmt.Fprintf(os.Stderr, "unknown property %q\n", *prop)
		os.Exit(2)
	}
	os.Exit(runProp(*prop, *tier, seed, *repo, *verif, p))
}

var childOverlayDir, childOutDir string

func runProp(id, tier string, seed int, repo, verif string, p *propCheck) (code int) {
	var overlay map[string][]byte
	if childOverlayDir != "" {
		overlay = map[string][]byte{}
		filepath.Walk(childOverlayDir, func(path string, info os.FileInfo, err error) error {
			if err != nil || info.IsDir() || !strings.HasSuffix(path, ".go") {
				return nil
			}
			rel, _ := filepath.Rel(childOverlayDir, path)
			if strings.HasPrefix(rel, "out"+string(filepath.Separator)) {
				return nil
			}
			b, err := os.ReadFile(path)
			if err == nil {
				overlay[filepath.Join(repo, rel)] = b
			}
			return nil
		})
	}
	c, err := Load(repo, overlay)
	if err != nil {
		// A tree that cannot be loaded is a failed check, never a pass.
		c = &Ctx{Repo: repo, byPath: map[string]*packagesPkg{}, ruleIx: map[string]*RuleInfo{}, funcs: map[string]bool{}}
		c.start = timeNow()
		c.Prop, c.Tier, c.Seed = id, tier, seed
		c.Unresolved("LOAD", err.Error())
		return c.Finish(verif, p.explanation, p.undecided, nil)
	}
	c.Prop, c.Tier, c.Seed = id, tier, seed
	func() {
		defer func() {
			if r := recover(); r != nil {
				if a, ok := r.(abort); ok {
					c.Unresolved("ABORT", a.msg)
					return
				}
				c.Unresolved("PANIC", fmt.Sprintf("%v\n%s", r, debug.Stack()))
			}
		}()
		p.run(c)
	}()
	var extra map[string]any
	if tier == "thorough" && childOverlayDir == "" {
		extra = map[string]any{"self_validation": selfValidate(c, id, verif), "negative_controls": negativeControls(c, id, verif)}
	}
	if childOutDir != "" {
		c.outDir = childOutDir
	}
	return c.Finish(verif, p.explanation, p.undecided, extra)
}

func envOr(k, d string) string {
	if v := os.Getenv(k); v != "" {
		return v
	}
	return d
}

func isFlagSet(name string) bool {
	set := false
	flag.Visit(func(f *flag.Flag) {
		if f.Name == name {
			set = true
		}
	})
	return set
}
