package main

import (
	"fmt"
	"go/ast"
	"go/constant"
	"go/token"
	"go/types"
	"sort"
	"strings"

	"golang.org/x/tools/go/cfg"
	"golang.org/x/tools/go/types/typeutil"
)

// ---------------------------------------------------------------- callee resolution

// calleeOf resolves the static callee or the interface method of a call.
func calleeOf(info *types.Info, call *ast.CallExpr) *types.Func {
	if f, ok := typeutil.Callee(info, call).(*types.Func); ok {
		return f.Origin()
	}
	return nil
}

// builtinName returns the name of the builtin called, or "".
func builtinName(info *types.Info, call *ast.CallExpr) string {
	if b, ok := typeutil.Callee(info, call).(*types.Builtin); ok {
		return b.Name()
	}
	return ""
}

// recvTypeName returns the name of the receiver's named type (without
// pointer), or "" for plain functions.
func recvTypeName(fn *types.Func) string {
	sig, ok := fn.Type().(*types.Signature)
	if !ok || sig.Recv() == nil {
		return ""
	}
	t := sig.Recv().Type()
	if p, ok := t.(*types.Pointer); ok {
		t = p.Elem()
	}
	switch n := t.(type) {
	case *types.Named:
		return n.Obj().Name()
	case *types.Alias:
		return n.Obj().Name()
	}
	return ""
}

// funcIs reports whether fn is pkgPath.(recv).name. recv "" means a plain
// function; recv "*" matches any receiver.
func funcIs(fn *types.Func, pkgPath, recv, name string) bool {
	if fn == nil || fn.Name() != name || fn.Pkg() == nil || fn.Pkg().Path() != pkgPath {
		return false
	}
	if recv == "*" {
		return true
	}
	if recvTypeName(fn) == recv {
		return true
	}
	// a method turned into a package function of the same name (the receiver became a parameter) is the same anchor
	if recv == "" || recvTypeName(fn) != "" {
		return false
	}
	if methodlessAnchor[pkgPath+"."+name] {
		return true
	}
	if tn, ok := fn.Pkg().Scope().Lookup(recv).(*types.TypeName); ok {
		if o, _, _ := types.LookupFieldOrMethod(types.NewPointer(tn.Type()), true, fn.Pkg(), name); o == nil {
			return true
		}
	}
	return false
}

// methodlessAnchor records the anchors (pkg.name) that LookupFunc resolved to a package function although a method was asked for.
var methodlessAnchor = map[string]bool{}

// fqn gives a stable human name: pkg.(Recv).Name
func fqn(fn *types.Func) string {
	if fn == nil {
		return "<nil>"
	}
	p := ""
	if fn.Pkg() != nil {
		p = shortPkg(fn.Pkg().Path()) + "."
	}
	if r := recvTypeName(fn); r != "" {
		return p + "(" + r + ")." + fn.Name()
	}
	return p + fn.Name()
}

// walkShallow visits n without descending into function literals.
func walkShallow(n ast.Node, f func(ast.Node) bool) {
	ast.Inspect(n, func(m ast.Node) bool {
		if m == nil {
			return false
		}
		if _, ok := m.(*ast.FuncLit); ok && m != n {
			return false
		}
		return f(m)
	})
}

// callsIn lists the calls of node n; deep also enters function literals.
func callsIn(n ast.Node, deep bool) []*ast.CallExpr {
	var out []*ast.CallExpr
	v := func(m ast.Node) bool {
		if c, ok := m.(*ast.CallExpr); ok {
			out = append(out, c)
		}
		return true
	}
	if deep {
		ast.Inspect(n, func(m ast.Node) bool {
			if m == nil {
				return false
			}
			return v(m)
		})
	} else {
		walkShallow(n, v)
	}
	return out
}

// callPred matches a call by its resolved callee.
type callPred func(fn *types.Func, call *ast.CallExpr) bool

func isCallTo(pkgPath, recv, name string) callPred {
	return func(fn *types.Func, _ *ast.CallExpr) bool { return funcIs(fn, pkgPath, recv, name) }
}

// nodeHasCall reports whether node n (shallow) contains a call matching p.
func nodeHasCall(info *types.Info, n ast.Node, p callPred) *ast.CallExpr {
	var hit *ast.CallExpr
	walkShallow(n, func(m ast.Node) bool {
		if hit != nil {
			return false
		}
		if c, ok := m.(*ast.CallExpr); ok {
			if fn := calleeOf(info, c); fn != nil && p(fn, c) {
				hit = c
				return false
			}
		}
		return true
	})
	return hit
}

// ---------------------------------------------------------------- CFG

type point struct {
	b *cfg.Block
	i int
}

// Flow is the control-flow graph of one function body.
type Flow struct {
	G    *cfg.CFG
	Info *types.Info
	Body *ast.BlockStmt
}

func noReturn(info *types.Info) func(*ast.CallExpr) bool {
	return func(call *ast.CallExpr) bool {
		if b := builtinName(info, call); b == "panic" {
			return false
		}
		if fn := calleeOf(info, call); fn != nil && fn.Pkg() != nil {
			switch fn.Pkg().Path() + "." + fn.Name() {
			case "os.Exit", "log.Fatal", "log.Fatalf", "log.Fatalln", "log.Panic", "log.Panicf":
				return false
			}
		}
		return true
	}
}

// taggedCase maps a case expression of a tagged switch to the synthesised
// condition `tag == expr` (go/cfg adds the bare case expression as the node).
var taggedCase = map[ast.Expr]ast.Expr{}

func newFlow(info *types.Info, body *ast.BlockStmt) *Flow {
	ast.Inspect(body, func(m ast.Node) bool {
		sw, ok := m.(*ast.SwitchStmt)
		if !ok || sw.Tag == nil {
			return true
		}
		for _, cl := range sw.Body.List {
			for _, e := range cl.(*ast.CaseClause).List {
				if _, done := taggedCase[e]; !done {
					taggedCase[e] = &ast.BinaryExpr{X: sw.Tag, Op: token.EQL, Y: e, OpPos: e.Pos()}
				}
			}
		}
		return true
	})
	return &Flow{G: cfg.New(body, noReturn(info)), Info: info, Body: body}
}

// nodePred matches a CFG node.
type nodePred func(n ast.Node) bool

func orPred(ps ...nodePred) nodePred {
	return func(n ast.Node) bool {
		for _, p := range ps {
			if p != nil && p(n) {
				return true
			}
		}
		return false
	}
}

func (f *Flow) callNode(p callPred) nodePred {
	return func(n ast.Node) bool { return nodeHasCall(f.Info, n, p) != nil }
}

// isExitNode: a return statement.
func isReturn(n ast.Node) bool { _, ok := n.(*ast.ReturnStmt); return ok }

// find lists all points whose node matches p.
func (f *Flow) find(p nodePred) []point {
	var out []point
	for _, b := range f.G.Blocks {
		if !b.Live {
			continue
		}
		for i, n := range b.Nodes {
			if p(n) {
				out = append(out, point{b, i})
			}
		}
	}
	return out
}

func (f *Flow) entry() point { return point{f.G.Blocks[0], 0} }

// after returns the point following p.
func after(p point) point { return point{p.b, p.i + 1} }

// reach performs a forward search from the given start points. A node
// matching stop ends the path (the node itself is not tested against
// target). It returns the first node matching target that is reachable, and,
// when endIsTarget is set, reports reaching the implicit end of the function
// (a block without successors that does not end in a return) as token.NoPos
// with found=true.
func (f *Flow) reach(starts []point, stop, target nodePred, endIsTarget bool) (ast.Node, bool) {
	seen := map[point]bool{}
	stack := append([]point(nil), starts...)
	for len(stack) > 0 {
		pt := stack[len(stack)-1]
		stack = stack[:len(stack)-1]
		if seen[pt] {
			continue
		}
		seen[pt] = true
		stopped := false
		for j := pt.i; j < len(pt.b.Nodes); j++ {
			n := pt.b.Nodes[j]
			if stop != nil && stop(n) {
				stopped = true
				break
			}
			if target != nil && target(n) {
				return n, true
			}
			if isReturn(n) {
				stopped = true
				break
			}
		}
		if stopped {
			continue
		}
		if len(pt.b.Succs) == 0 {
			if endIsTarget && !endsInReturnOrPanic(f.Info, pt.b) {
				return nil, true
			}
			continue
		}
		for _, s := range pt.b.Succs {
			stack = append(stack, point{s, 0})
		}
	}
	return nil, false
}

func endsInReturnOrPanic(info *types.Info, b *cfg.Block) bool {
	if len(b.Nodes) == 0 {
		return false
	}
	switch n := b.Nodes[len(b.Nodes)-1].(type) {
	case *ast.ReturnStmt:
		return true
	case *ast.ExprStmt:
		if c, ok := n.X.(*ast.CallExpr); ok {
			return !noReturn(info)(c)
		}
	}
	return false
}

// mustPrecede checks: every path from entry to a node matching target passes
// a node matching through first. Returns a witness target reachable while
// avoiding `through`.
func (f *Flow) mustPrecede(through, target nodePred) (ast.Node, bool) {
	n, found := f.reach([]point{f.entry()}, through, target, false)
	return n, !found
}

// reachesFrom reports whether a node matching target is reachable from
// (after) each point matching from, avoiding stop.
func (f *Flow) reachableAfter(from point, stop, target nodePred) (ast.Node, bool) {
	return f.reach([]point{after(from)}, stop, target, false)
}

// condOf returns the branch condition that ends block b (if any) and the
// true / false successors.
func condOf(b *cfg.Block) (ast.Expr, *cfg.Block, *cfg.Block) {
	if len(b.Succs) != 2 || len(b.Nodes) == 0 {
		return nil, nil, nil
	}
	e, ok := b.Nodes[len(b.Nodes)-1].(ast.Expr)
	if !ok {
		return nil, nil, nil
	}
	return e, b.Succs[0], b.Succs[1]
}

// ---------------------------------------------------------------- small AST helpers

// rootIdent returns the identifier at the root of a selector/index/star chain.
func rootIdent(e ast.Expr) *ast.Ident {
	for {
		switch x := e.(type) {
		case *ast.Ident:
			return x
		case *ast.SelectorExpr:
			e = x.X
		case *ast.IndexExpr:
			e = x.X
		case *ast.StarExpr:
			e = x.X
		case *ast.ParenExpr:
			e = x.X
		case *ast.SliceExpr:
			e = x.X
		case *ast.TypeAssertExpr:
			e = x.X
		case *ast.CallExpr:
			return nil
		default:
			return nil
		}
	}
}

// selPath renders a pure selector path "a.b.c" or "" if e is not one.
func selPath(e ast.Expr) string {
	switch x := e.(type) {
	case *ast.Ident:
		return x.Name
	case *ast.SelectorExpr:
		p := selPath(x.X)
		if p == "" {
			return ""
		}
		return p + "." + x.Sel.Name
	case *ast.ParenExpr:
		return selPath(x.X)
	case *ast.StarExpr:
		return selPath(x.X)
	}
	return ""
}

// fieldOf resolves a selector expression to the struct field it denotes.
func fieldOf(info *types.Info, e ast.Expr) *types.Var {
	s, ok := e.(*ast.SelectorExpr)
	if !ok {
		return nil
	}
	if sel := info.Selections[s]; sel != nil && sel.Kind() == types.FieldVal {
		if v, ok := sel.Obj().(*types.Var); ok {
			return v
		}
	}
	return nil
}

// isField reports whether e selects field `name` of the named struct type
// pkgPath.typ (through pointers / embedding).
func isField(info *types.Info, e ast.Expr, pkgPath, typ, name string) bool {
	s, ok := e.(*ast.SelectorExpr)
	if !ok || s.Sel.Name != name {
		return false
	}
	sel := info.Selections[s]
	if sel == nil || sel.Kind() != types.FieldVal {
		return false
	}
	t := sel.Recv()
	if p, ok := t.(*types.Pointer); ok {
		t = p.Elem()
	}
	n, ok := t.(*types.Named)
	if !ok {
		return false
	}
	return n.Obj().Name() == typ && n.Obj().Pkg() != nil && n.Obj().Pkg().Path() == pkgPath
}

func namedOf(t types.Type) *types.Named {
	for {
		switch x := t.(type) {
		case *types.Pointer:
			t = x.Elem()
		case *types.Named:
			return x
		case *types.Alias:
			t = types.Unalias(x)
		default:
			return nil
		}
	}
}

func typeIs(t types.Type, pkgPath, name string) bool {
	n := namedOf(t)
	return n != nil && n.Obj().Name() == name && n.Obj().Pkg() != nil && n.Obj().Pkg().Path() == pkgPath
}

func isNilIdent(info *types.Info, e ast.Expr) bool {
	id, ok := e.(*ast.Ident)
	if !ok {
		return false
	}
	_, isNil := info.Uses[id].(*types.Nil)
	return isNil
}

// assignsTo lists the left-hand sides written by statement node n
// (assignments and inc/dec), shallow.
func writesIn(n ast.Node) []ast.Expr {
	var out []ast.Expr
	walkShallow(n, func(m ast.Node) bool {
		switch s := m.(type) {
		case *ast.AssignStmt:
			out = append(out, s.Lhs...)
		case *ast.IncDecStmt:
			out = append(out, s.X)
		}
		return true
	})
	return out
}

func stringConst(info *types.Info, e ast.Expr) (string, bool) {
	tv, ok := info.Types[e]
	if !ok || tv.Value == nil || tv.Value.Kind() != constant.String {
		return "", false
	}
	return constant.StringVal(tv.Value), true
}

func posLine(fset *token.FileSet, p token.Pos) int { return fset.Position(p).Line }

func trimRepo(s string) string { return strings.TrimPrefix(s, "/repo/") }

// reachEx is reach with an edge filter: edgeStop(b, i) reports that the
// i-th successor edge of b must not be followed.
func (f *Flow) reachEx(starts []point, stop, target nodePred, edgeStop func(b *cfg.Block, si int) bool) (ast.Node, bool) {
	seen := map[point]bool{}
	stack := append([]point(nil), starts...)
	for len(stack) > 0 {
		pt := stack[len(stack)-1]
		stack = stack[:len(stack)-1]
		if seen[pt] {
			continue
		}
		seen[pt] = true
		stopped := false
		for j := pt.i; j < len(pt.b.Nodes); j++ {
			n := pt.b.Nodes[j]
			if stop != nil && stop(n) {
				stopped = true
				break
			}
			if target != nil && target(n) {
				return n, true
			}
			if isReturn(n) {
				stopped = true
				break
			}
		}
		if stopped {
			continue
		}
		for si, s := range pt.b.Succs {
			if edgeStop != nil && edgeStop(pt.b, si) {
				continue
			}
			stack = append(stack, point{s, 0})
		}
	}
	return nil, false
}

// parentMap computes the parent of every node under root.
func parentMap(root ast.Node) map[ast.Node]ast.Node {
	pm := map[ast.Node]ast.Node{}
	var stack []ast.Node
	ast.Inspect(root, func(n ast.Node) bool {
		if n == nil {
			stack = stack[:len(stack)-1]
			return false
		}
		if len(stack) > 0 {
			pm[n] = stack[len(stack)-1]
		}
		stack = append(stack, n)
		return true
	})
	return pm
}

// enclosing returns the innermost ancestor of n satisfying pred.
func enclosing(pm map[ast.Node]ast.Node, n ast.Node, pred func(ast.Node) bool) ast.Node {
	for p := pm[n]; p != nil; p = pm[p] {
		if pred(p) {
			return p
		}
	}
	return nil
}

func isLoop(n ast.Node) bool {
	switch n.(type) {
	case *ast.ForStmt, *ast.RangeStmt:
		return true
	}
	return false
}

// errBranch locates, for the call at point p (a node containing the call
// whose error result is assigned to a variable), the branch taken when that
// error is non-nil. It recognises
//
//	x, err := call(); if err != nil {…}     (same or following node)
//	if err = call(); err != nil {…}
//	if err := call(); err == nil {…} else {…}
//
// and returns (errSucc, okSucc, condBlock).
func (f *Flow) errBranch(p point) (errB, okB, condB *cfg.Block, ok bool) {
	// the error variable: last LHS of the assignment containing the call
	var errObj types.Object
	switch s := p.b.Nodes[p.i].(type) {
	case *ast.AssignStmt:
		if id, isId := s.Lhs[len(s.Lhs)-1].(*ast.Ident); isId {
			errObj = f.Info.ObjectOf(id)
		}
	}
	if errObj == nil {
		return nil, nil, nil, false
	}
	// the condition must be the next node in the same block
	if p.i+1 >= len(p.b.Nodes) {
		return nil, nil, nil, false
	}
	cond, t, e := condOf(p.b)
	if cond == nil || p.b.Nodes[p.i+1] != ast.Node(cond) {
		return nil, nil, nil, false
	}
	// go/cfg keeps a short-circuit condition as one node: look at what each
	// edge implies about `err != nil`.
	isErrNE := func(e ast.Expr, want token.Token) bool {
		be, ok := e.(*ast.BinaryExpr)
		if !ok || be.Op != want {
			return false
		}
		id, ok := be.X.(*ast.Ident)
		return ok && f.Info.ObjectOf(id) == errObj && isNilIdent(f.Info, be.Y)
	}
	for _, fact := range impliedFacts(cond, true) {
		if fact.val && isErrNE(fact.expr, token.NEQ) || !fact.val && isErrNE(fact.expr, token.EQL) {
			return t, e, p.b, true
		}
	}
	for _, fact := range impliedFacts(cond, false) {
		if fact.val && isErrNE(fact.expr, token.NEQ) || !fact.val && isErrNE(fact.expr, token.EQL) {
			return e, t, p.b, true
		}
	}
	return nil, nil, nil, false
}

// fact: expression expr is known to evaluate to val.
type fact struct {
	expr ast.Expr
	val  bool
}

// impliedFacts lists the atomic boolean sub-expressions whose value is
// implied when cond evaluates to edge (go/cfg does not split && / ||).
func impliedFacts(cond ast.Expr, edge bool) []fact {
	switch x := cond.(type) {
	case *ast.ParenExpr:
		return impliedFacts(x.X, edge)
	case *ast.UnaryExpr:
		if x.Op == token.NOT {
			return impliedFacts(x.X, !edge)
		}
	case *ast.BinaryExpr:
		switch x.Op {
		case token.LAND:
			if edge {
				return append(impliedFacts(x.X, true), impliedFacts(x.Y, true)...)
			}
			return nil
		case token.LOR:
			if !edge {
				return append(impliedFacts(x.X, false), impliedFacts(x.Y, false)...)
			}
			return nil
		}
	}
	return []fact{{cond, edge}}
}

// edgeImplies reports whether following successor si of block b implies
// pred(expr, value) for some atomic fact of its condition.
func edgeImplies(b *cfg.Block, si int, pred func(e ast.Expr, val bool) bool) bool {
	cond, _, _ := condOf(b)
	if cond == nil {
		return false
	}
	if syn, ok := taggedCase[cond]; ok {
		cond = syn
	}
	for _, f := range impliedFacts(cond, si == 0) {
		if pred(f.expr, f.val) {
			return true
		}
	}
	return false
}

// reachBlock reports whether a block accepted by isTarget can be entered
// from the start points without passing a node matching stop.
func (f *Flow) reachBlock(starts []point, stop nodePred, isTarget func(*cfg.Block) bool) bool {
	seen := map[point]bool{}
	stack := append([]point(nil), starts...)
	first := true
	for len(stack) > 0 {
		pt := stack[len(stack)-1]
		stack = stack[:len(stack)-1]
		if seen[pt] {
			continue
		}
		seen[pt] = true
		if !first && pt.i == 0 && isTarget(pt.b) {
			return true
		}
		first = false
		stopped := false
		for j := pt.i; j < len(pt.b.Nodes); j++ {
			n := pt.b.Nodes[j]
			if stop != nil && stop(n) {
				stopped = true
				break
			}
			if isReturn(n) {
				stopped = true
				break
			}
		}
		if stopped {
			continue
		}
		for _, s := range pt.b.Succs {
			stack = append(stack, point{s, 0})
		}
	}
	return false
}

// ---------------------------------------------------------------------------
// Callee summaries: rules that ask "does this node call X" must keep holding
// when X is moved into a small helper of the same module (extract-function is
// the most common behaviour-preserving refactoring).

// mayReach reports whether fn is, or can call through module-local functions
// (statically resolved, at most depth levels), a function accepted by pred.
func (c *Ctx) mayReach(fn *types.Func, pred func(*types.Func) bool, depth int) bool {
	if fn == nil {
		return false
	}
	if pred(fn) {
		return true
	}
	if depth <= 0 || fn.Pkg() == nil || !strings.HasPrefix(fn.Pkg().Path(), modRoot) {
		return false
	}
	fi := c.FuncInfoOf(fn)
	if fi == nil || fi.Decl.Body == nil {
		return false
	}
	found := false
	info := fi.Info()
	ast.Inspect(fi.Decl.Body, func(m ast.Node) bool {
		if found {
			return false
		}
		if call, ok := m.(*ast.CallExpr); ok {
			if callee := calleeOf(info, call); callee != nil && callee != fn && c.mayReach(callee, pred, depth-1) {
				found = true
			}
		}
		return true
	})
	return found
}

// viaHelpers lifts a callee predicate to "calls it directly or through module-local helpers".
func (c *Ctx) viaHelpers(pred callPred, depth int) callPred {
	return func(fn *types.Func, call *ast.CallExpr) bool {
		if pred(fn, call) {
			return true
		}
		return c.mayReach(fn, func(g *types.Func) bool { return g != fn && pred(g, nil) }, depth)
	}
}

// reachBlockEdges is reachBlock with an edge filter (edgeStop(b, i): do not follow successor i of b).
func (f *Flow) reachBlockEdges(starts []point, stop nodePred, isTarget func(*cfg.Block) bool, edgeStop func(b *cfg.Block, si int) bool) bool {
	seen := map[point]bool{}
	stack := append([]point(nil), starts...)
	first := true
	for len(stack) > 0 {
		pt := stack[len(stack)-1]
		stack = stack[:len(stack)-1]
		if seen[pt] {
			continue
		}
		seen[pt] = true
		if !first && pt.i == 0 && isTarget(pt.b) {
			return true
		}
		first = false
		stopped := false
		for j := pt.i; j < len(pt.b.Nodes); j++ {
			n := pt.b.Nodes[j]
			if stop != nil && stop(n) {
				stopped = true
				break
			}
			if isReturn(n) {
				stopped = true
				break
			}
		}
		if stopped {
			continue
		}
		for si, s := range pt.b.Succs {
			if edgeStop != nil && edgeStop(pt.b, si) {
				continue
			}
			stack = append(stack, point{s, 0})
		}
	}
	return false
}

// established reports that every path from the function entry to the CFG node
// that contains target takes an edge on which pred holds for some atomic fact
// of the branch condition (a guard established by an enclosing if, a switch
// case, or an earlier `if !guard { return }`).
func (f *Flow) established(target ast.Node, pred func(e ast.Expr, val bool) bool) bool {
	contains := func(nd ast.Node) bool {
		if nd == target {
			return true
		}
		hit := false
		ast.Inspect(nd, func(m ast.Node) bool {
			if m == target {
				hit = true
			}
			return !hit
		})
		return hit
	}
	if len(f.find(contains)) == 0 {
		return false
	}
	_, reachable := f.reachEx([]point{f.entry()}, nil, contains, func(b *cfg.Block, si int) bool {
		return edgeImplies(b, si, pred)
	})
	return !reachable
}

// reachErrAware is reach that prunes paths contradicting what earlier branches established about
// error variables: after an edge on which `e != nil` holds (or `e == nil` fails), an edge that
// requires `e == nil` is infeasible until e is assigned again. This is the `if err == nil { err =
// step() }` chain idiom: the success exit is only reachable through every step.
func (f *Flow) reachErrAware(starts []point, stop, target nodePred, endIsTarget bool) (ast.Node, bool) {
	type state struct {
		pt     point
		nonNil string // sorted, comma separated names of error variables known non-nil
	}
	info := f.Info
	isErrVar := func(e ast.Expr) types.Object {
		id, ok := ast.Unparen(e).(*ast.Ident)
		if !ok {
			return nil
		}
		o := info.ObjectOf(id)
		if o == nil || !types.Identical(o.Type(), types.Universe.Lookup("error").Type()) {
			return nil
		}
		return o
	}
	seen := map[state]bool{}
	stack := []state{}
	for _, s := range starts {
		stack = append(stack, state{s, ""})
	}
	has := func(set, name string) bool {
		for _, x := range strings.Split(set, ",") {
			if x == name && x != "" {
				return true
			}
		}
		return false
	}
	add := func(set, name string) string {
		if has(set, name) {
			return set
		}
		parts := strings.Split(set, ",")
		if set == "" {
			parts = nil
		}
		parts = append(parts, name)
		sort.Strings(parts)
		return strings.Join(parts, ",")
	}
	del := func(set, name string) string {
		var parts []string
		for _, x := range strings.Split(set, ",") {
			if x != name && x != "" {
				parts = append(parts, x)
			}
		}
		return strings.Join(parts, ",")
	}
	key := func(o types.Object) string { return fmt.Sprintf("%s@%d", o.Name(), o.Pos()) }
	for len(stack) > 0 {
		st := stack[len(stack)-1]
		stack = stack[:len(stack)-1]
		if seen[st] {
			continue
		}
		seen[st] = true
		nn := st.nonNil
		stopped := false
		for j := st.pt.i; j < len(st.pt.b.Nodes); j++ {
			n := st.pt.b.Nodes[j]
			if stop != nil && stop(n) {
				stopped = true
				break
			}
			if target != nil && target(n) {
				return n, true
			}
			if isReturn(n) {
				stopped = true
				break
			}
			// assignments to an error variable forget what was known about it
			ast.Inspect(n, func(m ast.Node) bool {
				if as, ok := m.(*ast.AssignStmt); ok {
					for _, l := range as.Lhs {
						if o := isErrVar(l); o != nil {
							nn = del(nn, key(o))
						}
					}
				}
				return true
			})
		}
		if stopped {
			continue
		}
		if len(st.pt.b.Succs) == 0 {
			if endIsTarget && !endsInReturnOrPanic(f.Info, st.pt.b) {
				return nil, true
			}
			continue
		}
		cond, _, _ := condOf(st.pt.b)
		for si, s := range st.pt.b.Succs {
			next := nn
			feasible := true
			if cond != nil {
				c2 := cond
				if syn, ok := taggedCase[cond]; ok {
					c2 = syn
				}
				for _, fct := range impliedFacts(c2, si == 0) {
					be, ok := ast.Unparen(fct.expr).(*ast.BinaryExpr)
					if !ok || (be.Op != token.EQL && be.Op != token.NEQ) {
						continue
					}
					var o types.Object
					switch {
					case isNilIdent(info, be.Y):
						o = isErrVar(be.X)
					case isNilIdent(info, be.X):
						o = isErrVar(be.Y)
					}
					if o == nil {
						continue
					}
					nonNil := (be.Op == token.NEQ) == fct.val
					if nonNil {
						next = add(next, key(o))
					} else if has(nn, key(o)) {
						feasible = false
					}
				}
			}
			if feasible {
				stack = append(stack, state{point{s, 0}, next})
			}
		}
	}
	return nil, false
}

// allPathsImply enumerates the acyclic CFG paths from the entry to the node containing target,
// collects the branch conditions taken along each, and reports whether on every path the
// conjunction of those conditions implies holds(atom, value) for some atomic sub-condition —
// decided by enumerating the truth assignments of the atoms (conditions are split at && || !).
// It subsumes edge-wise facts: `case a && b: …; case a:` implies !b in the second case.
func (f *Flow) allPathsImply(target ast.Node, holds func(e ast.Expr, val bool) bool) bool {
	contains := func(nd ast.Node) bool {
		hit := nd == target
		if !hit {
			ast.Inspect(nd, func(m ast.Node) bool {
				if m == target {
					hit = true
				}
				return !hit
			})
		}
		return hit
	}
	type cons struct {
		e   ast.Expr
		val bool
	}
	ok := true
	paths := 0
	var atomsOf func(e ast.Expr, out map[string]ast.Expr)
	atomsOf = func(e ast.Expr, out map[string]ast.Expr) {
		e = ast.Unparen(e)
		switch x := e.(type) {
		case *ast.UnaryExpr:
			if x.Op == token.NOT {
				atomsOf(x.X, out)
				return
			}
		case *ast.BinaryExpr:
			if x.Op == token.LAND || x.Op == token.LOR {
				atomsOf(x.X, out)
				atomsOf(x.Y, out)
				return
			}
		}
		out[types.ExprString(e)] = e
	}
	var evalB func(e ast.Expr, asg map[string]bool) bool
	evalB = func(e ast.Expr, asg map[string]bool) bool {
		e = ast.Unparen(e)
		switch x := e.(type) {
		case *ast.UnaryExpr:
			if x.Op == token.NOT {
				return !evalB(x.X, asg)
			}
		case *ast.BinaryExpr:
			switch x.Op {
			case token.LAND:
				return evalB(x.X, asg) && evalB(x.Y, asg)
			case token.LOR:
				return evalB(x.X, asg) || evalB(x.Y, asg)
			}
		}
		return asg[types.ExprString(e)]
	}
	judge := func(cs []cons) bool {
		atoms := map[string]ast.Expr{}
		for _, c := range cs {
			atomsOf(c.e, atoms)
		}
		var names []string
		for k := range atoms {
			names = append(names, k)
		}
		sort.Strings(names)
		if len(names) > 14 {
			return false
		}
		for m := 0; m < 1<<len(names); m++ {
			asg := map[string]bool{}
			for i, nm := range names {
				asg[nm] = m&(1<<i) != 0
			}
			sat := true
			for _, c := range cs {
				if evalB(c.e, asg) != c.val {
					sat = false
					break
				}
			}
			if !sat {
				continue
			}
			implied := false
			for _, nm := range names {
				if holds(atoms[nm], asg[nm]) {
					implied = true
					break
				}
			}
			if !implied {
				return false
			}
		}
		return true
	}
	var walk func(b *cfg.Block, cs []cons, onPath map[*cfg.Block]bool)
	walk = func(b *cfg.Block, cs []cons, onPath map[*cfg.Block]bool) {
		if !ok || onPath[b] || paths > 512 {
			return
		}
		onPath[b] = true
		defer delete(onPath, b)
		for _, n := range b.Nodes {
			if contains(n) {
				paths++
				if !judge(cs) {
					ok = false
				}
				return
			}
			if isReturn(n) {
				return
			}
		}
		cond, _, _ := condOf(b)
		if cond != nil {
			if syn, isTagged := taggedCase[cond]; isTagged {
				cond = syn
			}
		}
		for si, s := range b.Succs {
			next := cs
			if cond != nil && len(b.Succs) == 2 {
				next = append(append([]cons(nil), cs...), cons{cond, si == 0})
			}
			walk(s, next, onPath)
		}
	}
	walk(f.G.Blocks[0], nil, map[*cfg.Block]bool{})
	return ok && paths > 0
}
