package main

import (
	"go/ast"
	"go/constant"
	"go/token"
	"go/types"
	"sort"
	"strings"

	"golang.org/x/tools/go/cfg"
)

// Rules over sql/migrate.(*Executor).Execute / exec shared by C09, C10, C12.

func init() {
	register("C09", &propCheck{
		explanation: "Path rules (go/cfg must-pass-through / must-precede over every path of Executor.Execute and Executor.exec) plus a who-may-write rule for Revision.Applied/PartialHashes decide, for every fault position, that the history never claims more statements than were executed, that progress is persisted after each statement, that the statement loop resumes at the loaded Applied index, and that files are run in slice order with fail-stop.",
		undecided:   []string{"ordering of files by version (runtime strings, decided in Dir.Files)", "that the driver executes exactly the text it is given"},
		run:         runC09,
	})
	register("C12", &propCheck{
		explanation: "Guarded-index lint (an index expression guarded by a comparison with len must be in range on the fall-through), shape and path rules on the partial-hash comparison of Executor.Execute: the comparison covers exactly the applied prefix with one index on both sides, a mismatch returns HistoryChangedError before any statement is executed and before any progress field is stored.",
		undecided:   []string{"hash equality semantics (SHA-256 collisions)", "the revision row is re-written (ExecutedAt / OperatorVersion refreshed) before the comparison: whether this 'touches the history' is a reading of the property; the rule is scoped to the progress fields"},
		run:         runC12,
	})
}

// execShape is what the rules need to know about Executor.Execute.
type execShape struct {
	fi        *FuncInfo
	flow      *Flow
	pm        map[ast.Node]ast.Node
	execPts   []point // nodes calling ExecContext on the driver
	wrPts     []point // nodes calling e.writeRevision (not deferred)
	appliedW  nodePred
	partialW  nodePred
	isExec    nodePred
	isWriteRv nodePred
	loopIdx   types.Object // index variable of `for v := r.Applied; …; v++` around ExecContext, if that loop form is used
}

func isDeferOrGo(n ast.Node) bool {
	switch n.(type) {
	case *ast.DeferStmt, *ast.GoStmt:
		return true
	}
	return false
}

// dbExec matches calls that send a statement to a database connection.
func dbExec(fn *types.Func, _ *ast.CallExpr) bool {
	if fn.Name() != "ExecContext" || fn.Pkg() == nil {
		return false
	}
	switch fn.Pkg().Path() {
	case pSchema, "database/sql", pMigrate, modRoot + "/sql/sqlclient":
		return true
	}
	return false
}

func fieldWritePred(info *types.Info, pkgPath, typ string, fields ...string) nodePred {
	return func(n ast.Node) bool {
		if isDeferOrGo(n) {
			return false
		}
		for _, lhs := range writesIn(n) {
			for _, f := range fields {
				if isField(info, lhs, pkgPath, typ, f) {
					return true
				}
			}
		}
		return false
	}
}

func loadExecShape(c *Ctx, rule string) *execShape {
	fi := c.Func(rule, pMigrate, "Executor", "Execute")
	if fi == nil {
		return nil
	}
	s := &execShape{fi: fi, flow: newFlow(fi.Info(), fi.Decl.Body), pm: parentMap(fi.Decl.Body)}
	info := fi.Info()
	s.isExec = func(n ast.Node) bool { return !isDeferOrGo(n) && nodeHasCall(info, n, dbExec) != nil }
	s.isWriteRv = func(n ast.Node) bool {
		return !isDeferOrGo(n) && nodeHasCall(info, n, isCallTo(pMigrate, "Executor", "writeRevision")) != nil
	}
	s.appliedW = fieldWritePred(info, pMigrate, "Revision", "Applied")
	s.partialW = fieldWritePred(info, pMigrate, "Revision", "PartialHashes")
	s.execPts = s.flow.find(s.isExec)
	s.wrPts = s.flow.find(s.isWriteRv)
	return s
}

func runC09(c *Ctx) { execRules(c, true) }

// execRules: path rules on Executor.Execute; full adds the C09-only rules.
func execRules(c *Ctx, full bool) {
	c.Rule("R09a", "Execute: every path from entry to the first ExecContext passes a (non-deferred) writeRevision: the file is marked as started before any statement runs", 1)
	c.Rule("R09b1", "Execute: an Applied store is reachable from ExecContext only through the success edge of its error check, and every path from entry to an Applied store passes ExecContext", 2)
	c.Rule("R09b2", "Execute: from the success edge of ExecContext every path to writeRevision / next ExecContext / return passes the PartialHashes append and the Applied increment (in that order, the append indexing the sums by Applied)", 3)
	c.Rule("R09b3", "Execute: from the Applied increment every path to the next ExecContext passes writeRevision, and the error branch of every writeRevision / ExecContext leaves the loop (no further ExecContext)", 3)
	c.Rule("R09e", "Execute: a deferred closure writes the revision unless the error is a WriteRevisionError, tests and sets the named error result itself, and is deferred on every path before the first ExecContext", 3)
	c.Rule("R09i", "error discipline in sql/migrate: inside the branch taken when an error variable is non-nil, a return hands back that error (or one derived from it / a new error), never a different error variable that was not assigned in the branch (it is nil on that path)", 20)
	errReturnLint(c, "R09i", func(fi *FuncInfo) bool { return fi.Pkg.PkgPath == pMigrate })
	if c.Tier == "thorough" {
		c.Rule("R09i+", "cross-reference (thorough): the same error-discipline rule over both modules", 100)
		errReturnLint(c, "R09i+", func(fi *FuncInfo) bool { return fi.Pkg.PkgPath != pMigrate })
	}
	c.Rule("R09n", ruleTextDirRestored, 1)
	checkDirRestored(c, "R09n")
	c.Rule("R09q", ruleTextPragmaRecognised, 4)
	checkPragmaRecognised(c, "R09q")
	c.Rule("R09r", ruleTextStateConsumed, 1)
	checkStateConsumed(c, "R09r")
	c.Rule("R09p", ruleTextNotFoundOnly, 1)
	checkNotFoundOnly(c, "R09p")
	c.Rule("R09o", ruleTextLastCheckpoint, 1)
	checkLastCheckpoint(c, "R09o")
	c.Rule("R09m", "Execute never makes progress under a stale Total: every statement execution (ExecContext, directly or through a helper) is preceded on every path by a store of Revision.Total from the current statement count (constructor literal or assignment), so each later write of the revision — per statement, deferred, or none because the process died — leaves Applied < Total while statements remain. (The refresh must not precede the history check: R12c.)", 1)
	c.Rule("R09j", "Execute: completion agrees with Pending's completeness test (Applied == Total): every path to the point where the file is marked complete (PartialHashes cleared) has stored Revision.Total from the current statement count, also when resuming a revision whose file tail was edited", 1)
	c.Rule("R09g", "writeRevision reaches RevisionReadWriter.WriteRevision on every path and wraps its error in WriteRevisionError", 2)
	if full {
		c.Rule("R09c", "Revision.Applied and Revision.PartialHashes are stored (assignment / inc-dec / address taken) only inside Executor.Execute, in both modules", 3)
		c.Rule("R09d", "Execute: the statement loop ranges over stmts[r.Applied:] of the scanned statements (low bound is the loaded Applied field, no arithmetic; no high bound) and executes the loop variable's Text", 1)
		c.Rule("R09f", "Executor.exec: ranges over its files parameter as given, calls Execute on the loop variable, and the error branch of Execute returns (fail-stop)", 3)
		c.Rule("R09h", "Executor.Pending decides whether the last revision is complete from Applied and Total alone: its conditions read no other Revision field than Applied, Total and Version, and Applied is only ever compared with Total of the same revision", 4)
		checkPendingReads(c, "R09h")
		c.Rule("R09k", ruleTextPartialAnywhere, 1)
		checkPartialAnywhere(c, "R09k")
		c.Rule("R09l", "index provenance in the migrate package (same rule as C11/R11f): an index obtained by searching slice B is used to index or slice B only, never a different slice", 6)
		checkIndexProvenance(c, "R09l")
	}

	s := loadExecShape(c, "R09a")
	if s != nil {
		info := s.fi.Info()
		for _, ep := range s.execPts {
			if loop, ok := enclosing(s.pm, ep.b.Nodes[ep.i], isLoop).(*ast.ForStmt); ok {
				if init, isAs := loop.Init.(*ast.AssignStmt); isAs && len(init.Lhs) == 1 && len(init.Rhs) == 1 && isField(info, init.Rhs[0], pMigrate, "Revision", "Applied") {
					if post, isInc := loop.Post.(*ast.IncDecStmt); isInc && post.Tok == token.INC {
						if a, ok1 := init.Lhs[0].(*ast.Ident); ok1 {
							if b, ok2 := post.X.(*ast.Ident); ok2 && info.ObjectOf(a) == info.ObjectOf(b) {
								s.loopIdx = info.ObjectOf(a)
							}
						}
					}
				}
			}
		}
	}
	if s == nil {
		return
	}
	f := s.flow
	info := s.fi.Info()
	if len(s.execPts) == 0 {
		c.Unresolved("R09a", "no ExecContext call in Executor.Execute")
		return
	}
	// R09a
	w, ok := f.mustPrecede(s.isWriteRv, s.isExec)
	c.Check("R09a", "Execute|writeRevision≺ExecContext", nodePos(w, s.fi.Decl.Pos()), ok, "ExecContext at %s is reachable from entry without a prior writeRevision", c.nodeAt(w))

	for _, ep := range s.execPts {
		key := "Execute|ExecContext"
		errB, okB, condB, shapeOK := f.errBranch(ep)
		if !shapeOK {
			c.Unresolved("R09b1", "error check following ExecContext in Execute (expected `…, err = ExecContext(…); err != nil`)")
			continue
		}
		_ = errB
		// b1: ExecContext -> Applied write only through the success edge
		okEdge := func(b *cfg.Block, si int) bool { return b == condB && b.Succs[si] == okB }
		n, found := f.reachEx([]point{after(ep)}, s.isExec, s.appliedW, okEdge)
		c.Check("R09b1", key+"|no-count-on-error", nodePos(n, ep.b.Nodes[ep.i].Pos()), !found, "Revision.Applied is stored at %s on a path from ExecContext that does not take the success edge of its error check", c.nodeAt(n))
		n2, ok2 := f.mustPrecede(s.isExec, s.appliedW)
		c.Check("R09b1", key+"|count-after-exec", nodePos(n2, ep.b.Nodes[ep.i].Pos()), ok2, "Revision.Applied is stored at %s on a path from entry that executed no statement", c.nodeAt(n2))

		// b2: from the success edge: to writeRevision/ExecContext/return must pass both stores
		start := []point{{okB, 0}}
		tgt := orPred(s.isWriteRv, s.isExec, isReturn)
		n, found = f.reach(start, s.appliedW, tgt, true)
		c.Check("R09b2", key+"|success→Applied++", nodePos(n, blockPos(okB, ep)), !found, "after a successful ExecContext, %s is reachable without incrementing Revision.Applied", c.nodeAtOrEnd(n))
		n, found = f.reach(start, s.partialW, tgt, true)
		c.Check("R09b2", key+"|success→PartialHashes", nodePos(n, blockPos(okB, ep)), !found, "after a successful ExecContext, %s is reachable without appending to Revision.PartialHashes", c.nodeAtOrEnd(n))
		// order: the append comes before the increment and indexes by Applied
		n, found = f.reach(start, s.partialW, s.appliedW, false)
		c.Check("R09b2", key+"|append≺increment", nodePos(n, blockPos(okB, ep)), !found, "Revision.Applied is stored at %s before the PartialHashes append that indexes the sums by Applied", c.nodeAt(n))
		for _, pp := range f.find(s.partialW) {
			as, isAs := pp.b.Nodes[pp.i].(*ast.AssignStmt)
			if !isAs || len(as.Rhs) != 1 {
				continue
			}
			call, isCall := as.Rhs[0].(*ast.CallExpr)
			if !isCall || builtinName(info, call) != "append" {
				continue // r.PartialHashes = nil
			}
			okShape := len(call.Args) == 2 && isField(info, call.Args[0], pMigrate, "Revision", "PartialHashes")
			idxOK := false
			if okShape {
				ast.Inspect(call.Args[1], func(m ast.Node) bool {
					if ix, ok := m.(*ast.IndexExpr); ok && isField(info, ix.Index, pMigrate, "Revision", "Applied") {
						idxOK = true
					}
					// an index loop that starts at r.Applied and advances once per executed statement (R09d) indexes the same element
					if ix, ok := m.(*ast.IndexExpr); ok && s.loopIdx != nil {
						if id, isID := ast.Unparen(ix.Index).(*ast.Ident); isID && info.ObjectOf(id) == s.loopIdx {
							idxOK = true
						}
					}
					return true
				})
			}
			c.Check("R09b2", key+"|append-shape", as.Pos(), okShape && idxOK, "PartialHashes append must add exactly one element indexed by Revision.Applied (got %s)", types.ExprString(call))
		}

		// b3: Applied++ -> next ExecContext must pass writeRevision
		for _, ap := range f.find(s.appliedW) {
			n, found := f.reach([]point{after(ap)}, s.isWriteRv, s.isExec, false)
			c.Check("R09b3", key+"|persist-each-statement", nodePos(n, ap.b.Nodes[ap.i].Pos()), !found, "the next ExecContext is reachable after incrementing Applied without writing the revision")
		}
		n, found = f.reach([]point{{errB, 0}}, nil, s.isExec, false)
		c.Check("R09b3", key+"|fail-stop", nodePos(n, blockPos(errB, ep)), !found, "an ExecContext is reachable from the error branch of ExecContext")
	}
	for _, wp := range s.wrPts {
		errB, _, _, shapeOK := f.errBranch(wp)
		if !shapeOK {
			c.Unresolved("R09b3", "error check following writeRevision in Execute")
			continue
		}
		n, found := f.reach([]point{{errB, 0}}, nil, s.isExec, false)
		c.Check("R09b3", "Execute|writeRevision|fail-stop", nodePos(n, wp.b.Nodes[wp.i].Pos()), !found, "an ExecContext is reachable from the error branch of writeRevision")
	}

	if full {
		// R09c ownership
		checkFieldOwners(c, "R09c", pMigrate, "Revision", []string{"Applied", "PartialHashes"}, map[string]bool{"migrate.(Executor).Execute": true})
		// R09d resume index
		checkResumeLoop(c, s)
		// R09f exec loop
		checkExecLoop(c)
	}
	// R09e deferred final write
	checkDeferredWrite(c, s)
	// R09j completion sets Total
	{
		isComplete := func(n ast.Node) bool {
			as, ok := n.(*ast.AssignStmt)
			return ok && len(as.Lhs) == 1 && len(as.Rhs) == 1 && isField(info, as.Lhs[0], pMigrate, "Revision", "PartialHashes") && isNilIdent(info, as.Rhs[0])
		}
		setsTotal := func(n ast.Node) bool {
			hit := false
			walkShallow(n, func(m ast.Node) bool {
				switch x := m.(type) {
				case *ast.AssignStmt:
					for i, l := range x.Lhs {
						if isField(info, l, pMigrate, "Revision", "Total") && i < len(x.Rhs) && lenArg(info, x.Rhs[i]) != nil {
							hit = true
						}
					}
				case *ast.KeyValueExpr:
					if id, ok := x.Key.(*ast.Ident); ok && id.Name == "Total" && lenArg(info, x.Value) != nil {
						if f, ok := info.ObjectOf(id).(*types.Var); ok && f.IsField() {
							hit = true
						}
					}
				}
				return true
			})
			return hit
		}
		if len(f.find(isComplete)) == 0 {
			c.Unresolved("R09j", "Execute: completion point (r.PartialHashes = nil)")
		} else {
			n, ok := f.mustPrecede(setsTotal, isComplete)
			c.Check("R09j", "Execute|Total stored before completion", nodePos(n, s.fi.Decl.Pos()), ok, "the file is marked complete at %s on a path (resumed revision) that never stored Revision.Total from the current statement count: if the pending tail was edited to a different length the revision ends with Applied != Total, Pending keeps treating it as partial and the next run indexes the cleared PartialHashes", c.nodeAt(n))
		}

		// R09m: no statement is executed while Total is stale
		{
			isExec := f.callNode(c.viaHelpers(func(fn *types.Func, _ *ast.CallExpr) bool { return fn.Name() == "ExecContext" }, 2))
			if len(f.find(isExec)) == 0 {
				c.Unresolved("R09m", "Execute: statement execution (ExecContext)")
			} else {
				n, ok := f.mustPrecede(setsTotal, isExec)
				c.Check("R09m", "Execute|Total current before a statement is executed", nodePos(n, s.fi.Decl.Pos()), ok, "a statement is executed at %s on a path (an existing, partially applied revision) that has not stored Revision.Total from the current statement count: if the pending tail was edited to hold more statements and this attempt fails or dies when Applied reaches the old Total, the stored revision has Applied == Total, Pending treats the file as done and its remaining statements are never executed", c.nodeAt(n))
			}
		}
	}

	// R09g writeRevision
	if wf := c.Func("R09g", pMigrate, "Executor", "writeRevision"); wf != nil {
		wfl := newFlow(wf.Info(), wf.Decl.Body)
		isWR := wfl.callNode(func(fn *types.Func, _ *ast.CallExpr) bool {
			return fn.Name() == "WriteRevision" && fn.Pkg() != nil && fn.Pkg().Path() == pMigrate
		})
		n, found := wfl.reach([]point{wfl.entry()}, isWR, isReturn, true)
		c.Check("R09g", "writeRevision|calls-WriteRevision", nodePos(n, wf.Decl.Pos()), !found, "writeRevision can return without calling RevisionReadWriter.WriteRevision")
		wraps := false
		ast.Inspect(wf.Decl.Body, func(m ast.Node) bool {
			if cl, ok := m.(*ast.CompositeLit); ok && typeIs(wf.Info().TypeOf(cl), pMigrate, "WriteRevisionError") {
				wraps = true
			}
			return true
		})
		c.Check("R09g", "writeRevision|wraps-WriteRevisionError", wf.Decl.Pos(), wraps, "writeRevision no longer wraps its error in WriteRevisionError (the deferred final write relies on it to avoid a second failing write)")
	}
}

// helpers on Ctx for messages
func (c *Ctx) nodeAt(n ast.Node) string {
	if n == nil {
		return "<none>"
	}
	return c.pos(n.Pos())
}
func (c *Ctx) nodeAtOrEnd(n ast.Node) string {
	if n == nil {
		return "the end of the function"
	}
	return c.pos(n.Pos())
}
func nodePos(n ast.Node, def token.Pos) token.Pos {
	if n == nil {
		return def
	}
	return n.Pos()
}

// checkFieldOwners: every store to the given fields of pkg.typ is inside an
// allowed function.
func checkFieldOwners(c *Ctx, rule, pkgPath, typ string, fields []string, allowed map[string]bool) {
	seen := 0
	c.AllFuncs(true, func(fi *FuncInfo) {
		info := fi.Info()
		ast.Inspect(fi.Decl.Body, func(n ast.Node) bool {
			var lhs []ast.Expr
			switch s := n.(type) {
			case *ast.AssignStmt:
				lhs = s.Lhs
			case *ast.IncDecStmt:
				lhs = []ast.Expr{s.X}
			case *ast.UnaryExpr:
				if s.Op == token.AND {
					lhs = []ast.Expr{s.X}
				}
			case *ast.RangeStmt:
				if s.Key != nil {
					lhs = append(lhs, s.Key)
				}
				if s.Value != nil {
					lhs = append(lhs, s.Value)
				}
			}
			for _, l := range lhs {
				for _, f := range fields {
					if isField(info, l, pkgPath, typ, f) {
						seen++
						c.Check(rule, fi.Name+"|store "+typ+"."+f, l.Pos(), allowed[fi.Name], "%s.%s is stored in %s; only %v may store it", typ, f, fi.Name, keys(allowed))
					}
				}
			}
			return true
		})
	})
	_ = seen
}

func keys(m map[string]bool) []string {
	var ks []string
	for k := range m {
		ks = append(ks, k)
	}
	sort.Strings(ks)
	return ks
}

func blockPos(b *cfg.Block, p point) token.Pos {
	if len(b.Nodes) > 0 {
		return b.Nodes[0].Pos()
	}
	return p.b.Nodes[p.i].Pos()
}

func checkResumeLoop(c *Ctx, s *execShape) {
	info := s.fi.Info()
	for _, ep := range s.execPts {
		lp := enclosing(s.pm, ep.b.Nodes[ep.i], isLoop)
		var stmtsObj, valObj, idxObj types.Object
		var loopPos token.Pos
		switch loop := lp.(type) {
		case *ast.RangeStmt:
			loopPos = loop.Pos()
			sl, isSl := loop.X.(*ast.SliceExpr)
			ok := isSl && sl.High == nil && sl.Max == nil && sl.Low != nil && isField(info, sl.Low, pMigrate, "Revision", "Applied")
			c.Check("R09d", "Execute|range stmts[Applied:]", loop.Pos(), ok, "the statement loop must start at the first statement that was not recorded as applied, stmts[r.Applied:] (got %s)", types.ExprString(loop.X))
			if !ok {
				continue
			}
			if id, isID := sl.X.(*ast.Ident); isID {
				stmtsObj = info.ObjectOf(id)
			}
			if v, isID := loop.Value.(*ast.Ident); isID {
				valObj = info.ObjectOf(v)
			}
		case *ast.ForStmt:
			// for v := r.Applied; v < len(stmts); v++ { … stmts[v] … }
			loopPos = loop.Pos()
			ok := false
			if init, isAs := loop.Init.(*ast.AssignStmt); isAs && len(init.Lhs) == 1 && len(init.Rhs) == 1 && isField(info, init.Rhs[0], pMigrate, "Revision", "Applied") {
				if id, isID := init.Lhs[0].(*ast.Ident); isID {
					idxObj = info.ObjectOf(id)
				}
			}
			if cond, isBin := loop.Cond.(*ast.BinaryExpr); isBin && idxObj != nil && cond.Op == token.LSS {
				if x, isID := ast.Unparen(cond.X).(*ast.Ident); isID && info.ObjectOf(x) == idxObj {
					if a := lenArg(info, cond.Y); a != nil {
						if id, isID := ast.Unparen(a).(*ast.Ident); isID {
							stmtsObj = info.ObjectOf(id)
						}
					}
				}
			}
			if post, isInc := loop.Post.(*ast.IncDecStmt); isInc && post.Tok == token.INC && idxObj != nil && stmtsObj != nil {
				if x, isID := post.X.(*ast.Ident); isID && info.ObjectOf(x) == idxObj {
					ok = true
				}
			}
			// the index is not written in the body
			if ok {
				ast.Inspect(loop.Body, func(m ast.Node) bool {
					switch x := m.(type) {
					case *ast.AssignStmt:
						for _, l := range x.Lhs {
							if id, isID := l.(*ast.Ident); isID && info.ObjectOf(id) == idxObj {
								ok = false
							}
						}
					case *ast.IncDecStmt:
						if id, isID := x.X.(*ast.Ident); isID && info.ObjectOf(id) == idxObj {
							ok = false
						}
					}
					return true
				})
			}
			c.Check("R09d", "Execute|range stmts[Applied:]", loop.Pos(), ok, "the statement loop must start at the first statement that was not recorded as applied (for v := r.Applied; v < len(stmts); v++ with v untouched in the body)")
			if !ok {
				continue
			}
			// a local holding stmts[v]
			ast.Inspect(loop.Body, func(m ast.Node) bool {
				if as, isAs := m.(*ast.AssignStmt); isAs && len(as.Lhs) == 1 && len(as.Rhs) == 1 {
					if ix, isIx := ast.Unparen(as.Rhs[0]).(*ast.IndexExpr); isIx {
						if x, isID := ast.Unparen(ix.X).(*ast.Ident); isID && info.ObjectOf(x) == stmtsObj {
							if i, isID := ast.Unparen(ix.Index).(*ast.Ident); isID && info.ObjectOf(i) == idxObj {
								if l, isID := as.Lhs[0].(*ast.Ident); isID {
									valObj = info.ObjectOf(l)
								}
							}
						}
					}
				}
				return true
			})
			s.loopIdx = idxObj
		default:
			c.Unresolved("R09d", "ExecContext in Execute is not inside a loop over the statements")
			continue
		}
		// the looped variable is the result of e.fileStmts
		fromScan := false
		if stmtsObj != nil {
			ast.Inspect(s.fi.Decl.Body, func(m ast.Node) bool {
				as, ok := m.(*ast.AssignStmt)
				if !ok || len(as.Rhs) != 1 {
					return true
				}
				call, ok := as.Rhs[0].(*ast.CallExpr)
				if !ok {
					return true
				}
				if fn := calleeOf(info, call); funcIs(fn, pMigrate, "Executor", "fileStmts") {
					if l, ok := as.Lhs[0].(*ast.Ident); ok && info.ObjectOf(l) == stmtsObj {
						fromScan = true
					}
				}
				return true
			})
		}
		c.Check("R09d", "Execute|stmts from fileStmts", loopPos, fromScan, "the statements that are executed are not the result of e.fileStmts(m)")
		// the text executed is the current statement's Text
		call := nodeHasCall(info, ep.b.Nodes[ep.i], dbExec)
		okArg := false
		if call != nil && len(call.Args) >= 2 {
			if se, ok := ast.Unparen(call.Args[1]).(*ast.SelectorExpr); ok && se.Sel.Name == "Text" {
				switch x := ast.Unparen(se.X).(type) {
				case *ast.Ident:
					okArg = valObj != nil && info.ObjectOf(x) == valObj
				case *ast.IndexExpr: // stmts[v].Text
					if b, isID := ast.Unparen(x.X).(*ast.Ident); isID && info.ObjectOf(b) == stmtsObj && idxObj != nil {
						if i, isID := ast.Unparen(x.Index).(*ast.Ident); isID && info.ObjectOf(i) == idxObj {
							okArg = true
						}
					}
				}
			}
		}
		c.Check("R09d", "Execute|exec loopvar.Text", ep.b.Nodes[ep.i].Pos(), okArg, "ExecContext must be given the Text of the current statement of the loop")
		// the per-statement sums are computed over the same statements: in Execute, or in a module-local helper given them
		sumsOK := sumsLoopOver(info, s.fi.Decl.Body, stmtsObj, lp)
		if !sumsOK {
			for _, hc := range callsIn(s.fi.Decl.Body, true) {
				hf := calleeOf(info, hc)
				if hf == nil || hf.Pkg() == nil || hf.Pkg().Path() != pMigrate {
					continue
				}
				for ai, a := range hc.Args {
					if id, isID := ast.Unparen(a).(*ast.Ident); isID && info.ObjectOf(id) == stmtsObj {
						if cf := c.FuncInfoOf(hf); cf != nil && cf.Decl.Body != nil {
							var ps []*ast.Ident
							for _, fld := range cf.Decl.Type.Params.List {
								ps = append(ps, fld.Names...)
							}
							if ai < len(ps) && sumsLoopOver(cf.Info(), cf.Decl.Body, cf.Info().ObjectOf(ps[ai]), nil) {
								sumsOK = true
							}
						}
					}
				}
			}
		}
		c.Check("R09d", "Execute|sums over same stmts", loopPos, sumsOK, "no loop computes the per-statement sums over the same scanned statements (sums[i] for the i-th statement)")
	}
}

// sumsLoopOver reports whether body holds a range loop over obj (other than skip) that feeds each
// element's Text into a running hash and stores the digest at the element's index.
func sumsLoopOver(info *types.Info, body ast.Node, obj types.Object, skip ast.Node) bool {
	found := false
	if obj == nil {
		return false
	}
	// an index loop over the statements: for i := 0; i < len(stmts); i++ { … Write … sums[i] = … }
	ast.Inspect(body, func(m ast.Node) bool {
		fs, ok := m.(*ast.ForStmt)
		if !ok || ast.Node(fs) == skip || fs.Cond == nil {
			return true
		}
		be, ok := ast.Unparen(fs.Cond).(*ast.BinaryExpr)
		if !ok || be.Op != token.LSS {
			return true
		}
		iv, ok := ast.Unparen(be.X).(*ast.Ident)
		if !ok {
			return true
		}
		lc, ok := ast.Unparen(be.Y).(*ast.CallExpr)
		if !ok || builtinName(info, lc) != "len" || len(lc.Args) != 1 {
			return true
		}
		if x, ok := ast.Unparen(lc.Args[0]).(*ast.Ident); !ok || info.ObjectOf(x) != obj {
			return true
		}
		hasWrite, hasStore := false, false
		ast.Inspect(fs.Body, func(k ast.Node) bool {
			if call, ok := k.(*ast.CallExpr); ok {
				if fn := calleeOf(info, call); fn != nil && (fn.Name() == "Write" || fn.Name() == "WriteString") {
					hasWrite = true
				}
			}
			if as, ok := k.(*ast.AssignStmt); ok {
				if ix, ok := as.Lhs[0].(*ast.IndexExpr); ok {
					if i, ok := ix.Index.(*ast.Ident); ok && info.ObjectOf(i) == info.ObjectOf(iv) {
						hasStore = true
					}
				}
			}
			return true
		})
		if hasWrite && hasStore {
			found = true
		}
		return true
	})
	if found {
		return true
	}
	ast.Inspect(body, func(m ast.Node) bool {
		rs, ok := m.(*ast.RangeStmt)
		if !ok || ast.Node(rs) == skip {
			return true
		}
		if x, ok := ast.Unparen(rs.X).(*ast.Ident); ok && info.ObjectOf(x) == obj {
			hasWrite, hasStore := false, false
			ast.Inspect(rs.Body, func(k ast.Node) bool {
				if call, ok := k.(*ast.CallExpr); ok {
					if fn := calleeOf(info, call); fn != nil && (fn.Name() == "Write" || fn.Name() == "WriteString") {
						hasWrite = true
					}
				}
				if as, ok := k.(*ast.AssignStmt); ok {
					if ix, ok := as.Lhs[0].(*ast.IndexExpr); ok {
						if kk, ok := rs.Key.(*ast.Ident); ok {
							if i, ok := ix.Index.(*ast.Ident); ok && info.ObjectOf(i) == info.ObjectOf(kk) {
								hasStore = true
							}
						}
					}
					// or one element appended per iteration (x = append(x, v)), which keeps the i-th sum at index i
					if len(as.Lhs) == 1 && len(as.Rhs) == 1 {
						if call, ok := ast.Unparen(as.Rhs[0]).(*ast.CallExpr); ok && builtinName(info, call) == "append" && len(call.Args) == 2 && !call.Ellipsis.IsValid() {
							if l, ok := as.Lhs[0].(*ast.Ident); ok {
								if a0, ok := ast.Unparen(call.Args[0]).(*ast.Ident); ok && info.ObjectOf(a0) == info.ObjectOf(l) {
									hasStore = true
								}
							}
						}
					}
				}
				return true
			})
			if hasWrite && hasStore {
				found = true
			}
		}
		return true
	})
	return found
}

func checkDeferredWrite(c *Ctx, s *execShape) {
	info := s.fi.Info()
	// Execute's named error result
	var named types.Object
	if rs := s.fi.Decl.Type.Results; rs != nil {
		for _, fld := range rs.List {
			for _, nm := range fld.Names {
				if o := info.ObjectOf(nm); o != nil && types.Identical(o.Type(), types.Universe.Lookup("error").Type()) {
					named = o
				}
			}
		}
	}
	var deferNode *ast.DeferStmt
	guarded, sets, reads := false, false, false
	ast.Inspect(s.fi.Decl.Body, func(m ast.Node) bool {
		d, ok := m.(*ast.DeferStmt)
		if !ok {
			return true
		}
		// the deferred body and the way it reaches Execute's error: the captured named result (closure)
		// or a pointer parameter bound to &err (named function or method)
		var body *ast.BlockStmt
		binfo := info
		isErrAccess := func(e ast.Expr) bool { return false }
		switch fun := ast.Unparen(d.Call.Fun).(type) {
		case *ast.FuncLit:
			body = fun.Body
			isErrAccess = func(e ast.Expr) bool {
				id, ok := ast.Unparen(e).(*ast.Ident)
				return ok && named != nil && info.ObjectOf(id) == named
			}
		default:
			callee := calleeOf(info, d.Call)
			if callee == nil || callee.Pkg() == nil || callee.Pkg().Path() != pMigrate {
				return true
			}
			cf := c.FuncInfoOf(callee)
			if cf == nil || cf.Decl.Body == nil {
				return true
			}
			body, binfo = cf.Decl.Body, cf.Info()
			var ptr types.Object
			var ps []*ast.Ident
			for _, fld := range cf.Decl.Type.Params.List {
				ps = append(ps, fld.Names...)
			}
			for i, a := range d.Call.Args {
				if un, ok := ast.Unparen(a).(*ast.UnaryExpr); ok && un.Op == token.AND && i < len(ps) {
					if id, ok := ast.Unparen(un.X).(*ast.Ident); ok && named != nil && info.ObjectOf(id) == named {
						ptr = binfo.ObjectOf(ps[i])
					}
				}
			}
			isErrAccess = func(e ast.Expr) bool {
				st, ok := ast.Unparen(e).(*ast.StarExpr)
				if !ok || ptr == nil {
					return false
				}
				id, ok := ast.Unparen(st.X).(*ast.Ident)
				return ok && binfo.ObjectOf(id) == ptr
			}
		}
		if body == nil || nodeHasCall(binfo, body, isCallTo(pMigrate, "Executor", "writeRevision")) == nil {
			return true
		}
		deferNode = d
		// the write is reachable only through an edge that establishes !errors.As(err, *WriteRevisionError)
		isAs := func(e ast.Expr) bool {
			call, ok := ast.Unparen(e).(*ast.CallExpr)
			if !ok || len(call.Args) != 2 {
				return false
			}
			fn := calleeOf(binfo, call)
			if fn == nil || fn.Pkg() == nil || fn.Pkg().Path() != "errors" || fn.Name() != "As" {
				return false
			}
			mentions := false
			ast.Inspect(call.Args[1], func(k ast.Node) bool {
				if e, ok := k.(ast.Expr); ok {
					if t := binfo.TypeOf(e); t != nil && typeIs(t, pMigrate, "WriteRevisionError") {
						mentions = true
					}
				}
				return true
			})
			if mentions && isErrAccess(call.Args[0]) {
				reads = true
			}
			return mentions
		}
		bf := newFlow(binfo, body)
		notAs := func(b *cfg.Block, si int) bool {
			return edgeImplies(b, si, func(e ast.Expr, val bool) bool { return isAs(e) && !val })
		}
		isWrite := bf.callNode(isCallTo(pMigrate, "Executor", "writeRevision"))
		_, unguarded := bf.reachEx([]point{bf.entry()}, nil, isWrite, notAs)
		_, reachable := bf.reach([]point{bf.entry()}, nil, isWrite, false)
		guarded = reachable && !unguarded
		ast.Inspect(body, func(k ast.Node) bool {
			if as, ok := k.(*ast.AssignStmt); ok {
				for _, l := range as.Lhs {
					if isErrAccess(l) {
						sets = true
					}
				}
			}
			return true
		})
		return true
	})
	c.Check("R09e", "Execute|deferred writeRevision unless WriteRevisionError", s.fi.Decl.Pos(), deferNode != nil && guarded, "no deferred call in Execute writes the revision on exactly the paths where the error is not a WriteRevisionError")
	if deferNode != nil {
		c.Check("R09e", "Execute|deferred closure works on the named error result", deferNode.Pos(), sets && reads, "the deferred final write must test and set Execute's named result `err` itself (the captured variable, or through a pointer to it; a copy is evaluated when the defer statement runs and its assignment is lost): a failed final revision write would be dropped (reads=%v sets=%v)", reads, sets)
	}
	if deferNode == nil {
		return
	}
	isDefer := func(n ast.Node) bool { return n == ast.Node(deferNode) }
	n, ok := s.flow.mustPrecede(isDefer, s.isExec)
	c.Check("R09e", "Execute|defer≺ExecContext", nodePos(n, deferNode.Pos()), ok, "ExecContext is reachable without the final revision write having been deferred")
}

func checkExecLoop(c *Ctx) {
	fi := c.Func("R09f", pMigrate, "Executor", "exec")
	if fi == nil {
		return
	}
	info := fi.Info()
	f := newFlow(info, fi.Decl.Body)
	isExecute := f.callNode(isCallTo(pMigrate, "Executor", "Execute"))
	pts := f.find(isExecute)
	if len(pts) != 1 {
		c.Unresolved("R09f", "exactly one call of Execute in Executor.exec")
		return
	}
	pm := parentMap(fi.Decl.Body)
	// the files parameter
	var filesParam types.Object
	if ps := fi.Decl.Type.Params.List; len(ps) >= 2 && len(ps[len(ps)-1].Names) == 1 {
		filesParam = info.ObjectOf(ps[len(ps)-1].Names[0])
	}
	paramWritten := false
	ast.Inspect(fi.Decl.Body, func(m ast.Node) bool {
		for _, l := range writesIn(m) {
			if id := rootIdent(l); id != nil && filesParam != nil && info.ObjectOf(id) == filesParam {
				paramWritten = true
			}
		}
		return true
	})
	call := nodeHasCall(info, pts[0].b.Nodes[pts[0].i], isCallTo(pMigrate, "Executor", "Execute"))
	isParam := func(e ast.Expr) bool {
		id, ok := ast.Unparen(e).(*ast.Ident)
		return ok && filesParam != nil && info.ObjectOf(id) == filesParam
	}
	rangeOK, argOK := false, false
	var loopPos token.Pos
	switch loop := enclosing(pm, pts[0].b.Nodes[pts[0].i], isLoop).(type) {
	case *ast.RangeStmt:
		loopPos = loop.Pos()
		rangeOK = isParam(loop.X)
		if len(call.Args) == 2 {
			switch a := ast.Unparen(call.Args[1]).(type) {
			case *ast.Ident: // the loop value
				if v, ok := loop.Value.(*ast.Ident); ok && info.ObjectOf(a) == info.ObjectOf(v) {
					argOK = true
				}
			case *ast.IndexExpr: // files[i] with the loop key
				if k, ok := loop.Key.(*ast.Ident); ok && isParam(a.X) {
					if i, ok := ast.Unparen(a.Index).(*ast.Ident); ok && info.ObjectOf(i) == info.ObjectOf(k) {
						argOK = true
					}
				}
			}
		}
	case *ast.ForStmt:
		// for i := 0; i < len(files); i++ { … Execute(ctx, files[i]) … } with i untouched in the body
		loopPos = loop.Pos()
		if counted(info, loop) {
			init := loop.Init.(*ast.AssignStmt)
			iv := info.ObjectOf(init.Lhs[0].(*ast.Ident))
			zero := false
			if tv := info.Types[init.Rhs[0]]; tv.Value != nil && tv.Value.String() == "0" {
				zero = true
			}
			cond := loop.Cond.(*ast.BinaryExpr)
			inc := loop.Post.(*ast.IncDecStmt)
			if a := lenArg(info, ast.Unparen(cond.Y)); a != nil && isParam(a) && cond.Op == token.LSS && zero && inc.Tok == token.INC {
				rangeOK = true
			}
			if len(call.Args) == 2 {
				if a, ok := ast.Unparen(call.Args[1]).(*ast.IndexExpr); ok && isParam(a.X) {
					if i, ok := ast.Unparen(a.Index).(*ast.Ident); ok && info.ObjectOf(i) == iv {
						argOK = true
					}
				}
			}
		}
	default:
		c.Unresolved("R09f", "Execute call in exec is not inside a loop over the files")
		return
	}
	c.Check("R09f", "exec|range files", loopPos, rangeOK && !paramWritten, "exec must visit every element of its files parameter, unmodified and in order")
	c.Check("R09f", "exec|Execute(loopvar)", call.Pos(), argOK, "Execute must be called with the current element of the loop")
	errB, _, _, shapeOK := f.errBranch(pts[0])
	if !shapeOK {
		c.Unresolved("R09f", "error check following Execute in exec")
		return
	}
	n, found := f.reach([]point{{errB, 0}}, nil, isExecute, false)
	c.Check("R09f", "exec|fail-stop", nodePos(n, call.Pos()), !found, "another Execute is reachable from the error branch of Execute")
}

// ---------------------------------------------------------------- C12

func runC12(c *Ctx) {
	c.Rule("R12e", "the hashes of the applied statements are owned by Execute: Revision.PartialHashes, Applied and Total are stored only in Executor.Execute (and the revision constructor): no other function clears or rewrites them behind its back", 2)
	checkFieldOwners(c, "R12e", pMigrate, "Revision", []string{"PartialHashes", "Applied", "Total"}, map[string]bool{"migrate.(Executor).Execute": true})
	c.Rule("R12i", ruleTextDirRestored, 1)
	checkDirRestored(c, "R12i")
	c.Rule("R12j", ruleTextHashLiteralText, 1)
	checkHashLiteralText(c, "R12j")
	c.Rule("R12h", ruleTextBothIndexesGuarded, 2)
	checkBothIndexesGuarded(c, "R12h")
	c.Rule("R12g", ruleTextOptionalStmt, 1)
	checkOptionalStmt(c, "R12g")
	c.Rule("R12f", ruleTextSetRevisionAll, 2)
	checkSetRevisionAll(c, "R12f")
	c.Rule("R12d", "Executor.Pending decides whether the last revision is complete from Applied and Total alone, compared for (in)equality only: a file that now has fewer statements than were applied (Applied > Total) is still handed to Execute, which refuses it", 4)
	checkPendingReads(c, "R12d")
	c.Rule("R12a", "guarded index: in `G || …a[i]…` (or `G && …a[i]…`) where G compares i with len(a), the fall-through of G must imply 0 <= i < len(a) (repo-wide, both modules)", 2)
	c.Rule("R12b", "Execute: the partial-hash comparison loop is `for i := 0; i < r.Applied; i++`, compares sums[i] with PartialHashes[i] (same index, same h1: prefix constant as the append), and every path from entry to ExecContext passes it (or the false edge of `r.Applied > 0`)", 4)
	c.Rule("R12c", "Execute: from the construction of HistoryChangedError no ExecContext, no non-deferred writeRevision and no store to a Revision progress field is reachable; and no progress-field store precedes it", 3)

	// R12a repo-wide
	guardedIndexLint(c, "R12a")
	guarded := false
	execCallees := map[string]bool{"migrate.(Executor).Execute": true}
	if ex := c.LookupFunc(pMigrate, "Executor", "Execute"); ex != nil && ex.Decl.Body != nil {
		for _, call := range callsIn(ex.Decl.Body, true) {
			if fn := calleeOf(ex.Info(), call); fn != nil && fn.Pkg() != nil && fn.Pkg().Path() == pMigrate {
				if g := c.FuncInfoOf(fn); g != nil {
					execCallees[g.Name] = true
				}
			}
		}
	}
	for _, o := range c.obls {
		if o.Rule != "R12a" {
			continue
		}
		if i := strings.Index(o.Key, "|"); i > 0 && execCallees[o.Key[:i]] {
			guarded = true
		}
	}
	// a chain `i >= len(a) || i >= len(b) || a[i] != b[i]` is decided per indexed slice by R12h
	if !guarded {
		okH, nH := true, 0
		for _, o := range c.obls {
			if o.Rule == "R12h" {
				nH++
				if !o.OK {
					okH = false
				}
			}
		}
		guarded = nH >= 2 && okH
	}
	c.Check("R12a", "Execute|comparison index is guarded by len", token.NoPos, guarded, "no len-guard protects the index into the recomputed sums in Execute: a file re-hashed with fewer statements than were applied would index out of range")

	s := loadExecShape(c, "R12b")
	if s == nil {
		return
	}
	info := s.fi.Info()
	f := s.flow
	// locate the HistoryChangedError construction
	var hce []point
	isHCE := func(n ast.Node) bool {
		hit := false
		walkShallow(n, func(m ast.Node) bool {
			if cl, ok := m.(*ast.CompositeLit); ok && typeIs(info.TypeOf(cl), pMigrate, "HistoryChangedError") {
				hit = true
			}
			return true
		})
		return hit
	}
	hce = f.find(isHCE)
	if len(hce) == 0 {
		c.Unresolved("R12b", "construction of HistoryChangedError in Execute")
		return
	}
	for _, hp := range hce {
		node := hp.b.Nodes[hp.i]
		lnode := enclosing(s.pm, node, isLoop)
		var iv types.Object
		var loopBody *ast.BlockStmt
		var loopCond ast.Node
		var loopPos token.Pos
		var viaHelper ast.Node
		covers := false
		info := info // the loop may live in a helper with its own type info
		switch loop := lnode.(type) {
		case *ast.ForStmt:
			loopBody, loopCond, loopPos = loop.Body, loop.Cond, loop.Pos()
			if as, ok := loop.Init.(*ast.AssignStmt); ok && len(as.Lhs) == 1 && len(as.Rhs) == 1 {
				if id, ok := as.Lhs[0].(*ast.Ident); ok {
					if tv := info.Types[as.Rhs[0]]; tv.Value != nil && tv.Value.String() == "0" {
						iv = info.ObjectOf(id)
					}
				}
			}
			condOK := false
			if be, ok := loop.Cond.(*ast.BinaryExpr); ok && be.Op == token.LSS && iv != nil {
				if id, ok := be.X.(*ast.Ident); ok && info.ObjectOf(id) == iv && isField(info, be.Y, pMigrate, "Revision", "Applied") {
					condOK = true
				}
			}
			postOK := false
			if inc, ok := loop.Post.(*ast.IncDecStmt); ok && inc.Tok == token.INC {
				if id, ok := inc.X.(*ast.Ident); ok && info.ObjectOf(id) == iv {
					postOK = true
				}
			}
			covers = iv != nil && condOK && postOK
		case *ast.RangeStmt:
			// for i := range r.Applied (range over an integer: 0 … Applied-1)
			loopBody, loopCond, loopPos = loop.Body, loop.X, loop.Pos()
			if id, ok := loop.Key.(*ast.Ident); ok && loop.Value == nil && isField(info, loop.X, pMigrate, "Revision", "Applied") {
				iv = info.ObjectOf(id)
				covers = true
			}
		default:
			// the comparison loop may live in a package-local helper whose result guards the refusal:
			// `if i := firstChanged(r, sums); i != -1 { err = HistoryChangedError{…} … }`
			hinfo, hloop, callNode := helperCompareLoop(c, s, node)
			if hloop == nil {
				c.Unresolved("R12b", "HistoryChangedError is not constructed inside a loop over the applied statements (nor guarded by the result of a helper that contains that loop)")
				continue
			}
			info = hinfo
			viaHelper = callNode
			switch loop := hloop.(type) {
			case *ast.ForStmt:
				loopBody, loopCond, loopPos = loop.Body, loop.Cond, loop.Pos()
				if as, ok := loop.Init.(*ast.AssignStmt); ok && len(as.Lhs) == 1 && len(as.Rhs) == 1 {
					if id, ok := as.Lhs[0].(*ast.Ident); ok {
						if tv := info.Types[as.Rhs[0]]; tv.Value != nil && tv.Value.String() == "0" {
							iv = info.ObjectOf(id)
						}
					}
				}
				condOK, postOK := false, false
				if be, ok := loop.Cond.(*ast.BinaryExpr); ok && be.Op == token.LSS && iv != nil {
					if id, ok := be.X.(*ast.Ident); ok && info.ObjectOf(id) == iv && isField(info, be.Y, pMigrate, "Revision", "Applied") {
						condOK = true
					}
				}
				if inc, ok := loop.Post.(*ast.IncDecStmt); ok && inc.Tok == token.INC {
					if id, ok := inc.X.(*ast.Ident); ok && info.ObjectOf(id) == iv {
						postOK = true
					}
				}
				covers = iv != nil && condOK && postOK
			case *ast.RangeStmt:
				loopBody, loopCond, loopPos = loop.Body, loop.X, loop.Pos()
				if id, ok := loop.Key.(*ast.Ident); ok && loop.Value == nil && isField(info, loop.X, pMigrate, "Revision", "Applied") {
					iv = info.ObjectOf(id)
					covers = true
				}
			}
		}
		c.Check("R12b", "Execute|compare-loop covers [0,Applied)", loopPos, covers, "the comparison loop must visit every index 0 … r.Applied-1 (for i := 0; i < r.Applied; i++, or for i := range r.Applied)")
		// the guarding if: condition mentions sums[i] and PartialHashes[i] with i == iv
		// the comparison: some condition in the loop body mentions sums[i] and PartialHashes[i] with i == iv
		// (the mismatch branch may be the then-branch of `!=` or the fall-through after `== … continue`)
		sameIdx, prefix := false, ""
		if iv != nil {
			var sumsIdx, phIdx bool
			var scan func(body ast.Node, idx types.Object, depth int)
			scan = func(body ast.Node, idx types.Object, depth int) {
				ast.Inspect(body, func(m ast.Node) bool {
					switch x := m.(type) {
					case *ast.IndexExpr:
						id, ok := x.Index.(*ast.Ident)
						if !ok || info.ObjectOf(id) != idx {
							return true
						}
						if isField(info, x.X, pMigrate, "Revision", "PartialHashes") {
							phIdx = true
						} else if _, ok := x.X.(*ast.Ident); ok {
							sumsIdx = true
						}
					case *ast.CallExpr:
						if fn := calleeOf(info, x); fn != nil && fn.Pkg() != nil && fn.Pkg().Path() == "strings" && fn.Name() == "TrimPrefix" && len(x.Args) == 2 {
							prefix, _ = stringConst(info, x.Args[1])
						}
						// the comparison moved into a predicate (a local closure or a package function) that is handed the index
						if depth < 1 {
							for ai, a := range x.Args {
								aid, ok := ast.Unparen(a).(*ast.Ident)
								if !ok || info.ObjectOf(aid) != idx {
									continue
								}
								var ftype *ast.FuncType
								var fbody *ast.BlockStmt
								if fid, ok := ast.Unparen(x.Fun).(*ast.Ident); ok {
									fobj := info.ObjectOf(fid)
									ast.Inspect(s.fi.Decl.Body, func(k ast.Node) bool {
										if das, ok := k.(*ast.AssignStmt); ok && len(das.Lhs) == len(das.Rhs) {
											for di, dl := range das.Lhs {
												if did, ok := dl.(*ast.Ident); ok && info.ObjectOf(did) == fobj {
													if fl, ok := ast.Unparen(das.Rhs[di]).(*ast.FuncLit); ok {
														ftype, fbody = fl.Type, fl.Body
													}
												}
											}
										}
										return true
									})
								}
								if fbody == nil {
									if hf := c.FuncInfoOf(calleeOf(info, x)); hf != nil && hf.Decl.Body != nil && hf.Pkg.PkgPath == pMigrate {
										ftype, fbody = hf.Decl.Type, hf.Decl.Body
									}
								}
								if fbody == nil || ftype.Params == nil {
									continue
								}
								var ps []*ast.Ident
								for _, fld := range ftype.Params.List {
									ps = append(ps, fld.Names...)
								}
								if ai < len(ps) {
									scan(fbody, info.ObjectOf(ps[ai]), depth+1)
								}
							}
						}
					}
					return true
				})
			}
			scan(loopBody, iv, 0)
			sameIdx = sumsIdx && phIdx
		}
		c.Check("R12b", "Execute|compare sums[i] vs PartialHashes[i]", node.Pos(), sameIdx, "the mismatch test must compare sums[i] with r.PartialHashes[i] using the loop index on both sides")
		// prefix agreement with the append
		appPrefix := "<none>"
		for _, pp := range f.find(s.partialW) {
			if as, ok := pp.b.Nodes[pp.i].(*ast.AssignStmt); ok && len(as.Rhs) == 1 {
				if call, ok := as.Rhs[0].(*ast.CallExpr); ok && builtinName(info, call) == "append" && len(call.Args) == 2 {
					if be, ok := call.Args[1].(*ast.BinaryExpr); ok && be.Op == token.ADD {
						appPrefix, _ = stringConst(info, be.X)
					} else {
						appPrefix = ""
					}
				}
			}
		}
		c.Check("R12b", "Execute|hash prefix agreement", node.Pos(), prefix == appPrefix, "the prefix trimmed before comparing (%q) differs from the prefix prepended when recording (%q)", prefix, appPrefix)

		// dominance: entry -> ExecContext must pass the loop condition, except via the false edge of `Applied > 0`
		isLoopCond := func(n ast.Node) bool {
			if viaHelper != nil {
				hit := false
				ast.Inspect(n, func(m ast.Node) bool {
					if m == viaHelper {
						hit = true
					}
					return !hit
				})
				return hit
			}
			return n == loopCond
		}
		info = s.fi.Info() // back to Execute for the flow rules
		bypass := func(b *cfg.Block, si int) bool {
			// the edge on which `r.Applied > 0` (or != 0) is false: nothing was applied
			return edgeImplies(b, si, func(e ast.Expr, val bool) bool {
				be, ok := e.(*ast.BinaryExpr)
				if !ok || val || !isField(info, be.X, pMigrate, "Revision", "Applied") {
					return false
				}
				tv := info.Types[be.Y]
				return tv.Value != nil && (be.Op == token.GTR || be.Op == token.NEQ) && tv.Value.String() == "0"
			})
		}
		n, found := f.reachEx([]point{f.entry()}, isLoopCond, s.isExec, bypass)
		c.Check("R12b", "Execute|compare≺ExecContext", nodePos(n, loopPos), !found, "ExecContext at %s is reachable without the applied prefix having been compared", c.nodeAt(n))
		// the loop exits only when i >= Applied, or by returning: no break out of the loop to the statement loop
		n, found = f.reach([]point{after(hp)}, nil, s.isExec, false)
		c.Check("R12c", "Execute|HistoryChanged→no ExecContext", nodePos(n, node.Pos()), !found, "ExecContext at %s is reachable after the history mismatch was detected", c.nodeAt(n))
		n, found = f.reach([]point{after(hp)}, nil, s.isWriteRv, false)
		c.Check("R12c", "Execute|HistoryChanged→no writeRevision", nodePos(n, node.Pos()), !found, "a non-deferred writeRevision at %s is reachable after the history mismatch was detected", c.nodeAt(n))
		progress := fieldWritePred(info, pMigrate, "Revision", "Applied", "Total", "PartialHashes", "Error", "ErrorStmt", "Hash", "Version", "Type", "Description")
		n, found = f.reach([]point{after(hp)}, nil, progress, false)
		c.Check("R12c", "Execute|HistoryChanged→no progress store", nodePos(n, node.Pos()), !found, "a Revision progress field is stored at %s after the history mismatch was detected", c.nodeAt(n))
		for _, wp := range f.find(progress) {
			n, found := f.reach([]point{after(wp)}, nil, isHCE, false)
			c.Check("R12c", "Execute|no progress store before HistoryChanged", nodePos(n, wp.b.Nodes[wp.i].Pos()), !found, "the progress-field store at %s can precede the HistoryChangedError return", c.pos(wp.b.Nodes[wp.i].Pos()))
		}
	}
}

// guardedIndexLint: see rule R12a.
func guardedIndexLint(c *Ctx, rule string) {
	c.AllFuncs(false, func(fi *FuncInfo) {
		info := fi.Info()
		ast.Inspect(fi.Decl.Body, func(n ast.Node) bool {
			// `case A, B:` of a switch without tag evaluates A, then B: the same short-circuit as A || B
			if cc, isCase := n.(*ast.CaseClause); isCase && len(cc.List) >= 2 {
				if sw, isSw := enclosingSwitch(fi, cc); isSw && sw.Tag == nil {
					for i := 0; i+1 < len(cc.List); i++ {
						synth := &ast.BinaryExpr{X: cc.List[i], Op: token.LOR, Y: cc.List[i+1], OpPos: cc.List[i].End()}
						guardedIndexOne(c, rule, fi, info, synth, cc.List[i].Pos())
					}
				}
				return true
			}
			be, ok := n.(*ast.BinaryExpr)
			if !ok || (be.Op != token.LOR && be.Op != token.LAND) {
				return true
			}
			guardedIndexOne(c, rule, fi, info, be, be.Pos())
			return true
		})
	})
}

// enclosingSwitch returns the switch statement a case clause belongs to.
func enclosingSwitch(fi *FuncInfo, cc *ast.CaseClause) (*ast.SwitchStmt, bool) {
	var out *ast.SwitchStmt
	ast.Inspect(fi.Decl.Body, func(m ast.Node) bool {
		if sw, ok := m.(*ast.SwitchStmt); ok {
			for _, cl := range sw.Body.List {
				if cl == ast.Stmt(cc) {
					out = sw
				}
			}
		}
		return out == nil
	})
	return out, out != nil
}

func guardedIndexOne(c *Ctx, rule string, fi *FuncInfo, info *types.Info, be *ast.BinaryExpr, pos token.Pos) {
	{
		{
			g, ok := ast.Unparen(be.X).(*ast.BinaryExpr)
			if !ok {
				return
			}
			// G: i <op> len(a)  or  len(a) <op> i
			var idx ast.Expr
			var arr ast.Expr
			op := g.Op
			if a := lenArg(info, g.Y); a != nil {
				idx, arr = g.X, a
			} else if a := lenArg(info, g.X); a != nil {
				idx, arr = g.Y, a
				op = flipOp(op)
			} else {
				return
			}
			idxS, arrS := types.ExprString(idx), types.ExprString(arr)
			// does the right operand index arr with idx ?
			used := false
			ast.Inspect(be.Y, func(m ast.Node) bool {
				if ix, ok := m.(*ast.IndexExpr); ok && types.ExprString(ix.X) == arrS && types.ExprString(ix.Index) == idxS {
					used = true
				}
				return true
			})
			if !used {
				return
			}
			// fall-through of G: for ||, G false; for &&, G true.
			var ok2 bool
			if tv := info.Types[idx]; tv.Value != nil && tv.Value.Kind() == constant.Int {
				// constant index k: enumerate len over a small domain
				// (comparisons are monotone, so k+4 values suffice).
				k, _ := constant.Int64Val(tv.Value)
				ok2 = true
				for L := int64(0); L <= k+4; L++ {
					gv := cmpInts(k, op, L) // G written as "k op len"
					fall := gv
					if be.Op == token.LOR {
						fall = !gv
					}
					if fall && !(L > k && k >= 0) {
						ok2 = false
					}
				}
			} else if be.Op == token.LOR {
				// need !(i op len) => i < len  : op must be >=
				ok2 = op == token.GEQ
			} else {
				ok2 = op == token.LSS
			}
			c.Check(rule, fi.Name+"|"+arrS+"["+idxS+"]", pos, ok2, "the guard `%s` does not make %s[%s] in range on its fall-through (off by one)", types.ExprString(g), arrS, idxS)
		}
	}
}

func lenArg(info *types.Info, e ast.Expr) ast.Expr {
	call, ok := e.(*ast.CallExpr)
	if !ok || len(call.Args) != 1 || builtinName(info, call) != "len" {
		return nil
	}
	return call.Args[0]
}

func cmpInts(a int64, op token.Token, b int64) bool {
	switch op {
	case token.LSS:
		return a < b
	case token.GTR:
		return a > b
	case token.LEQ:
		return a <= b
	case token.GEQ:
		return a >= b
	case token.EQL:
		return a == b
	case token.NEQ:
		return a != b
	}
	return false
}

func flipOp(op token.Token) token.Token {
	switch op {
	case token.LSS:
		return token.GTR
	case token.GTR:
		return token.LSS
	case token.LEQ:
		return token.GEQ
	case token.GEQ:
		return token.LEQ
	}
	return op
}

// checkPendingReads: see R09h (shared with C11).
func checkPendingReads(c *Ctx, rule string) {
	fi := c.Func(rule, pMigrate, "Executor", "Pending")
	if fi == nil {
		return
	}
	info := fi.Info()
	pm := parentMap(fi.Decl.Body)
	revField := func(e ast.Expr) string {
		se, ok := e.(*ast.SelectorExpr)
		if !ok {
			return ""
		}
		if v := fieldOf(info, se); v != nil && isField(info, se, pMigrate, "Revision", v.Name()) {
			return v.Name()
		}
		return ""
	}
	inBool := func(n ast.Node) bool {
		for p := pm[n]; p != nil; p = pm[p] {
			if e, ok := p.(ast.Expr); ok {
				if t := info.TypeOf(e); t != nil {
					if b, ok := t.Underlying().(*types.Basic); ok && b.Info()&types.IsBoolean != 0 {
						return true
					}
				}
			}
			if _, ok := p.(ast.Stmt); ok {
				return false
			}
		}
		return false
	}
	ast.Inspect(fi.Decl.Body, func(m ast.Node) bool {
		se, ok := m.(*ast.SelectorExpr)
		if !ok {
			return true
		}
		f := revField(se)
		if f == "" || !inBool(se) {
			return true
		}
		allowed := f == "Applied" || f == "Total" || f == "Version"
		c.Check(rule, "Pending|condition reads Revision."+f, se.Pos(), allowed, "a decision of Executor.Pending depends on Revision.%s: whether a revision is complete must follow from Applied and Total alone (e.g. a failed revision write leaves Applied<Total with an empty Error)", f)
		return true
	})
	ast.Inspect(fi.Decl.Body, func(m ast.Node) bool {
		be, ok := m.(*ast.BinaryExpr)
		if !ok {
			return true
		}
		l, r := revField(be.X), revField(be.Y)
		if l != "Applied" && r != "Applied" {
			return true
		}
		good := (be.Op == token.EQL || be.Op == token.NEQ) &&
			((l == "Applied" && r == "Total") || (l == "Total" && r == "Applied")) &&
			types.ExprString(be.X.(*ast.SelectorExpr).X) == types.ExprString(be.Y.(*ast.SelectorExpr).X)
		c.Check(rule, "Pending|Applied ⋈ Total", be.Pos(), good, "Applied must be compared (==, !=) with Total of the same revision (got %s)", types.ExprString(be))
		return true
	})
}

// errReturnLint: see R09i.
func errReturnLint(c *Ctx, rule string, want func(*FuncInfo) bool) {
	errT := types.Universe.Lookup("error").Type()
	c.AllFuncs(false, func(fi *FuncInfo) {
		if !want(fi) {
			return
		}
		info := fi.Info()
		n := 0
		ast.Inspect(fi.Decl.Body, func(m ast.Node) bool {
			ifs, ok := m.(*ast.IfStmt)
			if !ok {
				return true
			}
			// the error variables known non-nil in the then-branch
			var checked []types.Object
			for _, fct := range impliedFacts(ifs.Cond, true) {
				be, ok := fct.expr.(*ast.BinaryExpr)
				if !ok || !isNilIdent(info, be.Y) {
					continue
				}
				if !((be.Op == token.NEQ && fct.val) || (be.Op == token.EQL && !fct.val)) {
					continue
				}
				if id, ok := be.X.(*ast.Ident); ok {
					if o := info.ObjectOf(id); o != nil && types.Identical(o.Type(), errT) {
						checked = append(checked, o)
					}
				}
			}
			if len(checked) != 1 {
				return true
			}
			x := checked[0]
			// variables assigned inside the branch
			assigned := map[types.Object]bool{}
			ast.Inspect(ifs.Body, func(k ast.Node) bool {
				if as, ok := k.(*ast.AssignStmt); ok {
					for _, l := range as.Lhs {
						if id, ok := l.(*ast.Ident); ok {
							assigned[info.ObjectOf(id)] = true
						}
					}
				}
				return true
			})
			for _, st := range ifs.Body.List {
				r, ok := st.(*ast.ReturnStmt)
				if !ok || len(r.Results) == 0 {
					continue
				}
				last := r.Results[len(r.Results)-1]
				id, ok := last.(*ast.Ident)
				if !ok {
					continue
				}
				y := info.ObjectOf(id)
				if y == nil || !types.Identical(y.Type(), errT) {
					continue
				}
				if _, isVar := y.(*types.Var); !isVar {
					continue
				}
				n++
				good := y == x || assigned[y]
				key := fi.Name + "|if " + x.Name() + " != nil { return " + y.Name() + " }"
				if n > 1 {
					key += "#" + itoa(n)
				}
				c.Check(rule, key, r.Pos(), good, "inside the branch where %q is non-nil the function returns %q, a different error variable that is not assigned in the branch: the failure is reported as the (nil or stale) value of %q", x.Name(), y.Name(), y.Name())
			}
			return true
		})
	})
}

// helperCompareLoop: the HistoryChangedError at node is constructed under an if whose
// condition tests the result of a package-local helper called with the revision; returns the
// helper's type info, its (single) loop, and the call expression in Execute.
func helperCompareLoop(c *Ctx, s *execShape, node ast.Node) (*types.Info, ast.Node, ast.Node) {
	info := s.fi.Info()
	for p := s.pm[node]; p != nil; p = s.pm[p] {
		ifs, ok := p.(*ast.IfStmt)
		if !ok {
			continue
		}
		var call *ast.CallExpr
		find := func(n ast.Node) {
			if n == nil {
				return
			}
			ast.Inspect(n, func(m ast.Node) bool {
				if ce, ok := m.(*ast.CallExpr); ok && call == nil {
					if fn := calleeOf(info, ce); fn != nil && fn.Pkg() != nil && fn.Pkg().Path() == pMigrate {
						for _, a := range ce.Args {
							if typeIs(derefType(info.TypeOf(a)), pMigrate, "Revision") {
								call = ce
							}
						}
					}
				}
				return true
			})
		}
		find(ifs.Init)
		find(ifs.Cond)
		if call == nil {
			continue
		}
		hf := c.FuncInfoOf(calleeOf(info, call))
		if hf == nil || hf.Decl.Body == nil {
			continue
		}
		var loops []ast.Node
		ast.Inspect(hf.Decl.Body, func(m ast.Node) bool {
			if isLoop(m) {
				loops = append(loops, m)
			}
			return true
		})
		if len(loops) != 1 {
			continue
		}
		return hf.Info(), loops[0], call
	}
	return nil, nil, nil
}
