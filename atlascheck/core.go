package main

import (
	"encoding/json"
	"fmt"
	"go/ast"
	"go/token"
	"go/types"
	"os"
	"path/filepath"
	"sort"
	"strings"
	"time"

	"golang.org/x/tools/go/packages"
	"golang.org/x/tools/go/ssa"
	"golang.org/x/tools/go/ssa/ssautil"
)

// Import paths of the two modules under analysis.
const (
	modRoot = "ariga.io/atlas"
	modCmd  = "ariga.io/atlas/cmd/atlas"

	pMigrate     = modRoot + "/sql/migrate"
	pSchema      = modRoot + "/sql/schema"
	pSqlx        = modRoot + "/sql/internal/sqlx"
	pSpecutil    = modRoot + "/sql/internal/specutil"
	pSqlspec     = modRoot + "/sql/sqlspec"
	pSqlite      = modRoot + "/sql/sqlite"
	pMysql       = modRoot + "/sql/mysql"
	pPostgres    = modRoot + "/sql/postgres"
	pSqltool     = modRoot + "/sql/sqltool"
	pSqlitecheck = modRoot + "/sql/sqlite/sqlitecheck"
	pSqlcheck    = modRoot + "/sql/sqlcheck"
	pHCL         = modRoot + "/schemahcl"
	pCmdapi      = modCmd + "/internal/cmdapi"
	pCmdext      = modCmd + "/internal/cmdext"
	pCmdlog      = modCmd + "/internal/cmdlog"
	pCmdmig      = modCmd + "/internal/migrate"
	pLint        = modCmd + "/internal/migratelint"
)

// Obligation is one instance of a rule: a construct of /repo on which the
// rule was evaluated.
type Obligation struct {
	Rule string `json:"rule"`
	Key  string `json:"key"` // rule-local, position independent
	Pos  string `json:"pos,omitempty"`
	OK   bool   `json:"ok"`
	Msg  string `json:"msg,omitempty"`
	Kind string `json:"kind,omitempty"` // "", "unresolved", "floor"
}

type RuleInfo struct {
	ID    string `json:"id"`
	Text  string `json:"text"`
	Floor int    `json:"floor"`
	Count int    `json:"instances"`
	Fail  int    `json:"failed"`
}

// Ctx carries the loaded program and collects obligations.
type Ctx struct {
	Prop, Tier string
	Seed       int
	Repo       string
	Fset       *token.FileSet
	Pkgs       []*packages.Package
	byPath     map[string]*packages.Package
	prog       *ssa.Program
	ssaPkgs    map[string]*ssa.Package
	cg         *CG
	flows      map[string]*FlowAnalysis
	writerSet  map[*ssa.Function]bool
	outDir     string

	rules   []*RuleInfo
	ruleIx  map[string]*RuleInfo
	obls    []Obligation
	funcs   map[string]bool // functions analysed (for evidence)
	notes   []string
	start   time.Time
	loadSec float64
}

type abort struct{ msg string }

// Load type-checks both modules from the working tree.
func Load(repo string, overlay map[string][]byte) (*Ctx, error) {
	t0 := time.Now()
	env := append(os.Environ(), "GOFLAGS=-mod=mod", "GOPROXY=off", "GOSUMDB=off", "GOWORK=off", "GOTOOLCHAIN=local", "CGO_ENABLED=1")
	cfg := &packages.Config{
		Mode:    packages.LoadAllSyntax,
		Dir:     filepath.Join(repo, "cmd", "atlas"),
		Env:     env,
		Overlay: overlay,
	}
	pkgs, err := packages.Load(cfg, "./...", modRoot+"/sql/...", modRoot+"/schemahcl/...")
	if err != nil {
		return nil, fmt.Errorf("packages.Load: %v", err)
	}
	if len(pkgs) == 0 {
		return nil, fmt.Errorf("packages.Load returned zero packages")
	}
	c := &Ctx{Repo: repo, byPath: map[string]*packages.Package{}, ruleIx: map[string]*RuleInfo{}, funcs: map[string]bool{}, start: t0}
	var errs []string
	packages.Visit(pkgs, nil, func(p *packages.Package) {
		c.byPath[p.PkgPath] = p
		if strings.HasPrefix(p.PkgPath, modRoot) {
			for _, e := range p.Errors {
				errs = append(errs, p.PkgPath+": "+e.Error())
			}
		}
	})
	if len(errs) > 0 {
		sort.Strings(errs)
		if len(errs) > 8 {
			errs = errs[:8]
		}
		return nil, fmt.Errorf("type errors in analysed packages: %s", strings.Join(errs, "; "))
	}
	c.Pkgs = pkgs
	c.Fset = pkgs[0].Fset
	n := 0
	for _, p := range pkgs {
		if strings.HasPrefix(p.PkgPath, modRoot) {
			n++
		}
	}
	if n < 40 {
		return nil, fmt.Errorf("only %d atlas packages loaded (expected >= 40)", n)
	}
	c.loadSec = time.Since(t0).Seconds()
	return c, nil
}

// SSA builds (once) the SSA program for everything loaded.
func (c *Ctx) SSA() *ssa.Program {
	if c.prog != nil {
		return c.prog
	}
	prog, _ := ssautil.AllPackages(c.Pkgs, ssa.InstantiateGenerics)
	prog.Build()
	c.prog = prog
	c.ssaPkgs = map[string]*ssa.Package{}
	for _, p := range prog.AllPackages() {
		c.ssaPkgs[p.Pkg.Path()] = p
	}
	return prog
}

func (c *Ctx) fail(format string, args ...any) {
	panic(abort{fmt.Sprintf(format, args...)})
}

// Rule registers a rule with its text and the floor (minimal number of
// instances confirmed by hand on the reference tree).
func (c *Ctx) Rule(id, text string, floor int) {
	if _, ok := c.ruleIx[id]; ok {
		return
	}
	r := &RuleInfo{ID: id, Text: text, Floor: floor}
	c.rules = append(c.rules, r)
	c.ruleIx[id] = r
}

// Check records an obligation.
func (c *Ctx) Check(rule, key string, pos token.Pos, ok bool, format string, args ...any) bool {
	r := c.ruleIx[rule]
	if r == nil {
		c.fail("internal: rule %s not registered", rule)
	}
	o := Obligation{Rule: rule, Key: key, OK: ok}
	if pos.IsValid() {
		o.Pos = c.pos(pos)
	}
	if !ok {
		o.Msg = fmt.Sprintf(format, args...)
	} else if format != "" {
		o.Msg = fmt.Sprintf(format, args...)
	}
	r.Count++
	if !ok {
		r.Fail++
	}
	c.obls = append(c.obls, o)
	return ok
}

// Unresolved records that an anchor of a rule could not be found: this is a
// failure of the check, never a silent pass.
func (c *Ctx) Unresolved(rule, what string) {
	if c.ruleIx[rule] == nil {
		c.Rule(rule, "", 0)
	}
	c.ruleIx[rule].Count++
	c.ruleIx[rule].Fail++
	c.obls = append(c.obls, Obligation{Rule: rule, Key: "unresolved:" + what, OK: false, Kind: "unresolved", Msg: "anchor not found or shape not recognised: " + what})
}

func (c *Ctx) Note(format string, args ...any) {
	c.notes = append(c.notes, fmt.Sprintf(format, args...))
}

func (c *Ctx) pos(p token.Pos) string {
	if !p.IsValid() {
		return ""
	}
	ps := c.Fset.Position(p)
	f := ps.Filename
	if rel, err := filepath.Rel(c.Repo, f); err == nil && !strings.HasPrefix(rel, "..") {
		f = rel
	}
	return fmt.Sprintf("%s:%d", f, ps.Line)
}

// ---------------------------------------------------------------- lookup

type FuncInfo struct {
	Pkg  *packages.Package
	Decl *ast.FuncDecl
	Obj  *types.Func
	Name string // pkg.(*Recv).Name short form
}

func (f *FuncInfo) Info() *types.Info { return f.Pkg.TypesInfo }

func (c *Ctx) Pkg(path string) *packages.Package {
	p := c.byPath[path]
	if p == nil {
		c.fail("package %s not loaded", path)
	}
	return p
}

func shortPkg(path string) string {
	if i := strings.LastIndex(path, "/"); i >= 0 {
		return path[i+1:]
	}
	return path
}

// LookupFunc finds a function or method declaration. recv is the receiver's
// type name without '*' ("" for a plain function). Returns nil if absent.
func (c *Ctx) LookupFunc(pkgPath, recv, name string) *FuncInfo {
	p := c.byPath[pkgPath]
	if p == nil {
		return nil
	}
	// a method that was turned into a package function of the same name is still the anchor (benign R1/b2)
	asFunc := recv != ""
	for _, f := range p.Syntax {
		for _, d := range f.Decls {
			if fd, ok := d.(*ast.FuncDecl); ok && fd.Name.Name == name && recvName(fd) != "" {
				asFunc = false
			}
		}
	}
	if asFunc {
		methodlessAnchor[pkgPath+"."+name] = true
	}
	for _, f := range p.Syntax {
		for _, d := range f.Decls {
			fd, ok := d.(*ast.FuncDecl)
			if !ok || fd.Name.Name != name {
				continue
			}
			r := recvName(fd)
			if r != recv && !(asFunc && r == "") {
				continue
			}
			obj, _ := p.TypesInfo.Defs[fd.Name].(*types.Func)
			if obj == nil {
				continue
			}
			n := shortPkg(pkgPath) + "." + name
			if recv != "" {
				n = shortPkg(pkgPath) + ".(" + recv + ")." + name
			}
			c.funcs[n] = true
			return &FuncInfo{Pkg: p, Decl: fd, Obj: obj, Name: n}
		}
	}
	return nil
}

// Func is LookupFunc that records an unresolved anchor when absent.
func (c *Ctx) Func(rule, pkgPath, recv, name string) *FuncInfo {
	fi := c.LookupFunc(pkgPath, recv, name)
	if fi == nil || fi.Decl.Body == nil {
		n := shortPkg(pkgPath) + "." + name
		if recv != "" {
			n = shortPkg(pkgPath) + ".(" + recv + ")." + name
		}
		c.Unresolved(rule, "func "+n)
		return nil
	}
	return fi
}

func recvName(fd *ast.FuncDecl) string {
	if fd.Recv == nil || len(fd.Recv.List) == 0 {
		return ""
	}
	t := fd.Recv.List[0].Type
	for {
		switch x := t.(type) {
		case *ast.StarExpr:
			t = x.X
		case *ast.ParenExpr:
			t = x.X
		case *ast.IndexExpr:
			t = x.X
		case *ast.IndexListExpr:
			t = x.X
		case *ast.Ident:
			return x.Name
		default:
			return ""
		}
	}
}

// FuncInfoOf maps a *types.Func of the analysed modules to its declaration.
func (c *Ctx) FuncInfoOf(fn *types.Func) *FuncInfo {
	if fn == nil || fn.Pkg() == nil {
		return nil
	}
	fn = fn.Origin()
	p := c.byPath[fn.Pkg().Path()]
	if p == nil || !strings.HasPrefix(p.PkgPath, modRoot) {
		return nil
	}
	for _, f := range p.Syntax {
		if f.Pos() <= fn.Pos() && fn.Pos() <= f.End() {
			for _, d := range f.Decls {
				if fd, ok := d.(*ast.FuncDecl); ok && fd.Name.Pos() == fn.Pos() {
					n := shortPkg(p.PkgPath) + "." + fd.Name.Name
					if r := recvName(fd); r != "" {
						n = shortPkg(p.PkgPath) + ".(" + r + ")." + fd.Name.Name
					}
					c.funcs[n] = true
					return &FuncInfo{Pkg: p, Decl: fd, Obj: fn, Name: n}
				}
			}
		}
	}
	return nil
}

// AllFuncs iterates over every function declaration with a body of the
// analysed modules (non-test files; generated ent code and the ANTLR parser
// are included only when includeGen is set).
func (c *Ctx) AllFuncs(includeGen bool, fn func(fi *FuncInfo)) {
	var paths []string
	for p := range c.byPath {
		if strings.HasPrefix(p, modRoot) {
			paths = append(paths, p)
		}
	}
	sort.Strings(paths)
	for _, path := range paths {
		p := c.byPath[path]
		if !includeGen && (strings.Contains(path, "/internal/migrate/ent") || strings.HasSuffix(path, "/sqliteparse") || strings.HasSuffix(path, "/pgparse") || strings.HasSuffix(path, "/myparse")) {
			if strings.Contains(path, "/internal/migrate/ent") {
				continue
			}
		}
		for _, f := range p.Syntax {
			name := c.Fset.Position(f.Pos()).Filename
			if strings.HasSuffix(name, "_test.go") {
				continue
			}
			if !includeGen && ast.IsGenerated(f) {
				continue
			}
			for _, d := range f.Decls {
				fd, ok := d.(*ast.FuncDecl)
				if !ok || fd.Body == nil {
					continue
				}
				obj, _ := p.TypesInfo.Defs[fd.Name].(*types.Func)
				if obj == nil {
					continue
				}
				n := shortPkg(path) + "." + fd.Name.Name
				if r := recvName(fd); r != "" {
					n = shortPkg(path) + ".(" + r + ")." + fd.Name.Name
				}
				fn(&FuncInfo{Pkg: p, Decl: fd, Obj: obj, Name: n})
			}
		}
	}
}

// NamedType looks up a named type.
func (c *Ctx) NamedType(pkgPath, name string) *types.Named {
	p := c.byPath[pkgPath]
	if p == nil {
		return nil
	}
	o := p.Types.Scope().Lookup(name)
	if o == nil {
		return nil
	}
	n, _ := o.Type().(*types.Named)
	return n
}

func (c *Ctx) SSAFunc(fi *FuncInfo) *ssa.Function {
	prog := c.SSA()
	return prog.FuncValue(fi.Obj)
}

// ---------------------------------------------------------------- known findings

type known struct {
	prop, rule, key, text string
	fixed                 bool
}

func loadKnown(path string) ([]known, error) {
	b, err := os.ReadFile(path)
	if err != nil {
		if os.IsNotExist(err) {
			return nil, nil
		}
		return nil, err
	}
	var out []known
	for _, ln := range strings.Split(string(b), "\n") {
		ln = strings.TrimSpace(ln)
		if ln == "" || strings.HasPrefix(ln, "#") {
			continue
		}
		k := known{}
		switch {
		case strings.HasPrefix(ln, "finding:"):
			ln = strings.TrimSpace(strings.TrimPrefix(ln, "finding:"))
		case strings.HasPrefix(ln, "fixed:"):
			k.fixed = true
			ln = strings.TrimSpace(strings.TrimPrefix(ln, "fixed:"))
		default:
			return nil, fmt.Errorf("known_findings: unrecognised line %q", ln)
		}
		head, text, _ := strings.Cut(ln, " :: ")
		k.text = text
		for _, f := range strings.Fields(head) {
			kk, v, ok := strings.Cut(f, "=")
			if !ok {
				continue
			}
			switch kk {
			case "property":
				k.prop = v
			case "rule":
				k.rule = v
			case "key":
				k.key = strings.ReplaceAll(v, "%20", " ")
			}
		}
		out = append(out, k)
	}
	return out, nil
}

// ---------------------------------------------------------------- finish

type evidence struct {
	PropertyID  string         `json:"property_id"`
	Tier        string         `json:"tier"`
	Seed        int            `json:"seed"`
	Level       string         `json:"level"`
	Coverage    map[string]any `json:"coverage"`
	Assumptions []string       `json:"assumptions"`
	WallS       float64        `json:"wall_s"`
	Violations  int            `json:"violations"`
}

var commonAssumptions = []string{
	"go/packages + go/types + go/ssa + go/cfg (x/tools v0.50.0, go1.26.8) model the program the OSS build compiles (default build tags); code behind other tags is not analysed",
	"third-party callees (database/sql, ent, hcl, cobra) are opaque: they may do anything to their arguments but write nothing of ours, except for the effect primitives listed per rule",
	"rule instances confirmed by reading the reference tree are frozen as tables in the checker (floors); a missing anchor is reported as a violation of kind=unresolved, not skipped",
	"a structural necessary condition is decided, not the behaviour as a whole (see MANIFEST level_note / DESIGN.md section of the property)",
}

// Finish checks floors, matches known findings, writes evidence and replay
// files and returns the process exit code.
func (c *Ctx) Finish(verifDir, explanation string, undecided []string, extra map[string]any) int {
	for _, r := range c.rules {
		if r.Count < r.Floor {
			r.Fail++
			c.obls = append(c.obls, Obligation{Rule: r.ID, Key: "floor", OK: false, Kind: "floor",
				Msg: fmt.Sprintf("rule matched %d instances, fewer than the %d confirmed on the reference tree (a rule matching nothing passes vacuously)", r.Count, r.Floor)})
			r.Count++
		}
	}
	kn, err := loadKnown(filepath.Join(verifDir, "known_findings.txt"))
	if err != nil {
		fmt.Println("ERROR:", err)
		return 2
	}
	evDir := filepath.Join(verifDir, "evidence")
	if c.outDir != "" {
		evDir = c.outDir
	}
	rpDir := filepath.Join(evDir, "replay")
	os.MkdirAll(rpDir, 0o755)
	// remove stale replay files of this property
	if old, _ := filepath.Glob(filepath.Join(rpDir, c.Prop+"-*.json")); old != nil {
		for _, f := range old {
			os.Remove(f)
		}
	}
	viol, knownHits := 0, 0
	var samples []any
	for _, o := range c.obls {
		if o.OK {
			continue
		}
		matched := false
		for _, k := range kn {
			if !k.fixed && k.prop == c.Prop && k.rule == o.Rule && k.key == o.Key {
				matched = true
				fmt.Printf("KNOWN-FINDING: property=%s rule=%s key=%s %s :: %s\n", c.Prop, o.Rule, o.Key, o.Pos, k.text)
				knownHits++
				break
			}
		}
		if matched {
			continue
		}
		viol++
		path := filepath.Join(rpDir, fmt.Sprintf("%s-%d.json", c.Prop, viol))
		b, _ := json.MarshalIndent(map[string]any{"property": c.Prop, "rule": o.Rule, "rule_text": c.ruleIx[o.Rule].Text, "key": o.Key, "pos": o.Pos, "kind": o.Kind, "reason": o.Msg,
			"replay": fmt.Sprintf("./run.sh %s %s  # re-evaluates all rules of the property; look for rule=%s key=%s", c.Prop, c.Tier, o.Rule, o.Key)}, "", " ")
		os.WriteFile(path, b, 0o644)
		fmt.Printf("VIOLATION property=%s replay=%s\n", c.Prop, path)
		fmt.Printf("  rule=%s key=%s at %s: %s\n", o.Rule, o.Key, o.Pos, o.Msg)
	}
	// samples: a few obligations per rule
	perRule := map[string]int{}
	for _, o := range c.obls {
		if perRule[o.Rule] < 4 || !o.OK {
			perRule[o.Rule]++
			samples = append(samples, o)
		}
	}
	total, disch := 0, 0
	for _, o := range c.obls {
		total++
		if o.OK {
			disch++
		}
	}
	var fns []string
	for f := range c.funcs {
		fns = append(fns, f)
	}
	sort.Strings(fns)
	nAtlas := 0
	for p := range c.byPath {
		if strings.HasPrefix(p, modRoot) {
			nAtlas++
		}
	}
	cov := map[string]any{
		"explanation":        explanation,
		"obligations":        total,
		"discharged":         disch,
		"known_findings_hit": knownHits,
		"rules":              c.rules,
		"samples":            samples,
		"functions_analysed": fns,
		"packages_loaded":    len(c.byPath),
		"atlas_packages":     nAtlas,
		"checker_cmd":        fmt.Sprintf("./run.sh %s %s", c.Prop, c.Tier),
		"trusted_base":       []string{"golang.org/x/tools v0.50.0 (go/packages, go/ssa, go/cfg, typeutil)", "go1.26.8 go/types", "hand-confirmed rule tables in /verif/atlascheck"},
		"not_decided":        undecided,
		"notes":              c.notes,
		"load_s":             c.loadSec,
		"exhaustive":         true,
	}
	for k, v := range extra {
		cov[k] = v
	}
	ev := evidence{PropertyID: c.Prop, Tier: c.Tier, Seed: c.Seed, Level: "other", Coverage: cov, Assumptions: commonAssumptions, WallS: time.Since(c.start).Seconds(), Violations: viol}
	b, _ := json.MarshalIndent(ev, "", " ")
	if err := os.WriteFile(filepath.Join(evDir, c.Prop+".json"), b, 0o644); err != nil {
		fmt.Println("ERROR writing evidence:", err)
		return 2
	}
	fmt.Printf("%s %s: %d obligations, %d discharged, %d known findings, %d violations, %d rules, %.1fs\n", c.Prop, c.Tier, total, disch, knownHits, viol, len(c.rules), time.Since(c.start).Seconds())
	for _, r := range c.rules {
		fmt.Printf("  %-6s instances=%-3d floor=%-3d failed=%d  %s\n", r.ID, r.Count, r.Floor, r.Fail, firstLine(r.Text))
	}
	if viol > 0 {
		return 1
	}
	return 0
}

func firstLine(s string) string {
	if i := strings.IndexByte(s, '\n'); i >= 0 {
		s = s[:i]
	}
	if r := []rune(s); len(r) > 110 {
		s = string(r[:110]) + "…"
	}
	return s
}

type packagesPkg = packages.Package

func timeNow() time.Time { return time.Now() }
