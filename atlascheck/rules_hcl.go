package main

import (
	"go/ast"
	"go/token"
	"go/types"
	"reflect"
	"sort"
	"strings"
)

func init() {
	register("C15", &propCheck{
		explanation: "Table-agreement rules for the two directions of the HCL codec. (a) Per dialect, every schema.Type implementation that ParseType (and its helpers) can construct has a case in FormatType, so formatting a parsed type cannot fall into the error default. (b) Every HCL attribute key written by the schema→spec direction (constant first argument of the schemahcl attribute constructors and specutil helpers in specutil/sqlspec/the dialect packages) is read by the spec→schema direction (Attr/Resource look-ups with a constant key, or a `spec:\"…\"` struct tag): a key written and never read is information lost on re-evaluation. (c) Every type-attribute name declared for the type registries camelises to a field of some schema.Type struct, otherwise TypeRegistry.Convert silently skips it. (d) Each dialect registers its registry with parser and formatter set to that dialect's ParseType/FormatType.",
		undecided:   []string{"value-level handling of zero vs absent parameters (size 0, precision nil vs 0, unsigned false)", "byte-identical re-marshalling", "that Format(Parse(x)) is a fixpoint for every type string"},
		run:         runC15,
	})
	register("C03", &propCheck{
		explanation: "Structural parts of export faithfulness. (a) HCL key agreement for SQLite and the shared spec code (same rule as C15/R15b): whatever the exporter writes, the evaluator reads. (b) The SQL export is the plan of (empty → inspected) in dump mode: sqlInspect derives its changes from the inspected realm through ChangesToRealm-style construction and plans them with PlanModeDump; every table of the realm yields an AddTable. (c) Inspecting twice gives identical output as far as map iteration is concerned: no order-sensitive map iteration in the SQLite inspector and the spec marshaller (C20's lint scoped to those functions).",
		undecided:   []string{"the regex recovery of constraint names, checks, AUTOINCREMENT and generated expressions from stored CREATE statements (sql/sqlite/inspect.go) for every statement shape", "equality of the re-created database with the original (needs an engine): the loop database → export → database is not closed by this technique"},
		run:         runC03,
	})
}

var hclWriterFuncs = map[string]bool{"BoolAttr": true, "StringAttr": true, "IntAttr": true, "Int64Attr": true, "StringsAttr": true, "RefAttr": true, "RefsAttr": true, "RawAttr": true, "VarAttr": true, "StringEnumsAttr": true, "LitAttr": true, "ListAttr": true}

// collectHCLKeys returns the constant keys written and read in the given packages.
func collectHCLKeys(c *Ctx, pkgs []string) (written map[string]token.Pos, read map[string]bool) {
	written, read = map[string]token.Pos{}, map[string]bool{}
	for _, pp := range pkgs {
		p := c.byPath[pp]
		if p == nil {
			continue
		}
		info := p.TypesInfo
		for _, file := range p.Syntax {
			if strings.HasSuffix(c.Fset.Position(file.Pos()).Filename, "_test.go") {
				continue
			}
			ast.Inspect(file, func(m ast.Node) bool {
				switch x := m.(type) {
				case *ast.CallExpr:
					if len(x.Args) == 0 {
						return true
					}
					key, keyOK := stringConst(info, x.Args[0])
					fn := calleeOf(info, x)
					if fn == nil {
						// call of a function value (package-level helper variable): constant string arguments are look-up keys
						for _, a := range x.Args {
							if k, ok := stringConst(info, a); ok {
								read[k] = true
							}
						}
						return true
					}
					switch {
					case hclWriterFuncs[fn.Name()] && fn.Pkg() != nil && (fn.Pkg().Path() == pHCL || fn.Pkg().Path() == pSpecutil):
						if keyOK {
							if _, dup := written[key]; !dup {
								written[key] = x.Pos()
							}
						}
					case keyOK && (fn.Name() == "Attr" || fn.Name() == "Resource" || fn.Name() == "Resources" || fn.Name() == "hasAttr" || fn.Name() == "convertAttrs" || fn.Name() == "Bool" || fn.Name() == "attrVal"):
						read[key] = true
					case !keyOK && (fn.Name() == "Attr" || fn.Name() == "Resource" || fn.Name() == "Resources"):
						// the key comes from a table that is ranged over: for _, o := range []T{{name: "k"}, …} { spec.Attr(o.name) }
						for _, k := range tableKeys(info, file, x.Args[0]) {
							read[k] = true
						}
					default:
						// helper functions taking the key as their last constant argument (e.g. attr(spec, "k"))
						if fn.Pkg() != nil && strings.HasPrefix(fn.Pkg().Path(), modRoot) {
							for _, a := range x.Args {
								if k, ok := stringConst(info, a); ok && !hclWriterFuncs[fn.Name()] {
									read[k] = true
								}
							}
						}
					}
				case *ast.Field:
					if x.Tag != nil {
						tag := reflect.StructTag(strings.Trim(x.Tag.Value, "`"))
						if v, ok := tag.Lookup("spec"); ok {
							for _, part := range strings.Split(v, ",") {
								if part != "" && part != "name" {
									read[part] = true
								}
							}
						}
					}
				case *ast.KeyValueExpr:
					// composite literals of schemahcl.Attr{K: "k"} are writers
					if id, ok := x.Key.(*ast.Ident); ok && id.Name == "K" {
						if k, ok := stringConst(info, x.Value); ok {
							if _, dup := written[k]; !dup {
								written[k] = x.Pos()
							}
						}
					}
				case *ast.BinaryExpr:
					// comparisons `attr.K == "k"` are reads
					if x.Op == token.EQL || x.Op == token.NEQ {
						for _, pair := range [][2]ast.Expr{{x.X, x.Y}, {x.Y, x.X}} {
							if se, ok := pair[0].(*ast.SelectorExpr); ok && se.Sel.Name == "K" {
								if k, ok := stringConst(info, pair[1]); ok {
									read[k] = true
								}
							}
						}
					}
				case *ast.CaseClause:
					for _, e := range x.List {
						if k, ok := stringConst(info, e); ok {
							read[k] = true
						}
					}
				}
				return true
			})
		}
	}
	return
}

func checkHCLKeys(c *Ctx, rule string, pkgs []string, label string) {
	written, read := collectHCLKeys(c, pkgs)
	var ks []string
	for k := range written {
		ks = append(ks, k)
	}
	sort.Strings(ks)
	if len(ks) < 10 {
		c.Unresolved(rule, label+": fewer than 10 written HCL keys found")
	}
	for _, k := range ks {
		c.Check(rule, label+"|key "+k, written[k], read[k], "the HCL attribute %q is written by the schema→spec direction but no spec→schema code reads it (no Attr/Resource look-up, comparison or spec tag with that key): the information is lost when the document is evaluated again", k)
	}
}

func runC15(c *Ctx) {
	c.Rule("R15a", "format ⊇ parse: every schema.Type implementation constructed in a dialect's ParseType (and its package-local helpers) has a case in that dialect's FormatType", 25)
	c.Rule("R15b", "HCL key agreement (all dialects + shared spec code): every constant attribute key written by the schema→spec direction is read by the spec→schema direction", 12)
	c.Rule("R15c", "type-attribute names declared for the registries camelise to a field of a schema.Type struct", 4)
	c.Rule("R15d", "each dialect's TypeRegistry is built with its own ParseType and FormatType (WithParser / WithFormatter)", 6)

	c.Rule("R15g", ruleTextIndependentAttrs, 4)
	checkIndependentAttrs(c, "R15g", []string{pSqlite, pMysql, pPostgres})
	c.Rule("R15i", ruleTextFloatDigits, 1)
	checkFloatDigits(c, "R15i")
	c.Rule("R15j", ruleTextIntParserGuard, 1)
	checkIntParserGuard(c, "R15j")
	c.Rule("R15q", ruleTextFKSides, 1)
	checkFKSides(c, "R15q")
	c.Rule("R15r", ruleTextArrayKept, 3)
	checkArrayKept(c, "R15r")
	c.Rule("R15p", ruleTextNoQuotedExprText, 10)
	checkNoQuotedExprText(c, "R15p")
	c.Rule("R15o", ruleTextValueWritten, 1)
	checkValueWritten(c, "R15o")
	c.Rule("R15m", ruleTextFoldConsistency, 3)
	checkFoldConsistency(c, "R15m")
	c.Rule("R15n", ruleTextTimePrecision, 1)
	checkTimePrecision(c, "R15n")
	c.Rule("R15l", ruleTextCommentPresence, 1)
	checkCommentPresence(c, "R15l")
	c.Rule("R15k", ruleTextUnquoteOnly, 2)
	checkUnquoteOnly(c, "R15k")
	c.Rule("R15h", ruleTextOpaqueUDT, 1)
	checkOpaqueUDT(c, "R15h", []string{pSqlite, pMysql, pPostgres})

	typeIface := c.NamedType(pSchema, "Type").Underlying().(*types.Interface)
	for _, pp := range []string{pSqlite, pMysql, pPostgres} {
		pf := c.Func("R15a", pp, "", "ParseType")
		ff := c.Func("R15a", pp, "", "FormatType")
		if pf == nil || ff == nil {
			continue
		}
		// constructed types: composite literals of types implementing schema.Type in ParseType and its package-local callees (depth 2)
		constructed := map[string]token.Pos{}
		seen := map[*types.Func]bool{}
		var visit func(fi *FuncInfo, depth int)
		visit = func(fi *FuncInfo, depth int) {
			if seen[fi.Obj] || depth > 2 {
				return
			}
			seen[fi.Obj] = true
			ast.Inspect(fi.Decl.Body, func(m ast.Node) bool {
				switch x := m.(type) {
				case *ast.CompositeLit:
					t := fi.Info().TypeOf(x)
					if n := namedOf(t); n != nil {
						if types.Implements(types.NewPointer(n), typeIface) || types.Implements(n, typeIface) {
							name := n.Obj().Name()
							if n.Obj().Pkg() != nil && n.Obj().Pkg().Path() != pSchema {
								name = shortPkg(n.Obj().Pkg().Path()) + "." + name
							}
							if _, dup := constructed[name]; !dup {
								constructed[name] = x.Pos()
							}
						}
					}
				case *ast.CallExpr:
					if fn := calleeOf(fi.Info(), x); fn != nil && fn.Pkg() != nil && fn.Pkg().Path() == pp {
						if cf := c.FuncInfoOf(fn); cf != nil {
							visit(cf, depth+1)
						}
					}
				}
				return true
			})
		}
		visit(pf, 0)
		// handled by FormatType
		handled := map[string]bool{}
		ast.Inspect(ff.Decl.Body, func(m ast.Node) bool {
			cc, ok := m.(*ast.CaseClause)
			if !ok {
				return true
			}
			for _, e := range cc.List {
				if n := namedOf(ff.Info().TypeOf(e)); n != nil {
					name := n.Obj().Name()
					if n.Obj().Pkg() != nil && n.Obj().Pkg().Path() != pSchema {
						name = shortPkg(n.Obj().Pkg().Path()) + "." + name
					}
					handled[name] = true
				}
			}
			return true
		})
		var ks []string
		for k := range constructed {
			ks = append(ks, k)
		}
		sort.Strings(ks)
		for _, k := range ks {
			c.Check("R15a", shortPkg(pp)+"|ParseType constructs "+k, constructed[k], handled[k], "%s.ParseType can produce a %s but %s.FormatType has no case for it: formatting the parsed type fails (or prints the wrong text), so the type cannot round-trip", shortPkg(pp), k, shortPkg(pp))
		}
	}

	checkHCLKeys(c, "R15b", []string{pSpecutil, pSqlspec, pSqlite, pMysql, pPostgres, pHCL}, "hcl")
	c.Rule("R15f", "sibling agreement per resource level: for each dialect and each pair (convertTable, tableSpec), (convertColumn, columnSpec), (convertIndex, indexSpec) every dialect-specific attribute key the converter itself reads (spec.Attr(\"k\") in its own body) is written by the marshaller (or its package-local helpers)", 4)
	checkSiblingKeys(c)
	c.Rule("R15e", "attribute guard independence: an optional HCL attribute written from field F of an object is not made conditional on a comparison of a different field G of the same object with a constant (each optional attribute is omitted only because of its own default)", 6)
	checkAttrGuards(c)

	// R15c
	fieldNames := map[string]bool{}
	for _, pp := range []string{pSchema, pSqlite, pMysql, pPostgres} {
		p := c.byPath[pp]
		if p == nil {
			continue
		}
		sc := p.Types.Scope()
		for _, nm := range sc.Names() {
			tn, ok := sc.Lookup(nm).(*types.TypeName)
			if !ok {
				continue
			}
			st, ok := tn.Type().Underlying().(*types.Struct)
			if !ok {
				continue
			}
			if !types.Implements(types.NewPointer(tn.Type()), typeIface) && !types.Implements(tn.Type(), typeIface) {
				continue
			}
			for i := 0; i < st.NumFields(); i++ {
				fieldNames[strings.ToLower(st.Field(i).Name())] = true
			}
		}
	}
	nAttr := 0
	for _, pp := range []string{pHCL, pSqlite, pMysql, pPostgres} {
		p := c.byPath[pp]
		if p == nil {
			continue
		}
		for _, file := range p.Syntax {
			if strings.HasSuffix(c.Fset.Position(file.Pos()).Filename, "_test.go") {
				continue
			}
			ast.Inspect(file, func(m ast.Node) bool {
				cl, ok := m.(*ast.CompositeLit)
				if !ok || !typeIs(p.TypesInfo.TypeOf(cl), pHCL, "TypeAttr") {
					return true
				}
				for _, e := range cl.Elts {
					kv, ok := e.(*ast.KeyValueExpr)
					if !ok {
						continue
					}
					if id, ok := kv.Key.(*ast.Ident); ok && id.Name == "Name" {
						if name, ok := stringConst(p.TypesInfo, kv.Value); ok {
							nAttr++
							camel := strings.ToLower(strings.ReplaceAll(name, "_", ""))
							c.Check("R15c", shortPkg(pp)+"|type attribute "+name, kv.Pos(), fieldNames[camel], "the type attribute %q does not camelise to a field of any schema.Type struct: TypeRegistry.Convert skips it silently and the parameter is lost when the schema is written as HCL", name)
						}
					}
				}
				return true
			})
		}
	}
	if nAttr == 0 {
		c.Unresolved("R15c", "schemahcl.TypeAttr literals")
	}

	// R15d
	for _, pp := range []string{pSqlite, pMysql, pPostgres} {
		p := c.Pkg(pp)
		var parser, formatter string
		for _, file := range p.Syntax {
			if strings.HasSuffix(c.Fset.Position(file.Pos()).Filename, "_test.go") {
				continue
			}
			ast.Inspect(file, func(m ast.Node) bool {
				call, ok := m.(*ast.CallExpr)
				if !ok || len(call.Args) != 1 {
					return true
				}
				fn := calleeOf(p.TypesInfo, call)
				if fn == nil || fn.Pkg() == nil || fn.Pkg().Path() != pHCL {
					return true
				}
				switch fn.Name() {
				case "WithParser":
					parser = types.ExprString(call.Args[0])
				case "WithFormatter":
					formatter = types.ExprString(call.Args[0])
				case "WithSpecFunc":
					if formatter == "" {
						formatter = "specfunc:" + types.ExprString(call.Args[0])
					}
				}
				return true
			})
		}
		c.Check("R15d", shortPkg(pp)+"|registry parser is ParseType", token.NoPos, parser == "ParseType", "the %s type registry parses column types with %q instead of the dialect's ParseType", shortPkg(pp), parser)
		c.Check("R15d", shortPkg(pp)+"|registry formatter is FormatType", token.NoPos, formatter == "FormatType" || strings.HasPrefix(formatter, "specfunc:"), "the %s type registry formats column types with %q instead of the dialect's FormatType", shortPkg(pp), formatter)
	}
}

func runC03(c *Ctx) {
	c.Rule("R03a", "HCL key agreement (sqlite + shared spec code): every constant attribute key written by the schema→spec direction is read by the spec→schema direction", 5)
	c.Rule("R03b", "SQL export is the dump-mode plan of the inspected realm: sqlInspect/fmtPlan plan with PlanModeDump the changes built from the inspected realm, one AddTable per table", 3)
	c.Rule("R03c", "inspecting twice gives the same output as far as map order is concerned: no order-sensitive map iteration in the SQLite inspector, the spec marshaller and the inspect formatter (C20's lint scoped to them)", 1)

	checkHCLKeys(c, "R03a", []string{pSpecutil, pSqlspec, pSqlite, pHCL}, "sqlite")
	c.Rule("R03d", "the SQL export prints every index key part with its direction: the planners' key-part writers consult IndexPart.Desc on every path (same rule as C01/R01e)", 2)
	checkIndexPartDescRule(c, "R03d")
	c.Rule("R03e", ruleTextSQLText, 6)
	checkSQLTextSearches(c, "R03e")
	c.Rule("R03f", ruleTextFKActions, 4)
	checkFKActionGuards(c, "R03f", []string{pSqlite, pMysql, pPostgres})
	c.Rule("R03g", ruleTextOpaqueUDT, 1)
	checkOpaqueUDT(c, "R03g", []string{pSqlite})
	c.Rule("R03k", ruleTextNoBackslash, 1)
	checkNoBackslashInSqlite(c, "R03k")
	c.Rule("R03s", ruleTextNoQuotedExprText, 10)
	checkNoQuotedExprText(c, "R03s")
	c.Rule("R03r", ruleTextTrimOrder, 1)
	checkTrimOrder(c, "R03r")
	c.Rule("R03t", ruleTextSqliteDefaultQuotes, 1)
	checkSqliteDefaultQuotes(c, "R03t")
	c.Rule("R03q", ruleTextScanOrder, 2)
	checkScanOrder(c, "R03q")
	c.Rule("R03p", ruleTextExclusiveArms, 0)
	checkExclusiveArms(c, "R03p")
	c.Rule("R03o", ruleTextAutoincShapes, 2)
	checkAutoincShapes(c, "R03o")
	c.Rule("R03n", ruleTextLikeEscape, 0)
	checkLikeEscape(c, "R03n")
	c.Rule("R03m", ruleTextDynRegex, 0)
	checkDynRegex(c, "R03m")
	c.Rule("R03l", ruleTextUnquoteOnly, 2)
	checkUnquoteOnly(c, "R03l")
	c.Rule("R03h", ruleTextMayWrapSymmetric, 5)
	checkMayWrapSymmetric(c, "R03h")
	c.Rule("R03i", ruleTextFloatDigits, 1)
	checkFloatDigits(c, "R03i")
	c.Rule("R03j", ruleTextIntParserGuard, 1)
	checkIntParserGuard(c, "R03j")

	// R03b
	if fi := c.Func("R03b", pCmdlog, "", "fmtPlan"); fi != nil {
		dump := false
		// fmtPlan itself, or a package-local function it calls to build its plan option
		var look func(g *FuncInfo, depth int)
		look = func(g *FuncInfo, depth int) {
			ast.Inspect(g.Decl.Body, func(m ast.Node) bool {
				switch x := m.(type) {
				case *ast.AssignStmt:
					if len(x.Lhs) == 1 && len(x.Rhs) == 1 {
						if se, ok := x.Lhs[0].(*ast.SelectorExpr); ok && se.Sel.Name == "Mode" && strings.HasSuffix(types.ExprString(x.Rhs[0]), "PlanModeDump") {
							dump = true
						}
					}
				case *ast.CallExpr:
					if depth < 2 {
						if fn := calleeOf(g.Info(), x); fn != nil && fn.Pkg() != nil && fn.Pkg().Path() == pCmdlog {
							if hf := c.FuncInfoOf(fn); hf != nil && hf.Decl.Body != nil && hf.Decl != g.Decl {
								look(hf, depth+1)
							}
						}
					}
				}
				return !dump
			})
		}
		look(fi, 0)
		c.Check("R03b", "fmtPlan|plans in dump mode", fi.Decl.Pos(), dump, "the SQL export must be planned with PlanModeDump")
		planned := nodeHasCall(fi.Info(), fi.Decl.Body, func(fn *types.Func, _ *ast.CallExpr) bool { return fn.Name() == "PlanChanges" }) != nil
		c.Check("R03b", "fmtPlan|calls PlanChanges with its changes", fi.Decl.Pos(), planned, "fmtPlan must plan the given changes")
	}
	// the realm → changes construction: one AddTable per table
	found := false
	c.AllFuncs(false, func(fi *FuncInfo) {
		if fi.Pkg.PkgPath != pCmdlog && fi.Pkg.PkgPath != pCmdmig {
			return
		}
		if fi.Decl.Name.Name != "ChangesToRealm" && fi.Decl.Name.Name != "sqlInspect" {
			return
		}
		info := fi.Info()
		ast.Inspect(fi.Decl.Body, func(m ast.Node) bool {
			rs, ok := m.(*ast.RangeStmt)
			if !ok || !isField(info, rs.X, pSchema, "Schema", "Tables") {
				return true
			}
			// body appends an AddTable for the loop variable unconditionally
			for _, st := range rs.Body.List {
				if as, ok := st.(*ast.AssignStmt); ok && len(as.Rhs) == 1 {
					if call, ok := as.Rhs[0].(*ast.CallExpr); ok && builtinName(info, call) == "append" {
						for _, a := range call.Args[1:] {
							if un, ok := a.(*ast.UnaryExpr); ok && typeIs(info.TypeOf(un.X), pSchema, "AddTable") {
								found = true
							}
						}
					}
				}
			}
			return true
		})
	})
	c.Check("R03b", "export|every table of the realm yields an AddTable", token.NoPos, found, "no loop over a schema's tables appends an AddTable unconditionally in the export path (ChangesToRealm / sqlInspect)")

	// R03c
	bad := 0
	n := 0
	for _, s := range collectMapRanges(c) {
		p := s.fi.Pkg.PkgPath
		base := c.Fset.Position(s.fi.Decl.Pos()).Filename
		base = base[strings.LastIndex(base, "/")+1:]
		inScope := (p == pSqlite && (strings.HasPrefix(base, "inspect") || strings.HasPrefix(base, "sqlspec") || strings.HasPrefix(base, "driver"))) || p == pSpecutil || p == pSqlspec || (p == pCmdlog)
		if !inScope {
			continue
		}
		n++
		if _, listed := mapRangeExceptions[s.key]; listed {
			continue
		}
		if len(s.bad) > 0 {
			bad++
			c.Check("R03c", s.key, s.pos, false, "order-sensitive map iteration in the inspect/export path: %v", s.bad)
		}
	}
	c.Check("R03c", "inspect/export path|map iterations are order-insensitive", token.NoPos, bad == 0, "%d order-sensitive map iterations", bad)
	c.Note("R03c examined %d map-range sites in the SQLite inspector, spec code and cmdlog", n)
}

// checkAttrGuards: see R15e.
func checkAttrGuards(c *Ctx) {
	n := 0
	for _, pp := range []string{pSpecutil, pSqlite, pMysql, pPostgres} {
		c.AllFuncs(false, func(fi *FuncInfo) {
			if fi.Pkg.PkgPath != pp {
				return
			}
			info := fi.Info()
			pm := parentMap(fi.Decl.Body)
			ast.Inspect(fi.Decl.Body, func(m ast.Node) bool {
				call, ok := m.(*ast.CallExpr)
				if !ok || len(call.Args) < 2 {
					return true
				}
				fn := calleeOf(info, call)
				if fn == nil || !hclWriterFuncs[fn.Name()] || fn.Pkg() == nil || (fn.Pkg().Path() != pHCL && fn.Pkg().Path() != pSpecutil) {
					return true
				}
				key, ok := stringConst(info, call.Args[0])
				if !ok {
					return true
				}
				// the value: a selector path base.F somewhere in the value argument
				var base, field string
				ast.Inspect(call.Args[1], func(k ast.Node) bool {
					if se, ok := k.(*ast.SelectorExpr); ok && base == "" {
						if p := selPath(se.X); p != "" && fieldOf(info, se) != nil {
							base, field = p, se.Sel.Name
						}
					}
					return true
				})
				if base == "" {
					return true
				}
				bad := ""
				child := ast.Node(call)
				guarded := false
				for p := pm[call]; p != nil; child, p = p, pm[p] {
					ifs, ok := p.(*ast.IfStmt)
					if !ok || !(ifs.Body.Pos() <= child.Pos() && child.End() <= ifs.Body.End()) {
						continue
					}
					guarded = true
					for _, fct := range impliedFacts(ifs.Cond, true) {
						be, ok := fct.expr.(*ast.BinaryExpr)
						if !ok {
							continue
						}
						for _, side := range [][2]ast.Expr{{be.X, be.Y}, {be.Y, be.X}} {
							se, ok := side[0].(*ast.SelectorExpr)
							if !ok || fieldOf(info, se) == nil || selPath(se.X) != base || se.Sel.Name == field {
								continue
							}
							if tv := info.Types[side[1]]; tv.Value != nil {
								bad = types.ExprString(be)
							}
						}
					}
				}
				if !guarded {
					return true
				}
				n++
				c.Check("R15e", fi.Name+"|attr "+key+" from "+base+"."+field, call.Pos(), bad == "", "the optional attribute %q (value %s.%s) is written only when `%s` holds, a condition on a different field of the same object: with that field at its default the attribute is dropped and the value is lost on re-evaluation", key, base, field, bad)
				return true
			})
		})
	}
	if n == 0 {
		c.Unresolved("R15e", "guarded HCL attribute writes")
	}
}

// checkSiblingKeys: see R15f.
func checkSiblingKeys(c *Ctx) {
	collect := func(fi *FuncInfo, maxDepth int) (read, written map[string]token.Pos) {
		read, written = map[string]token.Pos{}, map[string]token.Pos{}
		seen := map[string]bool{}
		// env binds string parameters of a package-local helper to the constant
		// passed at the call site being followed (a helper that takes the key).
		var visit func(f *FuncInfo, depth int, env map[types.Object]string)
		visit = func(f *FuncInfo, depth int, env map[types.Object]string) {
			var ek []string
			for o, v := range env {
				ek = append(ek, o.Name()+"="+v)
			}
			sort.Strings(ek)
			sk := f.Obj.FullName() + "|" + strings.Join(ek, ",")
			if seen[sk] || depth > maxDepth {
				return
			}
			seen[sk] = true
			info := f.Info()
			constOf := func(e ast.Expr) (string, bool) {
				if k, ok := stringConst(info, e); ok {
					return k, true
				}
				if id, ok := ast.Unparen(e).(*ast.Ident); ok {
					if v, ok := env[info.ObjectOf(id)]; ok {
						return v, true
					}
				}
				return "", false
			}
			ast.Inspect(f.Decl.Body, func(m ast.Node) bool {
				call, ok := m.(*ast.CallExpr)
				if !ok {
					return true
				}
				fn := calleeOf(info, call)
				if fn == nil {
					return true
				}
				if len(call.Args) > 0 {
					if k, ok := constOf(call.Args[0]); ok {
						switch {
						case hclWriterFuncs[fn.Name()] && fn.Pkg() != nil && (fn.Pkg().Path() == pHCL || fn.Pkg().Path() == pSpecutil):
							if _, dup := written[k]; !dup {
								written[k] = call.Pos()
							}
						case fn.Name() == "Attr" && fn.Pkg() != nil && fn.Pkg().Path() == pHCL:
							if _, dup := read[k]; !dup {
								read[k] = call.Pos()
							}
						}
					}
				}
				if fn.Pkg() != nil && fn.Pkg().Path() == f.Pkg.PkgPath {
					if cf := c.FuncInfoOf(fn); cf != nil && cf.Decl.Body != nil {
						sub := map[types.Object]string{}
						idx := 0
						for _, fld := range cf.Decl.Type.Params.List {
							for _, nm := range fld.Names {
								if idx < len(call.Args) {
									if v, ok := constOf(call.Args[idx]); ok {
										sub[cf.Info().ObjectOf(nm)] = v
									}
								}
								idx++
							}
						}
						visit(cf, depth+1, sub)
					}
				}
				return true
			})
		}
		visit(fi, 0, nil)
		return
	}
	n := 0
	for _, pp := range []string{pMysql, pPostgres, pSqlite} {
		for _, pair := range [][2]string{{"convertTable", "tableSpec"}, {"convertColumn", "columnSpec"}, {"convertIndex", "indexSpec"}} {
			conv := c.LookupFunc(pp, "", pair[0])
			spec := c.LookupFunc(pp, "", pair[1])
			if conv == nil || spec == nil {
				continue
			}
			n++
			r, _ := collect(conv, 0)
			_, w := collect(spec, 2)
			var rk []string
			for k := range r {
				rk = append(rk, k)
			}
			sort.Strings(rk)
			key := shortPkg(pp) + "|" + pair[0] + " ⇄ " + pair[1]
			for _, k := range rk {
				_, ok := w[k]
				c.Check("R15f", key+"|"+k, r[k], ok, "%s.%s reads the attribute %q that %s.%s (and its package-local helpers) never writes: a schema carrying it loses it when written as HCL", shortPkg(pp), pair[0], k, shortPkg(pp), pair[1])
			}
		}
	}
	if n == 0 {
		c.Unresolved("R15f", "converter / marshaller pairs")
	}
}

// tableKeys resolves a look-up key that is the loop variable (or a field of the loop variable)
// of a range over a composite literal, to the string constants the literal holds there.
func tableKeys(info *types.Info, file *ast.File, e ast.Expr) []string {
	e = ast.Unparen(e)
	field := ""
	var root *ast.Ident
	switch x := e.(type) {
	case *ast.Ident:
		root = x
	case *ast.SelectorExpr:
		if id, ok := ast.Unparen(x.X).(*ast.Ident); ok {
			root, field = id, x.Sel.Name
		}
	}
	if root == nil {
		return nil
	}
	obj := info.ObjectOf(root)
	var out []string
	ast.Inspect(file, func(m ast.Node) bool {
		rs, ok := m.(*ast.RangeStmt)
		if !ok {
			return true
		}
		v, ok := rs.Value.(*ast.Ident)
		if !ok || info.ObjectOf(v) != obj {
			return true
		}
		var lit *ast.CompositeLit
		switch x := ast.Unparen(rs.X).(type) {
		case *ast.CompositeLit:
			lit = x
		case *ast.Ident:
			// a local or package-level variable initialised with a literal
			o := info.ObjectOf(x)
			ast.Inspect(file, func(q ast.Node) bool {
				switch d := q.(type) {
				case *ast.ValueSpec:
					for i, nm := range d.Names {
						if info.ObjectOf(nm) == o && i < len(d.Values) {
							lit, _ = ast.Unparen(d.Values[i]).(*ast.CompositeLit)
						}
					}
				case *ast.AssignStmt:
					for i, l := range d.Lhs {
						if id, ok := l.(*ast.Ident); ok && info.ObjectOf(id) == o && i < len(d.Rhs) {
							if cl, ok := ast.Unparen(d.Rhs[i]).(*ast.CompositeLit); ok {
								lit = cl
							}
						}
					}
				}
				return true
			})
		}
		if lit == nil {
			return true
		}
		for _, el := range lit.Elts {
			if field == "" {
				if k, ok := stringConst(info, el); ok {
					out = append(out, k)
				}
				continue
			}
			cl, ok := ast.Unparen(el).(*ast.CompositeLit)
			if !ok {
				continue
			}
			for i, fe := range cl.Elts {
				if kv, ok := fe.(*ast.KeyValueExpr); ok {
					if id, ok := kv.Key.(*ast.Ident); ok && id.Name == field {
						if k, ok := stringConst(info, kv.Value); ok {
							out = append(out, k)
						}
					}
				} else if st, ok := info.TypeOf(cl).Underlying().(*types.Struct); ok && i < st.NumFields() && st.Field(i).Name() == field {
					if k, ok := stringConst(info, fe); ok {
						out = append(out, k)
					}
				}
			}
		}
		return true
	})
	return out
}
