package main

import (
	"go/ast"
	"go/constant"
	"go/token"
	"go/types"
	"strings"
)

func init() {
	register("C08", &propCheck{
		explanation: "Cursor-discipline rules on sql/migrate.Scanner. The scanner's position arithmetic rests on the invariant total == len(src) - len(input) + pos; it holds by construction if pos/total/input are stored only in a closed set of shapes (addPos adds the same amount to both; pick restores what it saved; re-slicing input[pos:] resets pos; skipSpaces adds what it trimmed; init re-slices and sets total to len(original)-len(input)). The rules enumerate every store to these fields and accept only those shapes, check that each advance after a look-behind match equals matched-length minus look-behind (addPos(len(m)-k) after matching at input[pos-k:]), that nested scanners are started at input[pos:] and their total is added back on every success path, that Stmt.Pos is produced only as total-len(text), and that the lint consumer indexes the same string the scanner was given.",
		undecided:   []string{"totality / termination on arbitrary bytes", "losslessness (that no SQL text is dropped) beyond the cursor invariant", "that regexps match what the comments say"},
		run:         runC08,
	})
}

var modInputSummary map[*types.Func]bool

func runC08(c *Ctx) {
	c.Rule("R08a", "every store to Scanner.pos / Scanner.total / Scanner.input has one of the shapes that preserve total == len(src)-len(input)+pos (addPos, pick save/restore, input=input[pos:]+pos=0, skipSpaces, init)", 8)
	c.Rule("R08b", "nested scanners: a sub-Scanner is initialised with s.input[s.pos:] and s.addPos(sub.total) is passed on every nil-error return path", 3)
	c.Rule("R08c", "Stmt.Pos is produced only in Scanner.emit as total-len(text) (other Stmt literals copy an existing Pos or use 0); the statement scanner and the lint report index the same string (string(f.Bytes()))", 3)
	c.Rule("R08d", "advance/anchor agreement: addPos(len(M)-K) is dominated by a match of M anchored at s.input[s.pos-K:] (HasPrefix / FindString / EqualFold at pos==K) in the same function", 3)

	c.Rule("R08e", "whitespace-class agreement: the class skipSpaces removes in front of a statement (and counts into total) contains the class emit strips from Stmt.Text, so Pos = total-len(text) lands on Text[0]", 1)

	c.Rule("R08f", "strip-both-ends slices cannot go out of range: for every x[a:len(x)-b] in sql/migrate the conditions enclosing it (len tests, HasPrefix/HasSuffix with constant arguments) imply len(x) >= a+b; a prefix and a suffix that can overlap in one short string do not", 1)

	c.Rule("R08i", ruleTextLookBehind, 2)
	checkLookBehind(c, "R08i")
	c.Rule("R08h", ruleTextCallerText, 1)
	checkCallerText(c, "R08h")
	c.Rule("R08g", ruleTextLoopProgress, 5)
	checkLoopProgress(c, "R08g")

	p := c.Pkg(pMigrate)
	info := p.TypesInfo
	checkSpaceClass(c, info)
	checkStripSlices(c)
	isCur := func(e ast.Expr, names ...string) string {
		for _, n := range names {
			if isField(info, e, pMigrate, "Scanner", n) {
				return n
			}
		}
		return ""
	}
	// ---- R08a: enumerate stores
	c.AllFuncs(false, func(fi *FuncInfo) {
		if fi.Pkg.PkgPath != pMigrate {
			return
		}
		type store struct {
			field string
			stmt  ast.Stmt
			lhsIx int
		}
		var stores []store
		ast.Inspect(fi.Decl.Body, func(m ast.Node) bool {
			switch s := m.(type) {
			case *ast.AssignStmt:
				for i, l := range s.Lhs {
					if f := isCur(l, "pos", "total", "input"); f != "" {
						stores = append(stores, store{f, s, i})
					}
				}
			case *ast.IncDecStmt:
				if f := isCur(s.X, "pos", "total", "input"); f != "" {
					stores = append(stores, store{f, s, 0})
				}
			case *ast.UnaryExpr:
				if s.Op == token.AND {
					if f := isCur(s.X, "pos", "total", "input"); f != "" {
						stores = append(stores, store{f, nil, 0})
					}
				}
			}
			return true
		})
		if len(stores) == 0 {
			return
		}
		c.funcs[fi.Name] = true
		name := fi.Decl.Name.Name
		recvIsScanner := recvName(fi.Decl) == "Scanner"
		ok, why := false, "stores to the scanner cursors are not allowed in this function"
		// first: prove the cursor invariant symbolically on every path (E-lin); shapes are only the fallback
		if recvIsScanner {
			if modInputSummary == nil {
				modInputSummary, _ = scannerCursorSummaries(c)
			}
			v := proveCursorInvariant(c, fi, modInputSummary)
			switch {
			case v.proved:
				for _, st := range stores {
					var pos token.Pos
					if st.stmt != nil {
						pos = st.stmt.Pos()
					}
					c.Check("R08a", fi.Name+"|store Scanner."+st.field, pos, true, "")
				}
				c.Note("R08a %s: cursor invariant proved on %d path segments (E-lin)", fi.Name, v.paths)
				return
			case v.refuted != "":
				for _, st := range stores {
					var pos token.Pos
					if st.stmt != nil {
						pos = st.stmt.Pos()
					}
					c.Check("R08a", fi.Name+"|store Scanner."+st.field, pos, false, "%s breaks the cursor invariant (s.input = s.src[a:] and s.total == a + s.pos) %s", fi.Name, v.refuted)
				}
				return
			default:
				c.Note("R08a %s: E-lin undecided (%s); falling back to the closed set of store shapes", fi.Name, v.undecided)
			}
		}
		if recvIsScanner {
			switch name {
			case "addPos":
				ok, why = shapeAddPos(info, fi), "addPos must add its parameter to both pos and total and store nothing else"
			case "pick":
				ok, why = shapePick(info, fi), "pick must restore exactly the pos/width/total it saved"
			case "emit", "comment":
				ok, why = shapeReslice(info, fi), "re-slicing input must be `s.input = s.input[s.pos:]` immediately followed by `s.pos = 0`, and total must not be stored"
			case "skipSpaces":
				ok, why = shapeSkipSpaces(info, fi), "skipSpaces must add to total exactly the number of bytes trimmed from input (n := len(s.input); trim; s.total += n - len(s.input))"
			case "init":
				ok, why = shapeInit(info, fi), "init must zero pos/total, set src and input to the parameter, and after any re-slicing of input set total = len(<original>) - len(s.input)"
			}
		}
		for _, st := range stores {
			var pos token.Pos
			if st.stmt != nil {
				pos = st.stmt.Pos()
			}
			c.Check("R08a", fi.Name+"|store Scanner."+st.field, pos, ok, "%s: %s", fi.Name, why)
		}
	})

	// ---- R08b nested scanners
	c.AllFuncs(false, func(fi *FuncInfo) {
		if fi.Pkg.PkgPath != pMigrate || recvName(fi.Decl) != "Scanner" {
			return
		}
		// sub scanners: locals assigned &Scanner{...}, or the result of a Scanner method that constructs one
		subs := map[types.Object]bool{}
		fromCtor := map[types.Object]bool{}
		ast.Inspect(fi.Decl.Body, func(m ast.Node) bool {
			as, ok := m.(*ast.AssignStmt)
			if !ok || len(as.Rhs) != 1 || len(as.Lhs) < 1 {
				return true
			}
			id, ok := as.Lhs[0].(*ast.Ident)
			if !ok {
				return true
			}
			switch r := ast.Unparen(as.Rhs[0]).(type) {
			case *ast.UnaryExpr:
				if cl, ok := r.X.(*ast.CompositeLit); ok && r.Op == token.AND && typeIs(info.TypeOf(cl), pMigrate, "Scanner") {
					subs[info.ObjectOf(id)] = true
				}
			case *ast.CallExpr:
				if fn := calleeOf(info, r); fn != nil && recvTypeName(fn) == "Scanner" && fn.Pkg() != nil && fn.Pkg().Path() == pMigrate && typeIs(derefType(info.TypeOf(id)), pMigrate, "Scanner") {
					if cf := c.FuncInfoOf(fn); cf != nil && cf.Decl.Body != nil {
						// the constructor itself is checked where it is declared (it holds the literal and the init call)
						subs[info.ObjectOf(id)] = true
						fromCtor[info.ObjectOf(id)] = true
					}
				}
			}
			return true
		})
		if len(subs) == 0 {
			return
		}
		// a constructor helper returns the sub-scanner: only its init argument is checked
		returnsSub := false
		ast.Inspect(fi.Decl.Body, func(m ast.Node) bool {
			if r, ok := m.(*ast.ReturnStmt); ok {
				for _, res := range r.Results {
					if id, ok := ast.Unparen(res).(*ast.Ident); ok && subs[info.ObjectOf(id)] {
						returnsSub = true
					}
				}
			}
			return true
		})
		c.funcs[fi.Name] = true
		recv := info.ObjectOf(fi.Decl.Recv.List[0].Names[0])
		f := newFlow(info, fi.Decl.Body)
		for sub := range subs {
			// init argument
			initOK := false
			for _, call := range callsIn(fi.Decl.Body, false) {
				se, ok := call.Fun.(*ast.SelectorExpr)
				if !ok || se.Sel.Name != "init" {
					continue
				}
				if x, ok := se.X.(*ast.Ident); !ok || info.ObjectOf(x) != sub {
					continue
				}
				if sl, ok := call.Args[0].(*ast.SliceExpr); ok && sl.High == nil && isCur(sl.X, "input") != "" && isCur(sl.Low, "pos") != "" {
					if r := rootIdent(sl.X); r != nil && info.ObjectOf(r) == recv {
						initOK = true
					}
				}
			}
			if !fromCtor[sub] {
				c.Check("R08b", fi.Name+"|sub.init(s.input[s.pos:])", fi.Decl.Pos(), initOK, "the nested scanner must be initialised with s.input[s.pos:]")
			}
			if returnsSub {
				continue
			}
			isAddBack := func(n ast.Node) bool {
				hit := false
				walkShallow(n, func(m ast.Node) bool {
					call, ok := m.(*ast.CallExpr)
					if !ok {
						return true
					}
					if fn := calleeOf(info, call); !funcIs(fn, pMigrate, "Scanner", "addPos") {
						return true
					}
					if se, ok := call.Fun.(*ast.SelectorExpr); ok {
						if x, ok := se.X.(*ast.Ident); !ok || info.ObjectOf(x) != recv {
							return true
						}
					}
					if a, ok := call.Args[0].(*ast.SelectorExpr); ok && a.Sel.Name == "total" {
						if x, ok := a.X.(*ast.Ident); ok && info.ObjectOf(x) == sub {
							hit = true
						}
					}
					return true
				})
				return hit
			}
			nilRet := func(n ast.Node) bool {
				r, ok := n.(*ast.ReturnStmt)
				return ok && len(r.Results) == 1 && isNilIdent(info, r.Results[0])
			}
			// from the init call on: every nil return passes addPos(sub.total)
			n, found := f.reach([]point{f.entry()}, isAddBack, nilRet, true)
			c.Check("R08b", fi.Name+"|addPos(sub.total) on success", nodePos(n, fi.Decl.Pos()), !found, "a nil-error return at %s is reachable without adding the nested scanner's consumed bytes to the parent", c.nodeAtOrEnd(n))
		}
	})

	// ---- R08c
	c.AllFuncs(false, func(fi *FuncInfo) {
		finfo := fi.Info()
		ast.Inspect(fi.Decl.Body, func(m ast.Node) bool {
			cl, ok := m.(*ast.CompositeLit)
			if !ok || !typeIs(finfo.TypeOf(cl), pMigrate, "Stmt") {
				return true
			}
			for _, e := range cl.Elts {
				kv, ok := e.(*ast.KeyValueExpr)
				if !ok {
					continue
				}
				if id, ok := kv.Key.(*ast.Ident); !ok || id.Name != "Pos" {
					continue
				}
				okShape := false
				switch {
				case fi.Name == "migrate.(Scanner).emit":
					// s.total - len(text)
					if be, ok := kv.Value.(*ast.BinaryExpr); ok && be.Op == token.SUB && isField(finfo, be.X, pMigrate, "Scanner", "total") {
						if a := lenArg(finfo, be.Y); a != nil {
							if id, ok := a.(*ast.Ident); ok {
								// the scanned text handed to emit (its string parameter), not yet trimmed:
								// no assignment to it can reach this literal
								obj := finfo.ObjectOf(id)
								isParam := false
								for _, fld := range fi.Decl.Type.Params.List {
									for _, nm := range fld.Names {
										if finfo.ObjectOf(nm) == obj {
											isParam = true
										}
									}
								}
								if isParam {
									ef := newFlow(finfo, fi.Decl.Body)
									assignsText := func(n ast.Node) bool {
										as, ok := n.(*ast.AssignStmt)
										if !ok {
											return false
										}
										for _, l := range as.Lhs {
											if lid, ok := l.(*ast.Ident); ok && finfo.ObjectOf(lid) == obj {
												return true
											}
										}
										return false
									}
									holdsLit := func(n ast.Node) bool {
										hit := false
										ast.Inspect(n, func(k ast.Node) bool {
											if k == ast.Node(cl) {
												hit = true
											}
											return !hit
										})
										return hit
									}
									okShape = true
									for _, ap := range ef.find(assignsText) {
										if _, reached := ef.reach([]point{after(ap)}, nil, holdsLit, false); reached {
											okShape = false
										}
									}
								}
							}
						}
					}
				default:
					// copying an existing Pos, or the constant 0
					if tv := finfo.Types[kv.Value]; tv.Value != nil && tv.Value.String() == "0" {
						okShape = true
					}
					if se, ok := kv.Value.(*ast.SelectorExpr); ok && se.Sel.Name == "Pos" && isField(finfo, se, pMigrate, "Stmt", "Pos") {
						okShape = true
					}
				}
				c.Check("R08c", fi.Name+"|Stmt.Pos", kv.Pos(), okShape, "Stmt.Pos must be computed as s.total - len(text) in emit (elsewhere: copied from a Stmt or 0)")
			}
			return true
		})
		// stores to Stmt.Pos
		for _, l := range writesIn(fi.Decl.Body) {
			if isField(finfo, l, pMigrate, "Stmt", "Pos") {
				c.Check("R08c", fi.Name+"|store Stmt.Pos", l.Pos(), false, "Stmt.Pos is reassigned in %s", fi.Name)
			}
		}
	})
	if fd := c.Func("R08c", pMigrate, "", "FileStmtDecls"); fd != nil {
		ok := false
		for _, call := range callsIn(fd.Decl.Body, false) {
			if fn := calleeOf(fd.Info(), call); fn != nil && fn.Name() == "ScanStmts" && len(call.Args) == 1 {
				ok = isStringOfBytesIn(fd.Info(), fd.Decl.Body, call.Args[0])
			}
		}
		c.Check("R08c", "FileStmtDecls|scans string(f.Bytes())", fd.Decl.Pos(), ok, "the driver scanner must be given string(f.Bytes()) unmodified (positions index the file)")
	}
	if nf := c.Func("R08c", pLint, "", "NewFileReport"); nf != nil {
		ok := false
		ast.Inspect(nf.Decl.Body, func(m ast.Node) bool {
			if kv, isKV := m.(*ast.KeyValueExpr); isKV {
				if id, isID := kv.Key.(*ast.Ident); isID && id.Name == "Text" {
					ok = isStringOfBytesIn(nf.Info(), nf.Decl.Body, kv.Value)
				}
			}
			return true
		})
		c.Check("R08c", "NewFileReport|Text is string(f.Bytes())", nf.Decl.Pos(), ok, "FileReport.Text (indexed by Line(pos)) must be string(f.Bytes()), the string the scanner was given")
	}

	// ---- R08d advance/anchor agreement
	c.AllFuncs(false, func(fi *FuncInfo) {
		if fi.Pkg.PkgPath != pMigrate || recvName(fi.Decl) != "Scanner" {
			return
		}
		for _, call := range callsIn(fi.Decl.Body, false) {
			if fn := calleeOf(info, call); !funcIs(fn, pMigrate, "Scanner", "addPos") {
				continue
			}
			be, ok := call.Args[0].(*ast.BinaryExpr)
			if !ok || be.Op != token.SUB {
				continue
			}
			m := lenArg(info, be.X)
			if m == nil {
				continue
			}
			ms, ks := types.ExprString(m), types.ExprString(be.Y)
			// look for an anchored match of m at s.input[s.pos-K:]
			found, anchoredK := false, ""
			ast.Inspect(fi.Decl.Body, func(n ast.Node) bool {
				switch x := n.(type) {
				case *ast.CallExpr:
					fn := calleeOf(info, x)
					if fn == nil {
						return true
					}
					switch {
					case fn.Pkg() != nil && fn.Pkg().Path() == "strings" && fn.Name() == "HasPrefix" && len(x.Args) == 2 && types.ExprString(x.Args[1]) == ms:
						if k, ok := lookBehind(info, x.Args[0]); ok {
							found, anchoredK = true, k
						}
					case fn.Pkg() != nil && fn.Pkg().Path() == "strings" && fn.Name() == "EqualFold" && len(x.Args) == 2 && types.ExprString(x.Args[1]) == ms:
						// s.input[:len(M)] compared at the start: anchor is pos == K
						if sl, ok := x.Args[0].(*ast.SliceExpr); ok && sl.Low == nil && sl.High != nil {
							if a := lenArg(info, sl.High); a != nil && types.ExprString(a) == ms {
								// find `s.pos == K` in the same condition
								ast.Inspect(fi.Decl.Body, func(q ast.Node) bool {
									if b2, ok := q.(*ast.BinaryExpr); ok && b2.Op == token.EQL && isField(info, b2.X, pMigrate, "Scanner", "pos") {
										found, anchoredK = true, types.ExprString(b2.Y)
									}
									return true
								})
							}
						}
					}
				case *ast.AssignStmt:
					// m := re.FindString(s.input[s.pos-K:])
					if len(x.Lhs) == 1 && len(x.Rhs) == 1 && types.ExprString(x.Lhs[0]) == ms {
						if rc, ok := x.Rhs[0].(*ast.CallExpr); ok {
							if fn := calleeOf(info, rc); fn != nil && fn.Name() == "FindString" && len(rc.Args) == 1 {
								if k, ok := lookBehind(info, rc.Args[0]); ok {
									found, anchoredK = true, k
								}
							}
						}
					}
				}
				return true
			})
			key := fi.Name + "|addPos(len(" + ms + ")-K)"
			c.Check("R08d", key, call.Pos(), found && anchoredK == ks, "addPos(len(%s) - %s): the match of %s is anchored %s bytes behind s.pos (found=%v), so the advance must be len(%s) - %s", ms, ks, ms, anchoredK, found, ms, anchoredK)
		}
	})
}

// lookBehind recognises s.input[s.pos-K:] and returns K rendered.
func lookBehind(info *types.Info, e ast.Expr) (string, bool) {
	sl, ok := e.(*ast.SliceExpr)
	if !ok || sl.High != nil || !isField(info, sl.X, pMigrate, "Scanner", "input") {
		return "", false
	}
	be, ok := sl.Low.(*ast.BinaryExpr)
	if !ok || be.Op != token.SUB || !isField(info, be.X, pMigrate, "Scanner", "pos") {
		return "", false
	}
	return types.ExprString(be.Y), true
}

func isStringOfBytes(info *types.Info, e ast.Expr) bool {
	call, ok := e.(*ast.CallExpr)
	if !ok || len(call.Args) != 1 {
		return false
	}
	if tv, ok := info.Types[call.Fun]; !ok || !tv.IsType() {
		return false
	}
	inner, ok := call.Args[0].(*ast.CallExpr)
	if !ok {
		return false
	}
	se, ok := inner.Fun.(*ast.SelectorExpr)
	return ok && se.Sel.Name == "Bytes" && len(inner.Args) == 0
}

// isStringOfBytesIn is isStringOfBytes that also looks through a local with a single definition.
func isStringOfBytesIn(info *types.Info, body ast.Node, e ast.Expr) bool {
	e = ast.Unparen(e)
	if isStringOfBytes(info, e) {
		return true
	}
	id, ok := e.(*ast.Ident)
	if !ok {
		return false
	}
	obj := info.ObjectOf(id)
	var defs []ast.Expr
	ast.Inspect(body, func(m ast.Node) bool {
		switch x := m.(type) {
		case *ast.AssignStmt:
			for i, l := range x.Lhs {
				if lid, ok := l.(*ast.Ident); ok && info.ObjectOf(lid) == obj {
					if len(x.Lhs) == len(x.Rhs) {
						defs = append(defs, x.Rhs[i])
					} else {
						defs = append(defs, nil)
					}
				}
			}
		case *ast.ValueSpec:
			for i, nm := range x.Names {
				if info.ObjectOf(nm) == obj {
					if i < len(x.Values) {
						defs = append(defs, x.Values[i])
					} else {
						defs = append(defs, nil)
					}
				}
			}
		}
		return true
	})
	return len(defs) == 1 && defs[0] != nil && isStringOfBytes(info, ast.Unparen(defs[0]))
}

// ---- shapes

func stmtsOf(fi *FuncInfo) []ast.Stmt { return fi.Decl.Body.List }

func shapeAddPos(info *types.Info, fi *FuncInfo) bool {
	if fi.Decl.Type.Params.NumFields() != 1 {
		return false
	}
	param := info.ObjectOf(fi.Decl.Type.Params.List[0].Names[0])
	seen := map[string]bool{}
	for _, st := range stmtsOf(fi) {
		as, ok := st.(*ast.AssignStmt)
		if !ok || as.Tok != token.ADD_ASSIGN || len(as.Lhs) != 1 {
			return false
		}
		id, ok := as.Rhs[0].(*ast.Ident)
		if !ok || info.ObjectOf(id) != param {
			return false
		}
		switch {
		case isField(info, as.Lhs[0], pMigrate, "Scanner", "pos"):
			seen["pos"] = true
		case isField(info, as.Lhs[0], pMigrate, "Scanner", "total"):
			seen["total"] = true
		default:
			return false
		}
	}
	return seen["pos"] && seen["total"] && len(stmtsOf(fi)) == 2
}

func shapePick(info *types.Info, fi *FuncInfo) bool {
	// first stmt: a, b, c := s.pos, s.width, s.total ; some later stmt: s.pos, s.width, s.total = a, b, c ; no other cursor store
	var saved []types.Object
	var savedFields []string
	restored := false
	for _, st := range stmtsOf(fi) {
		as, ok := st.(*ast.AssignStmt)
		if !ok {
			continue
		}
		if as.Tok == token.DEFINE && len(as.Lhs) == len(as.Rhs) && saved == nil {
			all := true
			for i, r := range as.Rhs {
				f := ""
				for _, n := range []string{"pos", "width", "total"} {
					if isField(info, r, pMigrate, "Scanner", n) {
						f = n
					}
				}
				id, ok := as.Lhs[i].(*ast.Ident)
				if f == "" || !ok {
					all = false
					break
				}
				saved = append(saved, info.ObjectOf(id))
				savedFields = append(savedFields, f)
			}
			if !all {
				saved, savedFields = nil, nil
			}
			continue
		}
		if as.Tok == token.ASSIGN && saved != nil && len(as.Lhs) == len(saved) {
			match := true
			for i, l := range as.Lhs {
				id, ok := as.Rhs[i].(*ast.Ident)
				if !ok || info.ObjectOf(id) != saved[i] || !isField(info, l, pMigrate, "Scanner", savedFields[i]) {
					match = false
				}
			}
			if match {
				restored = true
				continue
			}
		}
		for _, l := range as.Lhs {
			for _, n := range []string{"pos", "total", "input"} {
				if isField(info, l, pMigrate, "Scanner", n) {
					return false
				}
			}
		}
	}
	has := map[string]bool{}
	for _, f := range savedFields {
		has[f] = true
	}
	return restored && has["pos"] && has["total"]
}

func shapeReslice(info *types.Info, fi *FuncInfo) bool {
	ok := true
	n := 0
	var walk func(list []ast.Stmt)
	walk = func(list []ast.Stmt) {
		for i, st := range list {
			switch s := st.(type) {
			case *ast.AssignStmt:
				for _, l := range s.Lhs {
					switch {
					case isField(info, l, pMigrate, "Scanner", "total"):
						ok = false
					case isField(info, l, pMigrate, "Scanner", "input"):
						n++
						// s.input = s.input[s.pos:]
						good := false
						if len(s.Lhs) == 1 && len(s.Rhs) == 1 && s.Tok == token.ASSIGN {
							if sl, isSl := s.Rhs[0].(*ast.SliceExpr); isSl && sl.High == nil && isField(info, sl.X, pMigrate, "Scanner", "input") && isField(info, sl.Low, pMigrate, "Scanner", "pos") {
								// next statement: s.pos = 0
								if i+1 < len(list) {
									if nx, isAs := list[i+1].(*ast.AssignStmt); isAs && len(nx.Lhs) == 1 && isField(info, nx.Lhs[0], pMigrate, "Scanner", "pos") {
										if tv := info.Types[nx.Rhs[0]]; tv.Value != nil && tv.Value.String() == "0" {
											good = true
										}
									}
								}
							}
						}
						if !good {
							ok = false
						}
					case isField(info, l, pMigrate, "Scanner", "pos"):
						// allowed only as the partner of the re-slice (checked above): must be preceded by it
						if i == 0 {
							ok = false
						} else if pv, isAs := list[i-1].(*ast.AssignStmt); !isAs || len(pv.Lhs) != 1 || !isField(info, pv.Lhs[0], pMigrate, "Scanner", "input") {
							ok = false
						}
					}
				}
			case *ast.IfStmt:
				walk(s.Body.List)
				if b, isB := s.Else.(*ast.BlockStmt); isB {
					walk(b.List)
				}
			case *ast.BlockStmt:
				walk(s.List)
			case *ast.ForStmt:
				walk(s.Body.List)
			case *ast.IncDecStmt:
				for _, nm := range []string{"pos", "total"} {
					if isField(info, s.X, pMigrate, "Scanner", nm) {
						ok = false
					}
				}
			}
		}
	}
	walk(stmtsOf(fi))
	return ok && n >= 1
}

func shapeSkipSpaces(info *types.Info, fi *FuncInfo) bool {
	l := stmtsOf(fi)
	if len(l) != 3 {
		return false
	}
	// n := len(s.input)
	a0, ok := l[0].(*ast.AssignStmt)
	if !ok || a0.Tok != token.DEFINE || len(a0.Lhs) != 1 {
		return false
	}
	nObj := info.ObjectOf(a0.Lhs[0].(*ast.Ident))
	if a := lenArg(info, a0.Rhs[0]); a == nil || !isField(info, a, pMigrate, "Scanner", "input") {
		return false
	}
	// s.input = strings.TrimLeftFunc(s.input, …)
	a1, ok := l[1].(*ast.AssignStmt)
	if !ok || len(a1.Lhs) != 1 || !isField(info, a1.Lhs[0], pMigrate, "Scanner", "input") {
		return false
	}
	call, ok := a1.Rhs[0].(*ast.CallExpr)
	if !ok {
		return false
	}
	if fn := calleeOf(info, call); fn == nil || fn.Pkg() == nil || fn.Pkg().Path() != "strings" || !strings.HasPrefix(fn.Name(), "TrimLeft") || !isField(info, call.Args[0], pMigrate, "Scanner", "input") {
		return false
	}
	// s.total += n - len(s.input)
	a2, ok := l[2].(*ast.AssignStmt)
	if !ok || a2.Tok != token.ADD_ASSIGN || !isField(info, a2.Lhs[0], pMigrate, "Scanner", "total") {
		return false
	}
	be, ok := a2.Rhs[0].(*ast.BinaryExpr)
	if !ok || be.Op != token.SUB {
		return false
	}
	id, ok := be.X.(*ast.Ident)
	if !ok || info.ObjectOf(id) != nObj {
		return false
	}
	a := lenArg(info, be.Y)
	return a != nil && isField(info, a, pMigrate, "Scanner", "input")
}

func shapeInit(info *types.Info, fi *FuncInfo) bool {
	if fi.Decl.Type.Params.NumFields() != 1 {
		return false
	}
	param := info.ObjectOf(fi.Decl.Type.Params.List[0].Names[0])
	isParam := func(e ast.Expr) bool {
		id, ok := e.(*ast.Ident)
		return ok && info.ObjectOf(id) == param
	}
	zeroed, seeded := false, false
	ok := true
	// flatten statements in order (top-level and inside ifs)
	var seq []ast.Stmt
	var walk func(list []ast.Stmt)
	walk = func(list []ast.Stmt) {
		for _, st := range list {
			seq = append(seq, st)
			if ifs, isIf := st.(*ast.IfStmt); isIf {
				walk(ifs.Body.List)
				if b, isB := ifs.Else.(*ast.BlockStmt); isB {
					walk(b.List)
				}
			}
		}
	}
	walk(stmtsOf(fi))
	for i, st := range seq {
		as, isAs := st.(*ast.AssignStmt)
		if !isAs {
			continue
		}
		for j, l := range as.Lhs {
			switch {
			case isField(info, l, pMigrate, "Scanner", "pos"):
				if tv := info.Types[as.Rhs[j]]; tv.Value == nil || tv.Value.String() != "0" {
					ok = false
				}
				zeroed = true
			case isField(info, l, pMigrate, "Scanner", "total"):
				if tv := info.Types[as.Rhs[j]]; tv.Value != nil && tv.Value.String() == "0" && len(as.Lhs) == len(as.Rhs) {
					continue
				}
				// total = len(<param|s.src>) - len(s.input)
				be, isBin := as.Rhs[j].(*ast.BinaryExpr)
				good := false
				if isBin && be.Op == token.SUB {
					x, y := lenArg(info, be.X), lenArg(info, be.Y)
					if x != nil && y != nil && (isParam(x) || isField(info, x, pMigrate, "Scanner", "src")) && isField(info, y, pMigrate, "Scanner", "input") {
						good = true
					}
				}
				if !good {
					ok = false
				}
			case isField(info, l, pMigrate, "Scanner", "input"):
				if len(as.Lhs) == len(as.Rhs) && isParam(as.Rhs[j]) {
					seeded = true
					continue
				}
				// a re-slice: must be followed (later in sequence) by the total fix-up
				fixed := false
				for _, later := range seq[i+1:] {
					if la, isLa := later.(*ast.AssignStmt); isLa && len(la.Lhs) == 1 && isField(info, la.Lhs[0], pMigrate, "Scanner", "total") {
						if be, isBin := la.Rhs[0].(*ast.BinaryExpr); isBin && be.Op == token.SUB {
							fixed = true
						}
					}
				}
				if !fixed {
					ok = false
				}
			}
		}
	}
	return ok && zeroed && seeded
}

// trimClass classifies the set of leading characters a strings.Trim* call removes:
// "unicode" (unicode.IsSpace), "cutset:<chars>" (a constant cutset) or "" (unknown).
func trimClass(info *types.Info, call *ast.CallExpr) string {
	fn := calleeOf(info, call)
	if fn == nil || fn.Pkg() == nil || fn.Pkg().Path() != "strings" {
		return ""
	}
	switch fn.Name() {
	case "TrimSpace":
		return "unicode"
	case "TrimLeftFunc", "TrimFunc", "TrimRightFunc":
		if len(call.Args) == 2 {
			var id *ast.Ident
			switch a := ast.Unparen(call.Args[1]).(type) {
			case *ast.SelectorExpr:
				id = a.Sel
			case *ast.Ident:
				id = a
			}
			if id != nil {
				if f, ok := info.ObjectOf(id).(*types.Func); ok && f.Pkg() != nil && f.Pkg().Path() == "unicode" && f.Name() == "IsSpace" {
					return "unicode"
				}
			}
			// func(r rune) bool { return unicode.IsSpace(r) [|| …] }: at least the Unicode class
			if fl, ok := ast.Unparen(call.Args[1]).(*ast.FuncLit); ok && len(fl.Body.List) == 1 {
				if ret, ok := fl.Body.List[0].(*ast.ReturnStmt); ok && len(ret.Results) == 1 {
					for _, f := range impliedFactsOr(ret.Results[0]) {
						if c, ok := ast.Unparen(f).(*ast.CallExpr); ok {
							if fn := calleeOf(info, c); fn != nil && fn.Pkg() != nil && fn.Pkg().Path() == "unicode" && fn.Name() == "IsSpace" {
								return "unicode"
							}
						}
					}
				}
			}
		}
	case "TrimLeft", "Trim", "TrimRight":
		if len(call.Args) == 2 {
			if k, ok := stringConst(info, call.Args[1]); ok {
				return "cutset:" + k
			}
		}
	}
	return ""
}

// checkSpaceClass is R08e: Stmt.Pos is total-len(text) while Stmt.Text is the trimmed text, so
// every character emit strips from the front of the text must already have been skipped (and
// counted) by skipSpaces before the statement started.
func checkSpaceClass(c *Ctx, info *types.Info) {
	skip := c.LookupFunc(pMigrate, "Scanner", "skipSpaces")
	emit := c.LookupFunc(pMigrate, "Scanner", "emit")
	if skip == nil || emit == nil {
		c.Unresolved("R08e", "Scanner.skipSpaces / Scanner.emit")
		return
	}
	var skipCls, emitCls []string
	var skipPos token.Pos
	for _, call := range callsIn(skip.Decl.Body, true) {
		if fn := calleeOf(info, call); fn != nil && fn.Pkg() != nil && fn.Pkg().Path() == "strings" && strings.HasPrefix(fn.Name(), "Trim") && len(call.Args) > 0 && isField(info, call.Args[0], pMigrate, "Scanner", "input") {
			skipCls = append(skipCls, trimClass(info, call))
			skipPos = call.Pos()
		}
	}
	for _, call := range callsIn(emit.Decl.Body, true) {
		fn := calleeOf(info, call)
		if fn == nil || fn.Pkg() == nil || fn.Pkg().Path() != "strings" {
			continue
		}
		switch fn.Name() {
		case "TrimSpace", "TrimLeftFunc", "TrimFunc", "TrimLeft", "Trim":
			emitCls = append(emitCls, trimClass(info, call))
		}
	}
	if len(skipCls) != 1 || skipCls[0] == "" {
		c.Unresolved("R08e", "the class of characters Scanner.skipSpaces trims (expected one strings.TrimLeft* call on s.input with a recognisable class)")
		return
	}
	c.funcs[skip.Name], c.funcs[emit.Name] = true, true
	for _, ec := range emitCls {
		if ec == "" {
			c.Unresolved("R08e", "the class of characters Scanner.emit strips from the statement text")
			return
		}
	}
	contains := func(outer, inner string) bool {
		if outer == "unicode" {
			return true
		}
		if inner == "unicode" {
			return false
		}
		for _, r := range strings.TrimPrefix(inner, "cutset:") {
			if !strings.ContainsRune(strings.TrimPrefix(outer, "cutset:"), r) {
				return false
			}
		}
		return true
	}
	ok := true
	for _, ec := range emitCls {
		ok = ok && contains(skipCls[0], ec)
	}
	c.Check("R08e", "Scanner.skipSpaces ⊇ Scanner.emit|leading whitespace class", skipPos, ok, "skipSpaces removes %q in front of a statement but emit strips %q from its text: a character of the second class that is not in the first stays in front of the text, and Stmt.Pos points at it instead of at Text[0]", skipCls[0], emitCls)
}

// minLenWith returns the length of the shortest string having prefix p and suffix s.
func minLenWith(p, s string) int {
	for n := max(len(p), len(s)); n < len(p)+len(s); n++ {
		// the last len(s) bytes start at n-len(s); they overlap p on [n-len(s), len(p))
		k := len(p) - (n - len(s))
		if k >= 0 && k <= len(s) && p[len(p)-k:] == s[:k] {
			return n
		}
	}
	return len(p) + len(s)
}

// checkStripSlices is R08f.
func checkStripSlices(c *Ctx) {
	n := 0
	c.AllFuncs(false, func(fi *FuncInfo) {
		if fi.Pkg.PkgPath != pMigrate {
			return
		}
		info := fi.Info()
		pm := parentMap(fi.Decl.Body)
		intConst := func(e ast.Expr) (int, bool) {
			if e == nil {
				return 0, true
			}
			if tv, ok := info.Types[e]; ok && tv.Value != nil && tv.Value.Kind() == constant.Int {
				v, _ := constant.Int64Val(tv.Value)
				return int(v), true
			}
			return 0, false
		}
		ast.Inspect(fi.Decl.Body, func(m ast.Node) bool {
			se, ok := m.(*ast.SliceExpr)
			if !ok || se.High == nil {
				return true
			}
			xid, ok := ast.Unparen(se.X).(*ast.Ident)
			if !ok {
				return true
			}
			xobj := info.ObjectOf(xid)
			// High = len(x) - b
			hb, ok := ast.Unparen(se.High).(*ast.BinaryExpr)
			if !ok || hb.Op != token.SUB {
				return true
			}
			la := lenArg(info, hb.X)
			if la == nil {
				// n := len(x) … x[a:n-b]
				if nid, ok := ast.Unparen(hb.X).(*ast.Ident); ok {
					ast.Inspect(fi.Decl.Body, func(k ast.Node) bool {
						if as, ok := k.(*ast.AssignStmt); ok && len(as.Lhs) == 1 && len(as.Rhs) == 1 {
							if l, ok := as.Lhs[0].(*ast.Ident); ok && info.ObjectOf(l) == info.ObjectOf(nid) {
								if a := lenArg(info, as.Rhs[0]); a != nil {
									la = a
								}
							}
						}
						return true
					})
				}
			}
			lid, isID := la.(*ast.Ident)
			if la == nil || !isID || info.ObjectOf(lid) != xobj {
				return true
			}
			b, ok1 := intConst(hb.Y)
			a, ok2 := intConst(se.Low)
			if !ok1 || !ok2 || a+b == 0 {
				return true
			}
			n++
			c.funcs[fi.Name] = true
			isX := func(e ast.Expr) bool {
				id, ok := ast.Unparen(e).(*ast.Ident)
				return ok && info.ObjectOf(id) == xobj
			}
			// facts that hold where the slice is evaluated: conditions of the enclosing if-bodies, and the
			// negation of earlier guards of the form `if C { return / continue / break / panic }` in enclosing blocks
			bound, pre, suf := 0, "", ""
			var facts []fact
			var child ast.Node = se
			for p := pm[se]; p != nil; child, p = p, pm[p] {
				switch x := p.(type) {
				case *ast.IfStmt:
					if child == ast.Node(x.Body) {
						facts = append(facts, impliedFacts(x.Cond, true)...)
					} else if child == x.Else {
						facts = append(facts, impliedFacts(x.Cond, false)...)
					}
				case *ast.BlockStmt:
					for _, st := range x.List {
						if st == child || st.Pos() >= child.Pos() {
							break
						}
						g, isIf := st.(*ast.IfStmt)
						if !isIf || g.Else != nil || len(g.Body.List) == 0 {
							continue
						}
						switch last := g.Body.List[len(g.Body.List)-1].(type) {
						case *ast.ReturnStmt, *ast.BranchStmt:
							facts = append(facts, impliedFacts(g.Cond, false)...)
						case *ast.ExprStmt:
							if call, isCall := last.X.(*ast.CallExpr); isCall && builtinName(info, call) == "panic" {
								facts = append(facts, impliedFacts(g.Cond, false)...)
							}
						}
					}
				case *ast.FuncLit:
					p = nil
				}
				if p == nil {
					break
				}
			}
			{
				for _, f := range facts {
					switch e := ast.Unparen(f.expr).(type) {
					case *ast.CallExpr:
						fn := calleeOf(info, e)
						if !f.val || fn == nil || fn.Pkg() == nil || fn.Pkg().Path() != "strings" || len(e.Args) != 2 || !isX(e.Args[0]) {
							continue
						}
						k, isConst := stringConst(info, e.Args[1])
						if !isConst {
							continue
						}
						switch fn.Name() {
						case "HasPrefix":
							pre = k
						case "HasSuffix":
							suf = k
						}
					case *ast.BinaryExpr:
						if !f.val {
							// a failed comparison is the opposite comparison
							neg := map[token.Token]token.Token{token.LSS: token.GEQ, token.LEQ: token.GTR, token.GTR: token.LEQ, token.GEQ: token.LSS, token.EQL: token.NEQ, token.NEQ: token.EQL}
							if op, ok := neg[e.Op]; ok {
								e = &ast.BinaryExpr{X: e.X, Op: op, Y: e.Y, OpPos: e.OpPos}
							} else {
								continue
							}
						}
						lenOfX := func(y ast.Expr) bool {
							if l := lenArg(info, y); l != nil && isX(l) {
								return true
							}
							if nid, ok := ast.Unparen(y).(*ast.Ident); ok {
								hit := false
								ast.Inspect(fi.Decl.Body, func(k ast.Node) bool {
									if as, ok := k.(*ast.AssignStmt); ok && len(as.Lhs) == 1 && len(as.Rhs) == 1 {
										if l, ok := as.Lhs[0].(*ast.Ident); ok && info.ObjectOf(l) == info.ObjectOf(nid) {
											if a := lenArg(info, as.Rhs[0]); a != nil && isX(a) {
												hit = true
											}
										}
									}
									return true
								})
								return hit
							}
							return false
						}
						if lenOfX(e.X) {
							if k, ok := intConst(e.Y); ok {
								switch e.Op {
								case token.GEQ:
									bound = max(bound, k)
								case token.GTR:
									bound = max(bound, k+1)
								case token.EQL:
									bound = max(bound, k)
								}
							}
						}
						if e.Op == token.NEQ && isX(e.X) {
							if k, ok := stringConst(info, e.Y); ok && k == "" {
								bound = max(bound, 1)
							}
						}
					}
				}
			}
			bound = max(bound, minLenWith(pre, suf))
			c.Check("R08f", fi.Name+"|"+types.ExprString(se), se.Pos(), bound >= a+b, "%s: %s needs len(%s) >= %d but the enclosing conditions only imply len >= %d (prefix %q and suffix %q can be the same bytes of a shorter string): the slice panics on that input", fi.Name, types.ExprString(se), xid.Name, a+b, bound, pre, suf)
			return true
		})
	})
	if n == 0 {
		c.Unresolved("R08f", "strip-both-ends slices in sql/migrate (expected the quoted-delimiter unquoting in Scanner.delimCmd)")
	}
}

// impliedFactsOr flattens a disjunction a || b || c into its operands.
func impliedFactsOr(e ast.Expr) []ast.Expr {
	e = ast.Unparen(e)
	if be, ok := e.(*ast.BinaryExpr); ok && be.Op == token.LOR {
		return append(impliedFactsOr(be.X), impliedFactsOr(be.Y)...)
	}
	return []ast.Expr{e}
}
