package main

import (
	"fmt"
	"go/token"
	"go/types"
	"sort"
	"strings"

	"golang.org/x/tools/go/ssa"
	"golang.org/x/tools/go/ssa/ssautil"
)

// E-flow: change-kind flow analysis.
//
// Abstract value of an SSA value of type schema.Change / []schema.Change
// (or anything that may carry them): the set of concrete change types it may
// hold (`all`) and the subset that has not passed through the sanitiser
// (*schema.DiffOptions).AddOrSkip (`unf`). Elements are either concrete type
// names ("DropTable") or parameter symbols ("#2") that are substituted at
// call sites (function summaries, iterated to a fixpoint). Interface method
// calls are resolved to every method of the analysed packages with the same
// name and signature (CHA restricted to the analysed packages).

type kset map[string]token.Pos // element -> first construction site

func (s kset) addAll(o kset) bool {
	ch := false
	for k, p := range o {
		if _, ok := s[k]; !ok {
			s[k] = p
			ch = true
		}
	}
	return ch
}

func (s kset) keys() []string {
	var ks []string
	for k := range s {
		ks = append(ks, k)
	}
	sort.Strings(ks)
	return ks
}

type kval struct{ all, unf kset }

func newKval() *kval { return &kval{kset{}, kset{}} }

type sinkHit struct {
	Pos       token.Pos
	Fn        string
	Kind      string
	Container string
	Origin    token.Pos
}

type tupleKey struct {
	v ssa.Value
	i int
}

type FlowAnalysis struct {
	c         *Ctx
	prog      *ssa.Program
	changeIfc *types.Interface
	vals      map[ssa.Value]*kval
	cells     map[ssa.Value]*kval
	tuples    map[tupleKey]*kval
	fields    map[string]*kval
	rets      map[*ssa.Function][]*kval
	nested    map[string]kset // container type -> kinds stored into its .Changes
	sinks     []sinkHit
	changed   bool
	impls     map[string][]*ssa.Function
	fns       []*ssa.Function
	byName    map[string]*ssa.Function
	Rounds    int
	// supported[dialectPkg][Kind] = false when SupportChange returns false
	sinkOn bool
}

func (a *FlowAnalysis) isChangePtr(t types.Type) (string, bool) {
	p, ok := t.(*types.Pointer)
	if !ok {
		return "", false
	}
	n, ok := p.Elem().(*types.Named)
	if !ok {
		return "", false
	}
	if types.Implements(p, a.changeIfc) {
		return n.Obj().Name(), true
	}
	return "", false
}

func (a *FlowAnalysis) get(v ssa.Value) *kval {
	if x, ok := a.vals[v]; ok {
		return x
	}
	x := newKval()
	a.vals[v] = x
	return x
}

func (a *FlowAnalysis) cell(v ssa.Value) *kval {
	if x, ok := a.cells[v]; ok {
		return x
	}
	x := newKval()
	a.cells[v] = x
	return x
}

func (a *FlowAnalysis) tuple(k tupleKey) *kval {
	if x, ok := a.tuples[k]; ok {
		return x
	}
	x := newKval()
	a.tuples[k] = x
	return x
}

func (a *FlowAnalysis) fieldCell(fa *ssa.FieldAddr) *kval {
	st := fa.X.Type().(*types.Pointer).Elem().Underlying().(*types.Struct)
	k := fa.X.Type().String() + "." + st.Field(fa.Field).Name()
	if x, ok := a.fields[k]; ok {
		return x
	}
	x := newKval()
	a.fields[k] = x
	return x
}

func (a *FlowAnalysis) join(dst, src *kval) {
	if dst.all.addAll(src.all) {
		a.changed = true
	}
	if dst.unf.addAll(src.unf) {
		a.changed = true
	}
}

func flowRoot(v ssa.Value) ssa.Value {
	for {
		switch x := v.(type) {
		case *ssa.IndexAddr:
			v = x.X
		case *ssa.Slice:
			v = x.X
		case *ssa.ChangeType:
			v = x.X
		case *ssa.Convert:
			v = x.X
		default:
			return v
		}
	}
}

func (a *FlowAnalysis) subst(s kset, args []*kval, pick func(*kval) kset) kset {
	out := kset{}
	for k, p := range s {
		if strings.HasPrefix(k, "#") {
			var i int
			fmt.Sscanf(k, "#%d", &i)
			if i < len(args) && args[i] != nil {
				out.addAll(pick(args[i]))
			}
		} else {
			out[k] = p
		}
	}
	return out
}

func (a *FlowAnalysis) callees(c *ssa.CallCommon) []*ssa.Function {
	if c.IsInvoke() {
		var out []*ssa.Function
		msig := c.Method.Type().(*types.Signature)
		for _, f := range a.impls[c.Method.Name()] {
			sig := types.NewSignatureType(nil, nil, nil, f.Signature.Params(), f.Signature.Results(), f.Signature.Variadic())
			if types.Identical(sig, msig) {
				out = append(out, f)
			}
		}
		return out
	}
	if f := c.StaticCallee(); f != nil {
		return []*ssa.Function{f}
	}
	return nil
}

func isAddOrSkip(f *ssa.Function) bool {
	return f.Name() == "AddOrSkip" && f.Signature.Recv() != nil && typeIs(f.Signature.Recv().Type(), pSchema, "DiffOptions")
}

func (a *FlowAnalysis) doCall(instr ssa.Value, c *ssa.CallCommon) {
	if b, ok := c.Value.(*ssa.Builtin); ok {
		if b.Name() == "append" {
			dst := a.get(instr)
			for _, arg := range c.Args {
				a.join(dst, a.get(arg))
			}
		}
		return
	}
	callees := a.callees(c)
	var args []*kval
	if c.IsInvoke() {
		args = append(args, a.get(c.Value))
	}
	for _, arg := range c.Args {
		args = append(args, a.get(arg))
	}
	for _, f := range callees {
		if isAddOrSkip(f) {
			dst := a.get(instr)
			if len(args) >= 3 {
				if dst.all.addAll(args[1].all) {
					a.changed = true
				}
				if dst.all.addAll(args[2].all) {
					a.changed = true
				}
				if dst.unf.addAll(args[1].unf) {
					a.changed = true
				}
			}
			continue
		}
		rs := a.rets[f]
		if rs == nil {
			continue
		}
		if len(rs) == 1 {
			dst := a.get(instr)
			if dst.all.addAll(a.subst(rs[0].all, args, func(v *kval) kset { return v.all })) {
				a.changed = true
			}
			if dst.unf.addAll(a.subst(rs[0].unf, args, func(v *kval) kset { return v.unf })) {
				a.changed = true
			}
		} else {
			for i, r := range rs {
				dst := a.tuple(tupleKey{instr, i})
				if dst.all.addAll(a.subst(r.all, args, func(v *kval) kset { return v.all })) {
					a.changed = true
				}
				if dst.unf.addAll(a.subst(r.unf, args, func(v *kval) kset { return v.unf })) {
					a.changed = true
				}
			}
		}
	}
}

func (a *FlowAnalysis) runFunc(f *ssa.Function) {
	if f.Blocks == nil {
		return
	}
	if a.rets[f] == nil {
		n := f.Signature.Results().Len()
		a.rets[f] = make([]*kval, n)
		for i := range a.rets[f] {
			a.rets[f][i] = newKval()
		}
	}
	for i, p := range f.Params {
		v := a.get(p)
		sym := fmt.Sprintf("#%d", i)
		if _, ok := v.all[sym]; !ok {
			v.all[sym], v.unf[sym] = token.NoPos, token.NoPos
			a.changed = true
		}
	}
	for _, b := range f.Blocks {
		for _, in := range b.Instrs {
			switch in := in.(type) {
			case *ssa.MakeInterface:
				if n, ok := a.isChangePtr(in.X.Type()); ok {
					v := a.get(in)
					if _, ok := v.all[n]; !ok {
						pos := in.Pos()
						if !pos.IsValid() {
							pos = in.X.Pos()
						}
						v.all[n], v.unf[n] = pos, pos
						a.changed = true
					}
				} else {
					a.join(a.get(in), a.get(in.X))
				}
			case *ssa.ChangeInterface:
				a.join(a.get(in), a.get(in.X))
			case *ssa.ChangeType:
				a.join(a.get(in), a.get(in.X))
			case *ssa.TypeAssert:
				a.join(a.get(in), a.get(in.X))
			case *ssa.Phi:
				for _, e := range in.Edges {
					a.join(a.get(in), a.get(e))
				}
			case *ssa.Slice:
				a.join(a.get(in), a.get(in.X))
				if al, ok := in.X.(*ssa.Alloc); ok {
					a.join(a.get(in), a.cell(al))
				}
			case *ssa.Extract:
				a.join(a.get(in), a.tuple(tupleKey{in.Tuple, in.Index}))
			case *ssa.Call:
				a.doCall(in, &in.Call)
			case *ssa.UnOp:
				if in.Op == token.MUL {
					switch x := in.X.(type) {
					case *ssa.IndexAddr:
						r := flowRoot(x)
						a.join(a.get(in), a.get(x.X))
						if al, ok := r.(*ssa.Alloc); ok {
							a.join(a.get(in), a.cell(al))
						}
					case *ssa.Alloc:
						a.join(a.get(in), a.cell(x))
					case *ssa.FreeVar:
						a.join(a.get(in), a.cell(x))
					case *ssa.Global:
						a.join(a.get(in), a.cell(x))
					case *ssa.FieldAddr:
						a.join(a.get(in), a.fieldCell(x))
					}
				}
			case *ssa.Store:
				src := a.get(in.Val)
				switch x := in.Addr.(type) {
				case *ssa.IndexAddr:
					r := flowRoot(x)
					if al, ok := r.(*ssa.Alloc); ok {
						a.join(a.cell(al), src)
					} else {
						a.join(a.get(x.X), src)
					}
				case *ssa.Alloc:
					a.join(a.cell(x), src)
				case *ssa.FreeVar:
					a.join(a.cell(x), src)
				case *ssa.Global:
					a.join(a.cell(x), src)
				case *ssa.FieldAddr:
					a.join(a.fieldCell(x), src)
					if n, ok := a.isChangePtr(x.X.Type()); ok {
						st := x.X.Type().(*types.Pointer).Elem().Underlying().(*types.Struct)
						if st.Field(x.Field).Name() == "Changes" {
							if a.nested[n] == nil {
								a.nested[n] = kset{}
							}
							if a.nested[n].addAll(src.all) {
								a.changed = true
							}
							if a.sinkOn {
								for k, origin := range src.unf {
									if !strings.HasPrefix(k, "#") {
										a.sinks = append(a.sinks, sinkHit{Pos: in.Pos(), Fn: f.String(), Kind: k, Container: n, Origin: origin})
									}
								}
							}
						}
					}
				}
			case *ssa.MakeClosure:
				fn := in.Fn.(*ssa.Function)
				for i, b := range in.Bindings {
					fv := fn.FreeVars[i]
					a.join(a.cell(fv), a.cell(b))
					a.join(a.cell(b), a.cell(fv))
				}
			case *ssa.Return:
				for i, r := range in.Results {
					a.join(a.rets[f][i], a.get(r))
				}
			}
		}
	}
}

// Flow runs the analysis over sqlx + schema + the three dialects together.
func (c *Ctx) Flow() *FlowAnalysis {
	return c.FlowFor("all", map[string]bool{pSqlx: true, pSqlite: true, pMysql: true, pPostgres: true, pSchema: true})
}

// FlowFor runs the analysis restricted to the given packages (interface
// calls are resolved to methods of these packages only), to a fixpoint.
func (c *Ctx) FlowFor(key string, want map[string]bool) *FlowAnalysis {
	if c.flows == nil {
		c.flows = map[string]*FlowAnalysis{}
	}
	if a := c.flows[key]; a != nil {
		return a
	}
	prog := c.SSA()
	a := &FlowAnalysis{c: c, prog: prog, vals: map[ssa.Value]*kval{}, cells: map[ssa.Value]*kval{}, tuples: map[tupleKey]*kval{}, fields: map[string]*kval{},
		rets: map[*ssa.Function][]*kval{}, nested: map[string]kset{}, impls: map[string][]*ssa.Function{}, byName: map[string]*ssa.Function{}}
	ch := c.NamedType(pSchema, "Change")
	if ch == nil {
		c.fail("schema.Change not found")
	}
	a.changeIfc = ch.Underlying().(*types.Interface)
	for f := range ssautil.AllFunctions(prog) {
		top := topParent(f)
		p := ""
		if top.Pkg != nil {
			p = top.Pkg.Pkg.Path()
		} else if o := top.Object(); o != nil && o.Pkg() != nil {
			p = o.Pkg().Path()
		}
		if !want[p] {
			continue
		}
		if strings.HasSuffix(prog.Fset.Position(f.Pos()).Filename, "_test.go") {
			continue
		}
		a.fns = append(a.fns, f)
	}
	sort.Slice(a.fns, func(i, j int) bool { return a.fns[i].String() < a.fns[j].String() })
	for _, f := range a.fns {
		a.byName[f.String()] = f
		if f.Signature.Recv() != nil {
			a.impls[f.Name()] = append(a.impls[f.Name()], f)
		}
	}
	for iter := 0; iter < 60; iter++ {
		a.changed = false
		for _, f := range a.fns {
			a.runFunc(f)
		}
		a.Rounds = iter + 1
		if !a.changed {
			break
		}
	}
	if a.changed {
		c.fail("E-flow did not reach a fixpoint in 60 rounds")
	}
	// one more pass to collect sink hits on the stable state
	a.sinkOn = true
	for _, f := range a.fns {
		a.runFunc(f)
	}
	c.flows[key] = a
	return a
}

// Ret returns the summary of result i of the named function.
func (a *FlowAnalysis) Ret(name string, i int) *kval {
	f := a.byName[name]
	if f == nil || a.rets[f] == nil || i >= len(a.rets[f]) {
		return nil
	}
	return a.rets[f][i]
}

func concrete(s kset) kset {
	out := kset{}
	for k, p := range s {
		if !strings.HasPrefix(k, "#") {
			out[k] = p
		}
	}
	return out
}
