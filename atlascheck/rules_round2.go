package main

// Rules added after the second round of independent seeds. Each is a structural
// necessary condition of the property it is registered under; the rule texts are
// in the c.Rule(...) calls of the per-property files.

import (
	"fmt"
	"go/ast"
	"go/constant"
	"go/token"
	"go/types"
	"golang.org/x/tools/go/cfg"
	"strings"
)

// ---------------------------------------------------------------------------
// R15g: independent attributes are emitted independently.

const ruleTextIndependentAttrs = "independent attributes are written independently: in the dialect marshalling functions (sqlspec files) that append attributes or child resources to a spec in several top-level statements, a successful return occurs only after the last of them: no `return nil` inside an earlier statement skips the attributes written by a later one"

func checkIndependentAttrs(c *Ctx, rule string, pkgs []string) {
	n := 0
	for _, pp := range pkgs {
		c.AllFuncs(false, func(fi *FuncInfo) {
			if fi.Pkg.PkgPath != pp {
				return
			}
			base := c.Fset.Position(fi.Decl.Pos()).Filename
			base = base[strings.LastIndex(base, "/")+1:]
			if !strings.HasPrefix(base, "sqlspec") {
				return
			}
			info := fi.Info()
			writes := func(st ast.Stmt) bool {
				hit := false
				ast.Inspect(st, func(m ast.Node) bool {
					if _, isLit := m.(*ast.FuncLit); isLit {
						return false
					}
					as, ok := m.(*ast.AssignStmt)
					if !ok {
						return true
					}
					for _, l := range as.Lhs {
						if se, ok := ast.Unparen(l).(*ast.SelectorExpr); ok && (se.Sel.Name == "Attrs" || se.Sel.Name == "Children") {
							if inner, ok := ast.Unparen(se.X).(*ast.SelectorExpr); ok && inner.Sel.Name == "Extra" {
								hit = true
							}
							if typeIs(derefType(info.TypeOf(se.X)), pHCL, "Resource") {
								hit = true
							}
						}
					}
					return true
				})
				return hit
			}
			body := fi.Decl.Body.List
			last := -1
			cnt := 0
			for i, st := range body {
				if writes(st) {
					last = i
					cnt++
				}
			}
			if cnt < 2 {
				return
			}
			n++
			c.funcs[fi.Name] = true
			bad := ""
			var pos token.Pos = fi.Decl.Pos()
			for i := 0; i < last; i++ {
				ast.Inspect(body[i], func(m ast.Node) bool {
					if _, isLit := m.(*ast.FuncLit); isLit {
						return false
					}
					r, ok := m.(*ast.ReturnStmt)
					if !ok || len(r.Results) == 0 {
						return true
					}
					// success return: the last result is the nil identifier
					if isNilIdent(info, r.Results[len(r.Results)-1]) {
						bad, pos = c.pos(r.Pos()), r.Pos()
					}
					return true
				})
			}
			c.Check(rule, fi.Name+"|no successful return before the last attribute is written", pos, bad == "", "%s returns successfully at %s, before the later statements that write other attributes of the same object: those attributes are silently left out of the HCL document", fi.Name, bad)
		})
	}
	if n < 4 {
		c.Unresolved(rule, "marshalling functions writing attributes in several statements (found fewer than 4)")
	}
}

// ---------------------------------------------------------------------------
// R15h / R03g: user-defined type names are opaque.

const ruleTextOpaqueUDT = "user-defined type names are opaque: where a dialect's ParseType keeps the raw type string in UserDefinedType.T, its FormatType returns that string without passing it through a case- or space-folding function (ParseType(FormatType(t)) must give t back)"

func checkOpaqueUDT(c *Ctx, rule string, pkgs []string) {
	n := 0
	for _, pp := range pkgs {
		fi := c.LookupFunc(pp, "", "FormatType")
		if fi == nil || c.NamedType(pp, "UserDefinedType") == nil {
			continue
		}
		info := fi.Info()
		ast.Inspect(fi.Decl.Body, func(m ast.Node) bool {
			cc, ok := m.(*ast.CaseClause)
			if !ok || len(cc.List) != 1 || !typeIs(derefType(info.TypeOf(cc.List[0])), pp, "UserDefinedType") {
				return true
			}
			n++
			c.funcs[fi.Name] = true
			bad := ""
			for _, st := range cc.Body {
				for _, call := range callsIn(st, true) {
					fn := calleeOf(info, call)
					if fn == nil || fn.Pkg() == nil || (fn.Pkg().Path() != "strings" && fn.Pkg().Path() != "unicode") {
						continue
					}
					for _, a := range call.Args {
						if isField(info, a, pp, "UserDefinedType", "T") {
							bad = types.ExprString(call)
						}
					}
				}
			}
			c.Check(rule, shortPkg(pp)+".FormatType|UserDefinedType.T printed unchanged", cc.Pos(), bad == "", "%s.FormatType rewrites the name of a user-defined type with %s while ParseType keeps it as written: formatting and parsing are no longer inverse (type MONEY is exported as money and compared as a different type)", shortPkg(pp), bad)
			return true
		})
	}
	if n == 0 {
		c.Unresolved(rule, "the UserDefinedType case of FormatType")
	}
}

// ---------------------------------------------------------------------------
// R03f: referential actions are printed under their own guard.

const ruleTextFKActions = "referential actions: wherever a planner prints ForeignKey.OnUpdate (or OnDelete) under an if, the condition tests only that same field of the same key"

func checkFKActionGuards(c *Ctx, rule string, pkgs []string) {
	n := 0
	for _, pp := range pkgs {
		c.AllFuncs(false, func(fi *FuncInfo) {
			if fi.Pkg.PkgPath != pp {
				return
			}
			info := fi.Info()
			ast.Inspect(fi.Decl.Body, func(m ast.Node) bool {
				ifs, ok := m.(*ast.IfStmt)
				if !ok {
					return true
				}
				for _, field := range []string{"OnUpdate", "OnDelete"} {
					printed := false
					for _, st := range ifs.Body.List {
						es, ok := st.(*ast.ExprStmt)
						if !ok {
							continue
						}
						ast.Inspect(es, func(k ast.Node) bool {
							if e, ok := k.(ast.Expr); ok && isField(info, e, pSchema, "ForeignKey", field) {
								printed = true
							}
							return true
						})
					}
					if !printed {
						continue
					}
					other := "OnDelete"
					if field == "OnDelete" {
						other = "OnUpdate"
					}
					mentionsOwn, mentionsOther := false, false
					ast.Inspect(ifs.Cond, func(k ast.Node) bool {
						if e, ok := k.(ast.Expr); ok {
							if isField(info, e, pSchema, "ForeignKey", field) {
								mentionsOwn = true
							}
							if isField(info, e, pSchema, "ForeignKey", other) {
								mentionsOther = true
							}
						}
						return true
					})
					if !mentionsOwn && !mentionsOther {
						continue
					}
					n++
					c.funcs[fi.Name] = true
					c.Check(rule, fi.Name+"|"+field+" printed under a test of "+field, ifs.Pos(), mentionsOwn && !mentionsOther, "%s prints ForeignKey.%s under the condition %s, which tests ForeignKey.%s: a key with only one of the two actions set loses it (or prints an empty one) in the generated SQL", fi.Name, field, types.ExprString(ifs.Cond), other)
				}
				return true
			})
		})
	}
	if n < 4 {
		c.Unresolved(rule, "guarded prints of ForeignKey.OnUpdate/OnDelete in the planners (found fewer than 4)")
	}
}

// ---------------------------------------------------------------------------
// R16g: plan options reach the driver on every planner path.

const ruleTextPlanOpts = "plan options reach the driver on every planner path: each Driver.PlanChanges call made by a migrate.Planner method forwards p.planOpts (the schema qualifier option travels in it)"

func checkPlanOptsForwarded(c *Ctx, rule string) {
	n := 0
	c.AllFuncs(false, func(fi *FuncInfo) {
		if fi.Pkg.PkgPath != pMigrate || recvName(fi.Decl) != "Planner" {
			return
		}
		info := fi.Info()
		for _, call := range callsIn(fi.Decl.Body, true) {
			se, ok := call.Fun.(*ast.SelectorExpr)
			if !ok || se.Sel.Name != "PlanChanges" {
				continue
			}
			n++
			c.funcs[fi.Name] = true
			ok = false
			if call.Ellipsis.IsValid() && len(call.Args) > 0 {
				ok = isField(info, call.Args[len(call.Args)-1], pMigrate, "Planner", "planOpts")
			}
			c.Check(rule, fi.Name+"|PlanChanges receives p.planOpts...", call.Pos(), ok, "%s calls the driver's PlanChanges without the planner's options: PlanWithSchemaQualifier (and every other plan option) is ignored on this path and the statements are qualified with the dev schema's name", fi.Name)
		}
	})
	if n < 2 {
		c.Unresolved(rule, "Driver.PlanChanges calls in migrate.Planner methods (found fewer than 2)")
	}
}

// ---------------------------------------------------------------------------
// R18f: the window guard of the SQLite rebuild detector is tight.

const ruleTextWindowGuard = "SQLite rebuild detector: the guard that skips the window test (i+K >= len(changes)), the largest offset at which the window is read (changes[i+K]) and the step taken after a merge (i += K) use the same K: a larger guard misses a rebuild that ends the file, a smaller one reads out of range"

func checkWindowGuard(c *Ctx, rule string) {
	fi := c.Func(rule, pSqlitecheck, "", "analyzers")
	if fi == nil {
		return
	}
	info := fi.Info()
	n := 0
	ast.Inspect(fi.Decl.Body, func(m ast.Node) bool {
		loop, ok := m.(*ast.ForStmt)
		if !ok || loop.Init == nil {
			return true
		}
		init, ok := loop.Init.(*ast.AssignStmt)
		if !ok || len(init.Lhs) != 1 {
			return true
		}
		iv, ok := init.Lhs[0].(*ast.Ident)
		if !ok {
			return true
		}
		iobj := info.ObjectOf(iv)
		offset := func(e ast.Expr) (int, bool) { // i + c
			be, ok := ast.Unparen(e).(*ast.BinaryExpr)
			if !ok || be.Op != token.ADD {
				return 0, false
			}
			id, ok := ast.Unparen(be.X).(*ast.Ident)
			if !ok || info.ObjectOf(id) != iobj {
				return 0, false
			}
			tv := info.Types[be.Y]
			if tv.Value == nil {
				return 0, false
			}
			v, err := parseInt(tv.Value.String())
			return v, err == nil
		}
		guard, maxOff, step := -1, -1, -1
		var subject string
		ast.Inspect(loop.Body, func(k ast.Node) bool {
			switch x := k.(type) {
			case *ast.BinaryExpr:
				if x.Op == token.GEQ {
					if off, ok := offset(x.X); ok {
						if a := lenArg(info, x.Y); a != nil {
							guard, subject = off, types.ExprString(a)
						}
					}
				}
			case *ast.IndexExpr:
				if off, ok := offset(x.Index); ok && off > maxOff {
					maxOff = off
				}
			case *ast.AssignStmt:
				if x.Tok == token.ADD_ASSIGN && len(x.Lhs) == 1 {
					if id, ok := x.Lhs[0].(*ast.Ident); ok && info.ObjectOf(id) == iobj {
						if tv := info.Types[x.Rhs[0]]; tv.Value != nil {
							if v, err := parseInt(tv.Value.String()); err == nil {
								step = v
							}
						}
					}
				}
			}
			return true
		})
		if guard < 0 || maxOff < 0 {
			return true
		}
		n++
		c.Check(rule, "sqlitecheck.analyzers|window over "+subject, loop.Pos(), guard == maxOff && step == maxOff, "the rebuild detector skips the window test when i+%d >= len(%s), reads the window up to offset %d and advances by %d after a merge: the three must agree", guard, subject, maxOff, step)
		return true
	})
	if n == 0 {
		c.Unresolved(rule, "the window loop of the SQLite rebuild detector")
	}
}

func parseInt(s string) (int, error) {
	v := 0
	if s == "" {
		return 0, errNotInt
	}
	for _, r := range s {
		if r < '0' || r > '9' {
			return 0, errNotInt
		}
		v = v*10 + int(r-'0')
	}
	return v, nil
}

var errNotInt = &notIntError{}

type notIntError struct{}

func (*notIntError) Error() string { return "not an integer" }

// ---------------------------------------------------------------------------
// R11i: the whole directory is pending only when no revision precedes it.

const ruleTextPendingLowerBound = "files at or before the last revision are not pending: every file list Executor.Pending returns or stores in its pending variable after revisions exist is a slice with a lower bound found by searching for a revision's version (X[idx:], SkipCheckpointFiles(X[idx:]), append of those), the out-of-order files, or — only where the search found nothing (idx == -1) — the whole listing"

func checkPendingLowerBound(c *Ctx, rule string) {
	fi := c.Func(rule, pMigrate, "Executor", "Pending")
	if fi == nil {
		return
	}
	info := fi.Info()
	pm := parentMap(fi.Decl.Body)
	// the switch over the revision count: the first clause (len(revs) == 0) is the first-run branch
	var firstRun *ast.CaseClause
	ast.Inspect(fi.Decl.Body, func(m ast.Node) bool {
		if sw, ok := m.(*ast.SwitchStmt); ok && firstRun == nil && sw.Tag == nil {
			for _, cl := range sw.Body.List {
				cc := cl.(*ast.CaseClause)
				if len(cc.List) == 1 {
					if be, ok := ast.Unparen(cc.List[0]).(*ast.BinaryExpr); ok && be.Op == token.EQL && lenArg(info, be.X) != nil {
						firstRun = cc
					}
				}
			}
		}
		return true
	})
	if firstRun == nil {
		c.Unresolved(rule, "Executor.Pending: the len(revs) == 0 case")
		return
	}
	inFirstRun := func(n ast.Node) bool { return firstRun.Pos() <= n.Pos() && n.End() <= firstRun.End() }
	isFileSlice := func(e ast.Expr) bool {
		sl, ok := info.TypeOf(e).Underlying().(*types.Slice)
		return ok && typeIs(sl.Elem(), pMigrate, "File")
	}
	var pendingVar types.Object
	ast.Inspect(fi.Decl.Body, func(m ast.Node) bool {
		if vs, ok := m.(*ast.ValueSpec); ok && len(vs.Names) == 1 && vs.Names[0].Name == "pending" {
			pendingVar = info.ObjectOf(vs.Names[0])
		}
		return true
	})
	var bounded func(e ast.Expr) bool
	bounded = func(e ast.Expr) bool {
		e = ast.Unparen(e)
		switch x := e.(type) {
		case *ast.SliceExpr:
			return x.Low != nil
		case *ast.Ident:
			if pendingVar != nil && info.ObjectOf(x) == pendingVar {
				return true
			}
			return x.Name == "skipped" || x.Name == "nil"
		case *ast.CompositeLit:
			return true // a literal list of explicitly chosen files
		case *ast.CallExpr:
			if fn := calleeOf(info, x); fn != nil {
				if funcIs(fn, pMigrate, "", "SkipCheckpointFiles") && len(x.Args) == 1 {
					return bounded(x.Args[0])
				}
				return false
			}
			if builtinName(info, x) == "append" {
				for _, a := range x.Args {
					if !bounded(a) {
						return false
					}
				}
				return true
			}
		}
		return false
	}
	guardedByNotFound := func(n ast.Node) bool {
		var child ast.Node = n
		for p := pm[n]; p != nil; child, p = p, pm[p] {
			ifs, ok := p.(*ast.IfStmt)
			if !ok || child != ast.Node(ifs.Body) {
				continue
			}
			for _, f := range impliedFacts(ifs.Cond, true) {
				if be, ok := ast.Unparen(f.expr).(*ast.BinaryExpr); ok && f.val && be.Op == token.EQL {
					if tv := info.Types[be.Y]; tv.Value != nil && tv.Value.String() == "-1" {
						return true
					}
				}
			}
		}
		return false
	}
	n := 0
	check := func(e ast.Expr, at ast.Node, what string) {
		if !isFileSlice(e) || isNilIdent(info, e) {
			return
		}
		n++
		ok := bounded(e) || guardedByNotFound(at)
		c.Check(rule, "migrate.(Executor).Pending|"+what+" "+types.ExprString(e), at.Pos(), ok, "Executor.Pending makes %s pending although revisions exist and no version search bounds the list from below: files that the recorded history (or the partially applied checkpoint) already covers are executed again", types.ExprString(e))
	}
	ast.Inspect(fi.Decl.Body, func(m ast.Node) bool {
		if _, isLit := m.(*ast.FuncLit); isLit {
			return false
		}
		switch x := m.(type) {
		case *ast.ReturnStmt:
			if len(x.Results) == 2 && !inFirstRun(x) {
				check(x.Results[0], x, "returns")
			}
		case *ast.AssignStmt:
			if inFirstRun(x) || pendingVar == nil {
				return true
			}
			for i, l := range x.Lhs {
				if id, ok := l.(*ast.Ident); ok && info.ObjectOf(id) == pendingVar && len(x.Rhs) == len(x.Lhs) {
					check(x.Rhs[i], x, "stores")
				}
			}
		}
		return true
	})
	if n < 3 {
		c.Unresolved(rule, "file lists returned or stored by Executor.Pending outside the first-run case (found fewer than 3)")
	}
}

// ---------------------------------------------------------------------------
// R11j: a temporary replacement of the executor's directory is undone on every path.

const ruleTextDirRestored = "a temporary replacement of Executor.dir is undone on every path: after an Executor method stores another directory in e.dir, every path to a return passes the store that puts the saved directory back"

func checkDirRestored(c *Ctx, rule string) {
	n := 0
	c.AllFuncs(false, func(fi *FuncInfo) {
		if fi.Pkg.PkgPath != pMigrate || recvName(fi.Decl) != "Executor" {
			return
		}
		info := fi.Info()
		// saved := e.dir
		saved := map[types.Object]bool{}
		ast.Inspect(fi.Decl.Body, func(m ast.Node) bool {
			as, ok := m.(*ast.AssignStmt)
			if !ok || len(as.Lhs) != len(as.Rhs) {
				return true
			}
			for i, r := range as.Rhs {
				if isField(info, r, pMigrate, "Executor", "dir") {
					if id, ok := as.Lhs[i].(*ast.Ident); ok {
						saved[info.ObjectOf(id)] = true
					}
				}
			}
			return true
		})
		// defer func(prev Dir) { e.dir = prev }(e.dir): the parameter holds the saved directory
		ast.Inspect(fi.Decl.Body, func(m ast.Node) bool {
			d, ok := m.(*ast.DeferStmt)
			if !ok {
				return true
			}
			fl, ok := d.Call.Fun.(*ast.FuncLit)
			if !ok {
				return true
			}
			var ps []*ast.Ident
			for _, fld := range fl.Type.Params.List {
				ps = append(ps, fld.Names...)
			}
			for i, a := range d.Call.Args {
				if i < len(ps) && isField(info, a, pMigrate, "Executor", "dir") {
					saved[info.ObjectOf(ps[i])] = true
				}
			}
			return true
		})
		if len(saved) == 0 {
			return
		}
		bodies := []*ast.BlockStmt{fi.Decl.Body}
		ast.Inspect(fi.Decl.Body, func(m ast.Node) bool {
			if fl, ok := m.(*ast.FuncLit); ok {
				bodies = append(bodies, fl.Body)
			}
			return true
		})
		for _, body := range bodies {
			f := newFlow(info, body)
			isStore := func(nd ast.Node, restore bool) bool {
				as, ok := nd.(*ast.AssignStmt)
				if !ok || len(as.Lhs) != len(as.Rhs) {
					return false
				}
				for i, l := range as.Lhs {
					if !isField(info, l, pMigrate, "Executor", "dir") {
						continue
					}
					id, isID := ast.Unparen(as.Rhs[i]).(*ast.Ident)
					isSaved := isID && saved[info.ObjectOf(id)]
					if isSaved == restore {
						return true
					}
				}
				return false
			}
			// a deferred closure that puts the saved directory back also restores it on every exit
			isRestore := func(nd ast.Node) bool {
				if isStore(nd, true) {
					return true
				}
				if d, ok := nd.(*ast.DeferStmt); ok {
					if fl, ok := d.Call.Fun.(*ast.FuncLit); ok {
						hit := false
						ast.Inspect(fl.Body, func(k ast.Node) bool {
							if st, ok := k.(ast.Stmt); ok && isStore(st, true) {
								hit = true
							}
							return true
						})
						return hit
					}
				}
				return false
			}
			for _, pt := range f.find(func(nd ast.Node) bool { return isStore(nd, false) }) {
				n++
				c.funcs[fi.Name] = true
				// a deferred restore registered on every path before the store covers all exits
				if _, ok := f.mustPrecede(func(nd ast.Node) bool { _, isDefer := nd.(*ast.DeferStmt); return isDefer && isRestore(nd) }, func(nd ast.Node) bool { return nd == pt.b.Nodes[pt.i] }); ok && len(f.find(func(nd ast.Node) bool { _, isDefer := nd.(*ast.DeferStmt); return isDefer && isRestore(nd) })) > 0 {
					c.Check(rule, fi.Name+"|e.dir restored after "+types.ExprString(pt.b.Nodes[pt.i].(*ast.AssignStmt).Rhs[0]), pt.b.Nodes[pt.i].Pos(), true, "")
					continue
				}
				at, reached := f.reach([]point{after(pt)}, isRestore, isReturn, true)
				pos := pt.b.Nodes[pt.i].Pos()
				where := ""
				if at != nil {
					where = c.pos(at.Pos())
				}
				c.Check(rule, fi.Name+"|e.dir restored after "+types.ExprString(pt.b.Nodes[pt.i].(*ast.AssignStmt).Rhs[0]), pos, !reached, "%s replaces e.dir and can return (%s) without putting the saved directory back: the executor keeps working on the temporary copy, and later Pending/Execute calls on it see a truncated directory", fi.Name, where)
			}
		}
	})
	if n == 0 {
		c.Unresolved(rule, "temporary replacements of Executor.dir (expected in Executor.ExecuteTo)")
	}
}

// ---------------------------------------------------------------------------
// R17i: the scratch state used to compute a reverse is fresh.

const ruleTextFreshScratch = "the scratch planner state whose Changes become the Reverse of a change is fresh: a local state variable that is not the receiver and whose .Changes are read is created by a composite literal that sets neither Plan nor Changes (not by copying *s, which carries every change planned so far)"

func checkFreshScratchState(c *Ctx, rule string, pkgs []string) {
	n := 0
	for _, pp := range pkgs {
		c.AllFuncs(false, func(fi *FuncInfo) {
			if fi.Pkg.PkgPath != pp || recvName(fi.Decl) != "state" {
				return
			}
			info := fi.Info()
			var recv types.Object
			if len(fi.Decl.Recv.List[0].Names) == 1 {
				recv = info.ObjectOf(fi.Decl.Recv.List[0].Names[0])
			}
			// local state variables whose Changes are read
			cand := map[types.Object]bool{}
			ast.Inspect(fi.Decl.Body, func(m ast.Node) bool {
				se, ok := m.(*ast.SelectorExpr)
				if !ok || se.Sel.Name != "Changes" {
					return true
				}
				id, ok := ast.Unparen(se.X).(*ast.Ident)
				if !ok {
					return true
				}
				obj := info.ObjectOf(id)
				if obj == nil || obj == recv || !typeIs(derefType(obj.Type()), pp, "state") {
					return true
				}
				cand[obj] = true
				return true
			})
			for obj := range cand {
				defs, fresh := 0, 0
				var pos token.Pos = obj.Pos()
				how := ""
				ast.Inspect(fi.Decl.Body, func(m ast.Node) bool {
					as, ok := m.(*ast.AssignStmt)
					if !ok || len(as.Lhs) != len(as.Rhs) {
						return true
					}
					for i, l := range as.Lhs {
						id, ok := l.(*ast.Ident)
						if !ok || info.ObjectOf(id) != obj {
							continue
						}
						defs++
						r := ast.Unparen(as.Rhs[i])
						if un, ok := r.(*ast.UnaryExpr); ok && un.Op == token.AND {
							r = ast.Unparen(un.X)
						}
						freshLit := func(e ast.Expr) bool {
							e = ast.Unparen(e)
							if un, ok := e.(*ast.UnaryExpr); ok && un.Op == token.AND {
								e = ast.Unparen(un.X)
							}
							cl, ok := e.(*ast.CompositeLit)
							if !ok {
								return false
							}
							for _, el := range cl.Elts {
								kv, isKV := el.(*ast.KeyValueExpr)
								if !isKV {
									return false
								}
								if k, isID := kv.Key.(*ast.Ident); isID && (k.Name == "Plan" || k.Name == "Changes") {
									return false
								}
							}
							return true
						}
						isFresh := freshLit(r)
						// a package-local constructor every return of which is such a literal
						if call, isCall := r.(*ast.CallExpr); isCall && !isFresh {
							if g := c.FuncInfoOf(calleeOf(info, call)); g != nil && g.Decl.Body != nil && g.Pkg == fi.Pkg {
								rets, ok2 := 0, 0
								ast.Inspect(g.Decl.Body, func(q ast.Node) bool {
									if _, isLit := q.(*ast.FuncLit); isLit {
										return false
									}
									if rt, isRet := q.(*ast.ReturnStmt); isRet && len(rt.Results) == 1 {
										rets++
										if freshLit(rt.Results[0]) {
											ok2++
										}
									}
									return true
								})
								isFresh = rets > 0 && rets == ok2
							}
						}
						if isFresh {
							fresh++
						} else {
							how, pos = types.ExprString(as.Rhs[i]), as.Pos()
						}
					}
					return true
				})
				if defs == 0 {
					continue // parameter or other origin: not a scratch state of this function
				}
				n++
				c.funcs[fi.Name] = true
				c.Check(rule, fi.Name+"|scratch state "+obj.Name()+" is fresh", pos, defs == fresh, "%s reads %s.Changes to build reverse statements, but %s is created by %s: it already holds the changes planned so far, so they are prepended to the reverse of this change", fi.Name, obj.Name(), obj.Name(), how)
			}
		})
	}
	if n < 4 {
		c.Unresolved(rule, "scratch planner states in the dialect planners (found fewer than 4)")
	}
}

// ---------------------------------------------------------------------------
// R17j: sqltool.reverse is a complete reversal.

const ruleTextReversal = "the `rev` template function reverses the whole list: sqltool.reverse matches one of the reversal idioms — two indices i, j = 0, n-1 swapped while i < j (the middle element copied when n is odd, or the list copied first), one index i with its mirror n-1-i run while i < n/2 (after a copy) or over the whole range (fill), or slices.Reverse on a copy"

func checkReverseIdiom(c *Ctx, rule string) {
	fi := c.Func(rule, pSqltool, "", "reverse")
	if fi == nil {
		return
	}
	info := fi.Info()
	if fi.Decl.Type.Params.NumFields() != 1 || len(fi.Decl.Type.Params.List[0].Names) != 1 {
		c.Unresolved(rule, "sqltool.reverse: one slice parameter")
		return
	}
	src := info.ObjectOf(fi.Decl.Type.Params.List[0].Names[0])
	// n := len(src)
	isN := func(e ast.Expr) bool {
		e = ast.Unparen(e)
		if a := lenArg(info, e); a != nil {
			return true
		}
		id, ok := e.(*ast.Ident)
		if !ok {
			return false
		}
		found := false
		ast.Inspect(fi.Decl.Body, func(m ast.Node) bool {
			if as, ok := m.(*ast.AssignStmt); ok && len(as.Lhs) == 1 && len(as.Rhs) == 1 {
				if l, ok := as.Lhs[0].(*ast.Ident); ok && info.ObjectOf(l) == info.ObjectOf(id) && lenArg(info, as.Rhs[0]) != nil {
					found = true
				}
			}
			return true
		})
		return found
	}
	constIs := func(e ast.Expr, v string) bool {
		tv := info.Types[e]
		return tv.Value != nil && tv.Value.String() == v
	}
	isNMinus1 := func(e ast.Expr) bool {
		be, ok := ast.Unparen(e).(*ast.BinaryExpr)
		return ok && be.Op == token.SUB && isN(be.X) && constIs(be.Y, "1")
	}
	// lin evaluates an index expression to cn*n + ci*i + k, resolving locals that are assigned once
	singleDef := func(obj types.Object) ast.Expr {
		var def ast.Expr
		cnt := 0
		ast.Inspect(fi.Decl.Body, func(m ast.Node) bool {
			switch x := m.(type) {
			case *ast.AssignStmt:
				for j, l := range x.Lhs {
					if id, ok := l.(*ast.Ident); ok && info.ObjectOf(id) == obj {
						cnt++
						if len(x.Rhs) == len(x.Lhs) && (x.Tok == token.DEFINE || x.Tok == token.ASSIGN) {
							def = x.Rhs[j]
						} else {
							cnt += 10
						}
					}
				}
			case *ast.IncDecStmt:
				if id, ok := x.X.(*ast.Ident); ok && info.ObjectOf(id) == obj {
					cnt += 10
				}
			}
			return true
		})
		if cnt == 1 {
			return def
		}
		return nil
	}
	var lin func(e ast.Expr, i types.Object, depth int) (cn, ci, k int, ok bool)
	lin = func(e ast.Expr, i types.Object, depth int) (int, int, int, bool) {
		e = ast.Unparen(e)
		if depth > 4 {
			return 0, 0, 0, false
		}
		if tv := info.Types[e]; tv.Value != nil {
			if v, err := parseInt(tv.Value.String()); err == nil {
				return 0, 0, v, true
			}
		}
		if lenArg(info, e) != nil {
			if _, isID := ast.Unparen(lenArg(info, e)).(*ast.Ident); isID {
				return 1, 0, 0, true
			}
		}
		switch x := e.(type) {
		case *ast.Ident:
			obj := info.ObjectOf(x)
			if obj == i {
				return 0, 1, 0, true
			}
			if def := singleDef(obj); def != nil {
				return lin(def, i, depth+1)
			}
		case *ast.BinaryExpr:
			an, ai, ak, ok1 := lin(x.X, i, depth+1)
			bn, bi, bk, ok2 := lin(x.Y, i, depth+1)
			if ok1 && ok2 {
				switch x.Op {
				case token.ADD:
					return an + bn, ai + bi, ak + bk, true
				case token.SUB:
					return an - bn, ai - bi, ak - bk, true
				}
			}
		}
		return 0, 0, 0, false
	}
	isMirror := func(e ast.Expr, i types.Object) bool { // n-1-i in any spelling
		cn, ci, k, ok := lin(e, i, 0)
		return ok && cn == 1 && ci == -1 && k == -1
	}
	copied := false
	for _, call := range callsIn(fi.Decl.Body, true) {
		if builtinName(info, call) == "copy" && len(call.Args) == 2 {
			if id, ok := ast.Unparen(call.Args[1]).(*ast.Ident); ok && info.ObjectOf(id) == src {
				copied = true
			}
		}
		if fn := calleeOf(info, call); fn != nil && fn.Pkg() != nil && fn.Pkg().Path() == "slices" && fn.Name() == "Clone" {
			copied = true
		}
	}
	verdict, why := false, "no reversal loop recognised"
	for _, call := range callsIn(fi.Decl.Body, true) {
		if fn := calleeOf(info, call); fn != nil && fn.Pkg() != nil && fn.Pkg().Path() == "slices" && fn.Name() == "Reverse" {
			verdict, why = copied, "slices.Reverse must be applied to a copy"
		}
	}
	ast.Inspect(fi.Decl.Body, func(m ast.Node) bool {
		switch loop := m.(type) {
		case *ast.ForStmt:
			init, ok := loop.Init.(*ast.AssignStmt)
			cond, ok2 := loop.Cond.(*ast.BinaryExpr)
			if !ok || !ok2 {
				return true
			}
			switch len(init.Lhs) {
			case 2: // i, j := 0, n-1; i < j
				i, j := info.ObjectOf(init.Lhs[0].(*ast.Ident)), info.ObjectOf(init.Lhs[1].(*ast.Ident))
				okInit := len(init.Rhs) == 2 && constIs(init.Rhs[0], "0") && isNMinus1(init.Rhs[1])
				x, xok := ast.Unparen(cond.X).(*ast.Ident)
				y, yok := ast.Unparen(cond.Y).(*ast.Ident)
				okCond := xok && yok && cond.Op == token.LSS && info.ObjectOf(x) == i && info.ObjectOf(y) == j
				// middle element: copied first, or assigned when n is odd
				middle := copied
				ast.Inspect(fi.Decl.Body, func(k ast.Node) bool {
					if ifs, ok := k.(*ast.IfStmt); ok {
						if be, ok := ast.Unparen(ifs.Cond).(*ast.BinaryExpr); ok && be.Op == token.EQL && constIs(be.Y, "1") {
							if rem, ok := ast.Unparen(be.X).(*ast.BinaryExpr); ok && rem.Op == token.REM && isN(rem.X) && constIs(rem.Y, "2") {
								middle = true
							}
						}
					}
					return true
				})
				verdict = okInit && okCond && middle
				why = "two-index loop must start at 0 and n-1, run while i < j, and the middle element of an odd list must be set"
			case 1: // i := 0; i < n/2 (swap after copy)  or  i < n (fill)
				i := info.ObjectOf(init.Lhs[0].(*ast.Ident))
				x, xok := ast.Unparen(cond.X).(*ast.Ident)
				if !xok || info.ObjectOf(x) != i || cond.Op != token.LSS || !constIs(init.Rhs[0], "0") {
					return true
				}
				mirror := false
				ast.Inspect(loop.Body, func(k ast.Node) bool {
					if ix, ok := k.(*ast.IndexExpr); ok && isMirror(ix.Index, i) {
						mirror = true
					}
					return true
				})
				half := false
				if be, ok := ast.Unparen(cond.Y).(*ast.BinaryExpr); ok && be.Op == token.QUO && isN(be.X) && constIs(be.Y, "2") {
					half = true
				}
				switch {
				case half:
					verdict, why = mirror && copied, "a swap loop up to n/2 needs the mirror index n-1-i and a copy of the list"
				case isN(cond.Y):
					verdict, why = mirror && !copied, "a fill loop over the whole range must read or write the mirror index n-1-i of a fresh slice"
				case isMirror(cond.Y, i):
					verdict, why = mirror && copied, "a swap loop while i < n-1-i needs a copy of the list"
				default:
					verdict, why = false, "the loop bound "+types.ExprString(cond.Y)+" is neither n/2 nor n: the middle pair of an even list stays in place"
				}
			}
		case *ast.RangeStmt:
			if k, ok := loop.Key.(*ast.Ident); ok && k.Name != "_" {
				i := info.ObjectOf(k)
				mirror := false
				ast.Inspect(loop.Body, func(kk ast.Node) bool {
					if ix, ok := kk.(*ast.IndexExpr); ok && isMirror(ix.Index, i) {
						mirror = true
					}
					return true
				})
				if mirror {
					verdict, why = !copied, "a fill loop over the whole range must write a fresh slice"
				}
			}
		}
		return true
	})
	c.Check(rule, "sqltool.reverse|complete reversal", fi.Decl.Pos(), verdict, "sqltool.reverse is not a recognised complete reversal (%s): the down file lists reverse statements in an order that is not the exact reverse of the up file", why)
}

// ---------------------------------------------------------------------------
// R20e: the bytes of a formatted file belong to that file alone.

const ruleTextFileBytesOwned = "the bytes of a formatted file belong to that file alone: wherever a migrate.File is built from a buffer (LocalFile literal / NewLocalFile with X.Bytes()), X is a buffer created in the same function (var, new, composite literal), never a value obtained from a call, a field or a package variable (a pooled or shared buffer is rewritten by the next Format call)"

func checkFileBytesOwned(c *Ctx, rule string) {
	n := 0
	c.AllFuncs(false, func(fi *FuncInfo) {
		if fi.Pkg.PkgPath != pMigrate && fi.Pkg.PkgPath != pSqltool {
			return
		}
		info := fi.Info()
		local := func(id *ast.Ident) bool {
			obj := info.ObjectOf(id)
			if obj == nil || obj.Pos() < fi.Decl.Pos() || obj.Pos() > fi.Decl.End() {
				return false
			}
			ok, seen := true, false
			ast.Inspect(fi.Decl.Body, func(m ast.Node) bool {
				switch x := m.(type) {
				case *ast.ValueSpec:
					for i, nm := range x.Names {
						if info.ObjectOf(nm) == obj {
							seen = true
							if i < len(x.Values) && !freshBuffer(info, x.Values[i]) {
								ok = false
							}
						}
					}
				case *ast.AssignStmt:
					for i, l := range x.Lhs {
						if lid, isID := l.(*ast.Ident); isID && info.ObjectOf(lid) == obj {
							seen = true
							if len(x.Rhs) != len(x.Lhs) || !freshBuffer(info, x.Rhs[i]) {
								ok = false
							}
						}
					}
				}
				return true
			})
			return ok && seen
		}
		check := func(e ast.Expr, at ast.Node) {
			call, ok := ast.Unparen(e).(*ast.CallExpr)
			if !ok {
				return
			}
			se, ok := call.Fun.(*ast.SelectorExpr)
			if !ok || se.Sel.Name != "Bytes" || !typeIs(derefType(info.TypeOf(se.X)), "bytes", "Buffer") {
				return
			}
			n++
			c.funcs[fi.Name] = true
			id, isID := ast.Unparen(se.X).(*ast.Ident)
			c.Check(rule, fi.Name+"|file bytes from "+types.ExprString(se.X), at.Pos(), isID && local(id), "%s stores %s in a file, but %s is not a buffer created in this function: the bytes alias a shared buffer and change when it is reused (the same plan formats to different bytes, and the directory checksum follows)", fi.Name, types.ExprString(e), types.ExprString(se.X))
		}
		ast.Inspect(fi.Decl.Body, func(m ast.Node) bool {
			switch x := m.(type) {
			case *ast.CompositeLit:
				if typeIs(info.TypeOf(x), pMigrate, "LocalFile") {
					for _, el := range x.Elts {
						if kv, ok := el.(*ast.KeyValueExpr); ok {
							check(kv.Value, x)
						}
					}
				}
			case *ast.CallExpr:
				if funcIs(calleeOf(info, x), pMigrate, "", "NewLocalFile") {
					for _, a := range x.Args {
						check(a, x)
					}
				}
			case *ast.ReturnStmt:
				// a helper that hands the bytes of its buffer to its caller (who may put them in a file)
				for _, r := range x.Results {
					check(r, x)
				}
			}
			return true
		})
	})
	if n == 0 {
		c.Unresolved(rule, "files built from a buffer (expected in TemplateFormatter.Format)")
	}
}

func freshBuffer(info *types.Info, e ast.Expr) bool {
	e = ast.Unparen(e)
	if un, ok := e.(*ast.UnaryExpr); ok && un.Op == token.AND {
		e = ast.Unparen(un.X)
	}
	switch x := e.(type) {
	case *ast.CompositeLit:
		return true
	case *ast.CallExpr:
		if builtinName(info, x) == "new" {
			return true
		}
		if fn := calleeOf(info, x); fn != nil && fn.Pkg() != nil && fn.Pkg().Path() == "bytes" && (fn.Name() == "NewBuffer" || fn.Name() == "NewBufferString") {
			return true
		}
	}
	return false
}

// ---------------------------------------------------------------------------
// R20f: planners do not reuse the backing array of an input slice.

const ruleTextNoInPlace = "planning does not rewrite its input in place: in the planner and differ files no slice that is a parameter (or reached from one through fields) is used as the destination of an in-place filter or delete (`in[:0]`, `append(in[:i], …)`): the caller's ModifyTable.Changes would be shifted and a second plan of the same changes would differ"

func checkNoInPlaceInput(c *Ctx, rule string) {
	n := 0
	for _, pp := range []string{pSqlx, pMysql, pPostgres, pSqlite, pMigrate} {
		c.AllFuncs(false, func(fi *FuncInfo) {
			if fi.Pkg.PkgPath != pp {
				return
			}
			base := c.Fset.Position(fi.Decl.Pos()).Filename
			base = base[strings.LastIndex(base, "/")+1:]
			if !(strings.HasPrefix(base, "migrate") || strings.HasPrefix(base, "diff") || base == "plan.go") {
				return
			}
			info := fi.Info()
			params := map[types.Object]bool{}
			hasSlice := false
			for _, fld := range fi.Decl.Type.Params.List {
				for _, nm := range fld.Names {
					params[info.ObjectOf(nm)] = true
					if _, ok := info.TypeOf(fld.Type).Underlying().(*types.Slice); ok {
						hasSlice = true
					}
				}
			}
			if !hasSlice {
				// field paths of pointer parameters (modify.Changes) count too
				for _, fld := range fi.Decl.Type.Params.List {
					if typeIs(derefType(info.TypeOf(fld.Type)), pSchema, "ModifyTable") {
						hasSlice = true
					}
				}
			}
			if !hasSlice {
				return
			}
			n++
			bad := ""
			var pos token.Pos = fi.Decl.Pos()
			fromParam := func(e ast.Expr) bool {
				r := rootIdent(e)
				if r == nil || !params[info.ObjectOf(r)] {
					return false
				}
				_, isSlice := info.TypeOf(e).Underlying().(*types.Slice)
				return isSlice
			}
			ast.Inspect(fi.Decl.Body, func(m ast.Node) bool {
				switch x := m.(type) {
				case *ast.SliceExpr:
					if x.High != nil && x.Low == nil && fromParam(x.X) {
						if tv := info.Types[x.High]; tv.Value != nil && tv.Value.String() == "0" {
							bad, pos = types.ExprString(x), x.Pos()
						}
					}
				case *ast.CallExpr:
					if builtinName(info, x) == "append" && len(x.Args) > 0 {
						if sl, ok := ast.Unparen(x.Args[0]).(*ast.SliceExpr); ok && fromParam(sl.X) && !capLimited(sl) {
							bad, pos = types.ExprString(x), x.Pos()
						}
					}
				}
				return true
			})
			c.Check(rule, fi.Name+"|input slices not rewritten in place", pos, bad == "", "%s builds its result in the backing array of an input slice (%s): the caller's change list is modified, so planning the same changes again gives a different (and invalid) plan", fi.Name, bad)
		})
	}
	if n < 10 {
		c.Unresolved(rule, "planner/differ functions taking slices (found fewer than 10)")
	}
}

// ---------------------------------------------------------------------------
// R02k: the expression normaliser is applied to both sides of a comparison.

const ruleTextMayWrapSymmetric = "the expression normaliser is applied to both sides: in the differ files every ==/!= that has sqlx.MayWrap(…) on one side has sqlx.MayWrap(…) on the other too (a one-sided comparison makes the diff depend on which of two equivalent spellings is `from`: A→B empty, B→A not)"

func checkMayWrapSymmetric(c *Ctx, rule string) {
	n := 0
	for _, pp := range []string{pSqlx, pSqlite, pMysql, pPostgres} {
		c.AllFuncs(false, func(fi *FuncInfo) {
			if fi.Pkg.PkgPath != pp {
				return
			}
			base := c.Fset.Position(fi.Decl.Pos()).Filename
			base = base[strings.LastIndex(base, "/")+1:]
			if !strings.HasPrefix(base, "diff") {
				return
			}
			info := fi.Info()
			isWrap := func(e ast.Expr) bool {
				call, ok := ast.Unparen(e).(*ast.CallExpr)
				return ok && funcIs(calleeOf(info, call), pSqlx, "", "MayWrap")
			}
			ast.Inspect(fi.Decl.Body, func(m ast.Node) bool {
				be, ok := m.(*ast.BinaryExpr)
				if !ok || (be.Op != token.EQL && be.Op != token.NEQ) {
					return true
				}
				l, r := isWrap(be.X), isWrap(be.Y)
				if !l && !r {
					return true
				}
				n++
				c.funcs[fi.Name] = true
				c.Check(rule, fi.Name+"|"+types.ExprString(be), be.Pos(), l && r, "%s compares %s: only one side is normalised, so two equivalent expressions (with and without the outer parentheses) are equal in one direction of the diff and different in the other", fi.Name, types.ExprString(be))
				return true
			})
		})
	}
	if n < 5 {
		c.Unresolved(rule, "comparisons using sqlx.MayWrap in the differ files (found fewer than 5)")
	}
}

// ---------------------------------------------------------------------------
// R15i: numbers are rendered with all their digits.

const ruleTextFloatDigits = "numbers read from HCL are rendered with all their digits: in the spec conversion packages a *big.Float is turned into text only with Text(format, -1) (shortest exact form); (*big.Float).String() keeps 10 significant digits and silently changes a default such as 3.14159265358979"

func checkFloatDigits(c *Ctx, rule string) {
	n := 0
	for _, pp := range []string{pSpecutil, pHCL, pSqlspec, pSqlite, pMysql, pPostgres} {
		c.AllFuncs(false, func(fi *FuncInfo) {
			if fi.Pkg.PkgPath != pp {
				return
			}
			info := fi.Info()
			for _, call := range callsIn(fi.Decl.Body, true) {
				fn := calleeOf(info, call)
				if fn == nil || fn.Pkg() == nil || fn.Pkg().Path() != "math/big" || recvTypeName(fn) != "Float" {
					continue
				}
				switch fn.Name() {
				case "String":
					n++
					c.funcs[fi.Name] = true
					c.Check(rule, fi.Name+"|"+types.ExprString(call), call.Pos(), false, "%s renders a number with (*big.Float).String(), which keeps 10 significant digits: a numeric default with more digits comes back changed after the HCL round trip", fi.Name)
				case "Text":
					n++
					c.funcs[fi.Name] = true
					ok := len(call.Args) == 2
					if ok {
						tv := info.Types[call.Args[1]]
						ok = tv.Value != nil && tv.Value.String() == "-1"
					}
					c.Check(rule, fi.Name+"|"+types.ExprString(call), call.Pos(), ok, "%s renders a number with a fixed number of digits (%s): use precision -1 to keep the value exact", fi.Name, types.ExprString(call))
				}
			}
		})
	}
	if n < 1 {
		c.Unresolved(rule, "renderings of *big.Float in the spec conversion packages")
	}
}

// ---------------------------------------------------------------------------
// R15j: the integer parser only sees integers.

const ruleTextIntParserGuard = "specutil.ColumnDefault: a literal accepted by sqlx.IsLiteralNumber (anything strconv.ParseFloat accepts) reaches strconv.ParseInt only after a guard that sends literals containing a fraction point or an exponent ('.', 'e', 'E') to the float parser; otherwise marshalling a schema with DEFAULT 1e3 fails"

func checkIntParserGuard(c *Ctx, rule string) {
	root := c.Func(rule, pSpecutil, "", "ColumnDefault")
	if root == nil {
		return
	}
	// ColumnDefault and the package-local helpers it calls (the numeric arm may be extracted)
	scopes := []*FuncInfo{root}
	seen := map[*types.Func]bool{root.Obj: true}
	for i := 0; i < len(scopes) && i < 8; i++ {
		g := scopes[i]
		for _, call := range callsIn(g.Decl.Body, true) {
			fn := calleeOf(g.Info(), call)
			if fn == nil || fn.Pkg() == nil || fn.Pkg().Path() != pSpecutil || seen[fn] {
				continue
			}
			if h := c.FuncInfoOf(fn); h != nil && h.Decl.Body != nil {
				seen[fn] = true
				scopes = append(scopes, h)
			}
		}
	}
	n := 0
	for _, fi := range scopes {
		info := fi.Info()
		var fl *Flow
		for _, call := range callsIn(fi.Decl.Body, true) {
			fn := calleeOf(info, call)
			if fn == nil || fn.Pkg() == nil || fn.Pkg().Path() != "strconv" || fn.Name() != "ParseInt" || len(call.Args) < 1 {
				continue
			}
			// only the parse of a literal that may be a float: the function (or its caller chain) consults IsLiteralNumber
			if fi != root && !c.mayReach(root.Obj, func(g *types.Func) bool { return g == fi.Obj }, 2) {
				continue
			}
			n++
			if fl == nil {
				fl = newFlow(info, fi.Decl.Body)
			}
			arg := types.ExprString(ast.Unparen(call.Args[0]))
			covered := ""
			for _, ch := range []string{".", "e", "E"} {
				ch := ch
				if fl.established(call, func(e ast.Expr, val bool) bool {
					g, ok := ast.Unparen(e).(*ast.CallExpr)
					if !ok || val || len(g.Args) != 2 {
						return false
					}
					gf := calleeOf(info, g)
					if gf == nil || gf.Pkg() == nil || gf.Pkg().Path() != "strings" || types.ExprString(ast.Unparen(g.Args[0])) != arg {
						return false
					}
					k, ok := stringConst(info, g.Args[1])
					if !ok {
						if tv := info.Types[g.Args[1]]; tv.Value != nil && tv.Value.Kind() == constant.Int {
							if v, ok2 := constant.Int64Val(tv.Value); ok2 {
								k, ok = string(rune(v)), true
							}
						}
					}
					if !ok {
						return false
					}
					switch gf.Name() {
					case "Contains", "ContainsRune":
						return k == ch
					case "ContainsAny":
						return strings.Contains(k, ch)
					}
					return false
				}) {
					covered += ch
				}
			}
			ok := covered == ".eE"
			c.Check(rule, "specutil.ColumnDefault|ParseInt reached only by integer literals", call.Pos(), ok, "%s sends a number literal to strconv.ParseInt on a path that did not exclude a fraction point or an exponent (excluded on every path: %q): a literal with an exponent (DEFAULT 1e3) is a number for IsLiteralNumber but a syntax error for ParseInt, and marshalling the whole schema fails", fi.Name, covered)
		}
	}
	if n == 0 {
		c.Unresolved(rule, "strconv.ParseInt in specutil.ColumnDefault (or a helper it calls)")
	}
}

// ---------------------------------------------------------------------------
// R06g: a sum-file line is split where it cannot be ambiguous.

const ruleTextSumLineSplit = "a sum-file line `<name> h1:<hash>` is split at the LAST separator: the hash is base64 and cannot contain the separator, the file name can; HashFile.UnmarshalText must not locate the separator with a first-occurrence search (SplitN, Index, Cut, Split), otherwise a directory holding a file whose name contains the separator is written correctly and read back wrongly (an untouched directory fails validation)"

func checkSumLineSplit(c *Ctx, rule string) {
	uf := c.Func(rule, pMigrate, "HashFile", "UnmarshalText")
	if uf == nil {
		return
	}
	info := uf.Info()
	// the per-line loop: `for sc.Scan() { … }`
	n := 0
	ast.Inspect(uf.Decl.Body, func(m ast.Node) bool {
		loop, ok := m.(*ast.ForStmt)
		if !ok {
			return true
		}
		for _, call := range callsIn(loop.Body, true) {
			fn := calleeOf(info, call)
			if fn == nil || fn.Pkg() == nil || fn.Pkg().Path() != "strings" || len(call.Args) < 2 {
				continue
			}
			if k, ok := stringConst(info, call.Args[1]); !ok || k == "" {
				continue
			}
			switch fn.Name() {
			case "LastIndex", "LastIndexByte":
				n++
				c.Check(rule, "HashFile.UnmarshalText|strings."+fn.Name()+" splits the line", call.Pos(), true, "")
			case "SplitN", "Split", "Index", "IndexByte", "Cut", "SplitAfterN", "SplitAfter":
				n++
				c.Check(rule, "HashFile.UnmarshalText|strings."+fn.Name()+" splits the line", call.Pos(), false, "UnmarshalText locates the name/hash separator with strings.%s (first occurrence): a file name that contains the separator is cut short and the rest is taken for the hash", fn.Name())
			}
		}
		return true
	})
	if n == 0 {
		c.Unresolved(rule, "the call that splits a sum-file line in HashFile.UnmarshalText")
	}
}

// ---------------------------------------------------------------------------
// R02l: positions handed to the per-part attribute comparison index the same slices that were sorted.

const ruleTextPartsAlias = "per-part comparison by position: where the shared differ calls IndexPartAttrChanged(from, to, i), the position i comes from a loop over slices that ARE from.Parts / to.Parts (aliases, sorted in place), not copies: the driver re-indexes Index.Parts with i, so a copy sorted separately makes the two sites compare different parts"

func checkPartsAlias(c *Ctx, rule string) {
	n := 0
	c.AllFuncs(false, func(fi *FuncInfo) {
		if fi.Pkg.PkgPath != pSqlx {
			return
		}
		info := fi.Info()
		for _, call := range callsIn(fi.Decl.Body, true) {
			se, ok := call.Fun.(*ast.SelectorExpr)
			if !ok || se.Sel.Name != "IndexPartAttrChanged" || len(call.Args) != 3 {
				continue
			}
			n++
			c.funcs[fi.Name] = true
			idxArgs := []ast.Expr{call.Args[0], call.Args[1]}
			// every local slice of index parts in this function that is sorted or ranged over must be an alias of <index>.Parts
			bad := ""
			ast.Inspect(fi.Decl.Body, func(m ast.Node) bool {
				as, ok := m.(*ast.AssignStmt)
				if !ok || len(as.Lhs) != len(as.Rhs) {
					return true
				}
				for i, l := range as.Lhs {
					id, ok := l.(*ast.Ident)
					if !ok {
						continue
					}
					sl, ok := info.TypeOf(id).Underlying().(*types.Slice)
					if !ok || !typeIs(derefType(sl.Elem()), pSchema, "IndexPart") {
						continue
					}
					r := ast.Unparen(as.Rhs[i])
					alias := false
					if rs, ok := r.(*ast.SelectorExpr); ok && rs.Sel.Name == "Parts" {
						for _, a := range idxArgs {
							if types.ExprString(a) == types.ExprString(rs.X) {
								alias = true
							}
						}
					}
					if !alias {
						bad = id.Name + " := " + types.ExprString(r)
					}
				}
				return true
			})
			c.Check(rule, fi.Name+"|parts compared by position are the indexes' own Parts", call.Pos(), bad == "", "%s sorts and walks %s, a copy, but passes the position to IndexPartAttrChanged, which indexes the original Index.Parts: after sorting the copy the two sites look at different parts (a spurious or a missed ChangeParts)", fi.Name, bad)
		}
	})
	if n == 0 {
		c.Unresolved(rule, "calls of IndexPartAttrChanged in the shared differ")
	}
}

// ---------------------------------------------------------------------------
// R06h: writing a directory file replaces its content.

const ruleTextWriteReplaces = "Dir.WriteFile replaces the file: every os.OpenFile used for writing by a migrate.Dir implementation (and by WriteSumFile's path) carries os.O_TRUNC (or the file is written with os.WriteFile / os.Create): a shorter atlas.sum written over a longer one must not keep the old tail, otherwise re-hashing an edited directory leaves it invalid"

func checkWriteReplaces(c *Ctx, rule string) {
	n := 0
	var oTrunc int64 = -1
	for _, p := range c.Pkgs {
		if p.PkgPath == pMigrate {
			for _, imp := range p.Types.Imports() {
				if imp.Path() == "os" {
					if k, ok := imp.Scope().Lookup("O_TRUNC").(*types.Const); ok {
						oTrunc, _ = constant.Int64Val(k.Val())
					}
				}
			}
		}
	}
	c.AllFuncs(false, func(fi *FuncInfo) {
		if !strings.HasPrefix(fi.Pkg.PkgPath, modRoot+"/sql/migrate") && fi.Pkg.PkgPath != pSqltool {
			return
		}
		if fi.Decl.Name.Name != "WriteFile" && fi.Decl.Name.Name != "WriteSumFile" && fi.Decl.Name.Name != "WriteCheckpoint" {
			return
		}
		info := fi.Info()
		n++
		c.funcs[fi.Name] = true
		bad := ""
		for _, call := range callsIn(fi.Decl.Body, true) {
			fn := calleeOf(info, call)
			if fn == nil || fn.Pkg() == nil || fn.Pkg().Path() != "os" || fn.Name() != "OpenFile" || len(call.Args) < 2 {
				continue
			}
			tv := info.Types[call.Args[1]]
			if tv.Value == nil || oTrunc < 0 {
				bad = "os.OpenFile with flags that are not a constant expression (" + types.ExprString(call.Args[1]) + ")"
				continue
			}
			flags, _ := constant.Int64Val(tv.Value)
			if flags&oTrunc == 0 {
				bad = "os.OpenFile(" + types.ExprString(call.Args[1]) + ") without os.O_TRUNC"
			}
		}
		c.Check(rule, fi.Name+"|the written file is truncated first", fi.Decl.Pos(), bad == "", "%s writes through %s: writing fewer bytes than the file holds keeps the old tail (a re-hashed atlas.sum keeps stale lines and the directory no longer validates)", fi.Name, bad)
	})
	if n < 2 {
		c.Unresolved(rule, "WriteFile implementations of migrate.Dir (found fewer than 2)")
	}
}

// ---------------------------------------------------------------------------
// R05f / R01l: a generated column of the new table never receives a value.

const ruleTextGeneratedSkipped = "copyRows: a column is added to the INSERT column list only on paths that established it is not generated (an edge on which sqlx.Has(column.Attrs, &schema.GeneratedExpr{}) is false): SQLite rejects an INSERT into any generated column, stored or virtual"

func checkGeneratedSkipped(c *Ctx, rule string) {
	fi := c.Func(rule, pSqlite, "state", "copyRows")
	if fi == nil {
		return
	}
	info := fi.Info()
	f := newFlow(info, fi.Decl.Body)
	isGenHas := func(e ast.Expr) bool {
		call, ok := ast.Unparen(e).(*ast.CallExpr)
		if !ok || !funcIs(calleeOf(info, call), pSqlx, "", "Has") || len(call.Args) != 2 {
			return false
		}
		return typeIs(derefType(info.TypeOf(call.Args[1])), pSchema, "GeneratedExpr")
	}
	notGenerated := func(b *cfg.Block, si int) bool {
		return edgeImplies(b, si, func(e ast.Expr, val bool) bool { return isGenHas(e) && !val })
	}
	// appends of a column name to a []string list
	isColAppend := func(n ast.Node) bool {
		as, ok := n.(*ast.AssignStmt)
		if !ok || len(as.Rhs) != 1 || len(as.Lhs) != 1 {
			return false
		}
		call, ok := as.Rhs[0].(*ast.CallExpr)
		if !ok || builtinName(info, call) != "append" || len(call.Args) != 2 {
			return false
		}
		sl, ok := info.TypeOf(as.Lhs[0]).Underlying().(*types.Slice)
		if !ok {
			return false
		}
		b, ok := sl.Elem().Underlying().(*types.Basic)
		return ok && b.Info()&types.IsString != 0
	}
	n := len(f.find(isColAppend))
	at, leak := f.reachEx([]point{f.entry()}, nil, isColAppend, notGenerated)
	pos := fi.Decl.Pos()
	if at != nil {
		pos = at.Pos()
	}
	c.Check(rule, "copyRows|columns reach the INSERT lists only when not generated", pos, n > 0 && !leak, "copyRows can add a column to the INSERT lists on a path that did not establish the column is not generated (the skip condition is narrower than `has a GeneratedExpr`): the copy statement then writes into a generated column and SQLite rejects it")
}

// ---------------------------------------------------------------------------
// R04g: a sort comparator reads the slice that is being sorted.

const ruleTextSortSelf = "sort comparators index the slice being sorted: in sort.Slice / sort.SliceStable (S, func(i, j int) bool {…}) of the planning code every element read with i or j is an element of S itself (reading another slice with the positions of S compares elements that move while S is reordered)"

func checkSortSelf(c *Ctx, rule string) {
	n := 0
	for _, pp := range []string{pSqlx, pMysql, pPostgres, pSqlite, pMigrate, pSchema} {
		c.AllFuncs(false, func(fi *FuncInfo) {
			if fi.Pkg.PkgPath != pp {
				return
			}
			info := fi.Info()
			for _, call := range callsIn(fi.Decl.Body, true) {
				fn := calleeOf(info, call)
				if fn == nil || fn.Pkg() == nil || fn.Pkg().Path() != "sort" || (fn.Name() != "Slice" && fn.Name() != "SliceStable") || len(call.Args) != 2 {
					continue
				}
				fl, ok := ast.Unparen(call.Args[1]).(*ast.FuncLit)
				if !ok || fl.Type.Params.NumFields() != 2 {
					continue
				}
				var ps []types.Object
				for _, fld := range fl.Type.Params.List {
					for _, nm := range fld.Names {
						ps = append(ps, info.ObjectOf(nm))
					}
				}
				n++
				c.funcs[fi.Name] = true
				sorted := types.ExprString(ast.Unparen(call.Args[0]))
				bad := ""
				ast.Inspect(fl.Body, func(m ast.Node) bool {
					ix, ok := m.(*ast.IndexExpr)
					if !ok {
						return true
					}
					id, ok := ast.Unparen(ix.Index).(*ast.Ident)
					if !ok || len(ps) != 2 || (info.ObjectOf(id) != ps[0] && info.ObjectOf(id) != ps[1]) {
						return true
					}
					if _, isSlice := info.TypeOf(ix.X).Underlying().(*types.Slice); isSlice && types.ExprString(ast.Unparen(ix.X)) != sorted {
						bad = types.ExprString(ix)
					}
					return true
				})
				c.Check(rule, fi.Name+"|sort of "+sorted, call.Pos(), bad == "", "%s sorts %s but its comparator reads %s: the positions refer to %s, whose elements move during the sort, so the order that results is arbitrary", fi.Name, sorted, bad, sorted)
			}
		})
	}
	if n < 5 {
		c.Unresolved(rule, "sort.Slice calls with a literal comparator in the planning packages (found fewer than 5)")
	}
}

// ---------------------------------------------------------------------------
// R04h: SortChanges emits from the regrouped list.

const ruleTextEmitRegrouped = "SortChanges emits from the regrouped list: the loop that emits the changes (calls the recursive add closure) ranges over a variable whose latest assignment is the regrouping append(other, …views…, …drop…), the same list the dependency edges were computed over"

func checkEmitRegrouped(c *Ctx, rule string) {
	fi := c.Func(rule, pSqlx, "", "SortChanges")
	if fi == nil {
		return
	}
	info := fi.Info()
	// the recursive closure
	var addObj types.Object
	ast.Inspect(fi.Decl.Body, func(m ast.Node) bool {
		as, ok := m.(*ast.AssignStmt)
		if !ok || len(as.Lhs) != 1 || len(as.Rhs) != 1 {
			return true
		}
		fl, ok := as.Rhs[0].(*ast.FuncLit)
		if !ok {
			return true
		}
		id, ok := as.Lhs[0].(*ast.Ident)
		if !ok {
			return true
		}
		obj := info.ObjectOf(id)
		for _, call := range callsIn(fl.Body, true) {
			if cid, ok := call.Fun.(*ast.Ident); ok && info.ObjectOf(cid) == obj {
				addObj = obj
			}
		}
		return true
	})
	if addObj == nil {
		// the emission written as a recursive package function instead of a closure
		for _, call := range callsIn(fi.Decl.Body, true) {
			fn := calleeOf(info, call)
			if fn == nil || fn.Pkg() == nil || fn.Pkg().Path() != pSqlx {
				continue
			}
			hf := c.FuncInfoOf(fn)
			if hf == nil || hf.Decl.Body == nil || hf.Decl == fi.Decl {
				continue
			}
			for _, hc := range callsIn(hf.Decl.Body, true) {
				if calleeOf(hf.Info(), hc) == fn {
					addObj = fn
				}
			}
		}
	}
	if addObj == nil {
		c.Unresolved(rule, "SortChanges: the recursive emission closure")
		return
	}
	n := 0
	ast.Inspect(fi.Decl.Body, func(m ast.Node) bool {
		if _, isLit := m.(*ast.FuncLit); isLit {
			return false // the recursion inside the closure is not the emission loop
		}
		rs, ok := m.(*ast.RangeStmt)
		if !ok {
			return true
		}
		calls := false
		for _, call := range callsIn(rs.Body, false) {
			if cid, ok := call.Fun.(*ast.Ident); ok && info.ObjectOf(cid) == addObj {
				calls = true
			}
		}
		if !calls {
			return true
		}
		n++
		okDef := false
		if id, isID := ast.Unparen(rs.X).(*ast.Ident); isID {
			obj := info.ObjectOf(id)
			var last *ast.AssignStmt
			ast.Inspect(fi.Decl.Body, func(k ast.Node) bool {
				as, isAs := k.(*ast.AssignStmt)
				if !isAs || as.Pos() > rs.Pos() {
					return true
				}
				for _, l := range as.Lhs {
					if lid, isL := l.(*ast.Ident); isL && info.ObjectOf(lid) == obj {
						last = as
					}
				}
				return true
			})
			if last != nil && len(last.Rhs) == 1 {
				names := map[string]bool{}
				ast.Inspect(last.Rhs[0], func(k ast.Node) bool {
					if x, isX := k.(*ast.Ident); isX {
						names[x.Name] = true
					}
					return true
				})
				okDef = names["views"] && names["drop"] && names["other"]
			}
		}
		c.Check(rule, "SortChanges|emission loop ranges over the regrouped list", rs.Pos(), okDef, "the loop that emits the sorted changes ranges over %s, which is not the regrouped list (other, views, drops): views and drops are no longer pushed behind the changes they may depend on", types.ExprString(rs.X))
		return true
	})
	if n == 0 {
		c.Unresolved(rule, "SortChanges: the loop that calls the emission closure")
	}
}

// ---------------------------------------------------------------------------
// R07i: the delimiter directive is written with the inverse of the table it is read with.

const ruleTextDelimTables = "delimiter directive: the escape table of the writer (migrate.delim: strings.NewReplacer pairs a→b) is the inverse of the unescape table of the reader (Scanner.setDelim: pairs b→a), pair by pair"

func checkDelimTables(c *Ctx, rule string) {
	pairs := func(pkg, recv, name string) (map[string]string, bool) {
		fi := c.Func(rule, pkg, recv, name)
		if fi == nil {
			return nil, false
		}
		info := fi.Info()
		out := map[string]string{}
		found := false
		collect := func(call *ast.CallExpr, inf *types.Info) {
			fn := calleeOf(inf, call)
			if fn == nil || fn.Pkg() == nil || fn.Pkg().Path() != "strings" || fn.Name() != "NewReplacer" || len(call.Args)%2 != 0 {
				return
			}
			found = true
			for i := 0; i+1 < len(call.Args); i += 2 {
				a, ok1 := stringConst(inf, call.Args[i])
				b, ok2 := stringConst(inf, call.Args[i+1])
				if ok1 && ok2 {
					out[a] = b
				}
			}
		}
		for _, call := range callsIn(fi.Decl.Body, true) {
			collect(call, info)
		}
		// a replacer hoisted into a package-level variable
		if !found {
			ast.Inspect(fi.Decl.Body, func(m ast.Node) bool {
				id, ok := m.(*ast.Ident)
				if !ok {
					return true
				}
				v, ok := info.ObjectOf(id).(*types.Var)
				if !ok || v.Pkg() == nil || v.Parent() != v.Pkg().Scope() {
					return true
				}
				if p := c.Pkg(v.Pkg().Path()); p != nil {
					for _, file := range p.Syntax {
						ast.Inspect(file, func(k ast.Node) bool {
							vs, ok := k.(*ast.ValueSpec)
							if !ok {
								return true
							}
							for i, nm := range vs.Names {
								if p.TypesInfo.ObjectOf(nm) == v && i < len(vs.Values) {
									if call, ok := ast.Unparen(vs.Values[i]).(*ast.CallExpr); ok {
										collect(call, p.TypesInfo)
									}
								}
							}
							return true
						})
					}
				}
				return true
			})
		}
		return out, found
	}
	w, ok1 := pairs(pMigrate, "", "delim")
	r, ok2 := pairs(pMigrate, "Scanner", "setDelim")
	if !ok1 || !ok2 {
		c.Unresolved(rule, "strings.NewReplacer tables of migrate.delim and Scanner.setDelim")
		return
	}
	bad := ""
	for a, b := range w {
		if r[b] != a {
			bad = fmt.Sprintf("the writer escapes %q as %q but the reader does not turn %q back into %q", a, b, b, a)
		}
	}
	for b, a := range r {
		if w[a] != b {
			bad = fmt.Sprintf("the reader unescapes %q to %q but the writer does not escape %q as %q", b, a, a, b)
		}
	}
	c.Check(rule, "delim ⇄ Scanner.setDelim|escape tables are inverse", token.NoPos, bad == "" && len(w) > 0, "%s: a custom delimiter containing that sequence is announced in the header differently from what the statements end with, and the file is read back as one statement", bad)
}
