package main

import (
	"go/ast"
	"go/constant"
	"go/token"
	"go/types"
	"regexp"
	"regexp/syntax"
	"strings"
	"text/template/parse"
)

func init() {
	register("C07", &propCheck{
		explanation: "Table-agreement rules between the three components that must agree for plan → file → statements to round-trip: (a) every directory template prints each change's Cmd immediately followed by the scanner's delimiter constant and a newline (templates parsed with text/template/parse); (b) every Comment a planner attaches is a constant or a Sprintf whose dynamic arguments are formatted with %q/%d/%T (a raw %s/%v of a user string could carry a newline out of the `-- comment` line); (c) the pragma line filters of the third-party readers are anchored and grouped so they match only the tool's pragma lines (regexp/syntax); (d) a dialect whose literal quoting escapes with backslashes scans with BackslashEscapes; (e) the quoting helpers escape their own closing delimiter; (f) import keeps one change per statement, in order, comments before text.",
		undecided:   []string{"byte-exact round trip for adversarial identifiers/literals through builder + template + scanner (Builder.Ident does not escape: known finding D8)", "third-party formats beyond the pragma filters"},
		run:         runC07,
	})
}

func runC07(c *Ctx) {
	c.Rule("R07a", "delimiter agreement: in every file template each `.Cmd` is printed directly followed by the scanner delimiter constant (\";\" or $.Delimiter) and a newline", 6)
	c.Rule("R07b", "comment lines cannot inject: every migrate.Change.Comment built by the three planners is a constant or fmt.Sprintf whose dynamic arguments use %q / %d / %T (a %s fed by a function literal returning only constants is accepted)", 20)
	c.Rule("R07c", "pragma filters are anchored: each regexp used as a line filter in sql/sqltool matches only at the beginning of the line and every top-level alternative starts with the tool's pragma literal", 2)
	c.Rule("R07d", "escape/scan agreement: a dialect whose literal-quoting helper produces backslash escapes (strconv.Quote) scans statements with BackslashEscapes: true", 1)
	c.Rule("R07e", "quoting helpers neutralise their own delimiter: the string written between quotes is first passed through an escaping call (ReplaceAll of the quote / strconv.Quote)", 4)
	c.Rule("R07g", "comment agreement: the goose reader inserts its statement delimiter after a line only if the line does not start with the line-comment opener the scanner itself uses (the constant passed to Scanner.comment with a newline terminator)", 1)
	c.Rule("R07h", "line-oriented readers: (1) every sqltool reader that rebuilds the statement text from scanned lines appends the line exactly as scanned (no transformed copy reaches the append); (2) a reader that ends a statement at a line ending in the delimiter is paired with a formatter that prints .Cmd either between the tool's begin/end pragmas or under a condition on .Cmd", 3)
	c.Rule("R07f", "import keeps the sequence: migrateImportRun allocates one change per scanned statement, stores statement i at index i, writes the statement's comments before its text and resets the buffer before the next statement", 4)

	checkTemplatesDelim(c)
	checkLineReaders(c)
	c.Rule("R07j", ruleTextMultilineGuard, 1)
	checkMultilineGuard(c, "R07j")
	c.Rule("R07l", ruleTextNativeOnly, 1)
	checkNativeOnly(c, "R07l")
	c.Rule("R07m", ruleTextBackslashBothWays, 1)
	checkBackslashBothWays(c, "R07m")
	c.Rule("R07k", ruleTextEnumValuesEscaped, 3)
	checkEnumValuesEscaped(c, "R07k")
	c.Rule("R07i", ruleTextDelimTables, 1)
	checkDelimTables(c, "R07i")
	checkComments(c)
	checkPragmaRegexps(c)
	checkEscapeScan(c)
	checkQuoteHelpers(c)
	checkImportSequence(c)
	checkGooseCommentGuard(c)
}

// ---- R07a

// templateFuncsMap returns the function names the template parser must know: the builtins plus every
// string key of a template.FuncMap composite literal in the two packages that define file templates.
func templateFuncsMap(c *Ctx) map[string]any {
	funcs := map[string]any{}
	for _, pp := range []string{pSqltool, pMigrate} {
		p := c.Pkg(pp)
		if p == nil {
			continue
		}
		for _, file := range p.Syntax {
			ast.Inspect(file, func(m ast.Node) bool {
				cl, ok := m.(*ast.CompositeLit)
				if !ok || !typeIs(p.TypesInfo.TypeOf(cl), "text/template", "FuncMap") {
					return true
				}
				for _, el := range cl.Elts {
					if kv, ok := el.(*ast.KeyValueExpr); ok {
						if k, ok := stringConst(p.TypesInfo, kv.Key); ok {
							funcs[k] = ""
						}
					}
				}
				return true
			})
		}
	}
	for _, b := range strings.Fields("and call html index slice js len not or print printf println urlquery eq ge gt le lt ne") {
		funcs[b] = ""
	}
	return funcs
}

func checkTemplatesDelim(c *Ctx) {
	delim := ""
	if p := c.byPath[pMigrate]; p != nil {
		if o, ok := p.Types.Scope().Lookup("delimiter").(*types.Const); ok && o.Val().Kind() == constant.String {
			delim = constant.StringVal(o.Val())
		}
	}
	if delim == "" {
		c.Unresolved("R07a", "constant migrate.delimiter")
		return
	}
	type tpl struct {
		name, text string
		pos        token.Pos
	}
	var tpls []tpl
	// sqltool: templateFormatter(name, content, name, content…)
	sp := c.Pkg(pSqltool)
	for _, file := range sp.Syntax {
		if strings.HasSuffix(c.Fset.Position(file.Pos()).Filename, "_test.go") {
			continue
		}
		ast.Inspect(file, func(m ast.Node) bool {
			vs, ok := m.(*ast.ValueSpec)
			if !ok || len(vs.Values) != 1 {
				return true
			}
			call, ok := vs.Values[0].(*ast.CallExpr)
			if !ok {
				return true
			}
			if id, ok := call.Fun.(*ast.Ident); !ok || id.Name != "templateFormatter" {
				return true
			}
			for i := 1; i < len(call.Args); i += 2 {
				if text, ok := stringConst(sp.TypesInfo, call.Args[i]); ok {
					nm, _ := stringConst(sp.TypesInfo, call.Args[i-1])
					tpls = append(tpls, tpl{vs.Names[0].Name + "|" + nm, text, call.Args[i].Pos()})
				} else {
					c.Unresolved("R07a", vs.Names[0].Name+": template is not a constant")
				}
			}
			return true
		})
	}
	// migrate.DefaultFormatter: Parse(`…`) calls inside the var declaration
	mp := c.Pkg(pMigrate)
	for _, file := range mp.Syntax {
		if strings.HasSuffix(c.Fset.Position(file.Pos()).Filename, "_test.go") {
			continue
		}
		ast.Inspect(file, func(m ast.Node) bool {
			vs, ok := m.(*ast.ValueSpec)
			if !ok || len(vs.Names) != 1 || vs.Names[0].Name != "DefaultFormatter" {
				return true
			}
			ast.Inspect(vs, func(k ast.Node) bool {
				call, ok := k.(*ast.CallExpr)
				if !ok {
					return true
				}
				if se, ok := call.Fun.(*ast.SelectorExpr); ok && se.Sel.Name == "Parse" && len(call.Args) == 1 {
					if text, ok := stringConst(mp.TypesInfo, call.Args[0]); ok && strings.Contains(text, ".Cmd") {
						tpls = append(tpls, tpl{"DefaultFormatter", text, call.Args[0].Pos()})
					}
				}
				return true
			})
			return false
		})
	}
	if len(tpls) < 6 {
		c.Unresolved("R07a", "file templates (found fewer than 6)")
	}
	for _, t := range tpls {
		if !strings.Contains(t.text, ".Cmd") {
			continue
		}
		trees, err := parse.Parse("t", t.text, "{{", "}}", templateFuncsMap(c))
		if err != nil {
			c.Check("R07a", t.name+"|parses", t.pos, false, "template does not parse: %v", err)
			continue
		}
		okAll, n, why := true, 0, ""
		// dotIsCmd: inside a {{ define }} block invoked as {{ template "x" .Cmd }} the statement is `.`
		dotIsCmd := false
		isCmd := func(a parse.Node) bool {
			return strings.HasSuffix(a.String(), ".Cmd") || dotIsCmd && a.String() == "."
		}
		var walk func(n parse.Node, next parse.Node)
		checkAction := func(a *parse.ActionNode, next parse.Node) {
			s := a.String()
			mentions := strings.Contains(s, ".Cmd")
			if dotIsCmd {
				for _, cmd := range a.Pipe.Cmds {
					for _, arg := range cmd.Args {
						if arg.String() == "." {
							mentions = true
						}
					}
				}
			}
			if !mentions {
				return
			}
			n++
			// forms: {{ printf "%s;\n" .Cmd }} | {{ printf "%s%s\n" .Cmd (or $.Delimiter ";") }} | {{ $change.Cmd }};\n
			if len(a.Pipe.Cmds) == 1 {
				cmd := a.Pipe.Cmds[0]
				if len(cmd.Args) >= 3 {
					if id, ok := cmd.Args[0].(*parse.IdentifierNode); ok && id.Ident == "printf" {
						if f, ok := cmd.Args[1].(*parse.StringNode); ok {
							switch {
							case f.Text == "%s"+delim+"\n" && isCmd(cmd.Args[2]):
								return
							case f.Text == "%s%s\n" && len(cmd.Args) == 4 && isCmd(cmd.Args[2]):
								d := cmd.Args[3].String()
								if strings.Contains(d, "$.Delimiter") && strings.Contains(d, `"`+delim+`"`) {
									return
								}
							}
						}
					}
				}
				if len(cmd.Args) == 1 && isCmd(cmd.Args[0]) {
					if tx, ok := next.(*parse.TextNode); ok && strings.HasPrefix(string(tx.Text), delim+"\n") {
						return
					}
				}
			}
			okAll, why = false, s
		}
		walk = func(nd parse.Node, next parse.Node) {
			switch x := nd.(type) {
			case *parse.ListNode:
				if x == nil {
					return
				}
				for i, k := range x.Nodes {
					var nx parse.Node
					if i+1 < len(x.Nodes) {
						nx = x.Nodes[i+1]
					}
					walk(k, nx)
				}
			case *parse.ActionNode:
				checkAction(x, next)
			case *parse.RangeNode:
				walk(x.List, nil)
				walk(x.ElseList, nil)
			case *parse.IfNode:
				// a condition may inspect the statement ({{ if multiline .Cmd }}): it prints nothing
				walk(x.List, nil)
				walk(x.ElseList, nil)
			case *parse.TemplateNode:
				if x.Pipe != nil && len(x.Pipe.Cmds) == 1 && len(x.Pipe.Cmds[0].Args) == 1 && isCmd(x.Pipe.Cmds[0].Args[0]) {
					sub := trees[x.Name]
					if sub == nil || dotIsCmd {
						okAll, why = false, x.String()
						return
					}
					dotIsCmd = true
					walk(sub.Root, nil)
					dotIsCmd = false
				}
			case *parse.WithNode:
				walk(x.List, nil)
				walk(x.ElseList, nil)
			}
		}
		walk(trees["t"].Root, nil)
		c.Check("R07a", t.name+"|Cmd followed by delimiter and newline", t.pos, okAll && n > 0, "the template prints a statement without the scanner delimiter %q and a newline right after it: %s", delim, why)
	}
}

// ---- R07b

func checkComments(c *Ctx) {
	safeCommentCtx = c
	for _, pp := range []string{pMysql, pPostgres, pSqlite} {
		c.AllFuncs(false, func(fi *FuncInfo) {
			if fi.Pkg.PkgPath != pp {
				return
			}
			info := fi.Info()
			idx := 0
			ast.Inspect(fi.Decl.Body, func(m ast.Node) bool {
				var val ast.Expr
				switch x := m.(type) {
				case *ast.KeyValueExpr:
					if id, ok := x.Key.(*ast.Ident); ok && id.Name == "Comment" {
						if f := info.ObjectOf(id); f != nil {
							if v, ok := f.(*types.Var); ok && v.IsField() && v.Pkg() != nil && v.Pkg().Path() == pMigrate {
								val = x.Value
							}
						}
					}
				case *ast.AssignStmt:
					for i, l := range x.Lhs {
						if isField(info, l, pMigrate, "Change", "Comment") && i < len(x.Rhs) {
							val = x.Rhs[i]
						}
					}
				}
				if val == nil {
					return true
				}
				idx++
				key := fi.Name + "|Comment"
				if idx > 1 {
					key += "#" + itoa(idx)
				}
				// the comment is a parameter of a package-local helper: the obligation moves to every call site
				if id, isID := ast.Unparen(val).(*ast.Ident); isID {
					pidx := -1
					k := 0
					for _, fld := range fi.Decl.Type.Params.List {
						for _, nm := range fld.Names {
							if info.ObjectOf(nm) == info.ObjectOf(id) {
								pidx = k
							}
							k++
						}
					}
					if pidx >= 0 {
						sites := 0
						c.AllFuncs(false, func(cf *FuncInfo) {
							if cf.Pkg != fi.Pkg {
								return
							}
							for _, call := range callsIn(cf.Decl.Body, true) {
								if calleeOf(cf.Info(), call) != fi.Obj || pidx >= len(call.Args) {
									continue
								}
								sites++
								ok, why := safeComment(cf.Info(), call.Args[pidx], cf.Decl.Body)
								c.Check("R07b", cf.Name+"|Comment passed to "+fi.Decl.Name.Name+"#"+itoa(sites), call.Args[pidx].Pos(), ok, "the comment %s %s: a newline in it would turn the rest into an executable line of the migration file", types.ExprString(call.Args[pidx]), why)
							}
						})
						if sites > 0 {
							return true
						}
					}
				}
				ok, why := safeComment(info, val, fi.Decl.Body)
				c.Check("R07b", key, val.Pos(), ok, "the comment %s %s: a newline in it would turn the rest into an executable line of the migration file", types.ExprString(val), why)
				return true
			})
		})
	}
}

func itoa(i int) string {
	if i < 10 {
		return string(rune('0' + i))
	}
	return itoa(i/10) + string(rune('0'+i%10))
}

// safeCommentCtx gives safeComment access to the declarations of module functions.
var safeCommentCtx *Ctx

func safeComment(info *types.Info, e ast.Expr, body ast.Node) (bool, string) {
	if _, ok := stringConst(info, e); ok {
		return true, ""
	}
	call, ok := e.(*ast.CallExpr)
	if !ok {
		return false, "is neither a constant nor a fmt.Sprintf call"
	}
	fn := calleeOf(info, call)
	if fn == nil || fn.Pkg() == nil || fn.Pkg().Path() != "fmt" || fn.Name() != "Sprintf" || len(call.Args) == 0 {
		return false, "is neither a constant nor a fmt.Sprintf call"
	}
	format, ok := stringConst(info, call.Args[0])
	if !ok {
		return false, "has a non-constant format"
	}
	verbs := formatVerbs(format)
	if len(verbs) != len(call.Args)-1 {
		return false, "has a format whose verbs do not match its arguments"
	}
	for i, v := range verbs {
		arg := call.Args[i+1]
		if _, isConst := stringConst(info, arg); isConst {
			continue
		}
		switch v {
		case 'q', 'd', 'T':
			continue
		case 's', 'v':
			// accepted: a call of a function literal whose every return is a constant
			if ac, ok := arg.(*ast.CallExpr); ok {
				if fl, ok := ac.Fun.(*ast.FuncLit); ok {
					allConst := true
					ast.Inspect(fl.Body, func(k ast.Node) bool {
						if r, ok := k.(*ast.ReturnStmt); ok {
							for _, res := range r.Results {
								if _, ok := stringConst(info, res); !ok {
									allConst = false
								}
							}
						}
						return true
					})
					if allConst {
						continue
					}
				}
			}
			// accepted: a call of a module function whose every return is a constant (the closure, given a name)
			if ac, ok := arg.(*ast.CallExpr); ok && safeCommentCtx != nil {
				if cf := calleeOf(info, ac); cf != nil {
					if cfi := safeCommentCtx.FuncInfoOf(cf); cfi != nil && cfi.Decl.Body != nil {
						allConst, nret := true, 0
						ast.Inspect(cfi.Decl.Body, func(k ast.Node) bool {
							if _, isLit := k.(*ast.FuncLit); isLit {
								allConst = false
							}
							if r, ok := k.(*ast.ReturnStmt); ok {
								nret++
								for _, res := range r.Results {
									if _, ok := stringConst(cfi.Info(), res); !ok {
										allConst = false
									}
								}
							}
							return true
						})
						if allConst && nret > 0 {
							continue
						}
					}
				}
			}
			// accepted: a local variable that only ever holds constants
			if id, ok := ast.Unparen(arg).(*ast.Ident); ok && body != nil {
				obj := info.ObjectOf(id)
				defs, consts := 0, 0
				ast.Inspect(body, func(k ast.Node) bool {
					switch x := k.(type) {
					case *ast.AssignStmt:
						for j, l := range x.Lhs {
							if lid, isID := l.(*ast.Ident); isID && info.ObjectOf(lid) == obj {
								defs++
								if len(x.Rhs) == len(x.Lhs) {
									if _, isConst := stringConst(info, x.Rhs[j]); isConst {
										consts++
									}
								}
							}
						}
					case *ast.ValueSpec:
						for j, nm := range x.Names {
							if info.ObjectOf(nm) == obj {
								defs++
								if j < len(x.Values) {
									if _, isConst := stringConst(info, x.Values[j]); isConst {
										consts++
									}
								}
							}
						}
					case *ast.UnaryExpr:
						if x.Op == token.AND {
							if xid, isID := ast.Unparen(x.X).(*ast.Ident); isID && info.ObjectOf(xid) == obj {
								defs += 100 // address taken: give up
							}
						}
					}
					return true
				})
				if _, isVar := obj.(*types.Var); isVar && defs > 0 && defs == consts && obj.Pos() >= body.Pos() && obj.Pos() <= body.End() {
					continue
				}
			}
			// non-string operands cannot carry a newline
			if t := info.TypeOf(arg); t != nil {
				if b, ok := t.Underlying().(*types.Basic); ok && b.Info()&types.IsNumeric != 0 {
					continue
				}
			}
			return false, "formats a dynamic argument with %" + string(v)
		default:
			return false, "uses verb %" + string(v)
		}
	}
	return true, ""
}

func formatVerbs(f string) []byte {
	var out []byte
	for i := 0; i < len(f); i++ {
		if f[i] != '%' {
			continue
		}
		i++
		for i < len(f) && strings.IndexByte("+-# 0123456789.[]*", f[i]) >= 0 {
			i++
		}
		if i < len(f) && f[i] != '%' {
			out = append(out, f[i])
		}
	}
	return out
}

// ---- R07c

// evalString folds a string expression built from constants, + and regexp.QuoteMeta.
func evalString(info *types.Info, e ast.Expr) (string, bool) {
	if s, ok := stringConst(info, e); ok {
		return s, true
	}
	switch x := e.(type) {
	case *ast.ParenExpr:
		return evalString(info, x.X)
	case *ast.BinaryExpr:
		if x.Op == token.ADD {
			a, ok1 := evalString(info, x.X)
			b, ok2 := evalString(info, x.Y)
			return a + b, ok1 && ok2
		}
	case *ast.CallExpr:
		if fn := calleeOf(info, x); fn != nil && fn.Pkg() != nil && fn.Pkg().Path() == "regexp" && fn.Name() == "QuoteMeta" && len(x.Args) == 1 {
			if a, ok := evalString(info, x.Args[0]); ok {
				return regexp.QuoteMeta(a), true
			}
		}
	}
	return "", false
}

var pragmaFilters = map[string]string{"reGoosePragma": "goosePragma", "reDBMatePragma": "dbmatePragma"}

func checkPragmaRegexps(c *Ctx) {
	p := c.Pkg(pSqltool)
	info := p.TypesInfo
	for reName, pragmaName := range pragmaFilters {
		pc, _ := p.Types.Scope().Lookup(pragmaName).(*types.Const)
		if pc == nil {
			c.Unresolved("R07c", "constant sqltool."+pragmaName)
			continue
		}
		pragma := constant.StringVal(pc.Val())
		var src ast.Expr
		for _, file := range p.Syntax {
			ast.Inspect(file, func(m ast.Node) bool {
				vs, ok := m.(*ast.ValueSpec)
				if !ok {
					return true
				}
				for i, nm := range vs.Names {
					if nm.Name == reName && i < len(vs.Values) {
						if call, ok := vs.Values[i].(*ast.CallExpr); ok && len(call.Args) == 1 {
							src = call.Args[0]
						}
					}
				}
				return true
			})
		}
		if src == nil {
			c.Unresolved("R07c", "variable sqltool."+reName+" = regexp.MustCompile(…)")
			continue
		}
		pattern, ok := evalString(info, src)
		if !ok {
			c.Unresolved("R07c", "sqltool."+reName+": pattern is not a foldable constant expression")
			continue
		}
		re, err := syntax.Parse(pattern, syntax.Perl)
		if err != nil {
			c.Check("R07c", "sqltool."+reName, src.Pos(), false, "pattern %q does not parse: %v", pattern, err)
			continue
		}
		re = re.Simplify()
		alts := []*syntax.Regexp{re}
		if re.Op == syntax.OpAlternate {
			alts = re.Sub
		}
		bad := ""
		for _, a := range alts {
			if !startsWithAnchoredLiteral(a, pragma) {
				bad = a.String()
			}
		}
		c.Check("R07c", "sqltool."+reName+"|anchored on "+pragmaName, src.Pos(), bad == "", "the line filter %q has a top-level alternative %q that is not anchored at the beginning of the line with the pragma literal %q: ordinary SQL lines matching it are dropped from the imported statements", pattern, bad, pragma)
	}
}

func startsWithAnchoredLiteral(re *syntax.Regexp, lit string) bool {
	subs := []*syntax.Regexp{re}
	if re.Op == syntax.OpConcat {
		subs = re.Sub
	}
	if len(subs) < 2 || (subs[0].Op != syntax.OpBeginText && subs[0].Op != syntax.OpBeginLine) {
		return false
	}
	var got strings.Builder
	for _, s := range subs[1:] {
		if s.Op != syntax.OpLiteral {
			break
		}
		got.WriteString(string(s.Rune))
	}
	return strings.HasPrefix(got.String(), lit)
}

// ---- R07d

func checkEscapeScan(c *Ctx) {
	for _, pp := range []string{pMysql, pPostgres, pSqlite} {
		// does any quoting helper of the dialect call strconv.Quote ?
		usesBackslash := false
		c.AllFuncs(false, func(fi *FuncInfo) {
			if fi.Pkg.PkgPath != pp || fi.Decl.Name.Name != "quote" {
				return
			}
			for _, call := range callsIn(fi.Decl.Body, true) {
				if fn := calleeOf(fi.Info(), call); fn != nil && fn.Pkg() != nil && fn.Pkg().Path() == "strconv" && fn.Name() == "Quote" {
					usesBackslash = true
				}
			}
		})
		if !usesBackslash {
			continue
		}
		fi := c.Func("R07d", pp, "Driver", "ScanStmts")
		if fi == nil {
			continue
		}
		set := false
		ast.Inspect(fi.Decl.Body, func(m ast.Node) bool {
			if kv, ok := m.(*ast.KeyValueExpr); ok {
				if id, ok := kv.Key.(*ast.Ident); ok && id.Name == "BackslashEscapes" {
					if tv := fi.Info().Types[kv.Value]; tv.Value != nil && tv.Value.String() == "true" {
						set = true
					}
				}
			}
			return true
		})
		c.Check("R07d", shortPkg(pp)+"|strconv.Quote ⇒ BackslashEscapes", fi.Decl.Pos(), set, "%s quotes literals with strconv.Quote (backslash escapes) but its statement scanner does not enable BackslashEscapes: a planned literal containing \\\" or \\' would end the quoted string early when the file is scanned back", shortPkg(pp))
	}
}

// ---- R07e

func checkQuoteHelpers(c *Ctx) {
	type helper struct{ pkg, recv, name string }
	for _, h := range []helper{{pSqlx, "Builder", "Ident"}, {pSqlx, "", "SingleQuote"}, {pPostgres, "", "quote"}, {pMysql, "", "quote"}} {
		fi := c.Func("R07e", h.pkg, h.recv, h.name)
		if fi == nil {
			continue
		}
		escapes := false
		for _, call := range callsIn(fi.Decl.Body, true) {
			fn := calleeOf(fi.Info(), call)
			if fn == nil || fn.Pkg() == nil {
				continue
			}
			switch fn.Pkg().Path() + "." + fn.Name() {
			case "strings.ReplaceAll", "strings.Replace", "strconv.Quote", "strings.NewReplacer":
				escapes = true
			}
		}
		c.Check("R07e", fi.Name+"|escapes its closing quote", fi.Decl.Pos(), escapes, "%s writes its argument between quote characters without escaping the quote character itself: a name containing it breaks out of the quoting and the statement no longer scans back as planned", fi.Name)
		// an escaping call that is conditional must be conditional on "the value contains the quote", nothing narrower
		{
			hinfo := fi.Info()
			pm := parentMap(fi.Decl.Body)
			for _, call := range callsIn(fi.Decl.Body, true) {
				fn := calleeOf(hinfo, call)
				if fn == nil || fn.Pkg() == nil || fn.Pkg().Path() != "strings" || (fn.Name() != "ReplaceAll" && fn.Name() != "Replace") {
					continue
				}
				var child ast.Node = call
				for p := pm[call]; p != nil; child, p = p, pm[p] {
					ifs, ok := p.(*ast.IfStmt)
					if !ok || !(ifs.Body.Pos() <= child.Pos() && child.End() <= ifs.Body.End()) {
						continue
					}
					for _, f := range impliedFacts(ifs.Cond, true) {
						be, isBin := ast.Unparen(f.expr).(*ast.BinaryExpr)
						if !isBin || !f.val {
							continue
						}
						ic, isCall := ast.Unparen(be.X).(*ast.CallExpr)
						if !isCall {
							continue
						}
						g := calleeOf(hinfo, ic)
						if g == nil || g.Pkg() == nil || g.Pkg().Path() != "strings" || !strings.HasPrefix(g.Name(), "Index") {
							continue
						}
						tv := hinfo.Types[be.Y]
						if tv.Value == nil {
							continue
						}
						k := tv.Value.String()
						contains := be.Op == token.GEQ && k == "0" || be.Op == token.GTR && k == "-1" || be.Op == token.NEQ && k == "-1"
						c.Check("R07e", fi.Name+"|conditional escaping covers every position", be.Pos(), contains, "%s escapes the quote character only when %s: a quote at position 0 (or wherever the test does not look) is written unescaped and terminates the quoting early", fi.Name, types.ExprString(be))
					}
				}
			}
		}
		// every return that wraps a value in quote literals wraps the result of an escaping call
		info := fi.Info()
		ast.Inspect(fi.Decl.Body, func(m ast.Node) bool {
			r, ok := m.(*ast.ReturnStmt)
			if !ok || len(r.Results) == 0 {
				return true
			}
			var parts []ast.Expr
			var flat func(e ast.Expr)
			flat = func(e ast.Expr) {
				if be, ok := e.(*ast.BinaryExpr); ok && be.Op == token.ADD {
					flat(be.X)
					flat(be.Y)
					return
				}
				parts = append(parts, e)
			}
			flat(r.Results[0])
			if len(parts) != 3 {
				return true
			}
			q1, ok1 := stringConst(info, parts[0])
			q2, ok2 := stringConst(info, parts[2])
			if !ok1 || !ok2 || len(q1) != 1 || len(q2) != 1 {
				return true
			}
			escaped := false
			if call, ok := parts[1].(*ast.CallExpr); ok {
				if fn := calleeOf(info, call); fn != nil && fn.Pkg() != nil {
					switch fn.Pkg().Path() + "." + fn.Name() {
					case "strings.ReplaceAll", "strings.Replace":
						escaped = true
					}
				}
			}
			c.Check("R07e", fi.Name+"|quoted return escapes", r.Pos(), escaped, "%s returns %s: the value placed between the quote literals is not the result of an escaping call on this path", fi.Name, types.ExprString(r.Results[0]))
			return true
		})
	}
}

// ---- R07f

func checkImportSequence(c *Ctx) {
	fi := c.Func("R07f", pCmdapi, "", "migrateImportRun")
	if fi == nil {
		return
	}
	info := fi.Info()
	// the statement loop: `for i, s := range stmts` where stmts comes from StmtDecls
	var loop *ast.RangeStmt
	var stmtsObj types.Object
	ast.Inspect(fi.Decl.Body, func(m ast.Node) bool {
		as, ok := m.(*ast.AssignStmt)
		if ok && len(as.Rhs) == 1 {
			if call, ok := as.Rhs[0].(*ast.CallExpr); ok {
				if fn := calleeOf(info, call); fn != nil && fn.Name() == "StmtDecls" {
					if id, ok := as.Lhs[0].(*ast.Ident); ok {
						stmtsObj = info.ObjectOf(id)
					}
				}
			}
		}
		if rs, ok := m.(*ast.RangeStmt); ok && stmtsObj != nil {
			if x, ok := rs.X.(*ast.Ident); ok && info.ObjectOf(x) == stmtsObj {
				loop = rs
			}
		}
		return true
	})
	if loop == nil {
		c.Unresolved("R07f", "migrateImportRun: loop over the statements returned by StmtDecls")
		return
	}
	// allocation: make([]*migrate.Change, len(stmts))
	alloc := false
	ast.Inspect(fi.Decl.Body, func(m ast.Node) bool {
		if call, ok := m.(*ast.CallExpr); ok && builtinName(info, call) == "make" && len(call.Args) == 2 {
			if a := lenArg(info, call.Args[1]); a != nil {
				if id, ok := a.(*ast.Ident); ok && info.ObjectOf(id) == stmtsObj {
					alloc = true
				}
			}
		}
		return true
	})
	c.Check("R07f", "migrateImportRun|one change per statement", loop.Pos(), alloc, "plan.Changes must be allocated with len(stmts) entries")
	key, _ := loop.Key.(*ast.Ident)
	val, _ := loop.Value.(*ast.Ident)
	sameIdx := false
	var storePos token.Pos
	ast.Inspect(loop.Body, func(m ast.Node) bool {
		as, ok := m.(*ast.AssignStmt)
		if !ok {
			return true
		}
		if ix, ok := as.Lhs[0].(*ast.IndexExpr); ok && isField(info, ix.X, pMigrate, "Plan", "Changes") {
			if i, ok := ix.Index.(*ast.Ident); ok && key != nil && info.ObjectOf(i) == info.ObjectOf(key) {
				sameIdx = true
				storePos = as.Pos()
			}
		}
		return true
	})
	c.Check("R07f", "migrateImportRun|statement i stored at index i", loop.Pos(), sameIdx, "the change built from statement i must be stored at plan.Changes[i]")
	// comments before text: position of the comments loop < position of the write of s.Text
	var commentsPos, textPos, resetPos token.Pos
	ast.Inspect(loop.Body, func(m ast.Node) bool {
		switch x := m.(type) {
		case *ast.RangeStmt:
			if se, ok := x.X.(*ast.SelectorExpr); ok && se.Sel.Name == "Comments" {
				commentsPos = x.Pos()
			}
		case *ast.CallExpr:
			if se, ok := x.Fun.(*ast.SelectorExpr); ok {
				switch se.Sel.Name {
				case "WriteString":
					if strings.Contains(types.ExprString(x.Args[0]), ".Text") && val != nil {
						textPos = x.Pos()
					}
				case "Reset":
					resetPos = x.Pos()
				}
			}
		}
		return true
	})
	c.Check("R07f", "migrateImportRun|comments before text", loop.Pos(), commentsPos.IsValid() && textPos.IsValid() && commentsPos < textPos && textPos < storePos, "each imported statement must be written as its comments followed by its text before it is stored")
	c.Check("R07f", "migrateImportRun|buffer reset per statement", loop.Pos(), resetPos.IsValid() && resetPos > storePos, "the buffer must be reset after each statement is stored (otherwise statement i+1 repeats statement i)")
}

// ---- R07g

func checkGooseCommentGuard(c *Ctx) {
	// scanner line-comment openers
	openers := map[string]bool{}
	c.AllFuncs(false, func(fi *FuncInfo) {
		if fi.Pkg.PkgPath != pMigrate {
			return
		}
		for _, call := range callsIn(fi.Decl.Body, true) {
			if funcIs(calleeOf(fi.Info(), call), pMigrate, "Scanner", "comment") && len(call.Args) == 2 {
				l, ok1 := stringConst(fi.Info(), call.Args[0])
				r, ok2 := stringConst(fi.Info(), call.Args[1])
				if ok1 && ok2 && r == "\n" {
					openers[l] = true
				}
			}
		}
	})
	fi := c.Func("R07g", pSqltool, "GooseFile", "StmtDecls")
	if fi == nil {
		return
	}
	info := fi.Info()
	found, ok := false, false
	lit := ""
	ast.Inspect(fi.Decl.Body, func(m ast.Node) bool {
		ifs, isIf := m.(*ast.IfStmt)
		if !isIf {
			return true
		}
		// body appends the delimiter constant
		appendsDelim := false
		for _, st := range ifs.Body.List {
			if as, isAs := st.(*ast.AssignStmt); isAs && len(as.Rhs) == 1 {
				if call, isCall := as.Rhs[0].(*ast.CallExpr); isCall && builtinName(info, call) == "append" && len(call.Args) == 2 {
					if id, isID := call.Args[1].(*ast.Ident); isID && id.Name == "delim" {
						appendsDelim = true
					}
				}
			}
		}
		if !appendsDelim {
			return true
		}
		for _, fct := range impliedFacts(ifs.Cond, true) {
			call, isCall := fct.expr.(*ast.CallExpr)
			if !isCall || fct.val {
				continue
			}
			if fn := calleeOf(info, call); fn != nil && fn.Pkg() != nil && fn.Pkg().Path() == "strings" && fn.Name() == "HasPrefix" && len(call.Args) == 2 {
				if s, isStr := stringConst(info, call.Args[1]); isStr {
					found = true
					lit = s
					if openers[s] {
						ok = true
					}
				}
			}
		}
		return true
	})
	c.Check("R07g", "GooseFile.StmtDecls|delimiter not inserted after comment lines", fi.Decl.Pos(), found && ok && openers["--"], "the goose reader guards the delimiter insertion with HasPrefix(line, %q), which is not the scanner's line-comment opener: a comment line ending in ';' gets a delimiter and becomes an (empty) statement", lit)
}

// ---- R07h

// checkLineReaders: see R07h.
func checkLineReaders(c *Ctx) {
	nReaders := 0
	lineSplit := map[string]bool{} // reader type -> ends statements at a line suffix
	// the StmtDecls methods and the package-local functions they call (the line loop may live in a helper)
	type unit struct {
		fi     *FuncInfo
		reader string
	}
	var units []unit
	c.AllFuncs(false, func(fi *FuncInfo) {
		if fi.Pkg.PkgPath != pSqltool || fi.Decl.Name.Name != "StmtDecls" || fi.Decl.Body == nil {
			return
		}
		units = append(units, unit{fi, recvName(fi.Decl)})
		for _, call := range callsIn(fi.Decl.Body, true) {
			if fn := calleeOf(fi.Info(), call); fn != nil && fn.Pkg() != nil && fn.Pkg().Path() == pSqltool {
				if hf := c.FuncInfoOf(fn); hf != nil && hf.Decl.Body != nil && hf.Decl != fi.Decl && hf.Decl.Name.Name != "StmtDecls" {
					units = append(units, unit{hf, recvName(fi.Decl)})
				}
			}
		}
	})
	for _, u := range units {
		fi, readerType := u.fi, u.reader
		info := fi.Info()
		// variables defined from (*bufio.Scanner).Text()
		lineDefs := map[types.Object]ast.Node{}
		ast.Inspect(fi.Decl.Body, func(m ast.Node) bool {
			as, ok := m.(*ast.AssignStmt)
			if !ok || len(as.Lhs) != 1 || len(as.Rhs) != 1 {
				return true
			}
			call, ok := as.Rhs[0].(*ast.CallExpr)
			if !ok || !funcIs(calleeOf(info, call), "bufio", "Scanner", "Text") {
				return true
			}
			if id, ok := as.Lhs[0].(*ast.Ident); ok {
				lineDefs[info.ObjectOf(id)] = as
			}
			return true
		})
		if len(lineDefs) == 0 {
			continue
		}
		nReaders++
		c.funcs[fi.Name] = true
		f := newFlow(info, fi.Decl.Body)
		isScanDef := func(n ast.Node) bool {
			for _, d := range lineDefs {
				if n == d {
					return true
				}
			}
			return false
		}
		// (1) appends of a scanned line: the argument is the variable itself and no other definition of it reaches the append
		nApp := 0
		for _, call := range callsIn(fi.Decl.Body, true) {
			if builtinName(info, call) != "append" || len(call.Args) != 2 {
				continue
			}
			if _, isConst := stringConst(info, call.Args[1]); isConst {
				continue
			}
			arg := ast.Unparen(call.Args[1])
			mentionsLine := false
			ast.Inspect(arg, func(k ast.Node) bool {
				if id, ok := k.(*ast.Ident); ok && lineDefs[info.ObjectOf(id)] != nil {
					mentionsLine = true
				}
				return true
			})
			if !mentionsLine {
				continue
			}
			nApp++
			id, isIdent := arg.(*ast.Ident)
			ok := isIdent
			why := "the appended value " + types.ExprString(arg) + " is a transformed copy of the scanned line"
			if isIdent {
				obj := info.ObjectOf(id)
				// other stores to the variable from which the append is reachable without a fresh scan
				ast.Inspect(fi.Decl.Body, func(k ast.Node) bool {
					as, isAs := k.(*ast.AssignStmt)
					if !isAs || isScanDef(as) {
						return true
					}
					for _, l := range as.Lhs {
						if lid, isID := l.(*ast.Ident); isID && info.ObjectOf(lid) == obj {
							starts := f.find(func(n ast.Node) bool { return n == as })
							for i := range starts {
								starts[i] = after(starts[i])
							}
							target := func(n ast.Node) bool {
								hit := false
								ast.Inspect(n, func(x ast.Node) bool {
									if x == call {
										hit = true
									}
									return !hit
								})
								return hit
							}
							if _, reached := f.reachEx(starts, isScanDef, target, nil); reached {
								ok = false
								why = "the line is overwritten at " + c.pos(as.Pos()) + " before it is appended"
							}
						}
					}
					return true
				})
			}
			c.Check("R07h", fi.Name+"|scanned line appended unchanged", call.Pos(), ok, "%s: %s: the statement text read back differs from the text written (trailing blanks inside a multi-line literal are lost)", fi.Name, why)
		}
		if nApp == 0 {
			c.Unresolved("R07h", fi.Name+": the append of the scanned line")
		}
		// premise of (2): an `if` that appends the delimiter under HasSuffix(line, …)
		ast.Inspect(fi.Decl.Body, func(m ast.Node) bool {
			ifs, isIf := m.(*ast.IfStmt)
			if !isIf {
				return true
			}
			for _, fct := range impliedFacts(ifs.Cond, true) {
				if call, isCall := fct.expr.(*ast.CallExpr); isCall && fct.val {
					if fn := calleeOf(info, call); fn != nil && fn.Pkg() != nil && fn.Pkg().Path() == "strings" && fn.Name() == "HasSuffix" {
						lineSplit[readerType] = true
					}
				}
			}
			return true
		})
	}
	if nReaders < 2 {
		c.Unresolved("R07h", "line-rebuilding readers in sql/sqltool (expected GooseFile and DBMateFile)")
	}
	// (2) pairing: reader type XFile <-> formatter XFormatter
	sp := c.Pkg(pSqltool)
	for rt := range lineSplit {
		fname := strings.TrimSuffix(rt, "File") + "Formatter"
		obj := sp.Types.Scope().Lookup(fname)
		if obj == nil {
			c.Unresolved("R07h", "formatter "+fname+" paired with reader "+rt)
			continue
		}
		var texts []string
		var tpos token.Pos
		for _, file := range sp.Syntax {
			ast.Inspect(file, func(m ast.Node) bool {
				vs, ok := m.(*ast.ValueSpec)
				if !ok || len(vs.Names) != 1 || sp.TypesInfo.ObjectOf(vs.Names[0]) != obj || len(vs.Values) != 1 {
					return true
				}
				if call, ok := vs.Values[0].(*ast.CallExpr); ok {
					for _, a := range call.Args {
						if t, ok := stringConst(sp.TypesInfo, a); ok && strings.Contains(t, ".Cmd") {
							texts = append(texts, t)
							tpos = a.Pos()
						}
					}
				}
				return false
			})
		}
		if len(texts) == 0 {
			c.Unresolved("R07h", "template of "+fname)
			continue
		}
		for _, text := range texts {
			trees, err := parse.Parse("t", text, "{{", "}}", templateFuncsMap(c))
			if err != nil {
				c.Check("R07h", fname+"|parses", tpos, false, "template does not parse: %v", err)
				continue
			}
			bad := ""
			n := 0
			// guarded: some enclosing if/else tests the statement value; bracketed: text before ends with a Begin pragma line
			var walk func(nd parse.Node, prev parse.Node, guarded bool, dotIsCmd bool)
			mentionsCmd := func(s string, nd parse.Node, dotIsCmd bool) bool {
				if strings.Contains(s, ".Cmd") {
					return true
				}
				if !dotIsCmd {
					return false
				}
				hit := false
				var visit func(n parse.Node)
				visit = func(n parse.Node) {
					switch x := n.(type) {
					case *parse.PipeNode:
						for _, cm := range x.Cmds {
							visit(cm)
						}
					case *parse.CommandNode:
						for _, a := range x.Args {
							visit(a)
						}
					case *parse.DotNode:
						hit = true
					}
				}
				visit(nd)
				return hit
			}
			walk = func(nd parse.Node, prev parse.Node, guarded, dotIsCmd bool) {
				switch x := nd.(type) {
				case *parse.ListNode:
					if x == nil {
						return
					}
					for i, k := range x.Nodes {
						var pv parse.Node
						if i > 0 {
							pv = x.Nodes[i-1]
						}
						walk(k, pv, guarded, dotIsCmd)
					}
				case *parse.ActionNode:
					if !mentionsCmd(x.String(), x.Pipe, dotIsCmd) {
						return
					}
					n++
					bracketed := false
					if tx, ok := prev.(*parse.TextNode); ok {
						lines := strings.Split(strings.TrimRight(string(tx.Text), "\n"), "\n")
						last := lines[len(lines)-1]
						bracketed = strings.HasPrefix(last, "-- +") && strings.HasSuffix(last, "Begin")
					}
					if !guarded && !bracketed {
						bad = x.String()
					}
				case *parse.RangeNode:
					walk(x.List, nil, guarded, dotIsCmd)
					walk(x.ElseList, nil, guarded, dotIsCmd)
				case *parse.WithNode:
					walk(x.List, nil, guarded, dotIsCmd)
					walk(x.ElseList, nil, guarded, dotIsCmd)
				case *parse.IfNode:
					g := guarded || mentionsCmd(x.Pipe.String(), x.Pipe, dotIsCmd)
					walk(x.List, nil, g, dotIsCmd)
					walk(x.ElseList, nil, g, dotIsCmd)
				case *parse.TemplateNode:
					if x.Pipe != nil && mentionsCmd(x.Pipe.String(), x.Pipe, dotIsCmd) {
						if sub := trees[x.Name]; sub != nil && !dotIsCmd {
							walk(sub.Root, nil, guarded, true)
						} else {
							bad = x.String()
						}
					}
				}
			}
			walk(trees["t"].Root, nil, false, false)
			c.Check("R07h", fname+" ⇄ "+rt+".StmtDecls|multi-line statements are delimited explicitly", tpos, bad == "" && n > 0, "%s ends a statement at every line that ends with the delimiter, but %s prints %s neither between begin/end pragmas nor under a condition on the statement: a statement with a line break after ';' inside a literal is cut in two when read back", rt, fname, bad)
		}
	}
}
