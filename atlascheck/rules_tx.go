package main

import (
	"fmt"
	"go/ast"
	"go/constant"
	"go/token"
	"go/types"
	"sort"
	"strings"

	"golang.org/x/tools/go/cfg"
)

func init() {
	register("C13", &propCheck{
		explanation: "(a) E-tstate: the source of migrateApplyRun and of the transaction multiplexer (tx.driverFor, modeFor, txmodeFor, mayRollback, mayCommit, commit) is interpreted over a finite abstract domain for every global tx mode × every sequence of per-file txmode directives (length ≤ 2 quick, ≤ 3 thorough) × dry-run, with every outcome of the external calls (open tx, create revision writer, execute file, commit, rollback) enumerated; on every path the observed open/exec/commit/rollback trace must match the documented semantics of the file's effective mode (file: opened before and committed right after each file, rolled back on error; all: one transaction committed once after the last file and never after an error; none: executed outside any transaction; dry-run: no transaction at all; nothing left open at exit) and the driver/revision-writer pair handed to the executor must belong to the same transaction. (b) Dry-run dominance: every database-writing call of migrateApplyRun goes through the pair returned by driverFor or is guarded by !dryRun; the dry-run wrappers override every mutating method the executor calls. (c) schema apply: applyChanges runs outside a transaction only when txMode is none, rolls back on error and commits otherwise; every call of applyChanges is guarded by !dryRun or autoApprove, which are registered as mutually exclusive.",
		undecided:   []string{"equality of whole database states after a failure (engine semantics of ROLLBACK)", "what the statements themselves do"},
		run:         runC13,
	})
}

func init() {
	register("C10", &propCheck{
		explanation: "Crash consistency needs, at every point, (1) that a statement's effect and its revision row are written through the same transaction in file/all modes, (2) that in every mode a statement is executed before its revision row is updated and the row is persisted before the next statement, and (3) that the commit happens only after Execute returned nil. (1) and (3) are decided by E-tstate (abstract interpretation of migrateApplyRun and the tx multiplexer over every tx-mode × directive sequence × outcome of the external calls: the driver and the revision writer handed to the executor must both belong to the currently open transaction; commits only at the documented points), plus shape rules that the revision writer and the transaction client are bound to the connection they were created from; (2) by the go/cfg ordering rules on Executor.Execute. A crash skips all deferred code, so only this order of effects matters.",
		undecided:   []string{"durability / atomicity of the engine itself at a crash point (COMMIT is atomic, uncommitted work is rolled back on reopen)", "behaviour of SQLite when the process dies inside a statement"},
		run:         runC10,
	})
}

func runC10(c *Ctx) {
	c.Rule("R10a", "same-transaction pairing and commit points (E-tstate): on every path, for every tx-mode × directive sequence × dry-run, the executor's driver and revision writer belong to the open transaction (file/all) or to the plain client (none), and commits happen only after a successful Execute at the documented points", 7)
	c.Rule("R10d", "binding: NewEntRevisions builds its ent connection from the Driver of the client it is given (so revision rows go through the transaction of a TxClient); Client.Tx opens the TxClient's driver on the begun transaction; RevisionsForClient/entRevisions pass their client through", 4)
	runTxTypestate(c, "R10a")
	execRules(c, false)
	// the resume decision after a crash is Executor.Pending's: same rules as C09/C11
	c.Rule("R10e", "Executor.Pending decides whether the last revision is complete from Applied and Total alone (a crash leaves Applied<Total with an empty Error): its conditions read no other Revision field than Applied, Total and Version", 4)
	checkPendingReads(c, "R10e")
	c.Rule("R10f", ruleTextPartialAnywhere, 1)
	checkPartialAnywhere(c, "R10f")
	c.Rule("R10i", ruleTextNotFoundOnly, 1)
	checkNotFoundOnly(c, "R10i")
	c.Rule("R10g", ruleTextPendingLowerBound, 3)
	checkPendingLowerBound(c, "R10g")
	c.Rule("R10h", "index provenance in the migrate package (same rule as C11/R11f): an index obtained by searching slice B is used to index or slice B only, never a different slice", 6)
	checkIndexProvenance(c, "R10h")

	// R10d
	if fi := c.Func("R10d", pCmdmig, "", "NewEntRevisions"); fi != nil {
		info := fi.Info()
		ps := fi.Decl.Type.Params.List
		var acObj types.Object
		for _, p := range ps {
			for _, nm := range p.Names {
				if typeIs(info.TypeOf(p.Type), modRoot+"/sql/sqlclient", "Client") {
					acObj = info.ObjectOf(nm)
				}
			}
		}
		// r := &EntRevisions{ac: ac}
		bound := false
		ast.Inspect(fi.Decl.Body, func(m ast.Node) bool {
			if kv, ok := m.(*ast.KeyValueExpr); ok {
				if k, ok := kv.Key.(*ast.Ident); ok && k.Name == "ac" {
					if v, ok := kv.Value.(*ast.Ident); ok && info.ObjectOf(v) == acObj {
						bound = true
					}
				}
			}
			return true
		})
		viaDriver := false
		ast.Inspect(fi.Decl.Body, func(m ast.Node) bool {
			if kv, ok := m.(*ast.KeyValueExpr); ok {
				if k, ok := kv.Key.(*ast.Ident); ok && k.Name == "ExecQuerier" {
					if se, ok := kv.Value.(*ast.SelectorExpr); ok && se.Sel.Name == "Driver" {
						if in, ok := se.X.(*ast.SelectorExpr); ok && in.Sel.Name == "ac" {
							viaDriver = true
						}
					}
				}
			}
			return true
		})
		c.Check("R10d", "NewEntRevisions|ent connection uses the given client's Driver", fi.Decl.Pos(), bound && viaDriver && acObj != nil, "the revision writer must execute through r.ac.Driver of the client it was created for (a TxClient's driver is bound to the transaction); bound=%v viaDriver=%v", bound, viaDriver)
	}
	for _, fn := range []struct{ pkg, name, callee string }{{pCmdmig, "RevisionsForClient", "NewEntRevisions"}, {pCmdapi, "entRevisions", "RevisionsForClient"}} {
		fi := c.Func("R10d", fn.pkg, "", fn.name)
		if fi == nil {
			continue
		}
		info := fi.Info()
		var clientParam types.Object
		for _, p := range fi.Decl.Type.Params.List {
			for _, nm := range p.Names {
				if typeIs(info.TypeOf(p.Type), modRoot+"/sql/sqlclient", "Client") {
					clientParam = info.ObjectOf(nm)
				}
			}
		}
		ok := false
		for _, call := range callsIn(fi.Decl.Body, false) {
			if cf := calleeOf(info, call); cf != nil && cf.Name() == fn.callee && len(call.Args) >= 2 {
				if a, isID := call.Args[1].(*ast.Ident); isID && info.ObjectOf(a) == clientParam {
					ok = true
				}
			}
		}
		c.Check("R10d", fn.name+"|passes its client to "+fn.callee, fi.Decl.Pos(), ok, "%s must create the revision writer for the client it was given", fn.name)
	}
	if fi := c.Func("R10d", modRoot+"/sql/sqlclient", "Client", "Tx"); fi != nil {
		info := fi.Info()
		// drv, err := c.openDriver(tx) ; ic.Driver = drv ; &TxClient{Client: &ic, Tx: tx}
		var txObj, drvObj types.Object
		ast.Inspect(fi.Decl.Body, func(m ast.Node) bool {
			as, ok := m.(*ast.AssignStmt)
			if !ok || len(as.Rhs) != 1 {
				return true
			}
			call, ok := as.Rhs[0].(*ast.CallExpr)
			if !ok {
				return true
			}
			if se, ok := call.Fun.(*ast.SelectorExpr); ok && se.Sel.Name == "openDriver" && len(call.Args) == 1 {
				if a, ok := call.Args[0].(*ast.Ident); ok {
					txObj = info.ObjectOf(a)
				}
				if l, ok := as.Lhs[0].(*ast.Ident); ok {
					drvObj = info.ObjectOf(l)
				}
			}
			return true
		})
		txIsTx := txObj != nil && typeIs(txObj.Type(), modRoot+"/sql/sqlclient", "Tx")
		assigned, sameTx := false, false
		ast.Inspect(fi.Decl.Body, func(m ast.Node) bool {
			switch x := m.(type) {
			case *ast.AssignStmt:
				if len(x.Lhs) == 1 && len(x.Rhs) == 1 {
					if se, ok := x.Lhs[0].(*ast.SelectorExpr); ok && se.Sel.Name == "Driver" {
						if r, ok := x.Rhs[0].(*ast.Ident); ok && info.ObjectOf(r) == drvObj {
							assigned = true
						}
					}
				}
			case *ast.KeyValueExpr:
				if k, ok := x.Key.(*ast.Ident); ok && k.Name == "Tx" {
					if v, ok := x.Value.(*ast.Ident); ok && info.ObjectOf(v) == txObj {
						sameTx = true
					}
				}
			}
			return true
		})
		c.Check("R10d", "sqlclient.(Client).Tx|driver opened on the begun transaction", fi.Decl.Pos(), txIsTx && assigned && sameTx, "the TxClient must carry a driver opened on the same *Tx it commits (openDriver(tx), ic.Driver = drv, TxClient{Tx: tx}); txIsTx=%v assigned=%v sameTx=%v", txIsTx, assigned, sameTx)
	}
}

// ---------------------------------------------------------------- scenario

type txScenario struct {
	mode       string     // global --tx-mode
	directives [][]string // per file: values of the txmode directive
	dryRun     bool
}

func (s txScenario) String() string {
	var ds []string
	for _, d := range s.directives {
		ds = append(ds, "["+strings.Join(d, " ")+"]")
	}
	return fmt.Sprintf("tx-mode=%s dry-run=%v files=%s", s.mode, s.dryRun, strings.Join(ds, ""))
}

// effective returns the documented effective mode of a file, or "" if the
// combination is an error.
func effectiveMode(global string, d []string) string {
	switch {
	case len(d) == 0:
		return global
	case len(d) > 1:
		return ""
	case d[0] == "all":
		return ""
	case d[0] != "none" && d[0] != "file":
		return ""
	case d[0] == global:
		return global
	case global == "all":
		return ""
	}
	return d[0]
}

type txRunner struct {
	c       *Ctx
	inline  map[*types.Func]*FuncInfo
	apply   *FuncInfo
	fileTyp string
}

func newTxRunner(c *Ctx, rule string) *txRunner {
	r := &txRunner{c: c, inline: map[*types.Func]*FuncInfo{}}
	r.apply = c.Func(rule, pCmdapi, "", "migrateApplyRun")
	if r.apply == nil {
		return nil
	}
	for _, m := range []string{"driverFor", "modeFor", "mayRollback", "mayCommit", "commit"} {
		fi := c.LookupFunc(pCmdapi, "tx", m)
		if fi == nil && m == "modeFor" {
			fi = txModeDeriver(c) // the derivation point under another name / as a package function
		}
		if fi == nil {
			fi = c.Func(rule, pCmdapi, "tx", m) // records the unresolved anchor
		}
		if fi == nil {
			return nil
		}
		r.inline[fi.Obj] = fi
	}
	fi := c.Func(rule, pCmdapi, "", "txmodeFor")
	if fi == nil {
		return nil
	}
	r.inline[fi.Obj] = fi
	// any other method of tx that exists is inlined as well (e.g. helpers extracted later)
	c.AllFuncs(false, func(f *FuncInfo) {
		if f.Pkg.PkgPath == pCmdapi && recvName(f.Decl) == "tx" {
			r.inline[f.Obj] = f
		}
	})
	// pure package-local helpers called by migrateApplyRun (argument parsing and the like): every call they make
	// goes to the standard library or a builtin, so interpreting their body is exact
	ainfo := r.apply.Info()
	for _, call := range callsIn(r.apply.Decl.Body, true) {
		fn := calleeOf(ainfo, call)
		if fn == nil || fn.Pkg() == nil || fn.Pkg().Path() != pCmdapi || r.inline[fn] != nil {
			continue
		}
		if sig, ok := fn.Type().(*types.Signature); !ok || sig.Recv() != nil {
			continue
		}
		hf := c.FuncInfoOf(fn)
		if hf == nil || hf.Decl.Body == nil {
			continue
		}
		pure := true
		for _, hc := range callsIn(hf.Decl.Body, true) {
			g := calleeOf(hf.Info(), hc)
			switch {
			case g == nil:
				if builtinName(hf.Info(), hc) == "" {
					if tv, ok := hf.Info().Types[hc.Fun]; !ok || !tv.IsType() {
						pure = false
					}
				}
			case g.Pkg() == nil:
			case strings.Contains(strings.SplitN(g.Pkg().Path(), "/", 2)[0], "."):
				pure = false // a module path: not the standard library
			}
		}
		if pure {
			r.inline[fn] = hf
		}
	}
	lf := c.NamedType(pMigrate, "LocalFile")
	if lf == nil {
		c.Unresolved(rule, "type migrate.LocalFile")
		return nil
	}
	r.fileTyp = types.NewPointer(lf).String()
	return r
}

type txPathResult struct {
	events []Event
	ret    Val
}

// run interprets migrateApplyRun for one scenario, calling check on every path.
func (r *txRunner) run(sc txScenario, check func(events []Event, retErr Val), maxPaths int) (int, string) {
	c := r.c
	mk := func() *Interp {
		it := &Interp{c: c, inline: r.inline}
		txCount := 0
		it.ext = func(it *Interp, fn *types.Func, call *ast.CallExpr, recv Val, args []Val) (Val, bool) {
			name := fqn(fn)
			sig := fn.Type().(*types.Signature)
			switch {
			case fn.Name() == "Directive" && recvTypeName(fn) == "LocalFile":
				if o, ok := recv.(*vObj); ok {
					if d, ok := o.fields["$directive"].(vSlice); ok {
						return d, true
					}
				}
				return vSlice{}, true
			case fn.Name() == "Name" && recvTypeName(fn) == "LocalFile":
				return vConst{constant.MakeString("file")}, true
			case fn.Name() == "Tx" && recvTypeName(fn) == "Client":
				txCount++
				if it.choose(2) == 1 {
					it.emit("open-failed")
					return vTuple{vNil{}, vNonNil{"err:Tx"}}, true
				}
				tag := fmt.Sprintf("Tx#%d", txCount)
				it.emit("open", tag)
				return vTuple{vNonNil{tag}, vNil{}}, true
			case fn.Name() == "Commit" && recvTypeName(fn) == "TxClient":
				if it.choose(2) == 1 {
					it.emit("commit-failed", tagOf(recv))
					return vNonNil{"err:Commit"}, true
				}
				it.emit("commit", tagOf(recv))
				return vNil{}, true
			case fn.Name() == "Rollback" && recvTypeName(fn) == "TxClient":
				it.emit("rollback", tagOf(recv))
				if it.choose(2) == 1 {
					return vNonNil{"err:Rollback"}, true
				}
				return vNil{}, true
			case funcIs(fn, pCmdapi, "", "entRevisions"):
				if len(args) >= 2 {
					// the writer is bound to the client it was created from
					if it.cpos >= 0 && strings.HasPrefix(tagOf(args[1]), "Tx#") && it.choose(2) == 1 {
						it.emit("rrw-failed")
						return vTuple{vNil{}, vNonNil{"err:entRevisions"}}, true
					}
					return vTuple{vNonNil{"rrw(" + tagOf(args[1]) + ")"}, vNil{}}, true
				}
			case funcIs(fn, pMigrate, "", "NewExecutor"):
				if len(args) >= 3 {
					return vTuple{&vObj{typ: "executor", fields: map[string]Val{"drv": args[0], "rrw": args[2]}}, vNil{}}, true
				}
			case funcIs(fn, pMigrate, "Executor", "Execute"):
				drv, rrw := "?", "?"
				if o, ok := recv.(*vObj); ok {
					drv, rrw = tagOf(o.fields["drv"]), tagOf(o.fields["rrw"])
				}
				fileIx := "?"
				if len(args) >= 2 {
					if o, ok := args[1].(*vObj); ok {
						fileIx = tagOf(o.fields["$index"])
					}
				}
				if it.choose(2) == 1 {
					it.emit("exec-failed", fileIx, drv, rrw)
					return vNonNil{"err:Execute"}, true
				}
				it.emit("exec", fileIx, drv, rrw)
				return vNil{}, true
			case funcIs(fn, pMigrate, "Executor", "Pending"):
				var files []Val
				for i, d := range sc.directives {
					var ds []Val
					for _, x := range d {
						ds = append(ds, vConst{constant.MakeString(x)})
					}
					files = append(files, &vObj{typ: r.fileTyp, fields: map[string]Val{"$directive": vSlice{ds}, "$index": vConst{constant.MakeInt64(int64(i))}}})
				}
				return vTuple{vSlice{files}, vNil{}}, true
			case fn.Pkg() != nil && fn.Pkg().Path() == "errors" && (fn.Name() == "Is" || fn.Name() == "As"):
				if len(args) > 0 {
					if _, isNil := args[0].(vNil); isNil {
						return mkBool(false), true
					}
				}
				return vUnknown{}, true
			case fn.Pkg() != nil && fn.Pkg().Path() == "errors" && fn.Name() == "Join":
				nonNil := false
				for _, a := range args {
					if _, ok := a.(vNonNil); ok {
						nonNil = true
					}
				}
				if nonNil {
					return vNonNil{"err:joined"}, true
				}
				return vNil{}, true
			case fn.Pkg() != nil && fn.Pkg().Path() == "fmt" && fn.Name() == "Errorf", fn.Pkg() != nil && fn.Pkg().Path() == "errors" && fn.Name() == "New":
				return vNonNil{"err:new"}, true
			case name == "cmdapi.(MigrateReport).Done":
				return vNil{}, true
			}
			// everything else succeeds (errors of unrelated set-up calls end the command before any transaction exists)
			return it.defaultExt(fn, sig, false, name), true
		}
		return it
	}
	flags := &vObj{typ: "flags", fields: map[string]Val{
		"dryRun": mkBool(sc.dryRun),
		"txMode": vConst{constant.MakeString(sc.mode)},
		"url":    vConst{constant.MakeString("sqlite://x")},
	}, dflt: func(string) Val { return vUnknown{} }}
	runOne := func(it *Interp) {
		args := []Val{vNonNil{"cmd"}, vSlice{}, flags, vNonNil{"env"}, vNonNil{"mr"}}
		out := it.callFunc(r.apply, nil, args)
		var ret Val = vNil{}
		if len(out) > 0 {
			ret = out[len(out)-1]
		}
		it.events = append(it.events, Event{"return", []string{tagOf(ret), it.c.pos(it.RetPos)}})
	}
	after := func(it *Interp) {
		evs := it.events
		var ret Val = vNil{}
		if n := len(evs); n > 0 && evs[n-1].Kind == "return" {
			if evs[n-1].Args[0] != "nil" {
				ret = vNonNil{evs[n-1].Args[0] + " returned at " + evs[n-1].Args[1]}
			}
			evs = evs[:n-1]
		}
		check(evs, ret)
	}
	return Explore(mk, runOne, after, maxPaths)
}

// checkTxTrace validates one path against the documented semantics. It
// returns "" or a description of the first deviation.
func checkTxTrace(sc txScenario, evs []Event, ret Val) string {
	open := ""      // tag of the open transaction
	failed := false // an exec / open / commit failed on this path
	committed := 0  // number of commits
	lastExec := -1
	execCount := 0
	_, retNil := ret.(vNil)
	for i, e := range evs {
		switch e.Kind {
		case "open":
			if sc.dryRun {
				return "a transaction is opened under --dry-run"
			}
			if open != "" {
				return "a transaction is opened while " + open + " is still open"
			}
			open = e.Args[0]
		case "open-failed", "rrw-failed":
			failed = true
		case "commit", "commit-failed":
			if open == "" || e.Args[0] != open {
				return "commit of " + e.Args[0] + " while the open transaction is " + orNone(open)
			}
			if failed {
				return "a transaction is committed after an error on the same run"
			}
			if e.Kind == "commit" {
				committed++
			} else {
				failed = true
			}
			open = ""
		case "rollback":
			if open == "" || e.Args[0] != open {
				return "rollback of " + e.Args[0] + " while the open transaction is " + orNone(open)
			}
			open = ""
		case "exec", "exec-failed":
			ix := 0
			fmt.Sscanf(e.Args[0], "%d", &ix)
			if ix != lastExec+1 {
				return fmt.Sprintf("file %d executed after file %d (order)", ix, lastExec)
			}
			if failed {
				return "a file is executed after an earlier error"
			}
			lastExec = ix
			execCount++
			if ix >= len(sc.directives) {
				return "unknown file executed"
			}
			eff := effectiveMode(sc.mode, sc.directives[ix])
			drv, rrw := e.Args[1], e.Args[2]
			switch {
			case sc.dryRun:
				if !strings.HasPrefix(drv, "obj:") || !strings.Contains(drv, "dryRunDriver") || !strings.Contains(rrw, "dryRunRevisions") {
					return "under --dry-run file " + e.Args[0] + " is executed with driver=" + drv + " revisions=" + rrw + " instead of the dry-run wrappers"
				}
			case eff == "":
				return "file " + e.Args[0] + " with an invalid txmode directive combination is executed"
			case eff == "none":
				if open != "" {
					return "file " + e.Args[0] + " (effective mode none) is executed while transaction " + open + " is open"
				}
				if strings.Contains(drv, "Tx#") || strings.Contains(rrw, "Tx#") {
					return "file " + e.Args[0] + " (effective mode none) is executed with transaction-bound driver/revisions " + drv + "/" + rrw
				}
			case eff == "file" || eff == "all":
				if open == "" {
					return "file " + e.Args[0] + " (effective mode " + eff + ") is executed outside a transaction"
				}
				if drv != open+".Driver" || rrw != "rrw("+open+".Client)" {
					return "file " + e.Args[0] + " is executed with driver=" + drv + " revisions=" + rrw + " that do not both belong to the open transaction " + open
				}
			}
			if e.Kind == "exec-failed" {
				failed = true
				// the very next transaction event must be the rollback of the open tx (if any)
				if open != "" {
					if i+1 >= len(evs) || evs[i+1].Kind != "rollback" {
						return "file " + e.Args[0] + " failed inside transaction " + open + " which is not rolled back"
					}
				}
			} else if !sc.dryRun {
				// success
				switch eff {
				case "file":
					if i+1 >= len(evs) || (evs[i+1].Kind != "commit" && evs[i+1].Kind != "commit-failed") {
						return "file " + e.Args[0] + " (effective mode file) succeeded but its transaction " + open + " is not committed before the next step"
					}
				case "all":
					if i+1 < len(evs) && (evs[i+1].Kind == "commit" || evs[i+1].Kind == "commit-failed") && ix != len(sc.directives)-1 {
						return "in all mode the transaction is committed after file " + e.Args[0] + " although more files are pending"
					}
				}
			}
		}
	}
	if open != "" && retNil {
		// an uncommitted transaction at a failing exit is released by the deferred client.Close (implicit rollback)
		return "transaction " + open + " is left open although the command reports success"
	}
	if failed && retNil {
		return "an error occurred but the command returns nil"
	}
	if !failed && !retNil && execCount == len(sc.directives) && execCount > 0 {
		return "the command returns an error (" + tagOf(ret) + ") although every file was executed and nothing failed"
	}
	if !failed && retNil && !sc.dryRun && execCount != len(sc.directives) && len(evs) > 0 {
		return fmt.Sprintf("the command succeeded but executed %d of %d files", execCount, len(sc.directives))
	}
	_ = committed
	return ""
}

func orNone(s string) string {
	if s == "" {
		return "none"
	}
	return s
}

func txScenarios(maxLen int) []txScenario {
	dirs := [][]string{{}, {"none"}, {"file"}, {"all"}, {"bogus"}, {"file", "none"}}
	var out []txScenario
	var rec func(prefix [][]string, n int, mode string, dry bool)
	rec = func(prefix [][]string, n int, mode string, dry bool) {
		if len(prefix) == n {
			out = append(out, txScenario{mode: mode, directives: append([][]string(nil), prefix...), dryRun: dry})
			return
		}
		for _, d := range dirs {
			rec(append(prefix, d), n, mode, dry)
		}
	}
	for _, mode := range []string{"none", "file", "all"} {
		for _, dry := range []bool{false, true} {
			for n := 1; n <= maxLen; n++ {
				rec(nil, n, mode, dry)
			}
		}
	}
	return out
}

// runTxTypestate is shared by C13 (R13a) and C10 (R10a).
func runTxTypestate(c *Ctx, rule string) {
	r := newTxRunner(c, rule)
	if r == nil {
		return
	}
	maxLen := 2
	if c.Tier == "thorough" {
		maxLen = 3
	}
	scs := txScenarios(maxLen)
	totalPaths := 0
	type bad struct {
		sc  txScenario
		msg string
		evs []Event
	}
	var bads []bad
	seenMsg := map[string]bool{}
	for _, sc := range scs {
		sc := sc
		n, msg := r.run(sc, func(evs []Event, ret Val) {
			if m := checkTxTrace(sc, evs, ret); m != "" {
				// generalise the message for the key: strip file numbers / tx tags
				if !seenMsg[m] || len(bads) < 3 {
					bads = append(bads, bad{sc, m, append([]Event(nil), evs...)})
				}
				seenMsg[m] = true
			}
		}, 200000)
		totalPaths += n
		if msg != "" {
			c.Unresolved(rule, "E-tstate could not interpret migrateApplyRun for "+sc.String()+": "+msg)
			return
		}
	}
	c.Note("E-tstate: %d scenarios (tx-mode × directive sequences of length ≤ %d × dry-run), %d paths interpreted", len(scs), maxLen, totalPaths)
	// group deviations by normalised message
	groups := map[string]bad{}
	for _, b := range bads {
		k := normTxMsg(b.msg)
		if _, ok := groups[k]; !ok {
			groups[k] = b
		}
	}
	var ks []string
	for k := range groups {
		ks = append(ks, k)
	}
	sort.Strings(ks)
	for _, k := range ks {
		b := groups[k]
		var tr []string
		for _, e := range b.evs {
			tr = append(tr, e.String())
		}
		c.Check(rule, "migrateApplyRun|"+k, r.apply.Decl.Pos(), false, "%s [scenario: %s; trace: %s]", b.msg, b.sc.String(), strings.Join(tr, " "))
	}
	c.Check(rule, "migrateApplyRun|all scenarios conform", r.apply.Decl.Pos(), len(groups) == 0, "%d kinds of deviation from the documented transaction semantics", len(groups))
	// instance count: one obligation per (mode, dryRun) class for the evidence
	for _, mode := range []string{"none", "file", "all"} {
		for _, dry := range []bool{false, true} {
			n := 0
			for _, sc := range scs {
				if sc.mode == mode && sc.dryRun == dry {
					n++
				}
			}
			okc := true
			for _, b := range bads {
				if b.sc.mode == mode && b.sc.dryRun == dry {
					okc = false
				}
			}
			if okc {
				c.Check(rule, fmt.Sprintf("migrateApplyRun|tx-mode=%s dry-run=%v|%d directive sequences", mode, dry, n), r.apply.Decl.Pos(), true, "")
			}
		}
	}
}

func normTxMsg(m string) string {
	// replace digits to make keys position/instance independent
	var b strings.Builder
	for _, r := range m {
		if r >= '0' && r <= '9' {
			b.WriteByte('N')
		} else {
			b.WriteRune(r)
		}
	}
	s := b.String()
	if len(s) > 120 {
		s = s[:120]
	}
	return s
}

// ---------------------------------------------------------------- C13

func runC13(c *Ctx) {
	c.Rule("R13a", "tx typestate (E-tstate): on every path of migrateApplyRun + tx multiplexer, for every tx-mode × directive sequence × dry-run, the open/exec/commit/rollback trace follows the documented semantics of each file's effective mode", 7)
	c.Rule("R13b", "dry-run dominance: driverFor tests dryRun before anything else and returns the dry-run wrappers; the wrappers declare every mutating method the executor calls; the executor that runs files is built from driverFor's pair; every other database-writing call of migrateApplyRun is guarded by !dryRun", 4)
	c.Rule("R13c", "schema apply: applyChanges applies outside a transaction only on the true edge of txMode == none, rolls back on the error branch of ApplyChanges and commits otherwise; every call of applyChanges is guarded by !dryRun or autoApprove; dry-run and auto-approve are registered mutually exclusive", 4)
	c.Rule("R13d", "the effective transaction mode has one derivation point: tx.mode is read only in modeFor (and the tx literal); decisions elsewhere use the per-file mode", 1)

	runTxTypestate(c, "R13a")
	checkDryRun(c)
	checkSchemaApply(c)

	// R13d
	deriver := txModeDeriver(c)
	derivArgs := map[*ast.SelectorExpr]bool{} // tx.mode handed straight to the derivation function
	if deriver != nil {
		c.AllFuncs(false, func(fi *FuncInfo) {
			if fi.Pkg.PkgPath != pCmdapi || fi.Decl.Body == nil {
				return
			}
			for _, call := range callsIn(fi.Decl.Body, true) {
				if calleeOf(fi.Info(), call) == deriver.Obj {
					for _, a := range call.Args {
						if se, ok := ast.Unparen(a).(*ast.SelectorExpr); ok {
							derivArgs[se] = true
						}
					}
				}
			}
		})
	}
	c.AllFuncs(false, func(fi *FuncInfo) {
		if fi.Pkg.PkgPath != pCmdapi {
			return
		}
		info := fi.Info()
		ast.Inspect(fi.Decl.Body, func(m ast.Node) bool {
			se, ok := m.(*ast.SelectorExpr)
			if !ok || !isField(info, se, pCmdapi, "tx", "mode") {
				return true
			}
			okRead := fi.Name == "cmdapi.(tx).modeFor" || (deriver != nil && fi.Obj == deriver.Obj) || derivArgs[se]
			c.Check("R13d", fi.Name+"|read tx.mode", se.Pos(), okRead, "the global tx mode is consulted in %s; only modeFor may derive the effective mode from it (a file directive can override it)", fi.Name)
			return true
		})
	})
}

func checkDryRun(c *Ctx) {
	fi := c.Func("R13b", pCmdapi, "tx", "driverFor")
	if fi != nil {
		info := fi.Info()
		f := newFlow(info, fi.Decl.Body)
		isDryCond := func(n ast.Node) bool {
			e, ok := n.(ast.Expr)
			return ok && isField(info, e, pCmdapi, "tx", "dryRun")
		}
		// any return is dominated by the dryRun test
		n, ok := f.mustPrecede(isDryCond, isReturn)
		c.Check("R13b", "driverFor|dryRun tested first", nodePos(n, fi.Decl.Pos()), ok, "driverFor can return at %s without having tested tx.dryRun", c.nodeAt(n))
		// on the true edge the wrappers are returned, and nothing else happens
		wrapped := false
		for _, b := range f.G.Blocks {
			cond, t, _ := condOf(b)
			if cond == nil || !isDryCond(cond) {
				continue
			}
			if len(t.Nodes) == 1 {
				if r, ok := t.Nodes[0].(*ast.ReturnStmt); ok && len(r.Results) == 3 {
					t0, t1 := info.TypeOf(r.Results[0]), info.TypeOf(r.Results[1])
					if typeIs(t0, pCmdapi, "dryRunDriver") && typeIs(t1, pCmdapi, "dryRunRevisions") {
						wrapped = true
					}
				}
			}
		}
		c.Check("R13b", "driverFor|dry-run returns the wrappers", fi.Decl.Pos(), wrapped, "with dryRun set driverFor must immediately return &dryRunDriver{…}, &dryRunRevisions{…}")
	}
	// wrappers override mutating methods
	for _, w := range []struct {
		typ     string
		methods []string
	}{{"dryRunDriver", []string{"ExecContext"}}, {"dryRunRevisions", mutatingRRWMethodsUsedByExecutor(c)}} {
		nt := c.NamedType(pCmdapi, w.typ)
		if nt == nil {
			c.Unresolved("R13b", "type cmdapi."+w.typ)
			continue
		}
		for _, m := range w.methods {
			declared := false
			for i := 0; i < nt.NumMethods(); i++ {
				if nt.Method(i).Name() == m {
					declared = true
					// the override must not delegate to the wrapped value
					if mf := c.FuncInfoOf(nt.Method(i)); mf != nil {
						for _, call := range callsIn(mf.Decl.Body, true) {
							if fn := calleeOf(mf.Info(), call); fn != nil && fn.Name() == m {
								declared = false
							}
						}
					}
				}
			}
			c.Check("R13b", w.typ+"|overrides "+m, nt.Obj().Pos(), declared, "%s does not override %s: under --dry-run the call reaches the wrapped database value", w.typ, m)
		}
	}
	// in migrateApplyRun: the Execute call uses an executor built from driverFor's pair,
	// and other writers are guarded by !dryRun
	af := c.Func("R13b", pCmdapi, "", "migrateApplyRun")
	if af == nil {
		return
	}
	info := af.Info()
	f := newFlow(info, af.Decl.Body)
	// find `drv, rrw, err = mux.driverFor(...)`
	var drvObj, rrwObj types.Object
	ast.Inspect(af.Decl.Body, func(m ast.Node) bool {
		as, ok := m.(*ast.AssignStmt)
		if !ok || len(as.Rhs) != 1 || len(as.Lhs) != 3 {
			return true
		}
		if call, ok := as.Rhs[0].(*ast.CallExpr); ok && funcIs(calleeOf(info, call), pCmdapi, "tx", "driverFor") {
			if a, ok := as.Lhs[0].(*ast.Ident); ok {
				drvObj = info.ObjectOf(a)
			}
			if b, ok := as.Lhs[1].(*ast.Ident); ok {
				rrwObj = info.ObjectOf(b)
			}
		}
		return true
	})
	if drvObj == nil || rrwObj == nil {
		c.Unresolved("R13b", "migrateApplyRun: `drv, rrw, err = mux.driverFor(ctx, f)`")
		return
	}
	isDriverFor := f.callNode(isCallTo(pCmdapi, "tx", "driverFor"))
	// the executor used for Execute: NewExecutor(drv, dir, rrw, …) after driverFor
	isNewExFromPair := func(n ast.Node) bool {
		call := nodeHasCall(info, n, isCallTo(pMigrate, "", "NewExecutor"))
		if call == nil || len(call.Args) < 3 {
			return false
		}
		a, ok1 := call.Args[0].(*ast.Ident)
		b, ok2 := call.Args[2].(*ast.Ident)
		return ok1 && ok2 && info.ObjectOf(a) == drvObj && info.ObjectOf(b) == rrwObj
	}
	isExecute := f.callNode(isCallTo(pMigrate, "Executor", "Execute"))
	for _, ep := range f.find(isExecute) {
		_ = ep
	}
	n, ok := f.mustPrecede(isDriverFor, isExecute)
	c.Check("R13b", "migrateApplyRun|driverFor≺Execute", nodePos(n, af.Decl.Pos()), ok, "Execute is reachable without the driver/revisions pair having been obtained from driverFor")
	// between driverFor and Execute the executor is rebuilt from the pair
	for _, dp := range f.find(isDriverFor) {
		n, found := f.reach([]point{after(dp)}, isNewExFromPair, isExecute, false)
		c.Check("R13b", "migrateApplyRun|executor built from driverFor's pair", nodePos(n, dp.b.Nodes[dp.i].Pos()), !found, "Execute is reached after driverFor without rebuilding the executor from (drv, rrw) returned by it")
	}
	// other writers: Migrate on the revisions table, Pending (may write a baseline revision)
	isDryFalseEdge := func(b *cfg.Block, si int) bool {
		return edgeImplies(b, si, func(e ast.Expr, val bool) bool {
			se, ok := e.(*ast.SelectorExpr)
			return ok && se.Sel.Name == "dryRun" && !val
		})
	}
	writers := []struct {
		key  string
		pred callPred
	}{
		{"RevisionReadWriter.Migrate", func(fn *types.Func, _ *ast.CallExpr) bool {
			return fn.Name() == "Migrate" && fn.Pkg() != nil && fn.Pkg().Path() == pCmdmig
		}},
		{"Executor.Pending (baseline revision write)", isCallTo(pMigrate, "Executor", "Pending")},
	}
	for _, w := range writers {
		tgt := f.callNode(w.pred)
		if len(f.find(tgt)) == 0 {
			continue
		}
		n, found := f.reachEx([]point{f.entry()}, nil, tgt, isDryFalseEdge)
		c.Check("R13b", "migrateApplyRun|"+w.key+" guarded by !dryRun", nodePos(n, af.Decl.Pos()), !found, "%s is called with the real client/revision writer on a path that never tested flags.dryRun: `migrate apply --dry-run` writes to the database", w.key)
	}
}

func mutatingRRWMethodsUsedByExecutor(c *Ctx) []string {
	used := map[string]bool{}
	c.AllFuncs(false, func(fi *FuncInfo) {
		if fi.Pkg.PkgPath != pMigrate {
			return
		}
		for _, call := range callsIn(fi.Decl.Body, true) {
			fn := calleeOf(fi.Info(), call)
			if fn == nil || fn.Pkg() == nil || fn.Pkg().Path() != pMigrate || recvTypeName(fn) != "RevisionReadWriter" {
				continue
			}
			if strings.HasPrefix(fn.Name(), "Write") || strings.HasPrefix(fn.Name(), "Delete") {
				used[fn.Name()] = true
			}
		}
	})
	var out []string
	for k := range used {
		out = append(out, k)
	}
	sort.Strings(out)
	return out
}

func checkSchemaApply(c *Ctx) {
	c.Rule("R13e", ruleTextSetRevisionAll, 2)
	checkSetRevisionAll(c, "R13e")
	c.Rule("R13g", ruleTextFKReenabled, 2)
	checkFKReenabled(c, "R13g")
	c.Rule("R13i", ruleTextCommentOpeners, 2)
	checkCommentOpeners(c, "R13i")
	c.Rule("R13h", ruleTextViolationIdentity, 1)
	checkViolationIdentity(c, "R13h")
	c.Rule("R13f", ruleTextApplyOwner, 1)
	checkApplyOwner(c, "R13f")
	fi := c.Func("R13c", pCmdapi, "", "applyChanges")
	if fi != nil {
		info := fi.Info()
		f := newFlow(info, fi.Decl.Body)
		isApply := func(recv string) nodePred {
			return f.callNode(func(fn *types.Func, _ *ast.CallExpr) bool {
				return fn.Name() == "ApplyChanges" && recvTypeName(fn) == recv
			})
		}
		// direct (non-tx) apply: receiver is *sqlclient.Client's embedded driver; tx apply: TxClient
		direct := func(n ast.Node) bool {
			hit := false
			walkShallow(n, func(m ast.Node) bool {
				call, ok := m.(*ast.CallExpr)
				if !ok {
					return true
				}
				se, ok := call.Fun.(*ast.SelectorExpr)
				if !ok || se.Sel.Name != "ApplyChanges" {
					return true
				}
				if typeIs(info.TypeOf(se.X), modRoot+"/sql/sqlclient", "Client") {
					hit = true
				}
				return true
			})
			return hit
		}
		_ = isApply
		noneEdge := func(b *cfg.Block, si int) bool {
			return edgeImplies(b, si, func(e ast.Expr, val bool) bool {
				be, ok := e.(*ast.BinaryExpr)
				if !ok || !((be.Op == token.EQL && val) || (be.Op == token.NEQ && !val)) {
					return false
				}
				for _, x := range []ast.Expr{be.X, be.Y} {
					if s, ok := stringConst(info, x); ok && s == "none" {
						return true
					}
				}
				return false
			})
		}
		n, found := f.reachEx([]point{f.entry()}, nil, direct, noneEdge)
		c.Check("R13c", "applyChanges|non-transactional apply only when txMode == none", nodePos(n, fi.Decl.Pos()), !found, "ApplyChanges is called directly on the client (outside a transaction) on a path where txMode == \"none\" was not established")
		nDirect := len(f.find(direct))
		c.Check("R13c", "applyChanges|has the txMode none branch", fi.Decl.Pos(), nDirect >= 1, "applyChanges has no non-transactional branch any more (shape changed)")
		// tx path: Rollback on the error branch of tx.ApplyChanges, Commit otherwise
		txApply := func(n ast.Node) bool {
			hit := false
			walkShallow(n, func(m ast.Node) bool {
				call, ok := m.(*ast.CallExpr)
				if !ok {
					return true
				}
				se, ok := call.Fun.(*ast.SelectorExpr)
				if ok && se.Sel.Name == "ApplyChanges" && typeIs(info.TypeOf(se.X), modRoot+"/sql/sqlclient", "TxClient") {
					hit = true
				}
				return true
			})
			return hit
		}
		isRollback := f.callNode(func(fn *types.Func, _ *ast.CallExpr) bool {
			return fn.Name() == "Rollback" && recvTypeName(fn) == "TxClient"
		})
		isCommit := f.callNode(func(fn *types.Func, _ *ast.CallExpr) bool {
			return fn.Name() == "Commit" && recvTypeName(fn) == "TxClient"
		})
		pts := f.find(txApply)
		if len(pts) == 0 {
			// the transactional branch may live in a package-local helper called from applyChanges
			for _, call := range callsIn(fi.Decl.Body, true) {
				fn := calleeOf(info, call)
				if fn == nil || fn.Pkg() == nil || fn.Pkg().Path() != pCmdapi {
					continue
				}
				cf := c.FuncInfoOf(fn)
				if cf == nil || cf.Decl.Body == nil {
					continue
				}
				hf := newFlow(cf.Info(), cf.Decl.Body)
				hinfo := cf.Info()
				htx := func(n ast.Node) bool {
					hit := false
					walkShallow(n, func(m ast.Node) bool {
						call, ok := m.(*ast.CallExpr)
						if !ok {
							return true
						}
						se, ok := call.Fun.(*ast.SelectorExpr)
						if ok && se.Sel.Name == "ApplyChanges" && typeIs(hinfo.TypeOf(se.X), modRoot+"/sql/sqlclient", "TxClient") {
							hit = true
						}
						return true
					})
					return hit
				}
				if hp := hf.find(htx); len(hp) == 1 {
					f, pts, info = hf, hp, hinfo
					isRollback = f.callNode(func(fn *types.Func, _ *ast.CallExpr) bool {
						return fn.Name() == "Rollback" && recvTypeName(fn) == "TxClient"
					})
					isCommit = f.callNode(func(fn *types.Func, _ *ast.CallExpr) bool {
						return fn.Name() == "Commit" && recvTypeName(fn) == "TxClient"
					})
					c.funcs[cf.Name] = true
					break
				}
			}
		}
		if len(pts) != 1 {
			c.Unresolved("R13c", "applyChanges: exactly one tx.ApplyChanges call (in applyChanges or a helper it calls)")
		} else {
			errB, okB, _, shapeOK := f.errBranch(pts[0])
			if !shapeOK {
				c.Unresolved("R13c", "applyChanges: error check of tx.ApplyChanges")
			} else {
				n, found := f.reach([]point{{errB, 0}}, isRollback, isReturn, true)
				c.Check("R13c", "applyChanges|rollback on error", nodePos(n, fi.Decl.Pos()), !found, "the error branch of tx.ApplyChanges returns without rolling the transaction back")
				n, found = f.reach([]point{{errB, 0}}, nil, isCommit, false)
				c.Check("R13c", "applyChanges|no commit on error", nodePos(n, fi.Decl.Pos()), !found, "Commit is reachable from the error branch of tx.ApplyChanges")
				n, found = f.reach([]point{{okB, 0}}, isCommit, isReturn, true)
				c.Check("R13c", "applyChanges|commit on success", nodePos(n, fi.Decl.Pos()), !found, "the success path of tx.ApplyChanges returns without committing")
			}
		}
	}
	// callers guarded
	callers := 0
	c.AllFuncs(false, func(cf *FuncInfo) {
		if cf.Pkg.PkgPath != pCmdapi || cf.Name == "cmdapi.applyChanges" {
			return
		}
		info := cf.Info()
		has := false
		for _, call := range callsIn(cf.Decl.Body, false) {
			if funcIs(calleeOf(info, call), pCmdapi, "", "applyChanges") {
				has = true
			}
		}
		if !has {
			return
		}
		f := newFlow(info, cf.Decl.Body)
		tgt := f.callNode(isCallTo(pCmdapi, "", "applyChanges"))
		guard := func(b *cfg.Block, si int) bool {
			return edgeImplies(b, si, func(e ast.Expr, val bool) bool {
				se, ok := e.(*ast.SelectorExpr)
				if !ok {
					return false
				}
				return (se.Sel.Name == "dryRun" && !val) || (se.Sel.Name == "autoApprove" && val)
			})
		}
		for range f.find(tgt) {
			callers++
		}
		n, found := f.reachEx([]point{f.entry()}, nil, tgt, guard)
		c.Check("R13c", cf.Name+"|applyChanges guarded by !dryRun or autoApprove", nodePos(n, cf.Decl.Pos()), !found, "applyChanges is reachable at %s without having established !dryRun or autoApprove", c.nodeAt(n))
	})
	// mutual exclusion registered
	if sc := c.Func("R13c", pCmdapi, "", "schemaApplyCmd"); sc != nil {
		ok := false
		for _, call := range callsIn(sc.Decl.Body, true) {
			if fn := calleeOf(sc.Info(), call); fn != nil && fn.Name() == "MarkFlagsMutuallyExclusive" && len(call.Args) == 2 {
				a, _ := stringConst(sc.Info(), call.Args[0])
				b, _ := stringConst(sc.Info(), call.Args[1])
				if (a == "dry-run" && b == "auto-approve") || (b == "dry-run" && a == "auto-approve") {
					ok = true
				}
			}
		}
		c.Check("R13c", "schema apply|--dry-run and --auto-approve mutually exclusive", sc.Decl.Pos(), ok, "MarkFlagsMutuallyExclusive(dry-run, auto-approve) is no longer registered: the autoApprove guard does not imply !dryRun")
	}
}

// txModeDeriver finds the one function that derives a file's effective transaction mode: tx.modeFor, or — when that
// method was renamed or turned into a package function — the only cmdapi function that tx.driverFor calls and that
// itself consults txmodeFor (the reader of the file's txmode directive).
func txModeDeriver(c *Ctx) *FuncInfo {
	if fi := c.LookupFunc(pCmdapi, "tx", "modeFor"); fi != nil {
		return fi
	}
	df := c.LookupFunc(pCmdapi, "tx", "driverFor")
	if df == nil || df.Decl.Body == nil {
		return nil
	}
	var found []*FuncInfo
	seen := map[*types.Func]bool{}
	for _, call := range callsIn(df.Decl.Body, true) {
		fn := calleeOf(df.Info(), call)
		if fn == nil || fn.Pkg() == nil || fn.Pkg().Path() != pCmdapi || seen[fn] {
			continue
		}
		seen[fn] = true
		hf := c.FuncInfoOf(fn)
		if hf == nil || hf.Decl.Body == nil {
			continue
		}
		for _, hc := range callsIn(hf.Decl.Body, true) {
			if g := calleeOf(hf.Info(), hc); g != nil && funcIs(g, pCmdapi, "", "txmodeFor") {
				found = append(found, hf)
				break
			}
		}
	}
	if len(found) == 1 {
		return found[0]
	}
	return nil
}
