package main

import (
	"go/types"
	"sort"
	"strings"

	"golang.org/x/tools/go/callgraph"
	"golang.org/x/tools/go/callgraph/cha"
	"golang.org/x/tools/go/ssa"
)

// CG is a class-hierarchy call graph over the SSA program. Edges out of a
// call of a plain function value (not an interface method) are dropped unless
// the callee is a closure created in the calling function (or its parents):
// CHA resolves such calls to every function of the same signature in the
// program, which is useless for reachability; rules that need them say so.
type CG struct {
	g *callgraph.Graph
}

func (c *Ctx) CHA() *CG {
	if c.cg != nil {
		return c.cg
	}
	c.cg = &CG{g: cha.CallGraph(c.SSA())}
	return c.cg
}

func inRepo(f *ssa.Function) bool {
	for f.Parent() != nil {
		f = f.Parent()
	}
	if f.Pkg != nil {
		return strings.HasPrefix(f.Pkg.Pkg.Path(), modRoot)
	}
	if o := f.Object(); o != nil && o.Pkg() != nil {
		return strings.HasPrefix(o.Pkg().Path(), modRoot)
	}
	return false
}

func topParent(f *ssa.Function) *ssa.Function {
	for f.Parent() != nil {
		f = f.Parent()
	}
	return f
}

// edgeKept applies the policy described on CG.
func edgeKept(e *callgraph.Edge) bool {
	if e.Site == nil {
		return true
	}
	cc := e.Site.Common()
	if cc.IsInvoke() || cc.StaticCallee() != nil {
		return true
	}
	// dynamic call of a func value: keep only closures of the same top-level function
	callee := e.Callee.Func
	return callee.Parent() != nil && topParent(callee) == topParent(e.Caller.Func)
}

// Reach searches the call graph from `from`. enter decides whether the body
// of a callee is explored (typically: repo code only); target reports a hit.
// It returns the call path to the first hit, or nil.
func (g *CG) Reach(from []*ssa.Function, enter func(*ssa.Function) bool, target func(*callgraph.Edge) bool) []string {
	type item struct {
		fn   *ssa.Function
		path []string
	}
	seen := map[*ssa.Function]bool{}
	var q []item
	for _, f := range from {
		q = append(q, item{f, []string{f.String()}})
		seen[f] = true
	}
	for len(q) > 0 {
		it := q[0]
		q = q[1:]
		n := g.g.Nodes[it.fn]
		if n == nil {
			continue
		}
		outs := append([]*callgraph.Edge(nil), n.Out...)
		sort.Slice(outs, func(i, j int) bool { return outs[i].Callee.Func.String() < outs[j].Callee.Func.String() })
		for _, e := range outs {
			if !edgeKept(e) {
				continue
			}
			if target(e) {
				return append(append([]string(nil), it.path...), e.Callee.Func.String())
			}
			cf := e.Callee.Func
			if seen[cf] || !enter(cf) {
				continue
			}
			seen[cf] = true
			q = append(q, item{cf, append(append([]string(nil), it.path...), cf.String())})
		}
	}
	return nil
}

// ReachSet returns every function reachable from `from` (entering only
// functions accepted by enter).
func (g *CG) ReachSet(from []*ssa.Function, enter func(*ssa.Function) bool) map[*ssa.Function]bool {
	seen := map[*ssa.Function]bool{}
	var st []*ssa.Function
	for _, f := range from {
		seen[f] = true
		st = append(st, f)
	}
	for len(st) > 0 {
		f := st[len(st)-1]
		st = st[:len(st)-1]
		n := g.g.Nodes[f]
		if n == nil {
			continue
		}
		for _, e := range n.Out {
			if !edgeKept(e) {
				continue
			}
			cf := e.Callee.Func
			if seen[cf] || !enter(cf) {
				continue
			}
			seen[cf] = true
			st = append(st, cf)
		}
	}
	return seen
}

// Callers lists the functions with an edge to f.
func (g *CG) Callers(f *ssa.Function) []*ssa.Function {
	n := g.g.Nodes[f]
	if n == nil {
		return nil
	}
	var out []*ssa.Function
	seen := map[*ssa.Function]bool{}
	for _, e := range n.In {
		if !edgeKept(e) {
			continue
		}
		if !seen[e.Caller.Func] {
			seen[e.Caller.Func] = true
			out = append(out, e.Caller.Func)
		}
	}
	return out
}

// ssaDBWrite: callee is a statement-execution primitive of a database
// connection, or Driver.ApplyChanges.
func ssaDBWrite(f *ssa.Function) bool {
	if f.Signature.Recv() == nil {
		return false
	}
	switch f.Name() {
	case "ExecContext", "Exec":
		p := ""
		if o := f.Object(); o != nil && o.Pkg() != nil {
			p = o.Pkg().Path()
		}
		return p == "database/sql" || p == "database/sql/driver"
	}
	return false
}

// implementsMethod reports whether f is a method named name whose receiver
// implements the interface type.
func methodOf(f *ssa.Function, name string) bool {
	return f.Signature.Recv() != nil && f.Name() == name
}

func objPkgPath(f *ssa.Function) string {
	if o := f.Object(); o != nil && o.Pkg() != nil {
		return o.Pkg().Path()
	}
	if f.Pkg != nil {
		return f.Pkg.Pkg.Path()
	}
	return ""
}

var _ = types.Typ
