package main

import (
	"reflect"
	"go/ast"
	"go/token"
	"go/types"
	"strings"

	"golang.org/x/tools/go/cfg"
)

func init() {
	register("C04", &propCheck{
		explanation: "Ordering and orientation rules. (a) In the MySQL and PostgreSQL planners every path to the statement loop passes DetachCycles and then SortChanges on the same change list (unless the plan mode is the unsorted dump), and the loop ranges over their result. (b) In sqlx.dependsOn every reference test is oriented as the property states: in an add context the depending change's foreign keys are tested against the other change's table (created before it is referenced), in a drop context the other change's foreign keys against the depending change's table (dropped after its references). (c) detachReferences puts every foreign-key creation after all table creations and every foreign-key drop before all table drops, removes the detached keys from the table copy it plans, and returns early-list followed by late-list. (d) The cycle detector visits dependencies before assigning a position and reports a node seen in progress as a cycle.",
		undecided:   []string{"correctness of the DFS / topological sort for every graph shape, termination (loop structure only)", "that dependencies() collects every edge kind"},
		run:         runC04,
	})
}

func runC04(c *Ctx) {
	c.Rule("R04a", "mysql/postgres plan(): unless Mode == PlanModeUnsortedDump every path to the statement loop passes DetachCycles then SortChanges, each applied to and assigned back to the list the loop ranges over", 4)
	c.Rule("R04b", "sqlx.dependsOn orientation: refTo/typeDependsOnT(…, X.T) tests the *other* change's table in add contexts (AddTable, ModifyTable) and the *depending* change's table in the DropTable context", 4)
	c.Rule("R04c", "detachReferences partition: AddForeignKey-carrying changes go to the late list and table creations to the early list; DropForeignKey-carrying changes go to the early list and table drops to the late list; detached keys are removed from the planned table copy; the result is early followed by late", 4)
	c.Rule("R04d", "sortMap: a node is marked in progress before its dependencies are visited, gets its position only after them, and meeting an in-progress node reports a cycle; DetachCycles falls back to detachReferences exactly on errCycle", 4)

	c.Rule("R04e", "dependencies(): every edge `deps[K] = append(deps[K], V)` is consistent with its guard: an add-edge (K = change.T.Name, V = fk.RefTable) is guarded by `fk.RefTable != change.T` on the same fk; a drop-edge (K = fk.RefTable.Name, V = fk.Table) by isDropped(changes, fk.RefTable)", 2)
	c.Rule("R04f", "dependsOn: the tables of the two changes are compared by pointer only when both changes are ModifyTable (AddTable/DropTable tables may be copies made by detachReferences; identity there is name + schema)", 1)
	c.Rule("R04g", ruleTextSortSelf, 5)
	checkSortSelf(c, "R04g")
	c.Rule("R04l", ruleTextExactIdentity, 2)
	checkExactIdentity(c, "R04l")
	c.Rule("R04m", ruleTextModifyPolarity, 4)
	checkModifyPolarity(c, "R04m")
	c.Rule("R04j", ruleTextOwnDroppedColumns, 3)
	checkOwnDroppedColumns(c, "R04j")
	c.Rule("R04k", ruleTextStableCoarseSort, 1)
	checkStableCoarseSort(c, "R04k")
	c.Rule("R04i", ruleTextFKDeclEdges, 2)
	checkFKDeclEdges(c, "R04i")
	c.Rule("R04h", ruleTextEmitRegrouped, 1)
	checkEmitRegrouped(c, "R04h")
	checkDependencyEdges(c)
	checkPointerIdentity(c)
	for _, pp := range []string{pMysql, pPostgres} {
		checkPlanSortOrder(c, pp)
	}
	checkDependsOnOrientation(c)
	checkDetachPartition(c)
	checkSortMap(c)
}

// forwardsTo: fn is pkg.name itself or a one-statement forwarder to it.
func (c *Ctx) forwardsTo(fn *types.Func, pkg, name string) bool {
	if funcIs(fn, pkg, "", name) {
		return true
	}
	fi := c.FuncInfoOf(fn)
	if fi == nil || len(fi.Decl.Body.List) != 1 {
		return false
	}
	r, ok := fi.Decl.Body.List[0].(*ast.ReturnStmt)
	if !ok || len(r.Results) != 1 {
		return false
	}
	call, ok := r.Results[0].(*ast.CallExpr)
	if !ok || !funcIs(calleeOf(fi.Info(), call), pkg, "", name) || len(call.Args) == 0 {
		return false
	}
	// first argument is the forwarder's first parameter
	if id, ok := call.Args[0].(*ast.Ident); ok {
		if ps := fi.Decl.Type.Params.List; len(ps) > 0 && len(ps[0].Names) > 0 {
			return fi.Info().ObjectOf(id) == fi.Info().ObjectOf(ps[0].Names[0])
		}
	}
	return false
}

func checkPlanSortOrder(c *Ctx, pp string) {
	fi := c.Func("R04a", pp, "state", "plan")
	if fi == nil {
		return
	}
	info := fi.Info()
	f := newFlow(info, fi.Decl.Body)
	key := shortPkg(pp) + ".(state).plan"
	// the statement loop: a range statement whose body type-switches over schema changes
	var loop *ast.RangeStmt
	ast.Inspect(fi.Decl.Body, func(m ast.Node) bool {
		rs, ok := m.(*ast.RangeStmt)
		if !ok || loop != nil {
			return true
		}
		ast.Inspect(rs.Body, func(k ast.Node) bool {
			if _, ok := k.(*ast.TypeSwitchStmt); ok {
				loop = rs
			}
			// or a package-local dispatcher given the loop variable, whose body type-switches over it
			if call, ok := k.(*ast.CallExpr); ok {
				if fn := calleeOf(info, call); fn != nil && fn.Pkg() != nil && fn.Pkg().Path() == pp {
					if cf := c.FuncInfoOf(fn); cf != nil && cf.Decl.Body != nil {
						ast.Inspect(cf.Decl.Body, func(j ast.Node) bool {
							if _, ok := j.(*ast.TypeSwitchStmt); ok {
								if v, ok := rs.Value.(*ast.Ident); ok {
									for _, a := range call.Args {
										if id, ok := ast.Unparen(a).(*ast.Ident); ok && info.ObjectOf(id) == info.ObjectOf(v) {
											loop = rs
										}
									}
								}
							}
							return true
						})
					}
				}
			}
			return true
		})
		return true
	})
	if loop == nil {
		c.Unresolved("R04a", key+": statement loop")
		return
	}
	lv, _ := loop.X.(*ast.Ident)
	if lv == nil {
		c.Unresolved("R04a", key+": loop ranges over a plain variable")
		return
	}
	listObj := info.ObjectOf(lv)
	mk := func(name string) nodePred {
		return func(n ast.Node) bool {
			as, ok := n.(*ast.AssignStmt)
			if !ok || len(as.Rhs) != 1 {
				return false
			}
			call, ok := as.Rhs[0].(*ast.CallExpr)
			if !ok {
				return false
			}
			fn := calleeOf(info, call)
			if fn == nil || !c.forwardsTo(fn, pSqlx, name) || len(call.Args) == 0 {
				return false
			}
			a, ok1 := call.Args[0].(*ast.Ident)
			l, ok2 := as.Lhs[0].(*ast.Ident)
			return ok1 && ok2 && info.ObjectOf(a) == listObj && info.ObjectOf(l) == listObj
		}
	}
	isDetach, isSort := mk("DetachCycles"), mk("SortChanges")
	// the two steps may live in a package-local ordering helper: list, err = s.ordered(list)
	isOrdered := func(n ast.Node) bool {
		as, ok := n.(*ast.AssignStmt)
		if !ok || len(as.Rhs) != 1 {
			return false
		}
		call, ok := as.Rhs[0].(*ast.CallExpr)
		if !ok || len(call.Args) == 0 {
			return false
		}
		fn := calleeOf(info, call)
		if fn == nil || fn.Pkg() == nil || fn.Pkg().Path() != pp {
			return false
		}
		l, ok2 := as.Lhs[0].(*ast.Ident)
		if !ok2 || info.ObjectOf(l) != listObj {
			return false
		}
		ai := -1
		for i, a := range call.Args {
			if id, ok := ast.Unparen(a).(*ast.Ident); ok && info.ObjectOf(id) == listObj {
				ai = i
			}
		}
		return ai >= 0 && orderingHelperOK(c, fn, ai)
	}
	if len(f.find(isOrdered)) == 1 && len(f.find(isDetach)) == 0 && len(f.find(isSort)) == 0 {
		c.Check("R04a", key+"|has DetachCycles(list)→list", fi.Decl.Pos(), true, "")
		c.Check("R04a", key+"|has SortChanges(list)→list", fi.Decl.Pos(), true, "")
		head := func(b *cfg.Block) bool { return b.Kind == cfg.KindRangeLoop && b.Stmt == ast.Stmt(loop) }
		bypass := f.reachBlock([]point{f.entry()}, isOrdered, head)
		c.Check("R04a", key+"|SortChanges dominates the statement loop", loop.Pos(), !bypass, "the statement loop is reachable without the ordering helper")
		c.Check("R04a", key+"|DetachCycles dominates the statement loop", loop.Pos(), !bypass, "the statement loop is reachable without the ordering helper")
		c.Check("R04a", key+"|DetachCycles≺SortChanges", fi.Decl.Pos(), true, "")
		return
	}
	isLoopHead := func(b *cfg.Block) bool { return b.Kind == cfg.KindRangeLoop && b.Stmt == ast.Stmt(loop) }
	unsorted := func(b *cfg.Block, si int) bool {
		return edgeImplies(b, si, func(e ast.Expr, val bool) bool {
			be, ok := e.(*ast.BinaryExpr)
			if !ok {
				return false
			}
			isMode := strings.HasSuffix(types.ExprString(be.X), ".Mode") && strings.HasSuffix(types.ExprString(be.Y), "PlanModeUnsortedDump")
			return isMode && ((be.Op == token.NEQ && !val) || (be.Op == token.EQL && val))
		})
	}
	c.Check("R04a", key+"|has DetachCycles(list)→list", fi.Decl.Pos(), len(f.find(isDetach)) == 1, "plan() must assign the result of DetachCycles on the change list back to the list the statement loop ranges over")
	c.Check("R04a", key+"|has SortChanges(list)→list", fi.Decl.Pos(), len(f.find(isSort)) == 1, "plan() must assign the result of SortChanges on the change list back to the list the statement loop ranges over")
	// loop reachable without sort (except via the unsorted-dump edge)?
	reachLoopAvoiding := func(stop nodePred) bool {
		seen := map[point]bool{}
		st := []point{f.entry()}
		for len(st) > 0 {
			pt := st[len(st)-1]
			st = st[:len(st)-1]
			if seen[pt] {
				continue
			}
			seen[pt] = true
			if isLoopHead(pt.b) && pt.i == 0 {
				return true
			}
			stopped := false
			for j := pt.i; j < len(pt.b.Nodes); j++ {
				if stop(pt.b.Nodes[j]) || isReturn(pt.b.Nodes[j]) {
					stopped = true
					break
				}
			}
			if stopped {
				continue
			}
			for si, s := range pt.b.Succs {
				if unsorted(pt.b, si) {
					continue
				}
				st = append(st, point{s, 0})
			}
		}
		return false
	}
	c.Check("R04a", key+"|SortChanges dominates the statement loop", loop.Pos(), !reachLoopAvoiding(isSort), "the statement loop is reachable without SortChanges on a path that is not the unsorted-dump mode")
	c.Check("R04a", key+"|DetachCycles dominates the statement loop", loop.Pos(), !reachLoopAvoiding(isDetach), "the statement loop is reachable without DetachCycles on a path that is not the unsorted-dump mode")
	n, ok := f.mustPrecede(isDetach, isSort)
	c.Check("R04a", key+"|DetachCycles≺SortChanges", nodePos(n, fi.Decl.Pos()), ok, "SortChanges runs before DetachCycles: sorting a cyclic change set first leaves the detached foreign keys unordered")
}

func checkDependsOnOrientation(c *Ctx) {
	fi := c.Func("R04b", pSqlx, "", "dependsOn")
	if fi == nil {
		return
	}
	info := fi.Info()
	ps := fi.Decl.Type.Params.List
	if len(ps) < 1 || len(ps[0].Names) < 2 {
		c.Unresolved("R04b", "dependsOn(c1, c2 …) parameters")
		return
	}
	p1, p2 := info.ObjectOf(ps[0].Names[0]), info.ObjectOf(ps[0].Names[1])
	// origin: implicit objects of type switches → the parameter they narrow
	origin := map[types.Object]types.Object{p1: p1, p2: p2}
	ast.Inspect(fi.Decl.Body, func(m ast.Node) bool {
		ts, ok := m.(*ast.TypeSwitchStmt)
		if !ok {
			return true
		}
		as, ok := ts.Assign.(*ast.AssignStmt)
		if !ok {
			return true
		}
		ta, ok := as.Rhs[0].(*ast.TypeAssertExpr)
		if !ok {
			return true
		}
		id, ok := ta.X.(*ast.Ident)
		if !ok {
			return true
		}
		src := origin[info.ObjectOf(id)]
		if src == nil {
			return true
		}
		for _, cl := range ts.Body.List {
			if o := info.Implicits[cl]; o != nil {
				origin[o] = src
			}
		}
		return true
	})
	// outer switch over c1
	var outer *ast.TypeSwitchStmt
	for _, st := range fi.Decl.Body.List {
		if ts, ok := st.(*ast.TypeSwitchStmt); ok {
			if as, ok := ts.Assign.(*ast.AssignStmt); ok {
				if ta, ok := as.Rhs[0].(*ast.TypeAssertExpr); ok {
					if id, ok := ta.X.(*ast.Ident); ok && info.ObjectOf(id) == p1 {
						outer = ts
					}
				}
			}
		}
	}
	if outer == nil {
		c.Unresolved("R04b", "dependsOn: type switch over the depending change")
		return
	}
	for _, cl := range outer.Body.List {
		cc := cl.(*ast.CaseClause)
		if len(cc.List) != 1 {
			continue
		}
		ctxName := ""
		if n := namedOf(info.TypeOf(cc.List[0])); n != nil {
			ctxName = n.Obj().Name()
		}
		var want types.Object // whose table must be tested
		switch ctxName {
		case "AddTable", "ModifyTable":
			want = p2
		case "DropTable":
			want = p1
		default:
			continue
		}
		n := 0
		for _, st := range cc.Body {
			ast.Inspect(st, func(m ast.Node) bool {
				call, ok := m.(*ast.CallExpr)
				if !ok || len(call.Args) != 2 {
					return true
				}
				fn := calleeOf(info, call)
				if !funcIs(fn, pSqlx, "", "refTo") && !funcIs(fn, pSqlx, "", "typeDependsOnT") {
					return true
				}
				se, ok := call.Args[1].(*ast.SelectorExpr)
				if !ok || se.Sel.Name != "T" {
					return true
				}
				id, ok := se.X.(*ast.Ident)
				if !ok {
					return true
				}
				got := origin[info.ObjectOf(id)]
				n++
				who := "the other change's"
				if want == p1 {
					who = "the depending change's"
				}
				c.Check("R04b", "dependsOn|case "+ctxName+"|"+fn.Name()+"#"+itoa(n), call.Pos(), got == want, "in the %s context %s must be tested against %s table (got %s)", ctxName, fn.Name(), who, types.ExprString(call.Args[1]))
				return true
			})
		}
	}
}

func checkDetachPartition(c *Ctx) {
	fi := c.Func("R04c", pSqlx, "", "detachReferences")
	if fi == nil {
		return
	}
	info := fi.Info()
	// result: append(early, late...)
	var early, late types.Object
	for _, st := range fi.Decl.Body.List {
		r, ok := st.(*ast.ReturnStmt)
		if !ok || len(r.Results) != 1 {
			continue
		}
		call, ok := r.Results[0].(*ast.CallExpr)
		if !ok || builtinName(info, call) != "append" || len(call.Args) != 2 || !call.Ellipsis.IsValid() {
			continue
		}
		a, ok1 := call.Args[0].(*ast.Ident)
		b, ok2 := call.Args[1].(*ast.Ident)
		if ok1 && ok2 {
			early, late = info.ObjectOf(a), info.ObjectOf(b)
		}
	}
	c.Check("R04c", "detachReferences|returns early followed by late", fi.Decl.Pos(), early != nil && late != nil && early != late, "detachReferences must return append(planned, deferred...)")
	if early == nil || late == nil {
		return
	}
	var sw *ast.TypeSwitchStmt
	ast.Inspect(fi.Decl.Body, func(m ast.Node) bool {
		if ts, ok := m.(*ast.TypeSwitchStmt); ok && sw == nil {
			sw = ts
		}
		return true
	})
	if sw == nil {
		c.Unresolved("R04c", "detachReferences: type switch over the changes")
		return
	}
	// kinds appended to the early / late lists inside a case clause; values coming out of package-local
	// helpers are resolved through the helpers' return statements (kindResolver)
	kr := &kindResolver{c: c}
	kindsOf := func(body []ast.Stmt) map[types.Object]map[string]bool {
		out := map[types.Object]map[string]bool{}
		for _, st := range body {
			ast.Inspect(st, func(m ast.Node) bool {
				as, ok := m.(*ast.AssignStmt)
				if !ok || len(as.Rhs) != 1 {
					return true
				}
				call, ok := as.Rhs[0].(*ast.CallExpr)
				if !ok || builtinName(info, call) != "append" || len(call.Args) < 2 {
					return true
				}
				l, ok := as.Lhs[0].(*ast.Ident)
				if !ok {
					return true
				}
				lo := info.ObjectOf(l)
				for _, a := range call.Args[1:] {
					for k := range kr.kinds(fi, a, 0) {
						if out[lo] == nil {
							out[lo] = map[string]bool{}
						}
						out[lo][k] = true
					}
				}
				return true
			})
		}
		return out
	}
	// the function (and statement list) that holds the loop over the table's foreign keys: the clause itself or a helper it calls
	fkLoopCtx := func(cc *ast.CaseClause) (*FuncInfo, []ast.Stmt) {
		has := func(inf *types.Info, body []ast.Stmt) bool {
			hit := false
			for _, st := range body {
				ast.Inspect(st, func(m ast.Node) bool {
					if rs, ok := m.(*ast.RangeStmt); ok && isField(inf, rs.X, pSchema, "Table", "ForeignKeys") {
						hit = true
					}
					return true
				})
			}
			return hit
		}
		if has(info, cc.Body) {
			return fi, cc.Body
		}
		for _, st := range cc.Body {
			for _, call := range callsIn(st, true) {
				if fn := calleeOf(info, call); fn != nil && fn.Pkg() != nil && fn.Pkg().Path() == pSqlx {
					if cf := c.FuncInfoOf(fn); cf != nil && cf.Decl.Body != nil && has(cf.Info(), cf.Decl.Body.List) {
						return cf, cf.Decl.Body.List
					}
				}
			}
		}
		return fi, cc.Body
	}
	for _, cl := range sw.Body.List {
		cc := cl.(*ast.CaseClause)
		if len(cc.List) != 1 {
			continue
		}
		n := namedOf(info.TypeOf(cc.List[0]))
		if n == nil {
			continue
		}
		ks := kindsOf(cc.Body)
		e, l := ks[early], ks[late]
		switch n.Obj().Name() {
		case "AddTable":
			c.Check("R04c", "detachReferences|AddTable→early, its foreign keys→late", cc.Pos(), e["AddTable"] && !l["AddTable"] && l["ModifyTable[AddForeignKey]"] && !e["ModifyTable[AddForeignKey]"], "table creations must go to the early list and the detached AddForeignKey changes to the late list (early=%v late=%v)", keys(e), keys(l))
			// t.ForeignKeys = <self list> (not the original)
			lf, lbody := fkLoopCtx(cc)
			linfo := lf.Info()
			okCopy := false
			for _, rhs := range fkAssignments(c, linfo, lbody) {
				if id, ok := ast.Unparen(rhs).(*ast.Ident); ok {
					// the variable holding only self references: appended under fk.RefTable == change.T
					okCopy = linfo.ObjectOf(id) != nil && !isNilIdent(linfo, id) && onlySelfRefsAppended(linfo, lbody, linfo.ObjectOf(id))
				}
			}
			if !okCopy && lf != fi {
				// the loop lives in a helper: the store is in the clause, its value one of the helper's results
				for _, rhs := range fkAssignments(c, info, cc.Body) {
					if id, ok := ast.Unparen(rhs).(*ast.Ident); ok && !isNilIdent(info, id) {
						if hf, hobj := resultObjOf(c, fi, info.ObjectOf(id)); hf != nil && hobj != nil && hf.Decl == lf.Decl {
							okCopy = onlySelfRefsAppended(linfo, lbody, hobj)
						}
					}
				}
			}
			c.Check("R04c", "detachReferences|AddTable copy keeps only self references", cc.Pos(), okCopy, "the planned copy of a detached table must have its ForeignKeys replaced by the self-referencing ones (an FK kept inline points at a table that may not exist yet)")
			// each FK goes to exactly one of the two lists
			checkFKSplit(c, linfo, lbody, cc.Pos())
		case "DropTable":
			c.Check("R04c", "detachReferences|DropTable→late, its foreign keys→early", cc.Pos(), l["DropTable"] && !e["DropTable"] && e["ModifyTable[DropForeignKey]"] && !l["ModifyTable[DropForeignKey]"], "table drops must go to the late list and the detached DropForeignKey changes to the early list (early=%v late=%v)", keys(e), keys(l))
			lf, lbody := fkLoopCtx(cc)
			linfo := lf.Info()
			okNil := false
			for _, rhs := range append(fkAssignments(c, linfo, lbody), fkAssignments(c, info, cc.Body)...) {
				if isNilIdent(linfo, rhs) {
					okNil = true
				}
			}
			c.Check("R04c", "detachReferences|DropTable copy has no foreign keys", cc.Pos(), okNil, "the planned copy of a dropped table must have its ForeignKeys cleared")
		case "ModifyTable":
			c.Check("R04c", "detachReferences|ModifyTable: AddForeignKey→late, rest→early", cc.Pos(), l["ModifyTable[AddForeignKey]"] && !e["ModifyTable[AddForeignKey]"] && e["ModifyTable"], "foreign keys added to an existing table must go to the late list, the other changes to the early list (early=%v late=%v)", keys(e), keys(l))
		}
	}
}

// kindResolver computes which schema change kinds an expression can denote, looking through
// local variables, `append` accumulation and the results of package-local helper functions.
// A ModifyTable whose Changes hold kind K is reported as "ModifyTable[K]" (and "ModifyTable").
type kindResolver struct {
	c    *Ctx
	busy map[string]bool
	pms  map[*ast.FuncDecl]map[ast.Node]ast.Node
}

func (kr *kindResolver) kinds(fi *FuncInfo, e ast.Expr, depth int) map[string]bool {
	out := map[string]bool{}
	if depth > 4 || e == nil {
		return out
	}
	info := fi.Info()
	e = ast.Unparen(e)
	add := func(m map[string]bool) {
		for k := range m {
			out[k] = true
		}
	}
	switch x := e.(type) {
	case *ast.UnaryExpr:
		if x.Op == token.AND {
			add(kr.kinds(fi, x.X, depth))
		}
	case *ast.CompositeLit:
		n := namedOf(info.TypeOf(x))
		if n == nil || n.Obj().Pkg() == nil || n.Obj().Pkg().Path() != pSchema {
			return out
		}
		out[n.Obj().Name()] = true
		if n.Obj().Name() == "ModifyTable" {
			for _, el := range x.Elts {
				if kv, ok := el.(*ast.KeyValueExpr); ok {
					if k, ok := kv.Key.(*ast.Ident); ok && k.Name == "Changes" {
						for kk := range kr.elemKinds(fi, kv.Value, depth+1) {
							out["ModifyTable["+kk+"]"] = true
						}
					}
				}
			}
		}
	case *ast.Ident:
		obj := info.ObjectOf(x)
		if obj == nil {
			return out
		}
		// every definition of the variable in this function
		found := false
		ast.Inspect(fi.Decl.Body, func(m ast.Node) bool {
			as, ok := m.(*ast.AssignStmt)
			if !ok {
				return true
			}
			for i, l := range as.Lhs {
				id, ok := l.(*ast.Ident)
				if !ok || info.ObjectOf(id) != obj {
					continue
				}
				found = true
				if len(as.Rhs) == len(as.Lhs) {
					if r := ast.Unparen(as.Rhs[i]); r != e {
						add(kr.kinds(fi, r, depth+1))
					}
				} else if call, ok := ast.Unparen(as.Rhs[0]).(*ast.CallExpr); ok {
					add(kr.resultKinds(fi, call, i, depth+1))
				}
			}
			return true
		})
		// a type-switch binding, range variable or parameter: its static type is the kind
		if !found || len(out) == 0 {
			if n := namedOf(info.TypeOf(x)); n != nil && n.Obj().Pkg() != nil && n.Obj().Pkg().Path() == pSchema {
				if _, isIface := n.Underlying().(*types.Interface); !isIface {
					out[n.Obj().Name()] = true
				} else {
					// an interface-typed variable used in the true branch of `if _, ok := v.(*T); ok`: its kind is T
					if kr.pms == nil {
						kr.pms = map[*ast.FuncDecl]map[ast.Node]ast.Node{}
					}
					pm := kr.pms[fi.Decl]
					if pm == nil {
						pm = parentMap(fi.Decl)
						kr.pms[fi.Decl] = pm
					}
					for p := pm[x]; p != nil; p = pm[p] {
						ifs, ok := p.(*ast.IfStmt)
						if !ok || !(ifs.Body.Pos() <= x.Pos() && x.End() <= ifs.Body.End()) {
							continue
						}
						for _, part := range []ast.Node{ifs.Init, ifs.Cond} {
							if part == nil || reflect.ValueOf(part).IsNil() {
								continue
							}
							ast.Inspect(part, func(k ast.Node) bool {
								ta, ok := k.(*ast.TypeAssertExpr)
								if !ok || ta.Type == nil {
									return true
								}
								if id, ok := ast.Unparen(ta.X).(*ast.Ident); ok && info.ObjectOf(id) == obj {
									if tn := namedOf(info.TypeOf(ta.Type)); tn != nil && tn.Obj().Pkg() != nil && tn.Obj().Pkg().Path() == pSchema {
										out[tn.Obj().Name()] = true
									}
								}
								return true
							})
						}
					}
				}
			}
		}
	case *ast.CallExpr:
		add(kr.resultKinds(fi, x, 0, depth+1))
	}
	return out
}

// resultKinds: kinds of the i-th result of a call to a package-local function.
func (kr *kindResolver) resultKinds(fi *FuncInfo, call *ast.CallExpr, i, depth int) map[string]bool {
	out := map[string]bool{}
	fn := calleeOf(fi.Info(), call)
	if fn == nil || fn.Pkg() == nil || !strings.HasPrefix(fn.Pkg().Path(), modRoot) {
		return out
	}
	cf := kr.c.FuncInfoOf(fn)
	if cf == nil || cf.Decl.Body == nil || depth > 4 {
		return out
	}
	ast.Inspect(cf.Decl.Body, func(m ast.Node) bool {
		if _, isLit := m.(*ast.FuncLit); isLit {
			return false
		}
		if r, ok := m.(*ast.ReturnStmt); ok && i < len(r.Results) {
			for k := range kr.kinds(cf, r.Results[i], depth+1) {
				out[k] = true
			}
		}
		return true
	})
	return out
}

// elemKinds: kinds of the elements a slice-valued expression can hold (append accumulation).
func (kr *kindResolver) elemKinds(fi *FuncInfo, e ast.Expr, depth int) map[string]bool {
	out := map[string]bool{}
	info := fi.Info()
	id, ok := ast.Unparen(e).(*ast.Ident)
	if !ok || depth > 4 {
		return out
	}
	obj := info.ObjectOf(id)
	ast.Inspect(fi.Decl.Body, func(m ast.Node) bool {
		as, ok := m.(*ast.AssignStmt)
		if !ok || len(as.Rhs) != 1 || len(as.Lhs) != 1 {
			return true
		}
		l, ok := as.Lhs[0].(*ast.Ident)
		if !ok || info.ObjectOf(l) != obj {
			return true
		}
		if call, ok := as.Rhs[0].(*ast.CallExpr); ok && builtinName(info, call) == "append" {
			for _, a := range call.Args[1:] {
				for k := range kr.kinds(fi, a, depth+1) {
					out[k] = true
				}
			}
		}
		return true
	})
	// a list produced by a package-local helper (ext, self := split(t)): the kinds the helper puts into that result
	if hf, hobj := resultObjOf(kr.c, fi, obj); hf != nil && hobj != nil {
		var hid *ast.Ident
		ast.Inspect(hf.Decl, func(m ast.Node) bool {
			if x, ok := m.(*ast.Ident); ok && hf.Info().ObjectOf(x) == hobj && hid == nil {
				hid = x
			}
			return hid == nil
		})
		if hid != nil {
			for k := range kr.elemKinds(hf, hid, depth+1) {
				out[k] = true
			}
		}
	}
	return out
}

// resultObjOf: obj is defined once, in fi, from the i-th result of a call of a module-local function; returns that
// function and the variable that holds its i-th result (the named result, or the identifier every return hands back).
func resultObjOf(c *Ctx, fi *FuncInfo, obj types.Object) (*FuncInfo, types.Object) {
	info := fi.Info()
	var call *ast.CallExpr
	idx, defs := 0, 0
	ast.Inspect(fi.Decl.Body, func(m ast.Node) bool {
		as, ok := m.(*ast.AssignStmt)
		if !ok {
			return true
		}
		for i, l := range as.Lhs {
			if id, ok := l.(*ast.Ident); ok && info.ObjectOf(id) == obj {
				defs++
				if len(as.Rhs) == 1 {
					if cl, ok := ast.Unparen(as.Rhs[0]).(*ast.CallExpr); ok {
						call, idx = cl, i
					}
				}
			}
		}
		return true
	})
	if defs != 1 || call == nil {
		return nil, nil
	}
	fn := calleeOf(info, call)
	if fn == nil || fn.Pkg() == nil || !strings.HasPrefix(fn.Pkg().Path(), modRoot) {
		return nil, nil
	}
	hf := c.FuncInfoOf(fn)
	if hf == nil || hf.Decl.Body == nil || hf.Decl.Type.Results == nil {
		return nil, nil
	}
	hinfo := hf.Info()
	// named result
	k := 0
	for _, fld := range hf.Decl.Type.Results.List {
		if len(fld.Names) == 0 {
			k++
			continue
		}
		for _, nm := range fld.Names {
			if k == idx {
				return hf, hinfo.ObjectOf(nm)
			}
			k++
		}
	}
	// the identifier returned at that position by every return statement
	var ret types.Object
	same := true
	ast.Inspect(hf.Decl.Body, func(m ast.Node) bool {
		if _, isLit := m.(*ast.FuncLit); isLit {
			return false
		}
		if r, ok := m.(*ast.ReturnStmt); ok && idx < len(r.Results) {
			id, ok := ast.Unparen(r.Results[idx]).(*ast.Ident)
			if !ok {
				same = false
				return true
			}
			o := hinfo.ObjectOf(id)
			if ret != nil && ret != o {
				same = false
			}
			ret = o
		}
		return true
	})
	if !same {
		return nil, nil
	}
	return hf, ret
}

// checkFKSplit: in the AddTable case the loop over the table's foreign keys
// appends each key to exactly one list (if/else).
func checkFKSplit(c *Ctx, info *types.Info, body []ast.Stmt, pos token.Pos) {
	ok := false
	for _, st := range body {
		rs, isRange := st.(*ast.RangeStmt)
		if !isRange || !isField(info, rs.X, pSchema, "Table", "ForeignKeys") {
			continue
		}
		if len(rs.Body.List) == 1 {
			if ifs, isIf := rs.Body.List[0].(*ast.IfStmt); isIf && ifs.Else != nil {
				thenApp := countAppends(info, ifs.Body)
				elseApp := 0
				if b, isB := ifs.Else.(*ast.BlockStmt); isB {
					elseApp = countAppends(info, b)
				}
				ok = thenApp == 1 && elseApp == 1
			}
		}
	}
	c.Check("R04c", "detachReferences|every foreign key goes to exactly one list", pos, ok, "the loop over the table's foreign keys must put each key into exactly one of {kept inline, deferred}")
}

func countAppends(info *types.Info, b *ast.BlockStmt) int {
	n := 0
	ast.Inspect(b, func(m ast.Node) bool {
		if call, ok := m.(*ast.CallExpr); ok && builtinName(info, call) == "append" {
			n++
		}
		return true
	})
	return n
}

func checkSortMap(c *Ctx) {
	fi := c.Func("R04d", pSqlx, "", "sortMap")
	if fi != nil {
		info := fi.Info()
		// the recursive visit: a closure assigned in sortMap, or a package-local function/method that calls itself
		var visit *ast.FuncLit
		var visitFn *types.Func
		ast.Inspect(fi.Decl.Body, func(m ast.Node) bool {
			if as, ok := m.(*ast.AssignStmt); ok && len(as.Rhs) == 1 {
				if fl, ok := as.Rhs[0].(*ast.FuncLit); ok && visit == nil {
					visit = fl
				}
			}
			return true
		})
		if visit == nil {
			for _, call := range callsIn(fi.Decl.Body, true) {
				fn := calleeOf(info, call)
				if fn == nil || fn.Pkg() == nil || fn.Pkg().Path() != pSqlx {
					continue
				}
				cf := c.FuncInfoOf(fn)
				if cf == nil || cf.Decl.Body == nil {
					continue
				}
				for _, inner := range callsIn(cf.Decl.Body, true) {
					if calleeOf(cf.Info(), inner) == fn {
						visitFn = fn
						visit = &ast.FuncLit{Type: cf.Decl.Type, Body: cf.Decl.Body}
						info = cf.Info()
					}
				}
			}
		}
		if visit == nil {
			c.Unresolved("R04d", "sortMap: the recursive visit (closure or package-local function)")
		} else {
			f := newFlow(info, visit.Body)
			isMark := func(n ast.Node) bool { // progress[name] = true
				as, ok := n.(*ast.AssignStmt)
				if !ok || len(as.Lhs) != 1 {
					return false
				}
				ix, ok := as.Lhs[0].(*ast.IndexExpr)
				if !ok {
					return false
				}
				tv := info.Types[as.Rhs[0]]
				return tv.Value != nil && tv.Value.String() == "true" && ix != nil
			}
			isRecurse := func(n ast.Node) bool {
				hit := false
				walkShallow(n, func(m ast.Node) bool {
					if call, ok := m.(*ast.CallExpr); ok && visitFn != nil {
						// named visit: a call of that function (from its own body or from sortMap)
						if calleeOf(info, call) == visitFn || calleeOf(fi.Info(), call) == visitFn {
							hit = true
						}
						return true
					}
					if call, ok := m.(*ast.CallExpr); ok {
						if id, ok := call.Fun.(*ast.Ident); ok && id.Name != "" && calleeOf(info, call) == nil && builtinName(info, call) == "" {
							if _, isSig := info.TypeOf(id).Underlying().(*types.Signature); isSig {
								hit = true
							}
						}
					}
					return true
				})
				return hit
			}
			isAssignPos := func(n ast.Node) bool { // sorted[name] = len(sorted)
				as, ok := n.(*ast.AssignStmt)
				if !ok || len(as.Lhs) != 1 {
					return false
				}
				if _, ok := as.Lhs[0].(*ast.IndexExpr); !ok {
					return false
				}
				return lenArg(info, as.Rhs[0]) != nil
			}
			n, ok := f.mustPrecede(isMark, isRecurse)
			c.Check("R04d", "sortMap.visit|in-progress mark precedes the recursive visits", nodePos(n, visit.Pos()), ok, "dependencies are visited before the node is marked in progress: a cycle would recurse forever")
			// a position is assigned only after the dependency loop: the assignment must not be able to reach a recursive visit
			bad := false
			for _, ap := range f.find(isAssignPos) {
				if _, found := f.reach([]point{after(ap)}, nil, isRecurse, false); found {
					bad = true
				}
			}
			c.Check("R04d", "sortMap.visit|position assigned after all dependencies", visit.Pos(), !bad && len(f.find(isAssignPos)) == 1, "a node must receive its position only after all its dependencies were visited (reverse topological order)")
			// in-progress hit returns true (cycle)
			cyc := false
			ast.Inspect(visit.Body, func(m ast.Node) bool {
				ifs, ok := m.(*ast.IfStmt)
				if !ok {
					return true
				}
				if ix, ok := ifs.Cond.(*ast.IndexExpr); ok && ix != nil {
					for _, st := range ifs.Body.List {
						if r, ok := st.(*ast.ReturnStmt); ok && len(r.Results) == 1 {
							if tv := info.Types[r.Results[0]]; tv.Value != nil && tv.Value.String() == "true" {
								cyc = true
							}
						}
					}
				}
				return true
			})
			c.Check("R04d", "sortMap.visit|meeting an in-progress node reports a cycle", visit.Pos(), cyc, "visiting a node that is in progress must report a cycle")
			// every node is a root: the loops that call visit run to completion unless a cycle is reported
			nLoops := 0
			loopBodies := []ast.Node{fi.Decl.Body}
			if visitFn != nil {
				loopBodies = append(loopBodies, visit.Body)
			}
			for _, lb := range loopBodies {
				ast.Inspect(lb, func(m ast.Node) bool {
					rs, isRange := m.(*ast.RangeStmt)
					if !isRange {
						return true
					}
					callsVisit := false
					for _, st := range rs.Body.List {
						walkShallow(st, func(k ast.Node) bool {
							if isRecurse(k) {
								callsVisit = true
							}
							return true
						})
						if ifs, ok := st.(*ast.IfStmt); ok && isRecurse(ifs.Cond) {
							callsVisit = true
						}
					}
					if !callsVisit {
						return true
					}
					nLoops++
					where := "root loop"
					if rs.Pos() > visit.Body.Pos() && rs.End() < visit.Body.End() {
						where = "dependency loop"
					}
					early := ""
					var scan func(n ast.Node, depth int)
					scan = func(n ast.Node, depth int) {
						ast.Inspect(n, func(k ast.Node) bool {
							switch x := k.(type) {
							case *ast.FuncLit:
								return false
							case *ast.ForStmt, *ast.RangeStmt, *ast.SwitchStmt, *ast.TypeSwitchStmt, *ast.SelectStmt:
								if k != n {
									// break/continue inside a nested breakable statement: only labelled ones or `continue` in switch leave our loop
									ast.Inspect(k, func(j ast.Node) bool {
										if b, ok := j.(*ast.BranchStmt); ok && (b.Label != nil || b.Tok == token.CONTINUE && !isLoop(k)) {
											early = c.pos(b.Pos()) + " " + b.Tok.String()
										}
										return true
									})
									return false
								}
							case *ast.BranchStmt:
								if x.Tok == token.BREAK || x.Tok == token.CONTINUE || x.Tok == token.GOTO {
									early = c.pos(x.Pos()) + " " + x.Tok.String()
								}
							}
							return true
						})
					}
					scan(rs.Body, 0)
					c.Check("R04d", "sortMap|"+where+" visits every node", rs.Pos(), early == "", "the %s of sortMap can be left early (%s): nodes after that point are never visited, so a cycle among them is not detected and they get no position", where, early)
					return true
				})
			}
			if nLoops < 2 {
				c.Unresolved("R04d", "sortMap: the two loops that call visit (roots, dependencies)")
			}
		}
	}
	if df := c.Func("R04d", pSqlx, "", "DetachCycles"); df != nil {
		info := df.Info()
		ok := false
		isCycleTest := func(e ast.Expr) bool {
			e = ast.Unparen(e)
			if call, isCall := e.(*ast.CallExpr); isCall {
				if fn := calleeOf(info, call); fn != nil && fn.Pkg() != nil && fn.Pkg().Path() == "errors" && fn.Name() == "Is" && len(call.Args) == 2 {
					if id, isID := call.Args[1].(*ast.Ident); isID && id.Name == "errCycle" {
						return true
					}
				}
			}
			if be, isBin := e.(*ast.BinaryExpr); isBin && be.Op == token.EQL {
				for _, x := range []ast.Expr{be.X, be.Y} {
					if id, isID := ast.Unparen(x).(*ast.Ident); isID && id.Name == "errCycle" {
						return true
					}
				}
			}
			return false
		}
		ast.Inspect(df.Decl.Body, func(m ast.Node) bool {
			switch x := m.(type) {
			case *ast.IfStmt:
				if isCycleTest(x.Cond) && nodeHasCall(info, x.Body, isCallTo(pSqlx, "", "detachReferences")) != nil {
					ok = true
				}
			case *ast.CaseClause:
				for _, e := range x.List {
					if isCycleTest(e) {
						for _, st := range x.Body {
							if nodeHasCall(info, st, isCallTo(pSqlx, "", "detachReferences")) != nil {
								ok = true
							}
						}
					}
				}
			}
			return true
		})
		c.Check("R04d", "DetachCycles|detaches exactly on errCycle", df.Decl.Pos(), ok, "DetachCycles must fall back to detachReferences when sortMap reports errCycle")
	}
}

func checkDependencyEdges(c *Ctx) {
	fi := c.Func("R04e", pSqlx, "", "dependencies")
	if fi == nil {
		return
	}
	info := fi.Info()
	pm := parentMap(fi.Decl.Body)
	n := 0
	ast.Inspect(fi.Decl.Body, func(m ast.Node) bool {
		as, ok := m.(*ast.AssignStmt)
		if !ok || len(as.Lhs) != 1 || len(as.Rhs) != 1 {
			return true
		}
		ix, ok := as.Lhs[0].(*ast.IndexExpr)
		if !ok {
			return true
		}
		call, ok := as.Rhs[0].(*ast.CallExpr)
		if !ok || builtinName(info, call) != "append" || len(call.Args) != 2 {
			return true
		}
		n++
		// locals defined once from a selector chain (parent := fk.RefTable) are read as what they stand for
		var expand func(e ast.Expr) string
		expand = func(e ast.Expr) string {
			switch x := ast.Unparen(e).(type) {
			case *ast.Ident:
				obj := info.ObjectOf(x)
				var defs []ast.Expr
				ast.Inspect(fi.Decl.Body, func(k ast.Node) bool {
					if das, ok := k.(*ast.AssignStmt); ok && len(das.Lhs) == len(das.Rhs) {
						for di, dl := range das.Lhs {
							if did, ok := dl.(*ast.Ident); ok && info.ObjectOf(did) == obj {
								defs = append(defs, das.Rhs[di])
							}
						}
					}
					return true
				})
				if len(defs) == 1 {
					if _, isSel := ast.Unparen(defs[0]).(*ast.SelectorExpr); isSel {
						return expand(defs[0])
					}
				}
				return x.Name
			case *ast.SelectorExpr:
				return expand(x.X) + "." + x.Sel.Name
			}
			return types.ExprString(e)
		}
		key, val := expand(ix.Index), expand(call.Args[1])
		// facts established by the enclosing if-branches
		var facts []fact
		var child ast.Node = as
		for p := pm[as]; p != nil; child, p = p, pm[p] {
			if _, isLit := p.(*ast.FuncLit); isLit {
				break
			}
			if i, ok := p.(*ast.IfStmt); ok {
				switch child {
				case ast.Node(i.Body):
					facts = append(facts, impliedFacts(i.Cond, true)...)
				case i.Else:
					facts = append(facts, impliedFacts(i.Cond, false)...)
				}
			}
		}
		if len(facts) == 0 {
			c.Check("R04e", "dependencies|edge "+key+" ← "+val, as.Pos(), false, "dependency edge added unconditionally")
			return true
		}
		cond := ""
		for _, f := range facts {
			cond += types.ExprString(f.expr) + " "
		}
		ok2 := false
		keySel, _ := ast.Unparen(ix.Index).(*ast.SelectorExpr)
		switch {
		case isField(info, call.Args[1], pSchema, "ForeignKey", "RefTable"):
			// add-edge K = E.Name ← F.RefTable: some fact says F.RefTable != E
			if keySel != nil && keySel.Sel.Name == "Name" && typeIs(derefType(info.TypeOf(keySel.X)), pSchema, "Table") {
				e := expand(keySel.X)
				for _, f := range facts {
					be, ok := ast.Unparen(f.expr).(*ast.BinaryExpr)
					if !ok || !(be.Op == token.NEQ && f.val || be.Op == token.EQL && !f.val) {
						continue
					}
					x, y := expand(be.X), expand(be.Y)
					if x == val && y == e || y == val && x == e {
						ok2 = true
					}
				}
			}
		case isField(info, call.Args[1], pSchema, "ForeignKey", "Table"):
			// drop-edge K = F.RefTable.Name ← F.Table: some fact says isDropped(…, F.RefTable)
			fk := strings.TrimSuffix(val, ".Table")
			if key == fk+".RefTable.Name" {
				for _, f := range facts {
					if cl, ok := ast.Unparen(f.expr).(*ast.CallExpr); ok && f.val && funcIs(calleeOf(info, cl), pSqlx, "", "isDropped") && len(cl.Args) == 2 && expand(cl.Args[1]) == fk+".RefTable" {
						ok2 = true
					}
				}
			}
		}
		c.Check("R04e", "dependencies|edge "+key+" ← "+val, as.Pos(), ok2, "the dependency edge %s ← %s is guarded by `%s`, which does not test the same foreign key end: self references are not skipped / real references are dropped from the cycle detection graph", key, val, cond)
		return true
	})
	if n == 0 {
		c.Unresolved("R04e", "dependencies(): edge insertions")
	}
}

func checkPointerIdentity(c *Ctx) {
	fi := c.Func("R04f", pSqlx, "", "dependsOn")
	if fi == nil {
		return
	}
	info := fi.Info()
	n := 0
	ast.Inspect(fi.Decl.Body, func(m ast.Node) bool {
		be, ok := m.(*ast.BinaryExpr)
		if !ok || (be.Op != token.EQL && be.Op != token.NEQ) {
			return true
		}
		tx, ty := info.TypeOf(be.X), info.TypeOf(be.Y)
		if !typeIs(tx, pSchema, "Table") || !typeIs(ty, pSchema, "Table") {
			return true
		}
		if _, isPtr := tx.(*types.Pointer); !isPtr {
			return true
		}
		owner := func(e ast.Expr) string {
			se, ok := e.(*ast.SelectorExpr)
			if !ok || se.Sel.Name != "T" {
				return ""
			}
			if nt := namedOf(info.TypeOf(se.X)); nt != nil {
				return nt.Obj().Name()
			}
			return ""
		}
		ox, oy := owner(be.X), owner(be.Y)
		if ox == "" || oy == "" {
			return true
		}
		n++
		c.Check("R04f", "dependsOn|"+types.ExprString(be)+" ("+ox+" vs "+oy+")", be.Pos(), ox == "ModifyTable" && oy == "ModifyTable", "the tables of a %s and a %s are compared by pointer: detachReferences plans copies of created/dropped tables, so the same table can have two pointers and the dependency is mis-detected", ox, oy)
		return true
	})
	if n == 0 {
		c.Note("R04f: no pointer comparison between change tables in dependsOn")
		c.Check("R04f", "dependsOn|no pointer comparisons", fi.Decl.Pos(), true, "")
	}
}

// onlySelfRefsAppended reports whether every `v = append(v, …)` in the case clause is nested in an
// if-branch whose edge implies fk.RefTable == <the table> (a foreign key kept inline in CREATE TABLE
// may only point at the table being created).
func onlySelfRefsAppended(info *types.Info, body []ast.Stmt, v types.Object) bool {
	isSelfFact := func(f fact) bool {
		be, ok := ast.Unparen(f.expr).(*ast.BinaryExpr)
		if !ok {
			return false
		}
		refX, refY := isField(info, be.X, pSchema, "ForeignKey", "RefTable"), isField(info, be.Y, pSchema, "ForeignKey", "RefTable")
		if refX == refY {
			return false
		}
		other := be.Y
		if refY {
			other = be.X
		}
		if !typeIs(derefType(info.TypeOf(other)), pSchema, "Table") {
			return false
		}
		return be.Op == token.EQL && f.val || be.Op == token.NEQ && !f.val
	}
	n, ok := 0, true
	for _, st := range body {
		pm := parentMap(st)
		ast.Inspect(st, func(m ast.Node) bool {
			as, isAs := m.(*ast.AssignStmt)
			if !isAs || len(as.Lhs) != 1 || len(as.Rhs) != 1 {
				return true
			}
			id, isID := as.Lhs[0].(*ast.Ident)
			call, isCall := as.Rhs[0].(*ast.CallExpr)
			if !isID || !isCall || info.ObjectOf(id) != v || builtinName(info, call) != "append" {
				return true
			}
			n++
			guarded := false
			var child ast.Node = as
			for p := pm[as]; p != nil; child, p = p, pm[p] {
				ifs, isIf := p.(*ast.IfStmt)
				if !isIf {
					continue
				}
				edge := child == ifs.Body
				if !edge && child != ifs.Else {
					continue
				}
				for _, f := range impliedFacts(ifs.Cond, edge) {
					if isSelfFact(f) {
						guarded = true
					}
				}
			}
			if !guarded {
				ok = false
			}
			return true
		})
	}
	return ok && n > 0
}

func derefType(t types.Type) types.Type {
	if p, ok := t.(*types.Pointer); ok {
		return p.Elem()
	}
	return t
}

// orderingHelperOK: fn (a package-local function) returns, on every successful return, either
// SortChanges(DetachCycles(p)) of its ai-th parameter p, or p itself on a path that established
// Mode == PlanModeUnsortedDump.
func orderingHelperOK(c *Ctx, fn *types.Func, ai int) bool {
	cf := c.FuncInfoOf(fn)
	if cf == nil || cf.Decl.Body == nil {
		return false
	}
	info := cf.Info()
	var ps []*ast.Ident
	for _, fld := range cf.Decl.Type.Params.List {
		ps = append(ps, fld.Names...)
	}
	if ai >= len(ps) {
		return false
	}
	param := info.ObjectOf(ps[ai])
	isObj := func(e ast.Expr, set map[types.Object]bool) bool {
		id, ok := ast.Unparen(e).(*ast.Ident)
		return ok && set[info.ObjectOf(id)]
	}
	detached := map[types.Object]bool{}
	sorted := map[types.Object]bool{}
	isCallOf := func(e ast.Expr, name string, arg map[types.Object]bool) bool {
		call, ok := ast.Unparen(e).(*ast.CallExpr)
		if !ok || len(call.Args) == 0 {
			return false
		}
		g := calleeOf(info, call)
		return g != nil && c.forwardsTo(g, pSqlx, name) && isObj(call.Args[0], arg)
	}
	pset := map[types.Object]bool{param: true}
	for round := 0; round < 2; round++ {
		ast.Inspect(cf.Decl.Body, func(m ast.Node) bool {
			as, ok := m.(*ast.AssignStmt)
			if !ok || len(as.Rhs) != 1 {
				return true
			}
			l, ok := as.Lhs[0].(*ast.Ident)
			if !ok {
				return true
			}
			if isCallOf(as.Rhs[0], "DetachCycles", pset) {
				detached[info.ObjectOf(l)] = true
			}
			if isCallOf(as.Rhs[0], "SortChanges", detached) {
				sorted[info.ObjectOf(l)] = true
			}
			return true
		})
	}
	f := newFlow(info, cf.Decl.Body)
	unsorted := func(b *cfg.Block, si int) bool {
		return edgeImplies(b, si, func(e ast.Expr, val bool) bool {
			be, ok := e.(*ast.BinaryExpr)
			if !ok {
				return false
			}
			isMode := strings.HasSuffix(types.ExprString(be.X), ".Mode") && strings.HasSuffix(types.ExprString(be.Y), "PlanModeUnsortedDump")
			return isMode && ((be.Op == token.NEQ && !val) || (be.Op == token.EQL && val))
		})
	}
	good, nSorted := true, 0
	ast.Inspect(cf.Decl.Body, func(m ast.Node) bool {
		if _, isLit := m.(*ast.FuncLit); isLit {
			return false
		}
		r, ok := m.(*ast.ReturnStmt)
		if !ok || len(r.Results) < 1 {
			return true
		}
		if len(r.Results) >= 2 && !isNilIdent(info, r.Results[len(r.Results)-1]) {
			return true // error return
		}
		switch {
		case isObj(r.Results[0], sorted) || isCallOf(r.Results[0], "SortChanges", detached):
			nSorted++
		case isObj(r.Results[0], pset):
			// only on the unsorted-dump edge
			if _, leak := f.reachEx([]point{f.entry()}, nil, func(n ast.Node) bool { return n == ast.Node(r) }, unsorted); leak {
				good = false
			}
		case isNilIdent(info, r.Results[0]):
		default:
			good = false
		}
		return true
	})
	return good && nSorted > 0
}

// fkAssignments lists the values assigned to a Table's ForeignKeys field in the statements: direct stores
// (t.ForeignKeys = v) and calls of a package-local helper that stores one of its parameters into the
// ForeignKeys field of a table it returns (withForeignKeys(t, v) → v).
func fkAssignments(c *Ctx, info *types.Info, body []ast.Stmt) []ast.Expr {
	var out []ast.Expr
	for _, st := range body {
		ast.Inspect(st, func(m ast.Node) bool {
			switch x := m.(type) {
			case *ast.AssignStmt:
				if len(x.Lhs) == 1 && len(x.Rhs) == 1 && isField(info, x.Lhs[0], pSchema, "Table", "ForeignKeys") {
					out = append(out, x.Rhs[0])
				}
			case *ast.CallExpr:
				fn := calleeOf(info, x)
				if fn == nil || fn.Pkg() == nil || !strings.HasPrefix(fn.Pkg().Path(), modRoot) {
					return true
				}
				hf := c.FuncInfoOf(fn)
				if hf == nil || hf.Decl.Body == nil || hf.Decl.Type.Params == nil {
					return true
				}
				hinfo := hf.Info()
				var params []types.Object
				for _, fld := range hf.Decl.Type.Params.List {
					for _, nm := range fld.Names {
						params = append(params, hinfo.ObjectOf(nm))
					}
				}
				if len(params) != len(x.Args) {
					return true
				}
				ast.Inspect(hf.Decl.Body, func(k ast.Node) bool {
					as, ok := k.(*ast.AssignStmt)
					if !ok || len(as.Lhs) != 1 || len(as.Rhs) != 1 || !isField(hinfo, as.Lhs[0], pSchema, "Table", "ForeignKeys") {
						return true
					}
					if id, ok := ast.Unparen(as.Rhs[0]).(*ast.Ident); ok {
						for pi, po := range params {
							if hinfo.ObjectOf(id) == po {
								out = append(out, x.Args[pi])
							}
						}
					} else if isNilIdent(hinfo, as.Rhs[0]) {
						out = append(out, as.Rhs[0])
					}
					return true
				})
			}
			return true
		})
	}
	return out
}
