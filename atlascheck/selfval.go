package main

import (
	"encoding/json"
	"fmt"
	"os"
	"os/exec"
	"path/filepath"
	"regexp"
	"sort"
	"strings"
)

// selfValidate re-runs the property's rules, in a child process per seed,
// on the working tree overlaid with each kept seeded regression of this
// property (/verif/seeded/<name>/patch.diff). The child sees the patched
// files through packages.Config.Overlay; /repo is never modified. Results go
// to the evidence file only and never change the exit code: the tree under
// analysis may have been edited, in which case a seed that no longer applies
// is reported as skipped.
func selfValidate(c *Ctx, prop, verif string) []map[string]any {
	var out []map[string]any
	seedRoot := filepath.Join(verif, "seeded")
	ents, _ := os.ReadDir(seedRoot)
	want := map[string]bool{}
	for _, e := range ents {
		if !e.IsDir() || strings.HasPrefix(e.Name(), "benign") {
			continue // benign-* are negative controls, not seeds
		}
		b, err := os.ReadFile(filepath.Join(seedRoot, e.Name(), "meta.json"))
		if err != nil {
			continue
		}
		var meta struct {
			Property string `json:"property"`
		}
		if json.Unmarshal(b, &meta) == nil && meta.Property == prop {
			want[e.Name()] = true
		}
	}
	if b, err := os.ReadFile(filepath.Join(seedRoot, "extra.map")); err == nil {
		for _, ln := range strings.Split(string(b), "\n") {
			f := strings.Fields(ln)
			for _, p := range f[min(1, len(f)):] {
				if p == prop {
					want[f[0]] = true
				}
			}
		}
	}
	var names []string
	for n := range want {
		names = append(names, n)
	}
	sort.Strings(names)
	exe, err := os.Executable()
	if err != nil {
		return append(out, map[string]any{"error": err.Error()})
	}
	reFile := regexp.MustCompile(`(?m)^\+\+\+ b/(\S+)`)
	reRule := regexp.MustCompile(`rule=(\S+) key=`)
	for _, n := range names {
		res := map[string]any{"seed": n}
		patch := filepath.Join(seedRoot, n, "patch.diff")
		pb, err := os.ReadFile(patch)
		if err != nil {
			res["status"] = "skipped: no patch.diff"
			out = append(out, res)
			continue
		}
		tmp, err := os.MkdirTemp("", "atlascheck-selfval-")
		if err != nil {
			res["status"] = "skipped: " + err.Error()
			out = append(out, res)
			continue
		}
		ok := true
		for _, m := range reFile.FindAllStringSubmatch(string(pb), -1) {
			src := filepath.Join(c.Repo, m[1])
			b, err := os.ReadFile(src)
			if err != nil {
				ok = false
				break
			}
			dst := filepath.Join(tmp, m[1])
			os.MkdirAll(filepath.Dir(dst), 0o755)
			os.WriteFile(dst, b, 0o644)
		}
		if ok {
			cmd := exec.Command("git", "apply", patch)
			cmd.Dir = tmp
			if err := cmd.Run(); err != nil {
				ok = false
			}
		}
		if !ok {
			res["status"] = "skipped: the seed does not apply to the tree under analysis"
			os.RemoveAll(tmp)
			out = append(out, res)
			continue
		}
		child := exec.Command(exe, "-prop", prop, "-tier", "quick", "-repo", c.Repo, "-verif", verif, "-overlay-dir", tmp, "-out", filepath.Join(tmp, "out"))
		child.Env = os.Environ()
		ob, _ := child.CombinedOutput()
		code := child.ProcessState.ExitCode()
		rules := map[string]bool{}
		for _, m := range reRule.FindAllStringSubmatch(string(ob), -1) {
			rules[m[1]] = true
		}
		var rs []string
		for r := range rules {
			rs = append(rs, r)
		}
		sort.Strings(rs)
		res["fired"] = code == 1 && strings.Contains(string(ob), "VIOLATION")
		res["rules"] = rs
		res["status"] = "ran"
		os.RemoveAll(tmp)
		out = append(out, res)
	}
	return out
}

// negativeControls runs the check against the behaviour-preserving refactorings kept under
// /verif/seeded/benign-*: the check must stay silent on each. Patches written for a group of
// four properties (benign-agents/<round><g>) are run against the properties of that group only.
func negativeControls(c *Ctx, prop, verif string) map[string]any {
	seedRoot := filepath.Join(verif, "seeded")
	var patches []string
	pn := 0
	fmt.Sscanf(prop, "C%d", &pn)
	group := (pn + 3) / 4
	if ds, err := filepath.Glob(filepath.Join(seedRoot, "benign-agents", "*")); err == nil {
		sort.Strings(ds)
		for _, d := range ds {
			base := filepath.Base(d)
			if len(base) < 2 || int(base[len(base)-1]-'0') != group {
				continue
			}
			ps, _ := filepath.Glob(filepath.Join(d, "b*.diff"))
			sort.Strings(ps)
			patches = append(patches, ps...)
		}
	}
	if ps, err := filepath.Glob(filepath.Join(seedRoot, "benign-[0-9]*", "patch.diff")); err == nil {
		sort.Strings(ps)
		patches = append(patches, ps...)
	}
	exe, err := os.Executable()
	if err != nil {
		return map[string]any{"error": err.Error()}
	}
	reFile := regexp.MustCompile(`(?m)^\+\+\+ b/(\S+)`)
	reRule := regexp.MustCompile(`rule=(\S+) key=`)
	ran, silent := 0, 0
	var alarms []string
	for _, patch := range patches {
		pb, err := os.ReadFile(patch)
		if err != nil {
			continue
		}
		tmp, err := os.MkdirTemp("", "atlascheck-negctl-")
		if err != nil {
			continue
		}
		ok := true
		for _, m := range reFile.FindAllStringSubmatch(string(pb), -1) {
			b, err := os.ReadFile(filepath.Join(c.Repo, m[1]))
			if err != nil {
				ok = false
				break
			}
			dst := filepath.Join(tmp, m[1])
			os.MkdirAll(filepath.Dir(dst), 0o755)
			os.WriteFile(dst, b, 0o644)
		}
		if ok {
			cmd := exec.Command("git", "apply", patch)
			cmd.Dir = tmp
			ok = cmd.Run() == nil
		}
		if !ok {
			os.RemoveAll(tmp)
			continue // does not apply to the tree under analysis (e.g. the tree itself was changed there)
		}
		child := exec.Command(exe, "-prop", prop, "-tier", "quick", "-repo", c.Repo, "-verif", verif, "-overlay-dir", tmp, "-out", filepath.Join(tmp, "out"))
		child.Env = os.Environ()
		ob, _ := child.CombinedOutput()
		ran++
		if child.ProcessState.ExitCode() == 0 {
			silent++
		} else {
			rel, _ := filepath.Rel(seedRoot, patch)
			var rs []string
			for _, m := range reRule.FindAllStringSubmatch(string(ob), -1) {
				rs = append(rs, m[1])
			}
			alarms = append(alarms, rel+": "+strings.Join(rs, ","))
		}
		os.RemoveAll(tmp)
	}
	return map[string]any{"patches_run": ran, "silent": silent, "alarms": alarms, "note": "behaviour-preserving refactorings written by independent agents; the check must be silent on each (an alarm here is a defect of the checker, not of the tree, and does not change the verdict)"}
}
