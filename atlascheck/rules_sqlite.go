package main

import (
	"go/ast"
	"go/token"
	"go/types"
	"sort"
	"strings"

	"golang.org/x/tools/go/cfg"
)

func init() {
	register("C05", &propCheck{
		explanation: "Pairing and ordering rules on the SQLite table-rebuild procedure. (a) In copyRows every path through one iteration of the column loop appends the same number (0 or 1) of entries to the destination and to the source column list, so the two lists stay index-aligned; the INSERT … SELECT prints the destination list after the new table's name and the source list before the old table's name. (b) In modifyTable the new table is created and the rows are copied before the old table is dropped, the drop precedes the rename, the rename precedes the index re-creation; the drop names the old table and the rename goes from the new_ table to the old name; a DropColumn naming a surviving column is an error. (c) The in-place (ALTER TABLE) path is taken only for change kinds alterTable has a case for.",
		undecided:   []string{"value equality on a real engine (type affinity conversions, IFNULL default semantics)", "that generated/added columns get the values SQLite computes"},
		run:         runC05,
	})
	register("C01", &propCheck{
		explanation: "Emit ⊆ handle. Per dialect, E-flow (SSA change-kind flow analysis restricted to the shared differ + that dialect) computes the set of change kinds the differ may emit at top level and inside ModifyTable.Changes; a table extraction collects the kinds the dialect's planner has a case for (plan/topLevel, and modifyTable/alterTable and their helpers). Every emitted kind must be handled: a kind that falls through a planner switch without default is silently ignored (the plan cannot converge), one that hits the default is rejected. Kinds guarded by ChangeSupporter.SupportChange are removed for dialects that return false. For SQLite the in-place set accepted by alterable must be a subset of alterTable's cases and the 12-step rebuild keeps its order (shared with C05).",
		undecided:   []string{"that the printed SQL, executed by the engine, yields the desired schema (needs an engine)", "normalisation of generated index / constraint names before comparing", "attribute-level completeness of each handler"},
		run:         runC01,
	})
}

// ---------------------------------------------------------------- C05

func runC05(c *Ctx) {
	c.Rule("R05a", "copyRows: on every path through one iteration of the column loop the destination and the source list receive the same number of entries (0 or 1); the INSERT statement is built from to.Name, the destination list, the source list and from.Name in that order", 3)
	c.Rule("R05d", "copyRows: a value is rewritten while copying (source expression other than the plain column) only under a condition that implies the new column is NOT NULL", 1)
	c.Rule("R05e", "copyRows: a column of the new table is left out of the copy only if it is generated (true edge of Has(column.Attrs, GeneratedExpr)) or newly added (the AddColumn case): no other path through an iteration avoids appending to the destination list", 1)
	c.Rule("R05b", "modifyTable rebuild order: addTable(new_) ≺ copyRows(old, new) ≺ DROP TABLE old ≺ RENAME new_ TO old ≺ addIndexes; skipFKs is set; copyRows rejects a DropColumn of a surviving column", 7)
	c.Rule("R05c", "in-place path: every change kind alterable() accepts has a case in alterTable(); alterTable rejects anything else", 4)
	checkCopyRows(c)
	checkRebuildOrder(c, "R05b")
	c.Rule("R05f", ruleTextGeneratedSkipped, 1)
	checkGeneratedSkipped(c, "R05f")
	c.Rule("R05g", ruleTextSkipFKsMonotone, 1)
	checkSkipFKsMonotone(c, "R05g")
	c.Rule("R05j", ruleTextApplyStops, 1)
	checkApplyStops(c, "R05j")
	c.Rule("R05k", ruleTextScanOrder, 2)
	checkScanOrder(c, "R05k")
	c.Rule("R05i", ruleTextTxOpenerRegistered, 2)
	checkTxOpenerRegistered(c, "R05i")
	c.Rule("R05h", ruleTextSqliteBegin, 1)
	checkSqliteBeginOwner(c, "R05h")
	checkAlterable(c, "R05c")
}

// pathCounts enumerates acyclic paths from the start points to any block
// accepted by isEnd and returns the distinct tuples of counter hits.
func pathCounts(f *Flow, starts []point, isEnd func(*cfg.Block) bool, counters []nodePred) [][]int {
	var out [][]int
	seenTuple := map[string]bool{}
	var dfs func(pt point, onPath map[*cfg.Block]bool, counts []int, depth int)
	dfs = func(pt point, onPath map[*cfg.Block]bool, counts []int, depth int) {
		if depth > 4000 || len(out) > 2000 {
			return
		}
		cs := append([]int(nil), counts...)
		for j := pt.i; j < len(pt.b.Nodes); j++ {
			n := pt.b.Nodes[j]
			for k, p := range counters {
				if p(n) {
					cs[k]++
				}
			}
			if isReturn(n) {
				return // leaving the loop: not an iteration
			}
		}
		for _, s := range pt.b.Succs {
			if isEnd(s) {
				key := ""
				for _, v := range cs {
					key += itoa(v) + ","
				}
				if !seenTuple[key] {
					seenTuple[key] = true
					out = append(out, cs)
				}
				continue
			}
			if onPath[s] {
				continue
			}
			onPath[s] = true
			dfs(point{s, 0}, onPath, cs, depth+1)
			delete(onPath, s)
		}
	}
	for _, st := range starts {
		dfs(st, map[*cfg.Block]bool{st.b: true}, make([]int, len(counters)), 0)
	}
	return out
}

func checkCopyRows(c *Ctx) {
	fi := c.Func("R05a", pSqlite, "state", "copyRows")
	if fi == nil {
		return
	}
	info := fi.Info()
	// the two lists: []string locals appended in the function; destination receives RenameColumn.To.Name, source receives From.Name
	var dst, src types.Object
	ast.Inspect(fi.Decl.Body, func(m ast.Node) bool {
		as, ok := m.(*ast.AssignStmt)
		if !ok || len(as.Rhs) != 1 {
			return true
		}
		call, ok := as.Rhs[0].(*ast.CallExpr)
		if !ok || builtinName(info, call) != "append" || len(call.Args) != 2 {
			return true
		}
		l, ok := as.Lhs[0].(*ast.Ident)
		if !ok {
			return true
		}
		switch types.ExprString(call.Args[1]) {
		case "change.To.Name":
			dst = info.ObjectOf(l)
		case "change.From.Name":
			src = info.ObjectOf(l)
		}
		if se, ok := call.Args[1].(*ast.SelectorExpr); ok && se.Sel.Name == "Name" {
			if in, ok := se.X.(*ast.SelectorExpr); ok {
				if in.Sel.Name == "To" && typeIs(info.TypeOf(in.X), pSchema, "RenameColumn") {
					dst = info.ObjectOf(l)
				}
				if in.Sel.Name == "From" && typeIs(info.TypeOf(in.X), pSchema, "RenameColumn") {
					src = info.ObjectOf(l)
				}
			}
		}
		return true
	})
	if dst == nil || src == nil || dst == src {
		c.Unresolved("R05a", "copyRows: destination / source column lists (the lists receiving RenameColumn.To.Name and .From.Name)")
		return
	}
	appendsTo := func(o types.Object) nodePred {
		return func(n ast.Node) bool {
			as, ok := n.(*ast.AssignStmt)
			if !ok || len(as.Rhs) != 1 {
				return false
			}
			call, ok := as.Rhs[0].(*ast.CallExpr)
			if !ok || builtinName(info, call) != "append" {
				return false
			}
			l, ok := as.Lhs[0].(*ast.Ident)
			return ok && info.ObjectOf(l) == o
		}
	}
	// the column loop: range over to.Columns
	var loop *ast.RangeStmt
	ast.Inspect(fi.Decl.Body, func(m ast.Node) bool {
		if rs, ok := m.(*ast.RangeStmt); ok && loop == nil && isField(info, rs.X, pSchema, "Table", "Columns") {
			loop = rs
		}
		return true
	})
	if loop == nil {
		c.Unresolved("R05a", "copyRows: loop over the new table's columns")
		return
	}
	f := newFlow(info, fi.Decl.Body)
	var starts []point
	for _, b := range f.G.Blocks {
		if b.Kind == cfg.KindRangeBody && b.Stmt == ast.Stmt(loop) {
			starts = append(starts, point{b, 0})
		}
	}
	isEnd := func(b *cfg.Block) bool {
		return (b.Kind == cfg.KindRangeLoop || b.Kind == cfg.KindRangeDone) && b.Stmt == ast.Stmt(loop)
	}
	tuples := pathCounts(f, starts, isEnd, []nodePred{appendsTo(dst), appendsTo(src)})
	bad := ""
	for _, t := range tuples {
		if t[0] != t[1] || t[0] > 1 {
			bad = "destination+" + itoa(t[0]) + " / source+" + itoa(t[1])
		}
	}
	c.Check("R05a", "copyRows|destination and source lists stay aligned", loop.Pos(), bad == "" && len(tuples) >= 2, "an iteration of the column loop can append %s entries: the INSERT column list and the SELECT list get out of step and values move to the wrong column (tuples seen: %v)", bad, tuples)
	// R05d: rewriting appends to src are guarded by !column.Type.Null
	colVar, _ := loop.Value.(*ast.Ident)
	pmBody := parentMap(fi.Decl.Body)
	nRewrite := 0
	ast.Inspect(loop.Body, func(m ast.Node) bool {
		as, ok := m.(*ast.AssignStmt)
		if !ok || !appendsTo(src)(as) {
			return true
		}
		call := as.Rhs[0].(*ast.CallExpr)
		if len(call.Args) != 2 {
			return true
		}
		if se, ok := call.Args[1].(*ast.SelectorExpr); ok && se.Sel.Name == "Name" {
			return true // copied as-is
		}
		// the source expression computed by a package-local helper: every result of the helper that is not the
		// plain column name is returned only on paths that established !<column>.Type.Null
		if id, ok := ast.Unparen(call.Args[1]).(*ast.Ident); ok {
			var hcall *ast.CallExpr
			defs := 0
			ast.Inspect(fi.Decl.Body, func(k ast.Node) bool {
				if das, ok := k.(*ast.AssignStmt); ok && len(das.Rhs) == 1 {
					for _, l := range das.Lhs {
						if lid, ok := l.(*ast.Ident); ok && info.ObjectOf(lid) == info.ObjectOf(id) {
							defs++
							hcall, _ = ast.Unparen(das.Rhs[0]).(*ast.CallExpr)
						}
					}
				}
				return true
			})
			if defs == 1 && hcall != nil {
				if hf := c.FuncInfoOf(calleeOf(info, hcall)); hf != nil && hf.Decl.Body != nil && hf.Pkg.PkgPath == pSqlite {
					hinfo := hf.Info()
					var colParam types.Object
					for _, fld := range hf.Decl.Type.Params.List {
						for _, nm := range fld.Names {
							if typeIs(derefType(hinfo.TypeOf(nm)), pSchema, "Column") {
								colParam = hinfo.ObjectOf(nm)
							}
						}
					}
					hflow := newFlow(hinfo, hf.Decl.Body)
					rewrites, allGuarded := 0, true
					walkShallow(hf.Decl.Body, func(k ast.Node) bool {
						ret, ok := k.(*ast.ReturnStmt)
						if !ok || len(ret.Results) == 0 {
							return true
						}
						if last := ast.Unparen(ret.Results[len(ret.Results)-1]); len(ret.Results) > 1 && !isNilIdent(hinfo, last) {
							return true // error return
						}
						if se, ok := ast.Unparen(ret.Results[0]).(*ast.SelectorExpr); ok && se.Sel.Name == "Name" {
							return true // copied as-is
						}
						rewrites++
						if colParam == nil || !hflow.allPathsImply(ret, func(e ast.Expr, val bool) bool {
							se, ok := ast.Unparen(e).(*ast.SelectorExpr)
							if !ok || se.Sel.Name != "Null" || val {
								return false
							}
							r := rootIdent(se)
							return r != nil && hinfo.ObjectOf(r) == colParam
						}) {
							allGuarded = false
						}
						return true
					})
					if rewrites > 0 {
						nRewrite++
						c.Check("R05d", "copyRows|value rewrite only for NOT NULL target columns", as.Pos(), allGuarded, "the helper %s that computes the source expression returns a rewriting expression on a path that did not establish `!column.Type.Null` of the new column: NULLs of a column that stays nullable would be replaced", hf.Name)
						return true
					}
				}
			}
		}
		nRewrite++
		guarded := false
		child := ast.Node(as)
		for p := pmBody[as]; p != nil; child, p = p, pmBody[p] {
			ifs, ok := p.(*ast.IfStmt)
			if !ok || child != ast.Node(ifs.Body) {
				continue
			}
			for _, fct := range impliedFacts(ifs.Cond, true) {
				if fct.val {
					continue
				}
				// !column.Type.Null  → fact {column.Type.Null, false}
				if se, ok := fct.expr.(*ast.SelectorExpr); ok && se.Sel.Name == "Null" {
					if r := rootIdent(se); r != nil && colVar != nil && info.ObjectOf(r) == info.ObjectOf(colVar) {
						guarded = true
					}
				}
			}
		}
		c.Check("R05d", "copyRows|value rewrite only for NOT NULL target columns", as.Pos(), guarded, "the source expression %s rewrites the copied value but is not guarded by `!column.Type.Null` of the new column: NULLs of a column that stays nullable would be replaced", types.ExprString(call.Args[1]))
		return true
	})
	if nRewrite == 0 {
		c.Unresolved("R05d", "copyRows: the IFNULL rewrite of the source expression")
	}
	// R05e: skipping a column
	{
		bad := ""
		// (1) `continue` statements that target the column loop
		ast.Inspect(loop.Body, func(m ast.Node) bool {
			br, ok := m.(*ast.BranchStmt)
			if !ok || br.Tok != token.CONTINUE {
				return true
			}
			tgt := enclosing(pmBody, br, isLoop)
			if tgt != ast.Node(loop) {
				return true
			}
			guarded := false
			child := ast.Node(br)
			for p := pmBody[br]; p != nil && p != ast.Node(loop); child, p = p, pmBody[p] {
				ifs, ok := p.(*ast.IfStmt)
				if !ok || child != ast.Node(ifs.Body) {
					continue
				}
				for _, fct := range impliedFacts(ifs.Cond, true) {
					if call, ok := fct.expr.(*ast.CallExpr); ok && fct.val && funcIs(calleeOf(info, call), pSqlx, "", "Has") && len(call.Args) == 2 && typeIs(info.TypeOf(call.Args[1]), pSchema, "GeneratedExpr") {
						guarded = true
					}
				}
			}
			if !guarded {
				bad = "the `continue` at " + c.pos(br.Pos()) + " skips a column without establishing that it is generated"
			}
			return true
		})
		// (2) the switch that decides how the column is copied: every case appends to the destination list, except AddColumn
		found := false
		ast.Inspect(loop.Body, func(m ast.Node) bool {
			ts, ok := m.(*ast.TypeSwitchStmt)
			if !ok {
				return true
			}
			appendsHere := false
			for _, cl := range ts.Body.List {
				for _, st := range cl.(*ast.CaseClause).Body {
					if as, ok := st.(*ast.AssignStmt); ok && appendsTo(dst)(as) {
						appendsHere = true
					}
				}
			}
			if !appendsHere {
				return true
			}
			found = true
			for _, cl := range ts.Body.List {
				cc := cl.(*ast.CaseClause)
				top := false
				for _, st := range cc.Body {
					if as, ok := st.(*ast.AssignStmt); ok && appendsTo(dst)(as) {
						top = true
						break
					}
					// a jump out of the case before the column was appended
					ast.Inspect(st, func(k ast.Node) bool {
						if _, isLit := k.(*ast.FuncLit); isLit {
							return false
						}
						br, isBr := k.(*ast.BranchStmt)
						if !isBr {
							return true
						}
						leaves := br.Label != nil || br.Tok == token.GOTO
						switch br.Tok {
						case token.BREAK:
							tgt := enclosing(pmBody, br, func(n ast.Node) bool {
								switch n.(type) {
								case *ast.ForStmt, *ast.RangeStmt, *ast.SwitchStmt, *ast.TypeSwitchStmt, *ast.SelectStmt:
									return true
								}
								return false
							})
							leaves = leaves || tgt == ast.Node(ts)
						case token.CONTINUE:
							leaves = leaves || enclosing(pmBody, br, isLoop) == ast.Node(loop)
						}
						if leaves {
							bad = "the `" + br.Tok.String() + "` at " + c.pos(br.Pos()) + " leaves the case before the column is added to the copy"
						}
						return true
					})
				}
				if top {
					continue
				}
				isAdd := len(cc.List) == 1 && typeIs(info.TypeOf(cc.List[0]), pSchema, "AddColumn")
				if !isAdd {
					bad = "the case at " + c.pos(cc.Pos()) + " does not copy the column"
				}
			}
			return true
		})
		if !found {
			c.Unresolved("R05e", "copyRows: the switch deciding how each column is copied")
		}
		c.Check("R05e", "copyRows|columns are skipped only if generated or newly added", loop.Pos(), bad == "", "%s: the values of a surviving column are not carried over", bad)
	}
	// the INSERT: Sprintf(format, to.Name, identComma(dst), identComma(src), from.Name)
	ps := fi.Decl.Type.Params.List
	var fromP, toP types.Object
	if len(ps) >= 2 && len(ps[0].Names) == 1 && len(ps[1].Names) == 1 {
		fromP, toP = info.ObjectOf(ps[0].Names[0]), info.ObjectOf(ps[1].Names[0])
	}
	okIns, found := false, false
	ast.Inspect(fi.Decl.Body, func(m ast.Node) bool {
		call, ok := m.(*ast.CallExpr)
		if !ok || len(call.Args) != 5 {
			return true
		}
		fn := calleeOf(info, call)
		if fn == nil || fn.Name() != "Sprintf" {
			return true
		}
		format, ok := stringConst(info, call.Args[0])
		if !ok || !strings.HasPrefix(format, "INSERT INTO") {
			return true
		}
		found = true
		rootOf := func(e ast.Expr) types.Object {
			if r := rootIdent(e); r != nil {
				return info.ObjectOf(r)
			}
			return nil
		}
		listArg := func(e ast.Expr) types.Object {
			ic, ok := e.(*ast.CallExpr)
			if !ok || len(ic.Args) != 1 {
				return nil
			}
			if id, ok := ic.Args[0].(*ast.Ident); ok {
				return info.ObjectOf(id)
			}
			return nil
		}
		shape := strings.Index(format, "(%s)") > 0 && strings.Index(format, "SELECT %s FROM") > strings.Index(format, "(%s)")
		okIns = shape && rootOf(call.Args[1]) == toP && listArg(call.Args[2]) == dst && listArg(call.Args[3]) == src && rootOf(call.Args[4]) == fromP
		return true
	})
	c.Check("R05a", "copyRows|INSERT INTO new (dst…) SELECT src… FROM old", fi.Decl.Pos(), found && okIns, "the copy statement must insert into the new table's destination columns the source expressions selected from the old table, in that argument order")
	// DropColumn of a surviving column is an error
	// (in copyRows itself or in a package-local helper it calls with the change list)
	dropErr := false
	scope := []*FuncInfo{fi}
	for _, call := range callsIn(fi.Decl.Body, true) {
		if fn := calleeOf(info, call); fn != nil && fn.Pkg() != nil && fn.Pkg().Path() == pSqlite {
			if cf := c.FuncInfoOf(fn); cf != nil && cf.Decl.Body != nil {
				scope = append(scope, cf)
			}
		}
	}
	for _, sf := range scope {
		sinfo := sf.Info()
		ast.Inspect(sf.Decl.Body, func(m ast.Node) bool {
			cc, ok := m.(*ast.CaseClause)
			if !ok || len(cc.List) != 1 || !typeIs(sinfo.TypeOf(cc.List[0]), pSchema, "DropColumn") {
				return true
			}
			ast.Inspect(cc, func(k ast.Node) bool {
				if r, ok := k.(*ast.ReturnStmt); ok && len(r.Results) == 2 && !isNilIdent(sinfo, r.Results[1]) {
					dropErr = true
				}
				return true
			})
			return true
		})
	}
	c.Check("R05a", "copyRows|DropColumn of a surviving column is refused", fi.Decl.Pos(), dropErr, "a DropColumn change naming a column of the new table must be an error (the column's values would be silently kept or lost)")
}

func checkRebuildOrder(c *Ctx, rule string) {
	fi := c.Func(rule, pSqlite, "state", "modifyTable")
	if fi == nil {
		return
	}
	info := fi.Info()
	f := newFlow(info, fi.Decl.Body)
	isAdd := f.callNode(isCallTo(pSqlite, "state", "addTable"))
	isCopy := f.callNode(isCallTo(pSqlite, "state", "copyRows"))
	isIdx := f.callNode(isCallTo(pSqlite, "state", "addIndexes"))
	stmtWith := func(words ...string) nodePred {
		return func(n ast.Node) bool {
			if nodeHasCall(info, n, isCallTo(pSqlite, "state", "append")) == nil {
				return false
			}
			var consts []string
			ast.Inspect(n, func(m ast.Node) bool {
				if e, ok := m.(ast.Expr); ok {
					if s, ok := stringConst(info, e); ok {
						consts = append(consts, s)
					}
				}
				return true
			})
			all := strings.Join(consts, "|")
			for _, w := range words {
				if !strings.Contains(all, w) {
					return false
				}
			}
			return true
		}
	}
	isDrop := stmtWith("DROP TABLE")
	isRename := stmtWith("ALTER TABLE", "RENAME TO")
	chain := []struct {
		name string
		p    nodePred
	}{{"addTable(new_)", isAdd}, {"copyRows", isCopy}, {"DROP TABLE", isDrop}, {"RENAME TO", isRename}, {"addIndexes", isIdx}}
	for _, s := range chain {
		c.Check(rule, "modifyTable|has "+s.name, fi.Decl.Pos(), len(f.find(s.p)) >= 1, "the rebuild procedure no longer contains the step %s", s.name)
	}
	// the in-place early return is the only bypass: ordering is checked among the steps themselves
	for i := 0; i+1 < len(chain); i++ {
		a, b := chain[i], chain[i+1]
		// b must not be reachable from entry avoiding a, except through the alterable fast path (which returns)
		n, ok := f.mustPrecede(a.p, b.p)
		c.Check(rule, "modifyTable|"+a.name+" ≺ "+b.name, nodePos(n, fi.Decl.Pos()), ok, "step %s can run before %s: the old table could be dropped before its rows were copied / the new one renamed before the old one is gone", b.name, a.name)
	}
	// arguments: copyRows(modify.T, &newT, …), DROP names modify.T, RENAME new → modify.T
	for _, cp := range f.find(isCopy) {
		call := nodeHasCall(info, cp.b.Nodes[cp.i], isCallTo(pSqlite, "state", "copyRows"))
		ok := len(call.Args) == 3 && strings.HasSuffix(types.ExprString(call.Args[0]), ".T") && strings.HasPrefix(types.ExprString(call.Args[1]), "&")
		c.Check(rule, "modifyTable|copyRows(old, new)", call.Pos(), ok, "copyRows must copy from the existing table (modify.T) into the new temporary table")
	}
	// skipFKs
	set := false
	for _, l := range writesIn(fi.Decl.Body) {
		if se, ok := l.(*ast.SelectorExpr); ok && se.Sel.Name == "skipFKs" {
			set = true
		}
	}
	c.Check(rule, "modifyTable|foreign keys disabled during the rebuild", fi.Decl.Pos(), set, "the rebuild must set skipFKs so that the plan disables foreign-key enforcement while the table is replaced")
}

func caseTypes(info *types.Info, root ast.Node, subjectIs func(t types.Type) bool) (map[string]bool, bool) {
	out := map[string]bool{}
	hasDefaultErr := false
	ast.Inspect(root, func(m ast.Node) bool {
		ts, ok := m.(*ast.TypeSwitchStmt)
		if !ok {
			return true
		}
		var subj ast.Expr
		switch a := ts.Assign.(type) {
		case *ast.AssignStmt:
			subj = a.Rhs[0].(*ast.TypeAssertExpr).X
		case *ast.ExprStmt:
			subj = a.X.(*ast.TypeAssertExpr).X
		}
		if subj == nil || !subjectIs(info.TypeOf(subj)) {
			return true
		}
		for _, cl := range ts.Body.List {
			cc := cl.(*ast.CaseClause)
			if cc.List == nil {
				// default returning an error?
				for _, st := range cc.Body {
					if r, ok := st.(*ast.ReturnStmt); ok && len(r.Results) > 0 && !isNilIdent(info, r.Results[len(r.Results)-1]) {
						hasDefaultErr = true
					}
					if as, ok := st.(*ast.AssignStmt); ok && len(as.Lhs) == 1 {
						if id, ok := as.Lhs[0].(*ast.Ident); ok && id.Name == "err" {
							hasDefaultErr = true
						}
					}
				}
				continue
			}
			for _, e := range cc.List {
				if n := namedOf(info.TypeOf(e)); n != nil {
					out[n.Obj().Name()] = true
				}
			}
		}
		return true
	})
	return out, hasDefaultErr
}

func isChangeType(t types.Type) bool { return t != nil && typeIs(t, pSchema, "Change") }

func checkAlterable(c *Ctx, rule string) {
	af := c.Func(rule, pSqlite, "", "alterable")
	tf := c.Func(rule, pSqlite, "state", "alterTable")
	if af == nil || tf == nil {
		return
	}
	accept, _ := caseTypes(af.Info(), af.Decl.Body, isChangeType)
	handle, defErr := caseTypes(tf.Info(), tf.Decl.Body, isChangeType)
	var ks []string
	for k := range accept {
		ks = append(ks, k)
	}
	sort.Strings(ks)
	for _, k := range ks {
		c.Check(rule, "sqlite|alterable accepts "+k, af.Decl.Pos(), handle[k], "alterable() lets %s take the in-place path but alterTable() has no case for it", k)
	}
	c.Check(rule, "sqlite|alterTable rejects other kinds", tf.Decl.Pos(), defErr, "alterTable must reject change kinds it has no case for (default returning an error)")
	// alterable's default is `return false`
	defFalse := false
	ast.Inspect(af.Decl.Body, func(m ast.Node) bool {
		if cc, ok := m.(*ast.CaseClause); ok && cc.List == nil {
			for _, st := range cc.Body {
				if r, ok := st.(*ast.ReturnStmt); ok && len(r.Results) == 1 {
					if tv := af.Info().Types[r.Results[0]]; tv.Value != nil && tv.Value.String() == "false" {
						defFalse = true
					}
				}
			}
		}
		return true
	})
	c.Check(rule, "sqlite|alterable refuses unknown kinds", af.Decl.Pos(), defFalse, "alterable must return false for change kinds it does not list (they need the table rebuild)")
}

// ---------------------------------------------------------------- C01

func runC01(c *Ctx) {
	c.Rule("R01a", "emit ⊆ handle: per dialect, every change kind the differ may emit at top level has a case in the planner's plan/topLevel switches, and every kind it may nest inside ModifyTable.Changes has a case in modifyTable/alterTable (or, for SQLite, is covered by the table rebuild)", 30)
	c.Rule("R01b", "SQLite in-place set: kinds accepted by alterable() ⊆ cases of alterTable(); both refuse unknown kinds", 4)
	c.Rule("R01c", "SQLite rebuild keeps its order (addTable ≺ copyRows ≺ DROP ≺ RENAME ≺ addIndexes, foreign keys disabled)", 5)
	c.Rule("R01d", "schema apply computes the diff between the inspected target and the desired state and applies exactly those changes: applyChanges is given the change list computeDiff returned", 2)

	c.Rule("R01e", "index key parts: wherever a planner prints a key part from IndexPart.C / IndexPart.X, the descending flag is consulted on every path to the end of that function (directly or by handing the part to a helper): an expression part keeps its DESC", 2)
	c.Rule("R01f", "sqlite Normalize: every successful return is preceded by the normalisation of generated index names (the loop over the desired table's indexes calling normalizeIdxName), so differ and planner agree on the names of UNIQUE-constraint indexes", 1)
	c.Rule("R01g", "SQLite default comparison is exact: in the SQLite differ a literal obtained from sqlx.Unquote is never passed to a case- or space-folding function (strings.EqualFold/ToLower/ToUpper/Trim*/Fields, unicode.*): two defaults that differ only in the letter case of a string literal are different defaults", 2)
	c.Rule("R01h", "mode agreement: every computeDiff call of the CLI receives the option list built by diffOptions(), and diffOptions() includes schema.DiffNormalized(): `schema apply` and `schema diff` compare in the same (normalized) mode", 3)
	checkIndexPartDesc(c)
	checkNormalizeAllPhases(c)
	checkExactDefaults(c)
	checkDiffMode(c)
	c.Rule("R01i", "normalizeIdxName derives the name of a UNIQUE-constraint index from the index parts, so every index handed to it carries its parts: no argument is a bare schema.NewIndex(name) (an index without parts normalises to the table name alone and is never found)", 2)
	checkNormalizeArgs(c)
	c.Rule("R01k", ruleTextFKActions, 4)
	checkFKActionGuards(c, "R01k", []string{pSqlite, pMysql, pPostgres})
	c.Rule("R01r", ruleTextScanOrder, 2)
	checkScanOrder(c, "R01r")
	c.Rule("R01s", ruleTextNoSelfCompare, 20)
	checkNoSelfCompare(c, "R01s")
	c.Rule("R01t", ruleTextNormaliseOwnSide, 2)
	checkNormaliseOwnSide(c, "R01t")
	c.Rule("R01q", ruleTextColumnAttrCoverage, 2)
	checkColumnAttrCoverage(c, "R01q")
	c.Rule("R01n", ruleTextCheckWrap, 3)
	checkCheckWrap(c, "R01n")
	c.Rule("R01o", ruleTextImplicitIndexDrop, 1)
	checkImplicitIndexDrop(c, "R01o")
	c.Rule("R01p", ruleTextDynRegex, 0)
	checkDynRegex(c, "R01p")
	c.Rule("R01m", ruleTextPartOrdinal, 2)
	checkPartOrdinal(c, "R01m")
	c.Rule("R01l", ruleTextGeneratedSkipped, 1)
	checkGeneratedSkipped(c, "R01l")
	c.Rule("R01j", ruleTextSQLText, 6)
	checkSQLTextSearches(c, "R01j")
	for _, pp := range []string{pSqlite, pMysql, pPostgres} {
		checkEmitHandle(c, pp)
	}
	checkAlterable(c, "R01b")
	checkRebuildOrder(c, "R01c")

	// R01d
	if fi := c.Func("R01d", pCmdapi, "", "schemaApplyRun"); fi != nil {
		info := fi.Info()
		var diffObj types.Object
		ast.Inspect(fi.Decl.Body, func(m ast.Node) bool {
			if as, ok := m.(*ast.AssignStmt); ok && len(as.Rhs) == 1 {
				if call, ok := as.Rhs[0].(*ast.CallExpr); ok && funcIs(calleeOf(info, call), pCmdapi, "", "computeDiff") {
					if id, ok := as.Lhs[0].(*ast.Ident); ok {
						diffObj = info.ObjectOf(id)
					}
				}
			}
			return true
		})
		c.Check("R01d", "schemaApplyRun|diff from computeDiff", fi.Decl.Pos(), diffObj != nil, "schemaApplyRun no longer obtains its changes from computeDiff")
		okAll, n := true, 0
		for _, call := range callsIn(fi.Decl.Body, true) {
			if !funcIs(calleeOf(info, call), pCmdapi, "", "applyChanges") || len(call.Args) < 3 {
				continue
			}
			n++
			// third argument derives from diff.changes
			root := rootIdent(call.Args[2])
			if root == nil {
				okAll = false
				continue
			}
			o := info.ObjectOf(root)
			if o == diffObj {
				continue
			}
			// a local assigned from diff.changes
			derived := false
			ast.Inspect(fi.Decl.Body, func(m ast.Node) bool {
				switch x := m.(type) {
				case *ast.AssignStmt:
					for i, l := range x.Lhs {
						if id, ok := l.(*ast.Ident); ok && info.ObjectOf(id) == o && i < len(x.Rhs) {
							if r := rootIdent(x.Rhs[i]); r != nil && info.ObjectOf(r) == diffObj {
								derived = true
							}
						}
					}
				case *ast.SwitchStmt:
					if as, ok := x.Init.(*ast.AssignStmt); ok {
						for i, l := range as.Lhs {
							if id, ok := l.(*ast.Ident); ok && info.ObjectOf(id) == o && i < len(as.Rhs) {
								if r := rootIdent(as.Rhs[i]); r != nil && info.ObjectOf(r) == diffObj {
									derived = true
								}
							}
						}
					}
				}
				return true
			})
			if !derived {
				okAll = false
			}
		}
		c.Check("R01d", "schemaApplyRun|applies the computed changes", fi.Decl.Pos(), okAll && n > 0, "applyChanges is called with a change list that is not the one computeDiff returned")
	}
}

func checkEmitHandle(c *Ctx, pp string) {
	d := shortPkg(pp)
	a := c.FlowFor(d, map[string]bool{pSqlx: true, pSchema: true, pp: true})
	top := a.Ret("(*"+pSqlx+".Diff).RealmDiff", 0)
	if top == nil {
		c.Unresolved("R01a", d+": E-flow result for Diff.RealmDiff")
		return
	}
	emitTop := concrete(top.all)
	if st := a.Ret("(*"+pSqlx+".Diff).SchemaDiff", 0); st != nil {
		emitTop.addAll(concrete(st.all))
	}
	emitNested := kset{}
	if n := a.nested["ModifyTable"]; n != nil {
		emitNested.addAll(concrete(n))
	}
	if tt := a.Ret("(*"+pSqlx+".Diff).TableDiff", 0); tt != nil {
		emitNested.addAll(concrete(tt.all))
	}
	// kinds the dialect declares unsupported, if every construction is guarded by SupportChange
	unsupported := map[string]bool{}
	if sf := c.LookupFunc(pp, "diff", "SupportChange"); sf != nil {
		ast.Inspect(sf.Decl.Body, func(m ast.Node) bool {
			cc, ok := m.(*ast.CaseClause)
			if !ok || cc.List == nil {
				return true
			}
			retFalse := false
			for _, st := range cc.Body {
				if r, ok := st.(*ast.ReturnStmt); ok && len(r.Results) == 1 {
					if tv := sf.Info().Types[r.Results[0]]; tv.Value != nil && tv.Value.String() == "false" {
						retFalse = true
					}
				}
			}
			if retFalse {
				for _, e := range cc.List {
					if n := namedOf(sf.Info().TypeOf(e)); n != nil {
						unsupported[n.Obj().Name()] = true
					}
				}
			}
			return true
		})
	}
	for k := range unsupported {
		if !constructionsGuarded(c, k) {
			delete(unsupported, k)
			c.Note("%s: %s is declared unsupported but a construction in sqlx is not guarded by SupportChange", d, k)
		}
	}
	// handlers
	handleTop, handleNested := map[string]bool{}, map[string]bool{}
	nestedDefault := false
	topFns := map[string]bool{"plan": true, "topLevel": true}
	// a dispatcher extracted from them: a state method they call with a schema.Change interface value
	c.AllFuncs(false, func(fi *FuncInfo) {
		if fi.Pkg.PkgPath != pp || recvName(fi.Decl) != "state" || !(fi.Decl.Name.Name == "plan" || fi.Decl.Name.Name == "topLevel") {
			return
		}
		for _, call := range callsIn(fi.Decl.Body, true) {
			fn := calleeOf(fi.Info(), call)
			if fn == nil || fn.Pkg() == nil || fn.Pkg().Path() != pp {
				continue
			}
			sig, _ := fn.Type().(*types.Signature)
			if sig == nil {
				continue
			}
			for i := 0; i < sig.Params().Len(); i++ {
				if n := namedOf(sig.Params().At(i).Type()); n != nil && n.Obj().Name() == "Change" && n.Obj().Pkg() != nil && n.Obj().Pkg().Path() == pSchema {
					if _, isIface := n.Underlying().(*types.Interface); isIface {
						topFns[fn.Name()] = true
					}
				}
			}
		}
	})
	c.AllFuncs(false, func(fi *FuncInfo) {
		if fi.Pkg.PkgPath != pp || recvName(fi.Decl) != "state" {
			return
		}
		if topFns[fi.Decl.Name.Name] {
			ts, _ := caseTypes(fi.Info(), fi.Decl.Body, isChangeType)
			for k := range ts {
				handleTop[k] = true
			}
		}
	})
	// nested: switches over schema.Change in modifyTable and the state methods it reaches statically (depth 3)
	reachN := map[string]bool{"modifyTable": true}
	for depth := 0; depth < 3; depth++ {
		c.AllFuncs(false, func(fi *FuncInfo) {
			if fi.Pkg.PkgPath != pp || !reachN[fi.Decl.Name.Name] {
				return
			}
			for _, call := range callsIn(fi.Decl.Body, true) {
				if fn := calleeOf(fi.Info(), call); fn != nil && fn.Pkg() != nil && fn.Pkg().Path() == pp {
					reachN[fn.Name()] = true
				}
			}
		})
	}
	c.AllFuncs(false, func(fi *FuncInfo) {
		if fi.Pkg.PkgPath != pp || !reachN[fi.Decl.Name.Name] {
			return
		}
		ts, def := caseTypes(fi.Info(), fi.Decl.Body, isChangeType)
		for k := range ts {
			handleNested[k] = true
		}
		if def && fi.Decl.Name.Name == "alterTable" {
			nestedDefault = true
		}
	})
	_ = nestedDefault
	var ks []string
	for k := range emitTop {
		ks = append(ks, k)
	}
	sort.Strings(ks)
	// the OSS feature set per dialect: inspection / HCL evaluation of the community build never produce
	// views, functions, procedures or triggers (their inspectors are stubs), and SQLite has a single schema.
	feature := map[string]bool{"AddTable": true, "DropTable": true, "ModifyTable": true}
	if pp != pSqlite {
		for _, k := range []string{"AddSchema", "DropSchema", "ModifySchema"} {
			feature[k] = true
		}
	}
	if pp == pPostgres {
		for _, k := range []string{"AddObject", "DropObject", "ModifyObject"} {
			feature[k] = true
		}
	}
	var outside []string
	for _, k := range ks {
		if unsupported[k] {
			continue
		}
		if !feature[k] {
			if !handleTop[k] {
				outside = append(outside, k)
			}
			continue
		}
		c.Check("R01a", d+"|top-level "+k, emitTop[k], handleTop[k], "the %s differ can emit a top-level %s (constructed at %s) but the %s planner's plan/topLevel switches have no case for it", d, k, c.pos(emitTop[k]), d)
	}
	ks = nil
	for k := range emitNested {
		ks = append(ks, k)
	}
	sort.Strings(ks)
	for _, k := range ks {
		if unsupported[k] {
			continue
		}
		ok := handleNested[k]
		why := ""
		if pp == pSqlite && !ok {
			// the rebuild handles any nested kind: the new table is created from the desired definition
			ok, why = true, " (covered by the table rebuild)"
		}
		c.Check("R01a", d+"|nested "+k+why, emitNested[k], ok, "the %s differ can put a %s (constructed at %s) into ModifyTable.Changes but the %s planner's modifyTable/alterTable switches have no case for it: the change is silently ignored and the plan never converges", d, k, c.pos(emitNested[k]), d)
	}
	c.Note("%s: emit_top=%v emit_nested=%v unsupported=%v; emitted by the shared differ but outside the dialect's OSS feature set and without planner case (not checked): %v", d, emitTop.keys(), emitNested.keys(), keys(unsupported), outside)
}

// constructionsGuarded: every &schema.K{} literal in sqlx is inside a
// case/if whose condition calls SupportChange((*schema.K)(nil)).
func constructionsGuarded(c *Ctx, kind string) bool {
	ok, n := true, 0
	c.AllFuncs(false, func(fi *FuncInfo) {
		if fi.Pkg.PkgPath != pSqlx {
			return
		}
		info := fi.Info()
		pm := parentMap(fi.Decl.Body)
		ast.Inspect(fi.Decl.Body, func(m ast.Node) bool {
			cl, isLit := m.(*ast.CompositeLit)
			if !isLit || !typeIs(info.TypeOf(cl), pSchema, kind) {
				return true
			}
			n++
			guarded := false
			for p := pm[cl]; p != nil; p = pm[p] {
				var conds []ast.Expr
				switch x := p.(type) {
				case *ast.IfStmt:
					conds = []ast.Expr{x.Cond}
				case *ast.CaseClause:
					conds = x.List
				}
				for _, cond := range conds {
					ast.Inspect(cond, func(k ast.Node) bool {
						call, isCall := k.(*ast.CallExpr)
						if !isCall || len(call.Args) != 1 {
							return true
						}
						if fn := calleeOf(info, call); fn != nil && fn.Name() == "SupportChange" {
							if typeIs(info.TypeOf(call.Args[0]), pSchema, kind) {
								guarded = true
							}
						}
						return true
					})
					// the capability test may be wrapped in a package-local predicate (d.renamePKSupported())
					ast.Inspect(cond, func(k ast.Node) bool {
						call, isCall := k.(*ast.CallExpr)
						if !isCall {
							return true
						}
						hf := calleeOf(info, call)
						if hf == nil || hf.Pkg() == nil || hf.Pkg().Path() != pSqlx || hf.Name() == "SupportChange" {
							return true
						}
						// helper(…(*schema.K)(nil)…) that reaches SupportChange with its parameter
						for _, a := range call.Args {
							if typeIs(info.TypeOf(a), pSchema, kind) && c.mayReach(hf, func(g *types.Func) bool { return g.Name() == "SupportChange" }, 2) {
								guarded = true
							}
						}
						if cf := c.FuncInfoOf(hf); cf != nil && cf.Decl.Body != nil {
							hinfo := cf.Info()
							ast.Inspect(cf.Decl.Body, func(j ast.Node) bool {
								hc, isHC := j.(*ast.CallExpr)
								if !isHC || len(hc.Args) != 1 {
									return true
								}
								if fn := calleeOf(hinfo, hc); fn != nil && fn.Name() == "SupportChange" && typeIs(hinfo.TypeOf(hc.Args[0]), pSchema, kind) {
									guarded = true
								}
								return true
							})
						}
						return true
					})
				}
			}
			if !guarded {
				ok = false
			}
			return true
		})
	})
	return ok && n > 0
}

var _ = token.NoPos

func checkIndexPartDesc(c *Ctx) { checkIndexPartDescRule(c, "R01e") }

func checkIndexPartDescRule(c *Ctx, rule string) {
	for _, pp := range []string{pSqlite, pMysql, pPostgres} {
		c.allBodies(func(b bodyInfo) {
			if b.fi.Pkg.PkgPath != pp {
				return
			}
			base := c.Fset.Position(b.fi.Decl.Pos()).Filename
			base = base[strings.LastIndex(base, "/")+1:]
			if !strings.HasPrefix(base, "migrate") {
				return
			}
			info := b.fi.Info()
			readsCX := 0
			walkShallow(b.body, func(m ast.Node) bool {
				if se, ok := m.(*ast.SelectorExpr); ok && (isField(info, se, pSchema, "IndexPart", "C") || isField(info, se, pSchema, "IndexPart", "X")) {
					readsCX++
				}
				return true
			})
			if readsCX < 2 {
				return
			}
			// only bodies that print (call a Builder method)
			prints := false
			walkShallow(b.body, func(m ast.Node) bool {
				if call, ok := m.(*ast.CallExpr); ok {
					if fn := calleeOf(info, call); fn != nil && recvTypeName(fn) == "Builder" {
						prints = true
					}
				}
				return true
			})
			if !prints {
				return
			}
			f := newFlow(info, b.body)
			consult := func(n ast.Node) bool {
				hit := false
				walkShallow(n, func(m ast.Node) bool {
					switch x := m.(type) {
					case *ast.SelectorExpr:
						if isField(info, x, pSchema, "IndexPart", "Desc") {
							hit = true
						}
					case *ast.CallExpr:
						for _, a := range x.Args {
							if typeIs(info.TypeOf(a), pSchema, "IndexPart") {
								hit = true
							}
						}
					}
					return true
				})
				return hit
			}
			if len(f.find(consult)) == 0 {
				return // this body does not deal with ordering at all (e.g. a prefix-only writer)
			}
			n, found := f.reach([]point{f.entry()}, consult, isReturn, true)
			c.Check(rule, b.name+"|Desc consulted on every path", nodePos(n, b.body.Pos()), !found, "the key-part writer can finish at %s without consulting IndexPart.Desc: a descending expression (or column) part is created ascending and every later plan differs", c.nodeAtOrEnd(n))
		})
	}
}

func checkNormalizeAllPhases(c *Ctx) {
	fi := c.Func("R01f", pSqlite, "diff", "Normalize")
	if fi == nil {
		return
	}
	info := fi.Info()
	f := newFlow(info, fi.Decl.Body)
	// the range expression of the loop that calls normalizeIdxName
	var rx ast.Expr
	ast.Inspect(fi.Decl.Body, func(m ast.Node) bool {
		rs, ok := m.(*ast.RangeStmt)
		if ok && nodeHasCall(info, rs.Body, isCallTo(pSqlite, "", "normalizeIdxName")) != nil {
			rx = rs.X
		}
		return true
	})
	if rx == nil {
		c.Unresolved("R01f", "sqlite Normalize: loop calling normalizeIdxName")
		return
	}
	isPhase := func(n ast.Node) bool { return n == ast.Node(rx) }
	nilRet := func(n ast.Node) bool {
		r, ok := n.(*ast.ReturnStmt)
		return ok && len(r.Results) == 1 && isNilIdent(info, r.Results[0])
	}
	n, found := f.reach([]point{f.entry()}, isPhase, nilRet, true)
	c.Check("R01f", "sqlite.(diff).Normalize|index names normalised before every successful return", nodePos(n, fi.Decl.Pos()), !found, "Normalize can return nil at %s without normalising generated index names: the differ compares sqlite_autoindex_* names with the planner's <table>_<cols> names and every later plan drops and recreates the index", c.nodeAtOrEnd(n))
}

// checkExactDefaults is R01g.
func checkExactDefaults(c *Ctx) { checkExactDefaultsRule(c, "R01g") }

func checkExactDefaultsRule(c *Ctx, rule string) {
	n := 0
	c.AllFuncs(false, func(fi *FuncInfo) {
		if fi.Pkg.PkgPath != pSqlite || !strings.HasSuffix(c.Fset.Position(fi.Decl.Pos()).Filename, "/diff.go") {
			return
		}
		info := fi.Info()
		lits := map[types.Object]bool{}
		ast.Inspect(fi.Decl.Body, func(m ast.Node) bool {
			as, ok := m.(*ast.AssignStmt)
			if !ok || len(as.Rhs) != 1 || len(as.Lhs) < 1 {
				return true
			}
			if call, ok := as.Rhs[0].(*ast.CallExpr); ok && funcIs(calleeOf(info, call), pSqlx, "", "Unquote") {
				if id, ok := as.Lhs[0].(*ast.Ident); ok && id.Name != "_" {
					lits[info.ObjectOf(id)] = true
				}
			}
			return true
		})
		if len(lits) == 0 {
			return
		}
		c.funcs[fi.Name] = true
		for obj := range lits {
			n++
			bad := ""
			var pos token.Pos
			for _, call := range callsIn(fi.Decl.Body, true) {
				fn := calleeOf(info, call)
				if fn == nil || fn.Pkg() == nil {
					continue
				}
				folding := false
				switch fn.Pkg().Path() {
				case "strings":
					switch name := fn.Name(); {
					case name == "EqualFold", name == "ToLower", name == "ToUpper", name == "Title", name == "Fields", name == "ToTitle", strings.HasPrefix(name, "Trim"):
						folding = true
					}
				case "unicode", "golang.org/x/text/cases":
					folding = true
				}
				if !folding {
					continue
				}
				for _, a := range call.Args {
					ast.Inspect(a, func(k ast.Node) bool {
						if id, ok := k.(*ast.Ident); ok && info.ObjectOf(id) == obj {
							bad, pos = types.ExprString(call), call.Pos()
						}
						return true
					})
				}
			}
			if pos == token.NoPos {
				pos = obj.Pos()
			}
			c.Check(rule, fi.Name+"|"+obj.Name()+" compared exactly", pos, bad == "", "%s: the unquoted default literal %s is folded by %s before it is compared: defaults that differ only in case (or blanks) are reported as equal, no change is planned and the database keeps the old default", fi.Name, obj.Name(), bad)
		}
	})
	if n == 0 {
		c.Unresolved(rule, "sqlx.Unquote results in the SQLite differ (expected in diff.defaultChanged)")
	}
}

// checkDiffMode is R01h.
func checkDiffMode(c *Ctx) {
	opt := c.Func("R01h", pCmdapi, "", "diffOptions")
	if opt == nil {
		return
	}
	info := opt.Info()
	has := nodeHasCall(info, opt.Decl.Body, isCallTo(pSchema, "", "DiffNormalized")) != nil
	okRet := false
	ast.Inspect(opt.Decl.Body, func(m ast.Node) bool {
		if r, ok := m.(*ast.ReturnStmt); ok && len(r.Results) == 1 && nodeHasCall(info, r.Results[0], isCallTo(pSchema, "", "DiffNormalized")) != nil {
			okRet = true
		}
		return true
	})
	c.Check("R01h", "diffOptions|includes DiffNormalized", opt.Decl.Pos(), has && okRet, "cmdapi.diffOptions no longer adds schema.DiffNormalized() to the returned options")
	n := 0
	c.AllFuncs(false, func(fi *FuncInfo) {
		if fi.Pkg.PkgPath != pCmdapi {
			return
		}
		info := fi.Info()
		for _, call := range callsIn(fi.Decl.Body, true) {
			if !funcIs(calleeOf(info, call), pCmdapi, "", "computeDiff") {
				continue
			}
			n++
			c.funcs[fi.Name] = true
			ok := false
			if call.Ellipsis.IsValid() && len(call.Args) > 0 {
				last := ast.Unparen(call.Args[len(call.Args)-1])
				fromHelper := func(e ast.Expr) bool {
					cl, isCall := ast.Unparen(e).(*ast.CallExpr)
					return isCall && funcIs(calleeOf(info, cl), pCmdapi, "", "diffOptions")
				}
				switch x := last.(type) {
				case *ast.CallExpr:
					ok = fromHelper(x)
				case *ast.Ident:
					obj := info.ObjectOf(x)
					defs, good := 0, 0
					ast.Inspect(fi.Decl.Body, func(m ast.Node) bool {
						as, isAs := m.(*ast.AssignStmt)
						if !isAs {
							return true
						}
						for i, l := range as.Lhs {
							if id, isID := l.(*ast.Ident); isID && info.ObjectOf(id) == obj {
								defs++
								if len(as.Rhs) == len(as.Lhs) && fromHelper(as.Rhs[i]) {
									good++
								}
							}
						}
						return true
					})
					ok = defs > 0 && defs == good
				}
			}
			c.Check("R01h", fi.Name+"|computeDiff options from diffOptions()", call.Pos(), ok, "%s calls computeDiff with options that do not come from diffOptions(): the changes are computed in a different comparison mode than `schema diff` uses (named CHECK constraints are matched by expression, a changed expression is not planned)", fi.Name)
		}
	})
	if n < 2 {
		c.Unresolved("R01h", "computeDiff call sites in cmdapi (expected schemaApplyRun and schemaDiffRun)")
	}
}

// checkNormalizeArgs is R01i.
func checkNormalizeArgs(c *Ctx) {
	n := 0
	c.AllFuncs(false, func(fi *FuncInfo) {
		if fi.Pkg.PkgPath != pSqlite {
			return
		}
		info := fi.Info()
		for _, call := range callsIn(fi.Decl.Body, true) {
			if !funcIs(calleeOf(info, call), pSqlite, "", "normalizeIdxName") || len(call.Args) != 2 {
				continue
			}
			n++
			c.funcs[fi.Name] = true
			isBareNew := func(e ast.Expr) bool {
				cl, ok := ast.Unparen(e).(*ast.CallExpr)
				return ok && funcIs(calleeOf(info, cl), pSchema, "", "NewIndex")
			}
			arg := ast.Unparen(call.Args[0])
			if un, ok := arg.(*ast.UnaryExpr); ok && un.Op == token.AND {
				arg = ast.Unparen(un.X)
			}
			bare := isBareNew(arg)
			if id, ok := arg.(*ast.Ident); ok && !bare {
				obj := info.ObjectOf(id)
				defs, bareDefs, partsSet := 0, 0, false
				ast.Inspect(fi.Decl.Body, func(m ast.Node) bool {
					switch x := m.(type) {
					case *ast.AssignStmt:
						for i, l := range x.Lhs {
							if lid, ok := l.(*ast.Ident); ok && info.ObjectOf(lid) == obj && len(x.Rhs) == len(x.Lhs) {
								defs++
								if isBareNew(x.Rhs[i]) {
									bareDefs++
								}
							}
							if isField(info, l, pSchema, "Index", "Parts") {
								if r := rootIdent(l); r != nil && info.ObjectOf(r) == obj {
									partsSet = true
								}
							}
						}
					case *ast.CallExpr:
						// idx.AddColumns / AddParts / AddExprs on the variable
						if se, ok := x.Fun.(*ast.SelectorExpr); ok && strings.HasPrefix(se.Sel.Name, "Add") {
							if r := rootIdent(se.X); r != nil && info.ObjectOf(r) == obj {
								partsSet = true
							}
						}
					}
					return true
				})
				bare = defs > 0 && defs == bareDefs && !partsSet
			}
			c.Check("R01i", fi.Name+"|normalizeIdxName("+types.ExprString(call.Args[0])+", …) has parts", call.Pos(), !bare, "%s normalises an index created by schema.NewIndex(name) alone: without parts the generated name is just the table name, the UNIQUE-constraint index of the other table is never found, and the differ drops and re-creates it (DROP INDEX of a name that does not exist: the apply fails)", fi.Name)
		}
	})
	if n < 2 {
		c.Unresolved("R01i", "calls of sqlite.normalizeIdxName (expected in Normalize, FindGeneratedIndex and the planner)")
	}
}
