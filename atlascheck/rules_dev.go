package main

import (
	"go/ast"
	"go/token"
	"go/types"
	"strings"

	"golang.org/x/tools/go/callgraph"
	"golang.org/x/tools/go/ssa"
)

func init() {
	register("C14", &propCheck{
		explanation: "Effect and path rules: (a) call-graph reachability shows no Snapshot implementation can execute a statement before it returns (so a refused, non-empty dev database is untouched); (b) at every call site of Snapshot the returned restore function is deferred on the success edge before any return or database write, so every later exit (including panics) restores; (c) every database write in a snapshot-holding function is dominated by that defer and the private writer methods are reachable only from it; (d) no directory-mutating call on the executor's directory is reachable from Executor.Replay except CopyFiles into a MemDir allocated in the same function.",
		undecided:   []string{"that the restore function itself removes every object kind (engine semantics)", "that inspection reports every object of a non-empty database (Snapshot's cleanliness test is value-level)"},
		run:         runC14,
	})
}

// isSnapshotCall matches calls of a method named Snapshot returning migrate.RestoreFunc.
func isSnapshotCall(fn *types.Func, _ *ast.CallExpr) bool {
	if fn.Name() != "Snapshot" {
		return false
	}
	sig := fn.Type().(*types.Signature)
	return sig.Recv() != nil && sig.Results().Len() == 2 && typeIs(sig.Results().At(0).Type(), pMigrate, "RestoreFunc")
}

func runC14(c *Ctx) {
	c.Rule("R14a", "no Snapshot implementation reaches a statement-execution primitive (database/sql ExecContext/Exec) or Driver.ApplyChanges from its body (the returned closure excluded): refusing a non-empty database leaves it untouched", 3)
	c.Rule("R14b", "at every call site of Snapshot the error is checked and, on the success edge, a defer invoking the returned restore function precedes every return and every call", 4)
	c.Rule("R14c", "in every snapshot-holding function each call that may write to the database is dominated by the deferred restore; functions of the package that write to the database are called only from snapshot-holding functions or other such writers", 4)
	c.Rule("R14d", "no directory-mutating call (WriteFile, WriteSumFile, WriteCheckpoint, CopyFiles, os.WriteFile/Remove/Rename) is reachable from Executor.Replay through sql/migrate code, except CopyFiles on a MemDir allocated in the same function", 1)
	c.Rule("R14e", "a deferred closure that reports the restore error assigns it to a named result of the enclosing function (otherwise the error is lost)", 4)

	c.Rule("R14g", "sqlite restore: inside the closure returned by Snapshot every nil return is preceded by the loop that executes the clean-up statements (no shortcut that decides 'nothing to clean' from a partial view of the database)", 1)
	c.Rule("R14i", "the context the deferred restore runs with is not one the same function bounded by a deadline (context.WithTimeout/WithDeadline assigned to that variable): the restore runs after all the work, so a deadline meant for an earlier step would expire it and leave the dev database dirty", 4)
	c.Rule("R14k", "the deferred restore runs whatever the outcome: in the deferred closure (or helper) that invokes the restore function, every path from its entry to its exit passes the call of the restore function — it is not conditional on the function's error being nil; a run that failed half way is exactly the case in which the dev database holds leftovers", 4)
	c.Rule("R14m", ruleTextReplayOnly, 3)
	checkReplayOnly(c, "R14m")
	c.Rule("R14n", ruleTextRestoreCascade, 3)
	checkRestoreCascade(c, "R14n")
	c.Rule("R14l", ruleTextSnapshotAccepts, 3)
	checkSnapshotAccepts(c, "R14l")
	c.Rule("R14j", "no context bounded by a deadline in a function of the command layer (assigned from context.WithTimeout/WithDeadline there) is handed to a call that can reach Snapshot through statically resolved module code: the restore deferred behind that Snapshot would run with the same, by then possibly expired, context (zero bounded contexts is a pass: the obligation list enumerates every bounded context found)", 0)
	checkBoundedCtxFlow(c, "R14j")
	c.Rule("R14h", ruleTextRowsClosed, 3)
	checkRowsClosed(c, "R14h")
	checkRestoreAllPaths(c)
	c.Rule("R14f", "sqlite Snapshot: every object kind the restore closure deletes from sqlite_master (type IN (…)) is consulted by the cleanliness test (a Schema collection read before the closure is returned); index and trigger are implied by their table/view", 2)
	checkSnapshotKinds(c)

	prog := c.SSA()
	cg := c.CHA()
	enterRepo := func(f *ssa.Function) bool { return inRepo(f) }

	// ---- R14a
	snapImpls := 0
	for _, pp := range []string{pSqlite, pMysql, pPostgres} {
		fi := c.Func("R14a", pp, "Driver", "Snapshot")
		if fi == nil {
			continue
		}
		snapImpls++
		sf := prog.FuncValue(fi.Obj)
		if sf == nil {
			c.Unresolved("R14a", "SSA of "+fi.Name)
			continue
		}
		path := cg.Reach([]*ssa.Function{sf}, func(f *ssa.Function) bool {
			// do not enter closures created by Snapshot and friends: they are returned, not called
			return enterRepo(f)
		}, func(e *callgraph.Edge) bool {
			f := e.Callee.Func
			return ssaDBWrite(f) || (methodOf(f, "ApplyChanges") && inRepo(f))
		})
		c.Check("R14a", fi.Name+"|no write before return", fi.Decl.Pos(), path == nil, "a database write is reachable from the body of Snapshot: %s", strings.Join(path, " → "))
	}

	// ---- R14b, R14c, R14e: every call site of Snapshot in both modules
	c.AllFuncs(false, func(fi *FuncInfo) {
		info := fi.Info()
		var has bool
		for _, call := range callsIn(fi.Decl.Body, false) {
			if fn := calleeOf(info, call); fn != nil && isSnapshotCall(fn, call) {
				has = true
			}
		}
		if !has {
			return
		}
		c.funcs[fi.Name] = true
		f := newFlow(info, fi.Decl.Body)
		isSnap := func(n ast.Node) bool { return !isDeferOrGo(n) && nodeHasCall(info, n, isSnapshotCall) != nil }
		for _, sp := range f.find(isSnap) {
			as, ok := sp.b.Nodes[sp.i].(*ast.AssignStmt)
			if !ok || len(as.Lhs) != 2 {
				c.Unresolved("R14b", fi.Name+": result of Snapshot not assigned to (restore, err)")
				continue
			}
			rid, _ := as.Lhs[0].(*ast.Ident)
			if rid == nil || rid.Name == "_" {
				c.Check("R14b", fi.Name+"|restore kept", as.Pos(), false, "the restore function returned by Snapshot is discarded")
				continue
			}
			restoreObj := info.ObjectOf(rid)
			_, okB, _, shapeOK := f.errBranch(sp)
			if !shapeOK {
				c.Unresolved("R14b", fi.Name+": error check following Snapshot")
				continue
			}
			// the defer: a DeferStmt whose call (or func-literal body) invokes restoreObj
			var deferred *ast.DeferStmt
			isDeferRestore := func(n ast.Node) bool {
				d, ok := n.(*ast.DeferStmt)
				if !ok {
					return false
				}
				hit := invokesFuncValue(c, info, d.Call, restoreObj, 2)
				// defer helper(…, restore, …): a module-local function that calls that parameter
				if !hit {
					if hf := calleeOf(info, d.Call); hf != nil && hf.Pkg() != nil && strings.HasPrefix(hf.Pkg().Path(), modRoot) {
						if cf := c.FuncInfoOf(hf); cf != nil && cf.Decl.Body != nil {
							var ps []*ast.Ident
							for _, fld := range cf.Decl.Type.Params.List {
								ps = append(ps, fld.Names...)
							}
							for ai, a := range d.Call.Args {
								id, ok := ast.Unparen(a).(*ast.Ident)
								if !ok || info.ObjectOf(id) != restoreObj || ai >= len(ps) {
									continue
								}
								pobj := cf.Info().ObjectOf(ps[ai])
								for _, call := range callsIn(cf.Decl.Body, true) {
									if cid, ok := call.Fun.(*ast.Ident); ok && cf.Info().ObjectOf(cid) == pobj {
										hit = true
									}
								}
							}
						}
					}
				}
				if hit {
					deferred = d
				}
				return hit
			}
			anyCallOrExit := func(n ast.Node) bool {
				if isReturn(n) {
					return true
				}
				if _, ok := n.(*ast.DeferStmt); ok {
					return false
				}
				for _, call := range callsIn(n, false) {
					if b := builtinName(info, call); b != "" {
						continue
					}
					if tv, ok := info.Types[call.Fun]; ok && tv.IsType() {
						continue // conversion
					}
					return true
				}
				return false
			}
			n, found := f.reach([]point{{okB, 0}}, isDeferRestore, anyCallOrExit, true)
			c.Check("R14b", fi.Name+"|defer restore first", nodePos(n, as.Pos()), !found, "after a successful Snapshot, %s is reached before the restore function is deferred", c.nodeAtOrEnd(n))

			// R14c: db writes dominated by the defer
			mayWrite := func(n ast.Node) bool {
				if isDeferOrGo(n) {
					return false
				}
				for _, call := range callsIn(n, false) {
					if c.callMayWriteDB(info, call) {
						return true
					}
				}
				return false
			}
			wn, ok2 := f.mustPrecede(isDeferRestore, mayWrite)
			c.Check("R14c", fi.Name+"|writes under snapshot", nodePos(wn, as.Pos()), ok2, "the database write at %s is reachable before the restore function is deferred", c.nodeAt(wn))

			// R14e: the deferred closure assigns the restore error to a named result
			if deferred != nil {
				if fl, ok := deferred.Call.Fun.(*ast.FuncLit); ok {
					named := map[types.Object]bool{}
					if fi.Decl.Type.Results != nil {
						for _, fld := range fi.Decl.Type.Results.List {
							for _, nm := range fld.Names {
								named[info.ObjectOf(nm)] = true
							}
						}
					}
					assignsErr, toNamed := false, false
					ast.Inspect(fl.Body, func(m ast.Node) bool {
						if as, ok := m.(*ast.AssignStmt); ok {
							for _, l := range as.Lhs {
								if id, ok := l.(*ast.Ident); ok {
									o := info.ObjectOf(id)
									if o != nil && o.Pos() < fl.Pos() && types.Identical(o.Type(), types.Universe.Lookup("error").Type()) {
										assignsErr = true
										if named[o] {
											toNamed = true
										}
									}
								}
							}
						}
						return true
					})
					c.Check("R14e", fi.Name+"|restore error reported", deferred.Pos(), assignsErr && toNamed, "the deferred restore closure does not assign its error to a named result of %s: a failed restore is silently dropped", fi.Name)
				} else if hf := calleeOf(info, deferred.Call); hf != nil && c.FuncInfoOf(hf) != nil && c.FuncInfoOf(hf).Decl.Body != nil && info.ObjectOf(deferredFunIdent(deferred)) != restoreObj {
					// defer helper(…, &err): the helper stores the restore error through a pointer to a named result
					cf := c.FuncInfoOf(hf)
					named := map[types.Object]bool{}
					if fi.Decl.Type.Results != nil {
						for _, fld := range fi.Decl.Type.Results.List {
							for _, nm := range fld.Names {
								named[info.ObjectOf(nm)] = true
							}
						}
					}
					var ps []*ast.Ident
					for _, fld := range cf.Decl.Type.Params.List {
						ps = append(ps, fld.Names...)
					}
					stores := false
					for ai, a := range deferred.Call.Args {
						un, ok := ast.Unparen(a).(*ast.UnaryExpr)
						if !ok || un.Op != token.AND || ai >= len(ps) {
							continue
						}
						id, ok := ast.Unparen(un.X).(*ast.Ident)
						if !ok || !named[info.ObjectOf(id)] {
							continue
						}
						pobj := cf.Info().ObjectOf(ps[ai])
						ast.Inspect(cf.Decl.Body, func(m ast.Node) bool {
							if as, ok := m.(*ast.AssignStmt); ok {
								for _, l := range as.Lhs {
									if st, ok := ast.Unparen(l).(*ast.StarExpr); ok {
										if pid, ok := ast.Unparen(st.X).(*ast.Ident); ok && cf.Info().ObjectOf(pid) == pobj {
											stores = true
										}
									}
								}
							}
							return true
						})
					}
					c.Check("R14e", fi.Name+"|restore error reported", deferred.Pos(), stores, "the deferred restore helper does not store its error through a pointer to a named result of %s: a failed restore is silently dropped", fi.Name)
				} else {
					c.Check("R14e", fi.Name+"|restore error reported", deferred.Pos(), false, "`defer restore(ctx)` discards the restore error")
				}
			}
			if deferred != nil {
				checkRestoreCtx(c, fi, deferred)
				checkRestoreUnconditional(c, fi, deferred, restoreObj)
			}
		}
	})

	// ---- R14c (ownership part): DevLoader's writer methods
	checkWriterOwnership(c)

	// ---- R14d
	checkReplayNoDirWrite(c)

	if c.Tier == "thorough" {
		c.Rule("R14e+", "cross-reference (thorough): in both modules, a deferred closure that assigns an error to a variable of the enclosing function assigns to a named result (an assignment to a plain local of a function with unnamed results is lost when the function returns)", 3)
		checkDeferredErrAssign(c)
	}
}

// checkDeferredErrAssign: generalisation of R14e over both modules.
func checkDeferredErrAssign(c *Ctx) {
	errT := types.Universe.Lookup("error").Type()
	c.AllFuncs(false, func(fi *FuncInfo) {
		info := fi.Info()
		named := map[types.Object]bool{}
		if fi.Decl.Type.Results != nil {
			for _, fld := range fi.Decl.Type.Results.List {
				for _, nm := range fld.Names {
					named[info.ObjectOf(nm)] = true
				}
			}
		}
		returnsErr := false
		if fi.Decl.Type.Results != nil {
			for _, fld := range fi.Decl.Type.Results.List {
				if t := info.TypeOf(fld.Type); t != nil && types.Identical(t, errT) {
					returnsErr = true
				}
			}
		}
		if !returnsErr {
			return
		}
		for _, st := range fi.Decl.Body.List {
			d, ok := st.(*ast.DeferStmt)
			if !ok {
				continue
			}
			fl, ok := d.Call.Fun.(*ast.FuncLit)
			if !ok {
				continue
			}
			ast.Inspect(fl.Body, func(m ast.Node) bool {
				as, ok := m.(*ast.AssignStmt)
				if !ok || as.Tok == token.DEFINE {
					return true
				}
				for _, l := range as.Lhs {
					id, ok := l.(*ast.Ident)
					if !ok {
						continue
					}
					o := info.ObjectOf(id)
					if o == nil || !types.Identical(o.Type(), errT) {
						continue
					}
					// a variable of the enclosing function (not of the closure)
					if !(fi.Decl.Pos() <= o.Pos() && o.Pos() < fl.Pos()) {
						continue
					}
					c.funcs[fi.Name] = true
					c.Check("R14e+", fi.Name+"|deferred assignment to "+o.Name(), as.Pos(), named[o], "the deferred closure assigns an error to %q, which is not a named result of %s: the assignment cannot reach the caller", o.Name(), fi.Name)
				}
				return true
			})
		}
	})
}

// callMayWriteDB: the call is a statement-execution primitive, ApplyChanges,
// or a static callee in the analysed modules from which one is reachable.
func (c *Ctx) callMayWriteDB(info *types.Info, call *ast.CallExpr) bool {
	fn := calleeOf(info, call)
	if fn == nil {
		return false
	}
	if dbExec(fn, call) || (fn.Name() == "ApplyChanges" && fn.Type().(*types.Signature).Recv() != nil) {
		return true
	}
	switch fn.Name() {
	case "ExecuteN", "ExecuteTo", "Execute", "ExecuteFiles":
		if fn.Pkg() != nil && fn.Pkg().Path() == pMigrate {
			return true
		}
	}
	sf := c.SSA().FuncValue(fn)
	if sf == nil || !inRepo(sf) {
		return false
	}
	return c.writers()[sf]
}

// writers: repo functions from which a db write primitive is reachable
// through static calls and closures only (no interface dispatch).
func (c *Ctx) writers() map[*ssa.Function]bool {
	if c.writerSet != nil {
		return c.writerSet
	}
	cg := c.CHA()
	direct := map[*ssa.Function]bool{}
	for f, n := range cg.g.Nodes {
		if f == nil || !inRepo(f) {
			continue
		}
		for _, e := range n.Out {
			cc := e.Site
			if cc == nil {
				continue
			}
			com := cc.Common()
			if com.IsInvoke() {
				m := com.Method
				if m.Name() == "ExecContext" || m.Name() == "ApplyChanges" {
					direct[f] = true
				}
			} else if sc := com.StaticCallee(); sc != nil && (ssaDBWrite(sc) || methodOf(sc, "ApplyChanges")) {
				direct[f] = true
			}
		}
	}
	// propagate backwards along static edges within the repo
	set := map[*ssa.Function]bool{}
	var st []*ssa.Function
	for f := range direct {
		set[f] = true
		st = append(st, f)
	}
	for len(st) > 0 {
		f := st[len(st)-1]
		st = st[:len(st)-1]
		n := cg.g.Nodes[f]
		if n == nil {
			continue
		}
		for _, e := range n.In {
			if e.Site == nil {
				continue
			}
			com := e.Site.Common()
			staticOrClosure := com.StaticCallee() != nil || (!com.IsInvoke() && f.Parent() != nil && topParent(f) == topParent(e.Caller.Func))
			if !staticOrClosure {
				continue
			}
			cf := e.Caller.Func
			if !inRepo(cf) || set[cf] {
				continue
			}
			set[cf] = true
			st = append(st, cf)
		}
	}
	c.writerSet = set
	return set
}

func checkWriterOwnership(c *Ctx) {
	prog := c.SSA()
	cg := c.CHA()
	w := c.writers()
	// snapshot-holding functions
	holders := map[*ssa.Function]bool{}
	c.AllFuncs(false, func(fi *FuncInfo) {
		for _, call := range callsIn(fi.Decl.Body, false) {
			if fn := calleeOf(fi.Info(), call); fn != nil && isSnapshotCall(fn, call) {
				if sf := prog.FuncValue(fi.Obj); sf != nil {
					holders[sf] = true
				}
			}
		}
	})
	// methods of DevLoader and DevDriver that write
	for _, spec := range []struct{ pkg, typ string }{{pLint, "DevLoader"}, {pSqlx, "DevDriver"}} {
		nt := c.NamedType(spec.pkg, spec.typ)
		if nt == nil {
			c.Unresolved("R14c", "type "+spec.typ)
			continue
		}
		ms := prog.MethodSets.MethodSet(types.NewPointer(nt))
		for i := 0; i < ms.Len(); i++ {
			sf := prog.MethodValue(ms.At(i))
			if sf == nil || !w[sf] || holders[sf] || !inRepo(sf) {
				continue
			}
			if sf.Synthetic != "" {
				continue
			}
			// every caller must be a holder or another writer method of the same type
			ok := true
			var bad string
			for _, caller := range cg.Callers(sf) {
				top := topParent(caller)
				if holders[top] {
					continue
				}
				if top.Signature.Recv() != nil && typeIs(top.Signature.Recv().Type(), spec.pkg, spec.typ) && w[top] {
					continue
				}
				if strings.HasSuffix(c.Fset.Position(top.Pos()).Filename, "_test.go") {
					continue
				}
				ok = false
				bad = top.String()
			}
			c.Check("R14c", shortPkg(spec.pkg)+".("+spec.typ+")."+sf.Name()+"|called under snapshot only", sf.Pos(), ok, "database-writing method %s is called from %s, which holds no snapshot", sf.Name(), bad)
		}
	}
}

func checkReplayNoDirWrite(c *Ctx) {
	fi := c.Func("R14d", pMigrate, "Executor", "Replay")
	if fi == nil {
		return
	}
	prog := c.SSA()
	cg := c.CHA()
	start := prog.FuncValue(fi.Obj)
	// explore sql/migrate code only: the StateReader / Driver / RevisionReadWriter
	// callbacks belong to the caller and are covered by their own packages.
	inMigrate := func(f *ssa.Function) bool {
		return objPkgPath(topParent(f)) == pMigrate && !strings.HasSuffix(c.Fset.Position(f.Pos()).Filename, "_test.go")
	}
	dirMut := map[string]bool{"WriteFile": true, "WriteSumFile": true, "WriteCheckpoint": true, "CopyFiles": true}
	dirType := c.NamedType(pMigrate, "Dir")
	if dirType == nil {
		c.Unresolved("R14d", "type migrate.Dir")
		return
	}
	dirIface := dirType.Underlying().(*types.Interface)
	set := cg.ReachSet([]*ssa.Function{start}, func(f *ssa.Function) bool {
		if !inMigrate(f) {
			return false
		}
		// methods of Dir implementations themselves are the primitives, do not enter
		if r := topParent(f).Signature.Recv(); r != nil && types.Implements(r.Type(), dirIface) {
			return false
		}
		return true
	})
	viol := 0
	checked := 0
	for f := range set {
		// only Executor methods and free functions reached from them; skip bodies of Dir implementations
		if r := f.Signature.Recv(); r != nil && types.Implements(r.Type(), dirIface) {
			continue
		}
		for _, b := range f.Blocks {
			for _, in := range b.Instrs {
				call, ok := in.(ssa.CallInstruction)
				if !ok {
					continue
				}
				com := call.Common()
				name, recvT := "", types.Type(nil)
				if com.IsInvoke() {
					name, recvT = com.Method.Name(), com.Value.Type()
				} else if sc := com.StaticCallee(); sc != nil {
					name = sc.Name()
					if sc.Signature.Recv() != nil {
						recvT = sc.Signature.Recv().Type()
					} else if p := objPkgPath(sc); p == "os" && (name == "WriteFile" || name == "Remove" || name == "RemoveAll" || name == "Rename" || name == "Create" || name == "OpenFile") {
						viol++
						c.Check("R14d", f.String()+"|"+p+"."+name, in.Pos(), false, "os.%s is reachable from Executor.Replay", name)
						continue
					}
				}
				if recvT == nil || !dirMut[name] {
					continue
				}
				if !types.Implements(recvT, dirIface) && !types.Implements(types.NewPointer(recvT), dirIface) {
					continue
				}
				checked++
				// allowed: CopyFiles whose receiver is an Alloc of MemDir in the same function
				ok2 := false
				if name == "CopyFiles" && !com.IsInvoke() && len(com.Args) > 0 {
					if al, isAl := com.Args[0].(*ssa.Alloc); isAl && typeIs(al.Type(), pMigrate, "MemDir") {
						ok2 = true
					}
					// the variable is captured by a closure: a load of a cell that only ever holds such allocations
					if ld, isLoad := com.Args[0].(*ssa.UnOp); isLoad && ld.Op == token.MUL {
						if cell, isCell := ld.X.(*ssa.Alloc); isCell && cell.Referrers() != nil {
							stores, good := 0, 0
							for _, ref := range *cell.Referrers() {
								if st, isStore := ref.(*ssa.Store); isStore && st.Addr == cell {
									stores++
									if al, isAl := st.Val.(*ssa.Alloc); isAl && typeIs(al.Type(), pMigrate, "MemDir") {
										good++
									}
								}
							}
							ok2 = stores > 0 && stores == good
						}
					}
				}
				c.Check("R14d", f.String()+"|"+name, in.Pos(), ok2, "%s on a directory is reachable from Executor.Replay (in %s): replay must never write the directory", name, f.String())
			}
		}
	}
	c.Note("R14d explored %d sql/migrate functions reachable from Replay; %d directory-mutating call sites examined", len(set), checked)
}

// checkSnapshotKinds: agreement between what the sqlite restore deletes and
// what the cleanliness test looks at.
func checkSnapshotKinds(c *Ctx) {
	fi := c.Func("R14f", pSqlite, "Driver", "Snapshot")
	if fi == nil {
		return
	}
	info := fi.Info()
	// kinds deleted: string constants of the restore function (closure or method value returned by Snapshot,
	// including package-level tables it reads) mentioning sqlite_master and "type IN"
	deleted := map[string]bool{}
	checked := map[string]bool{}
	rbody, rinfo := snapshotRestoreBody(c, fi)
	addConst := func(sv string) {
		if !strings.Contains(sv, "sqlite_master") {
			return
		}
		up := strings.ToUpper(sv)
		if i := strings.Index(up, "TYPE IN"); i >= 0 {
			rest := sv[i:]
			if a, b := strings.Index(rest, "("), strings.Index(rest, ")"); a >= 0 && b > a {
				for _, k := range strings.Split(rest[a+1:b], ",") {
					deleted[strings.Trim(strings.TrimSpace(k), "'\"`")] = true
				}
			}
		}
	}
	if rbody != nil {
		ast.Inspect(rbody, func(k ast.Node) bool {
			if e, ok := k.(ast.Expr); ok {
				if sv, ok := stringConst(rinfo, e); ok {
					addConst(sv)
				}
				if id, ok := e.(*ast.Ident); ok {
					if v, ok := rinfo.ObjectOf(id).(*types.Var); ok && v.Parent() == v.Pkg().Scope() {
						// package-level variable: constants of its initialiser
						if p := c.Pkg(v.Pkg().Path()); p != nil {
							for _, file := range p.Syntax {
								ast.Inspect(file, func(j ast.Node) bool {
									vs, ok := j.(*ast.ValueSpec)
									if !ok {
										return true
									}
									for i, nm := range vs.Names {
										if p.TypesInfo.ObjectOf(nm) == v && i < len(vs.Values) {
											ast.Inspect(vs.Values[i], func(q ast.Node) bool {
												if qe, ok := q.(ast.Expr); ok {
													if sv, ok := stringConst(p.TypesInfo, qe); ok {
														addConst(sv)
													}
												}
												return true
											})
										}
									}
									return true
								})
							}
						}
					}
				}
			}
			return true
		})
	}
	// what the cleanliness test looks at: Snapshot itself and the package-local predicates it calls
	scope := []*FuncInfo{fi}
	for _, call := range callsIn(fi.Decl.Body, false) {
		if fn := calleeOf(info, call); fn != nil && fn.Pkg() != nil && fn.Pkg().Path() == pSqlite {
			if cf := c.FuncInfoOf(fn); cf != nil && cf.Decl.Body != nil && cf.Decl.Body != rbody {
				scope = append(scope, cf)
			}
		}
	}
	for _, sf := range scope {
		sinfo := sf.Info()
		walkShallow(sf.Decl.Body, func(m ast.Node) bool {
			if se, ok := m.(*ast.SelectorExpr); ok {
				if f := fieldOf(sinfo, se); f != nil && isField(sinfo, se, pSchema, "Schema", f.Name()) {
					switch f.Name() {
					case "Tables":
						checked["table"] = true
					case "Views":
						checked["view"] = true
					}
				}
			}
			return true
		})
	}
	if len(deleted) == 0 {
		c.Unresolved("R14f", "sqlite restore closure: DELETE FROM sqlite_master WHERE type IN (…)")
		return
	}
	implied := map[string]string{"index": "table", "trigger": "table"}
	for k := range deleted {
		need := k
		if p, ok := implied[k]; ok {
			need = p
		}
		c.Check("R14f", "sqlite.Snapshot|restore deletes "+k, fi.Decl.Pos(), checked[need], "the restore closure deletes objects of type %q but the cleanliness test never looks at them: a dev database holding only such objects is accepted as clean and then wiped", k)
	}
}

func checkRestoreAllPaths(c *Ctx) {
	fi := c.Func("R14g", pSqlite, "Driver", "Snapshot")
	if fi == nil {
		return
	}
	rbody, info := snapshotRestoreBody(c, fi)
	if rbody == nil {
		c.Unresolved("R14g", "sqlite Snapshot: the restore function it returns (closure or method value)")
		return
	}
	var rx ast.Node
	ast.Inspect(rbody, func(m ast.Node) bool {
		switch l := m.(type) {
		case *ast.RangeStmt:
			if nodeHasCall(info, l.Body, dbExec) != nil {
				rx = l.X
			}
		case *ast.ForStmt:
			if nodeHasCall(info, l.Body, dbExec) != nil && l.Cond != nil {
				rx = l.Cond
			}
		}
		return true
	})
	if rx == nil {
		c.Unresolved("R14g", "sqlite restore function: loop executing the clean-up statements")
		return
	}
	f := newFlow(info, rbody)
	isLoop := func(n ast.Node) bool { return n == rx }
	nilRet := func(n ast.Node) bool {
		r, ok := n.(*ast.ReturnStmt)
		return ok && len(r.Results) == 1 && isNilIdent(info, r.Results[0])
	}
	n, found := f.reach([]point{f.entry()}, isLoop, nilRet, true)
	c.Check("R14g", "sqlite.Snapshot|restore executes its statements before reporting success", nodePos(n, rbody.Pos()), !found, "the restore function can return nil at %s without executing the clean-up statements: objects the shortcut does not look at (views, triggers) are left in the dev database", c.nodeAtOrEnd(n))
}

// deferredFunIdent returns the identifier called by a defer statement (nil for literals and selectors).
func deferredFunIdent(d *ast.DeferStmt) *ast.Ident {
	id, _ := ast.Unparen(d.Call.Fun).(*ast.Ident)
	if id == nil {
		return &ast.Ident{}
	}
	return id
}

// snapshotRestoreBody returns the body of the restore function a Snapshot implementation returns:
// a function literal, or a module-local function / method value.
func snapshotRestoreBody(c *Ctx, fi *FuncInfo) (*ast.BlockStmt, *types.Info) {
	info := fi.Info()
	var body *ast.BlockStmt
	binfo := info
	ast.Inspect(fi.Decl.Body, func(m ast.Node) bool {
		r, ok := m.(*ast.ReturnStmt)
		if !ok || len(r.Results) != 2 || isNilIdent(info, r.Results[0]) {
			return true
		}
		switch x := ast.Unparen(r.Results[0]).(type) {
		case *ast.FuncLit:
			body = x.Body
		case *ast.SelectorExpr:
			if fn, ok := info.ObjectOf(x.Sel).(*types.Func); ok {
				if cf := c.FuncInfoOf(fn); cf != nil && cf.Decl.Body != nil {
					body, binfo = cf.Decl.Body, cf.Info()
				}
			}
		case *ast.Ident:
			if fn, ok := info.ObjectOf(x).(*types.Func); ok {
				if cf := c.FuncInfoOf(fn); cf != nil && cf.Decl.Body != nil {
					body, binfo = cf.Decl.Body, cf.Info()
				}
			}
		}
		return true
	})
	return body, binfo
}
