package main

import (
	"golang.org/x/tools/go/cfg"

	"go/ast"
	"go/token"
	"go/types"
	"sort"
	"strings"

	"golang.org/x/tools/go/ssa"
)

func init() {
	register("C19", &propCheck{
		explanation: "Flow, table and path rules. (a) E-flow (SSA may-analysis with function summaries to a fixpoint) computes, for every value that can reach the result of Diff.RealmDiff/SchemaDiff/TableDiff or a Changes field of a change built by the differ, the set of change kinds it may hold without having passed DiffOptions.AddOrSkip; no skippable kind may be in that set: this decides 'a skipped change kind never appears in a change set at any nesting level' for all inputs. (b) The bool fields of the CLI's SkipChanges policy and the prototype list of Diff.Options agree. (c) Every inspector returns only through ExcludeRealm/ExcludeSchema with the option's patterns. (d) In the exclusion code every pattern is applied to every resource (no early exit from the pattern/resource loops except error returns and the explicit drop of the resource), the keep-append is unconditional, and no error is overwritten before being read.",
		undecided:   []string{"glob / [type=…] selector matching semantics (filepath.Match, reType)", "that AddOrSkip's reflective type comparison equals type identity for user-defined change types"},
		run:         runC19,
	})
}

func skippableKinds(c *Ctx, rule string) []string {
	st := c.NamedType(pCmdapi, "SkipChanges")
	if st == nil {
		c.Unresolved(rule, "type cmdapi.SkipChanges")
		return nil
	}
	s, ok := st.Underlying().(*types.Struct)
	if !ok {
		c.Unresolved(rule, "cmdapi.SkipChanges is not a struct")
		return nil
	}
	var out []string
	for i := 0; i < s.NumFields(); i++ {
		if b, ok := s.Field(i).Type().Underlying().(*types.Basic); ok && b.Kind() == types.Bool {
			out = append(out, s.Field(i).Name())
		}
	}
	sort.Strings(out)
	return out
}

func runC19(c *Ctx) {
	c.Rule("R19a", "skip filter on every path (E-flow): no skippable change kind reaches the result of Diff.RealmDiff/SchemaDiff/TableDiff, or a Changes field of a change built inside the differ, without passing DiffOptions.AddOrSkip", 4)
	c.Rule("R19b", "policy table: bool fields of cmdapi.SkipChanges ⇔ prototypes listed in (*Diff).Options; AddOrSkip appends iff !Skipped; Skipped compares dynamic types", 4)
	c.Rule("R19c", "every Inspector implementation (sqlite, mysql, postgres InspectRealm/InspectSchema) returns only nil+error or the result of schema.ExcludeRealm/ExcludeSchema applied with the options' Exclude patterns; the HCL/SQL state reader applies the same functions", 7)
	c.Rule("R19d", "no dropped error while excluding: in sql/schema/exclude_oss.go an assigned error variable is read before it is assigned again on every path (repo-wide as cross-reference in the thorough tier)", 5)
	c.Rule("R19e", "every pattern is applied to every resource: the pattern and resource loops of ExcludeRealm/excludeS/excludeObjects have no break and no non-error return, and the statement that keeps a resource (append to the result) is unconditional in the loop body", 4)

	skippable := skippableKinds(c, "R19b")
	skipSet := map[string]bool{}
	for _, k := range skippable {
		skipSet[k] = true
	}

	// ---- R19a
	a := c.Flow()
	cg := c.CHA()
	prog := c.SSA()
	var roots []*ssa.Function
	for _, n := range []string{"RealmDiff", "SchemaDiff", "TableDiff"} {
		name := "(*" + pSqlx + ".Diff)." + n
		f := a.byName[name]
		if f == nil {
			c.Unresolved("R19a", name)
			continue
		}
		roots = append(roots, f)
		r := a.Ret(name, 0)
		var bad []string
		var firstPos token.Pos
		for k, p := range concrete(r.unf) {
			if skipSet[k] {
				bad = append(bad, k+" (constructed at "+c.pos(p)+")")
				if !firstPos.IsValid() {
					firstPos = p
				}
			}
		}
		sort.Strings(bad)
		c.Check("R19a", "sqlx.(Diff)."+n+"|result unfiltered kinds", firstPos, len(bad) == 0, "skippable change kinds reach the result of %s without passing AddOrSkip: %s", n, strings.Join(bad, ", "))
	}
	_ = prog
	reach := cg.ReachSet(roots, func(f *ssa.Function) bool { return inRepo(f) })
	seen := map[string]bool{}
	nSink := 0
	for _, h := range a.sinks {
		if !skipSet[h.Kind] {
			continue
		}
		fn := a.byName[h.Fn]
		if fn == nil || !reach[topParent(fn)] && !reach[fn] {
			continue
		}
		key := shortFn(h.Fn) + "|unfiltered " + h.Kind + " into " + h.Container + ".Changes"
		if seen[key] {
			continue
		}
		seen[key] = true
		nSink++
		c.Check("R19a", key, h.Pos, false, "a %s constructed at %s is stored into %s.Changes in %s without passing AddOrSkip (nested change escapes the skip policy)", h.Kind, c.pos(h.Origin), h.Container, shortFn(h.Fn))
	}
	c.Check("R19a", "differ|nested stores filtered", token.NoPos, nSink == 0, "%d unfiltered nested stores", nSink)
	c.Note("E-flow: %d functions, fixpoint in %d rounds; %d functions reachable from the Differ entry points; nested kinds: %s", len(a.fns), a.Rounds, len(reach), nestedSummary(a))

	// ---- R19b
	checkSkipTable(c, skippable)

	// ---- R19c
	checkInspectorsExclude(c)

	// ---- R19d
	errDropLint(c, "R19d", func(fi *FuncInfo) bool {
		return strings.HasSuffix(c.Fset.Position(fi.Decl.Pos()).Filename, "sql/schema/exclude_oss.go")
	}, 5)
	if c.Tier == "thorough" {
		c.Rule("R19d+", "cross-reference (thorough): the same def-use rule over both modules; listed exception: specutil.linkForeignKeys (first lookup error deliberately superseded by the local-reference lookup)", 1)
		errDropLint(c, "R19d+", func(fi *FuncInfo) bool { return true }, 0)
	}

	// ---- R19e
	checkExcludeLoops(c)

	// ---- R19f
	c.Rule("R19f", "exclusion side effects only for matching resources: in the filter callbacks of excludeT/excludeV a write to a captured collection (the sets of indexes / foreign keys to drop with an excluded column) is reachable only through an edge that establishes the pattern matched", 1)
	checkFilterCallbacks(c)

	c.Rule("R19h", ruleTextExcludeScope, 1)
	checkExcludeScope(c, "R19h")
	c.Rule("R19m", ruleTextConfigComplete, 1)
	checkConfigComplete(c, "R19m")
	c.Rule("R19o", ruleTextConfigSameType, 1)
	checkConfigSameType(c, "R19o")
	c.Rule("R19n", ruleTextDiffOptsForwarded, 4)
	checkDiffOptsForwarded(c, "R19n")
	c.Rule("R19k", ruleTextExtendReturns, 1)
	checkExtendReturns(c, "R19k")
	c.Rule("R19l", ruleTextSelectorSeparator, 1)
	checkSelectorSeparator(c, "R19l")
	c.Rule("R19j", ruleTextExcludeByParts, 1)
	checkExcludeByParts(c, "R19j")
	c.Rule("R19i", ruleTextSkipAccumulates, 1)
	checkSkipAccumulates(c, "R19i")

	// ---- R19g
	c.Rule("R19g", "a planner executes only the changes it was given: the modifyTable method of each dialect builds its statements from ModifyTable.Changes and never re-creates the table from ModifyTable.T (the desired table still contains the effect of every skipped change, so a CREATE TABLE made from it carries the skipped drops out)", 3)
	checkNoRebuildFromDesired(c)
}

func nestedSummary(a *FlowAnalysis) string {
	var parts []string
	for k, v := range a.nested {
		parts = append(parts, k+"←{"+strings.Join(concrete(v).keys(), ",")+"}")
	}
	sort.Strings(parts)
	return strings.Join(parts, " ")
}

func shortFn(s string) string {
	s = strings.ReplaceAll(s, modRoot+"/sql/internal/", "")
	s = strings.ReplaceAll(s, modRoot+"/sql/", "")
	s = strings.ReplaceAll(s, modCmd+"/internal/", "")
	return s
}

func checkSkipTable(c *Ctx, fields []string) {
	fi := c.Func("R19b", pCmdapi, "Diff", "Options")
	if fi == nil {
		return
	}
	info := fi.Info()
	protos := map[string]bool{}
	// the prototype list: a []schema.Change literal in Diff.Options or in a package-local function it calls
	scope := []*FuncInfo{fi}
	for _, call := range callsIn(fi.Decl.Body, true) {
		if fn := calleeOf(info, call); fn != nil && fn.Pkg() != nil && fn.Pkg().Path() == pCmdapi {
			if cf := c.FuncInfoOf(fn); cf != nil && cf.Decl.Body != nil {
				scope = append(scope, cf)
			}
		}
	}
	for _, sf := range scope {
		sinfo := sf.Info()
		ast.Inspect(sf.Decl.Body, func(m ast.Node) bool {
			cl, ok := m.(*ast.CompositeLit)
			if !ok {
				return true
			}
			if sl, ok := sinfo.TypeOf(cl).Underlying().(*types.Slice); !ok || !typeIs(sl.Elem(), pSchema, "Change") {
				return true
			}
			for _, e := range cl.Elts {
				if un, ok := e.(*ast.UnaryExpr); ok {
					if n := namedOf(sinfo.TypeOf(un.X)); n != nil {
						protos[n.Obj().Name()] = true
					}
				}
			}
			return false
		})
	}
	var missingProto, missingField []string
	fset := map[string]bool{}
	for _, f := range fields {
		fset[f] = true
		if !protos[f] {
			missingProto = append(missingProto, f)
		}
	}
	for p := range protos {
		if !fset[p] {
			missingField = append(missingField, p)
		}
	}
	sort.Strings(missingField)
	c.Check("R19b", "Diff.Options|every policy field has a prototype", fi.Decl.Pos(), len(missingProto) == 0 && len(protos) > 0, "SkipChanges fields without a prototype in Diff.Options (the switch does nothing): %v", missingProto)
	c.Check("R19b", "Diff.Options|every prototype has a policy field", fi.Decl.Pos(), len(missingField) == 0 && len(protos) > 0, "prototypes without a SkipChanges field (FieldByName(...).Bool() panics): %v", missingField)

	// AddOrSkip: append iff !Skipped
	if af := c.Func("R19b", pSchema, "DiffOptions", "AddOrSkip"); af != nil {
		ainfo := af.Info()
		f := newFlow(ainfo, af.Decl.Body)
		isSkippedCall := func(e ast.Expr) bool {
			call, ok := ast.Unparen(e).(*ast.CallExpr)
			return ok && funcIs(calleeOf(ainfo, call), pSchema, "DiffOptions", "Skipped")
		}
		isAppend := func(n ast.Node) bool {
			hit := false
			walkShallow(n, func(k ast.Node) bool {
				if call, ok := k.(*ast.CallExpr); ok && builtinName(ainfo, call) == "append" {
					hit = true
				}
				return true
			})
			return hit
		}
		notSkipped := func(b *cfg.Block, si int) bool {
			return edgeImplies(b, si, func(e ast.Expr, val bool) bool { return isSkippedCall(e) && !val })
		}
		// (a) no append is reachable without passing an edge that establishes !Skipped(c)
		_, leak := f.reachEx([]point{f.entry()}, nil, isAppend, notSkipped)
		// (b) after such an edge, the change is appended before the next test and before returning
		var starts []point
		for _, b := range f.G.Blocks {
			for si, succ := range b.Succs {
				if notSkipped(b, si) {
					starts = append(starts, point{succ, 0})
				}
			}
		}
		containsSkipped := func(n ast.Node) bool {
			hit := false
			walkShallow(n, func(k ast.Node) bool {
				if e, ok := k.(ast.Expr); ok && isSkippedCall(e) {
					hit = true
				}
				return true
			})
			return hit
		}
		_, lost := f.reach(starts, isAppend, func(n ast.Node) bool { return isReturn(n) || containsSkipped(n) }, true)
		c.Check("R19b", "AddOrSkip|append iff !Skipped", af.Decl.Pos(), len(starts) > 0 && !leak && !lost, "AddOrSkip must append a change exactly when Skipped reports false (an append reachable without the test: %v; a change that is not skipped can be left out: %v)", leak, lost)
	}
	if sf := c.Func("R19b", pSchema, "DiffOptions", "Skipped"); sf != nil {
		sinfo := sf.Info()
		ok := false
		ast.Inspect(sf.Decl.Body, func(m ast.Node) bool {
			be, isBin := m.(*ast.BinaryExpr)
			if !isBin || be.Op != token.EQL {
				return true
			}
			isTypeOf := func(e ast.Expr) bool {
				e = ast.Unparen(e)
				if call, isCall := e.(*ast.CallExpr); isCall {
					fn := calleeOf(sinfo, call)
					return fn != nil && fn.Pkg() != nil && fn.Pkg().Path() == "reflect" && fn.Name() == "TypeOf"
				}
				// a local holding reflect.TypeOf(…)
				if id, isID := e.(*ast.Ident); isID {
					hit := false
					ast.Inspect(sf.Decl.Body, func(k ast.Node) bool {
						if as, isAs := k.(*ast.AssignStmt); isAs && len(as.Lhs) == len(as.Rhs) {
							for i, l := range as.Lhs {
								if lid, isL := l.(*ast.Ident); isL && sinfo.ObjectOf(lid) == sinfo.ObjectOf(id) {
									if call, isCall := ast.Unparen(as.Rhs[i]).(*ast.CallExpr); isCall {
										fn := calleeOf(sinfo, call)
										hit = hit || fn != nil && fn.Pkg() != nil && fn.Pkg().Path() == "reflect" && fn.Name() == "TypeOf"
									}
								}
							}
						}
						return true
					})
					return hit
				}
				return false
			}
			if isTypeOf(be.X) && isTypeOf(be.Y) {
				ok = true
			}
			return true
		})
		rangesSkip := false
		ast.Inspect(sf.Decl.Body, func(m ast.Node) bool {
			if rs, isR := m.(*ast.RangeStmt); isR && isField(sinfo, rs.X, pSchema, "DiffOptions", "SkipChanges") {
				rangesSkip = true
			}
			// slices.ContainsFunc / IndexFunc / slices.Contains over SkipChanges visit every entry as well
			if call, isC := m.(*ast.CallExpr); isC && len(call.Args) >= 1 && isField(sinfo, call.Args[0], pSchema, "DiffOptions", "SkipChanges") {
				if fn := calleeOf(sinfo, call); fn != nil && fn.Pkg() != nil && fn.Pkg().Path() == "slices" && (fn.Name() == "ContainsFunc" || fn.Name() == "IndexFunc") {
					rangesSkip = true
				}
			}
			return true
		})
		c.Check("R19b", "Skipped|type identity over all SkipChanges", sf.Decl.Pos(), ok && rangesSkip, "Skipped must compare the dynamic type of the change with every entry of SkipChanges")
	}
}

func checkInspectorsExclude(c *Ctx) {
	for _, pp := range []string{pSqlite, pMysql, pPostgres} {
		for _, m := range []struct{ method, excl string }{{"InspectRealm", "ExcludeRealm"}, {"InspectSchema", "ExcludeSchema"}} {
			fi := c.Func("R19c", pp, "inspect", m.method)
			if fi == nil {
				continue
			}
			info := fi.Info()
			// the options parameter: last param
			ps := fi.Decl.Type.Params.List
			optObj := info.ObjectOf(ps[len(ps)-1].Names[0])
			bad := ""
			n := 0
			walkShallow(fi.Decl.Body, func(nd ast.Node) bool {
				r, ok := nd.(*ast.ReturnStmt)
				if !ok {
					return true
				}
				n++
				if len(r.Results) == 2 && isNilIdent(info, r.Results[0]) {
					return true // error return
				}
				if len(r.Results) == 1 {
					if call, ok := r.Results[0].(*ast.CallExpr); ok && funcIs(calleeOf(info, call), pSchema, "", m.excl) && len(call.Args) == 2 {
						if se, ok := call.Args[1].(*ast.SelectorExpr); ok && se.Sel.Name == "Exclude" {
							if x, ok := se.X.(*ast.Ident); ok && info.ObjectOf(x) == optObj {
								return true
							}
						}
					}
				}
				bad = c.pos(r.Pos())
				return true
			})
			c.Check("R19c", shortPkg(pp)+".(inspect)."+m.method+"|returns through "+m.excl, fi.Decl.Pos(), bad == "" && n > 0, "the return at %s hands out an inspection result that did not pass schema.%s(…, opts.Exclude)", bad, m.excl)
		}
	}
	// the HCL/SQL state reader
	found := 0
	c.AllFuncs(false, func(fi *FuncInfo) {
		if fi.Pkg.PkgPath != pCmdext {
			return
		}
		for _, call := range callsIn(fi.Decl.Body, true) {
			fn := calleeOf(fi.Info(), call)
			if funcIs(fn, pSchema, "", "ExcludeRealm") || funcIs(fn, pSchema, "", "ExcludeSchema") {
				if se, ok := call.Args[1].(*ast.SelectorExpr); ok && se.Sel.Name == "Exclude" {
					found++
				}
			}
		}
	})
	c.Check("R19c", "cmdext state readers|apply Exclude", token.NoPos, found >= 2, "the cmdext state readers no longer apply ExcludeSchema/ExcludeRealm with config.Exclude (found %d call sites)", found)
}

// errDropLint: an assignment to an error variable must reach a read before
// the next assignment to it, on every path.
func errDropLint(c *Ctx, rule string, want func(*FuncInfo) bool, _ int) {
	errT := types.Universe.Lookup("error").Type()
	c.AllFuncs(false, func(fi *FuncInfo) {
		if !want(fi) {
			return
		}
		info := fi.Info()
		var bodies []struct {
			body  *ast.BlockStmt
			ftype *ast.FuncType
			name  string
		}
		bodies = append(bodies, struct {
			body  *ast.BlockStmt
			ftype *ast.FuncType
			name  string
		}{fi.Decl.Body, fi.Decl.Type, fi.Name})
		ast.Inspect(fi.Decl.Body, func(m ast.Node) bool {
			if fl, ok := m.(*ast.FuncLit); ok {
				bodies = append(bodies, struct {
					body  *ast.BlockStmt
					ftype *ast.FuncType
					name  string
				}{fl.Body, fl.Type, fi.Name + "$lit"})
			}
			return true
		})
		for _, b := range bodies {
			named := map[types.Object]bool{}
			if b.ftype.Results != nil {
				for _, fl := range b.ftype.Results.List {
					for _, nm := range fl.Names {
						if o := info.Defs[nm]; o != nil {
							named[o] = true
						}
					}
				}
			}
			captured := map[types.Object]bool{}
			ast.Inspect(b.body, func(m ast.Node) bool {
				switch m := m.(type) {
				case *ast.FuncLit:
					ast.Inspect(m.Body, func(k ast.Node) bool {
						if id, ok := k.(*ast.Ident); ok {
							if o := info.ObjectOf(id); o != nil {
								captured[o] = true
							}
						}
						return true
					})
				case *ast.UnaryExpr:
					if m.Op == token.AND {
						if id, ok := m.X.(*ast.Ident); ok {
							if o := info.ObjectOf(id); o != nil {
								captured[o] = true
							}
						}
					}
				}
				return true
			})
			defsReads := func(n ast.Node) (defs []types.Object, reads map[types.Object]bool) {
				reads = map[types.Object]bool{}
				lhs := map[*ast.Ident]bool{}
				if s, ok := n.(*ast.AssignStmt); ok {
					for _, l := range s.Lhs {
						if id, ok := l.(*ast.Ident); ok && id.Name != "_" {
							if o := info.ObjectOf(id); o != nil && types.Identical(o.Type(), errT) {
								if _, isVar := o.(*types.Var); isVar {
									defs = append(defs, o)
									lhs[id] = true
								}
							}
						}
					}
				}
				ast.Inspect(n, func(m ast.Node) bool {
					if fl, ok := m.(*ast.FuncLit); ok {
						ast.Inspect(fl.Body, func(k ast.Node) bool {
							if id, ok := k.(*ast.Ident); ok {
								if o := info.ObjectOf(id); o != nil {
									reads[o] = true
								}
							}
							return true
						})
						return false
					}
					if id, ok := m.(*ast.Ident); ok && !lhs[id] {
						if o := info.Uses[id]; o != nil {
							reads[o] = true
						}
					}
					return true
				})
				return
			}
			f := newFlow(info, b.body)
			for _, blk := range f.G.Blocks {
				for i, nd := range blk.Nodes {
					defs, _ := defsReads(nd)
					for _, o := range defs {
						if captured[o] {
							continue
						}
						seen := map[point]bool{}
						stack := []point{{blk, i + 1}}
						var bad ast.Node
						for len(stack) > 0 && bad == nil {
							pt := stack[len(stack)-1]
							stack = stack[:len(stack)-1]
							if seen[pt] {
								continue
							}
							seen[pt] = true
							stopped := false
							for j := pt.i; j < len(pt.b.Nodes); j++ {
								d2, r2 := defsReads(pt.b.Nodes[j])
								if r2[o] {
									stopped = true
									break
								}
								if isReturn(pt.b.Nodes[j]) {
									stopped = true
									break
								}
								for _, o2 := range d2 {
									if o2 == o {
										bad = pt.b.Nodes[j]
										stopped = true
									}
								}
								if stopped {
									break
								}
							}
							if stopped {
								continue
							}
							for _, s := range pt.b.Succs {
								stack = append(stack, point{s, 0})
							}
						}
						key := b.name + "|" + o.Name() + " from " + rhsCallee(info, nd)
						if rule == "R19d+" && b.name == "specutil.linkForeignKeys" {
							c.Check(rule, key+"|listed exception", nd.Pos(), true, "first lookup error deliberately superseded by the local-reference lookup")
							continue
						}
						if bad != nil {
							c.Check(rule, key, nd.Pos(), false, "the error assigned at %s is overwritten at %s before any read: a failure of %s is silently dropped", c.pos(nd.Pos()), c.pos(bad.Pos()), rhsCallee(info, nd))
						} else {
							c.Check(rule, key, nd.Pos(), true, "")
						}
					}
				}
			}
		}
	})
}

func rhsCallee(info *types.Info, n ast.Node) string {
	if as, ok := n.(*ast.AssignStmt); ok && len(as.Rhs) == 1 {
		if call, ok := as.Rhs[0].(*ast.CallExpr); ok {
			if fn := calleeOf(info, call); fn != nil {
				return fqn(fn)
			}
			return types.ExprString(call.Fun)
		}
	}
	return "expr"
}

func checkExcludeLoops(c *Ctx) {
	for _, name := range []string{"ExcludeRealm", "excludeS", "excludeObjects", "filter"} {
		fi := c.Func("R19e", pSchema, "", name)
		if fi == nil {
			continue
		}
		info := fi.Info()
		pm := parentMap(fi.Decl.Body)
		ast.Inspect(fi.Decl.Body, func(m ast.Node) bool {
			loop, ok := m.(*ast.RangeStmt)
			if !ok {
				return true
			}
			lname := types.ExprString(loop.X)
			// breaks targeting this loop, non-error returns inside it
			bad := ""
			ast.Inspect(loop.Body, func(k ast.Node) bool {
				switch s := k.(type) {
				case *ast.FuncLit:
					return false
				case *ast.BranchStmt:
					if s.Tok == token.BREAK {
						// which statement does it break? innermost enclosing for/range/switch/select, or label
						tgt := enclosing(pm, s, func(n ast.Node) bool {
							switch n.(type) {
							case *ast.ForStmt, *ast.RangeStmt, *ast.SwitchStmt, *ast.TypeSwitchStmt, *ast.SelectStmt:
								return true
							}
							return false
						})
						if s.Label != nil {
							if ls, ok := pm[loop].(*ast.LabeledStmt); ok && ls.Label.Name == s.Label.Name {
								tgt = loop
							}
						}
						if tgt == ast.Node(loop) {
							bad = "break at " + c.pos(s.Pos())
						}
					}
					if s.Tok == token.GOTO {
						bad = "goto at " + c.pos(s.Pos())
					}
				case *ast.ReturnStmt:
					if len(s.Results) > 0 && isNilIdent(info, s.Results[len(s.Results)-1]) && types.Identical(info.TypeOf(s.Results[len(s.Results)-1]), types.Typ[types.UntypedNil]) {
						// returning a nil error from inside the loop
						if sig := fi.Obj.Type().(*types.Signature); sig.Results().Len() > 0 && types.Identical(sig.Results().At(sig.Results().Len()-1).Type(), types.Universe.Lookup("error").Type()) {
							if enclosing(pm, s, func(n ast.Node) bool { _, ok := n.(*ast.FuncLit); return ok }) == nil {
								bad = "non-error return at " + c.pos(s.Pos())
							}
						}
					}
				}
				return true
			})
			c.Check("R19e", "schema."+name+"|range "+lname+"|no early exit", loop.Pos(), bad == "", "the loop over %s is left early (%s): later patterns / resources are not processed", lname, bad)
			// keep-append: an append of the loop variable must be a top-level statement of the loop body
			val, _ := loop.Value.(*ast.Ident)
			if val == nil {
				if k, ok := loop.Key.(*ast.Ident); ok {
					val = k // `for i := range s` style handled below by index
				}
			}
			var keepTop, keepNested bool
			var walk func(list []ast.Stmt, top bool)
			walk = func(list []ast.Stmt, top bool) {
				for _, st := range list {
					switch s := st.(type) {
					case *ast.AssignStmt:
						if len(s.Rhs) == 1 {
							if call, ok := s.Rhs[0].(*ast.CallExpr); ok && builtinName(info, call) == "append" && len(call.Args) == 2 {
								if appendsLoopVar(info, call.Args[1], loop) {
									if top {
										keepTop = true
									} else {
										keepNested = true
									}
								}
							}
						}
					case *ast.IfStmt:
						walk(s.Body.List, false)
						if b, ok := s.Else.(*ast.BlockStmt); ok {
							walk(b.List, false)
						}
					case *ast.BlockStmt:
						walk(s.List, false)
					case *ast.ForStmt:
						// a nested loop body is not the keep site of this loop
					}
				}
			}
			walk(loop.Body.List, true)
			if keepTop || keepNested {
				// `filter` keeps conditionally by design: `if !match { r = append(r, s[i]) }`
				if name == "filter" {
					c.Check("R19e", "schema."+name+"|range "+lname+"|keep iff !match", loop.Pos(), filterKeepsIffNoMatch(fi, loop), "filter must keep an element exactly when the predicate reports no match")
				} else if name != "excludeObjects" { // excludeObjects keeps per type-selector branch by design
					okKeep := keepTop && !keepNested
					if !okKeep && keepNested && !keepTop {
						// `excluded, err := helper(s, …); if !excluded { keep }` where the helper reports true only after a pattern matched
						okKeep = keepGuardedByExclusionHelper(c, fi, loop)
					}
					c.Check("R19e", "schema."+name+"|range "+lname+"|keep is unconditional", loop.Pos(), okKeep, "the append that keeps a non-excluded resource is conditional: resources matching no pattern may be dropped")
				}
			}
			return true
		})
	}
}

func appendsLoopVar(info *types.Info, e ast.Expr, loop *ast.RangeStmt) bool {
	switch x := e.(type) {
	case *ast.Ident:
		if v, ok := loop.Value.(*ast.Ident); ok && info.ObjectOf(x) == info.ObjectOf(v) {
			return true
		}
	case *ast.IndexExpr:
		if k, ok := loop.Key.(*ast.Ident); ok {
			if i, ok := x.Index.(*ast.Ident); ok && info.ObjectOf(i) == info.ObjectOf(k) && types.ExprString(x.X) == types.ExprString(loop.X) {
				return true
			}
		}
	}
	return false
}

func checkFilterCallbacks(c *Ctx) {
	n := 0
	for _, name := range []string{"excludeT", "excludeV"} {
		fi := c.Func("R19f", pSchema, "", name)
		if fi == nil {
			continue
		}
		info := fi.Info()
		k := 0
		ast.Inspect(fi.Decl.Body, func(m ast.Node) bool {
			call, ok := m.(*ast.CallExpr)
			if !ok || !funcIs(calleeOf(info, call), pSchema, "", "filter") || len(call.Args) != 2 {
				return true
			}
			fl, ok := call.Args[1].(*ast.FuncLit)
			if !ok {
				return true
			}
			// writes to maps declared outside the callback
			isCapturedWrite := func(nd ast.Node) bool {
				hit := false
				walkShallow(nd, func(q ast.Node) bool {
					as, ok := q.(*ast.AssignStmt)
					if !ok {
						return true
					}
					for _, l := range as.Lhs {
						ix, ok := l.(*ast.IndexExpr)
						if !ok {
							continue
						}
						if r := rootIdent(ix.X); r != nil {
							if o := info.ObjectOf(r); o != nil && o.Pos() < fl.Pos() {
								hit = true
							}
						}
					}
					return true
				})
				return hit
			}
			f := newFlow(info, fl.Body)
			if len(f.find(isCapturedWrite)) == 0 {
				return true
			}
			k++
			n++
			matched := func(b *cfg.Block, si int) bool {
				return edgeImplies(b, si, func(e ast.Expr, val bool) bool {
					id, ok := e.(*ast.Ident)
					if !ok || !val {
						return false
					}
					// the bool result of a Match call
					if v, ok := info.ObjectOf(id).(*types.Var); ok {
						if b, ok := v.Type().Underlying().(*types.Basic); ok && b.Kind() == types.Bool {
							return true
						}
					}
					return false
				})
			}
			nd, found := f.reachEx([]point{f.entry()}, nil, isCapturedWrite, matched)
			c.Check("R19f", "schema."+name+"|callback#"+itoa(k)+" side effects only after a match", nodePos(nd, fl.Pos()), !found, "the filter callback records resources to drop at %s on a path that did not establish that the pattern matched: indexes / foreign keys of columns that match no pattern are removed from the inspection result", c.nodeAt(nd))
			return true
		})
	}
	if n == 0 {
		c.Unresolved("R19f", "filter callbacks with captured-collection writes in excludeT/excludeV")
	}
}

// checkNoRebuildFromDesired is R19g.
func checkNoRebuildFromDesired(c *Ctx) {
	for _, pp := range []string{pSqlite, pMysql, pPostgres} {
		fi := c.Func("R19g", pp, "state", "modifyTable")
		if fi == nil {
			continue
		}
		info := fi.Info()
		var modify types.Object
		for _, fld := range fi.Decl.Type.Params.List {
			if typeIs(derefType(info.TypeOf(fld.Type)), pSchema, "ModifyTable") && len(fld.Names) == 1 {
				modify = info.ObjectOf(fld.Names[0])
			}
		}
		if modify == nil {
			c.Unresolved("R19g", fi.Name+": the *schema.ModifyTable parameter")
			continue
		}
		// variables holding the desired table or a copy of it
		isDesired := func(e ast.Expr) bool {
			e = ast.Unparen(e)
			if st, ok := e.(*ast.StarExpr); ok {
				e = ast.Unparen(st.X)
			}
			se, ok := e.(*ast.SelectorExpr)
			if !ok || se.Sel.Name != "T" {
				return false
			}
			id, ok := ast.Unparen(se.X).(*ast.Ident)
			return ok && info.ObjectOf(id) == modify
		}
		copies := map[types.Object]bool{}
		ast.Inspect(fi.Decl.Body, func(m ast.Node) bool {
			as, ok := m.(*ast.AssignStmt)
			if !ok || len(as.Lhs) != len(as.Rhs) {
				return true
			}
			for i, r := range as.Rhs {
				if isDesired(r) {
					if id, ok := as.Lhs[i].(*ast.Ident); ok {
						copies[info.ObjectOf(id)] = true
					}
				}
			}
			return true
		})
		refers := func(e ast.Expr) bool {
			hit := false
			ast.Inspect(e, func(k ast.Node) bool {
				if x, ok := k.(ast.Expr); ok && isDesired(x) {
					hit = true
				}
				if id, ok := k.(*ast.Ident); ok && copies[info.ObjectOf(id)] {
					hit = true
				}
				return !hit
			})
			return hit
		}
		bad := ""
		var pos token.Pos = fi.Decl.Pos()
		ast.Inspect(fi.Decl.Body, func(m ast.Node) bool {
			switch x := m.(type) {
			case *ast.CompositeLit:
				if typeIs(info.TypeOf(x), pSchema, "AddTable") {
					for _, el := range x.Elts {
						if kv, ok := el.(*ast.KeyValueExpr); ok && refers(kv.Value) {
							bad, pos = types.ExprString(x), x.Pos()
						}
					}
				}
			case *ast.CallExpr:
				if fn := calleeOf(info, x); fn != nil && fn.Name() == "addTable" && fn.Pkg() != nil && fn.Pkg().Path() == pp {
					for _, a := range x.Args {
						if refers(a) {
							bad, pos = types.ExprString(x), x.Pos()
						}
					}
				}
			}
			return true
		})
		c.Check("R19g", shortPkg(pp)+".(state).modifyTable|table not re-created from ModifyTable.T", pos, bad == "", "%s re-creates the table from the desired state (%s): columns, indexes and constraints whose drop (or modification) was filtered out by the skip policy are not in ModifyTable.Changes but are missing from ModifyTable.T, so the rebuild drops them anyway", fi.Name, bad)
	}
}

// keepGuardedByExclusionHelper: every append of the loop variable in the loop is guarded only by the negation of a
// boolean returned by a package-local function that returns true exclusively on paths where filepath.Match reported a match.
func keepGuardedByExclusionHelper(c *Ctx, fi *FuncInfo, loop *ast.RangeStmt) bool {
	info := fi.Info()
	pm := parentMap(loop.Body)
	ok, n := true, 0
	ast.Inspect(loop.Body, func(m ast.Node) bool {
		as, isAs := m.(*ast.AssignStmt)
		if !isAs || len(as.Rhs) != 1 {
			return true
		}
		call, isCall := as.Rhs[0].(*ast.CallExpr)
		if !isCall || builtinName(info, call) != "append" || len(call.Args) != 2 || !appendsLoopVar(info, call.Args[1], loop) {
			return true
		}
		n++
		guards := 0
		var child ast.Node = as
		for p := pm[as]; p != nil; child, p = p, pm[p] {
			ifs, isIf := p.(*ast.IfStmt)
			if !isIf {
				continue
			}
			var facts []fact
			switch {
			case child == ast.Node(ifs.Body):
				facts = impliedFacts(ifs.Cond, true)
			case child == ifs.Else:
				facts = impliedFacts(ifs.Cond, false)
			default:
				continue
			}
			guards++
			good := false
			for _, f := range facts {
				id, isID := ast.Unparen(f.expr).(*ast.Ident)
				if !isID || f.val {
					continue
				}
				// the variable comes from a package-local exclusion predicate
				obj := info.ObjectOf(id)
				ast.Inspect(fi.Decl.Body, func(k ast.Node) bool {
					das, isDas := k.(*ast.AssignStmt)
					if !isDas || len(das.Rhs) != 1 {
						return true
					}
					for i, l := range das.Lhs {
						if lid, isL := l.(*ast.Ident); isL && info.ObjectOf(lid) == obj {
							if dc, isC := das.Rhs[0].(*ast.CallExpr); isC {
								if fn := calleeOf(info, dc); fn != nil && fn.Pkg() != nil && fn.Pkg().Path() == fi.Pkg.PkgPath && returnsTrueOnlyOnMatch(c, fn, i) {
									good = true
								}
							}
						}
					}
					return true
				})
			}
			if !good {
				ok = false
			}
		}
		if guards == 0 {
			ok = false
		}
		return true
	})
	return ok && n > 0
}

// returnsTrueOnlyOnMatch: every `return …true…` (result i) of fn is reachable only through an edge on which the
// result of filepath.Match is true.
func returnsTrueOnlyOnMatch(c *Ctx, fn *types.Func, i int) bool {
	cf := c.FuncInfoOf(fn)
	if cf == nil || cf.Decl.Body == nil {
		return false
	}
	info := cf.Info()
	matchVars := map[types.Object]bool{}
	ast.Inspect(cf.Decl.Body, func(m ast.Node) bool {
		as, ok := m.(*ast.AssignStmt)
		if !ok || len(as.Rhs) != 1 {
			return true
		}
		if call, ok := as.Rhs[0].(*ast.CallExpr); ok {
			if g := calleeOf(info, call); g != nil && g.Pkg() != nil && g.Pkg().Path() == "path/filepath" && g.Name() == "Match" {
				if id, ok := as.Lhs[0].(*ast.Ident); ok {
					matchVars[info.ObjectOf(id)] = true
				}
			}
		}
		return true
	})
	if len(matchVars) == 0 {
		return false
	}
	f := newFlow(info, cf.Decl.Body)
	matched := func(b *cfg.Block, si int) bool {
		return edgeImplies(b, si, func(e ast.Expr, val bool) bool {
			id, ok := ast.Unparen(e).(*ast.Ident)
			return ok && val && matchVars[info.ObjectOf(id)]
		})
	}
	retTrue := func(n ast.Node) bool {
		r, ok := n.(*ast.ReturnStmt)
		if !ok || i >= len(r.Results) {
			return false
		}
		tv := info.Types[r.Results[i]]
		return tv.Value == nil || tv.Value.String() != "false"
	}
	_, leak := f.reachEx([]point{f.entry()}, nil, retTrue, matched)
	return !leak && len(f.find(retTrue)) > 0
}

// filterKeepsIffNoMatch decides on the CFG, for the loop of the generic filter
// helper, that the append keeping the element is reached exactly when the
// predicate result is false: reachable from the predicate call along edges
// that do not imply match == true, and unreachable (within the iteration) along
// edges that do not imply match == false.
func filterKeepsIffNoMatch(fi *FuncInfo, loop *ast.RangeStmt) bool {
	info := fi.Info()
	params := map[types.Object]bool{}
	for _, fld := range fi.Decl.Type.Params.List {
		for _, nm := range fld.Names {
			if _, ok := info.TypeOf(fld.Type).Underlying().(*types.Signature); ok {
				params[info.ObjectOf(nm)] = true
			}
		}
	}
	var matchObj types.Object
	var predNode ast.Node
	ast.Inspect(loop.Body, func(m ast.Node) bool {
		as, ok := m.(*ast.AssignStmt)
		if !ok || len(as.Rhs) != 1 || len(as.Lhs) == 0 {
			return true
		}
		call, ok := as.Rhs[0].(*ast.CallExpr)
		if !ok {
			return true
		}
		if id, ok := call.Fun.(*ast.Ident); ok && params[info.ObjectOf(id)] {
			if l, ok := as.Lhs[0].(*ast.Ident); ok {
				matchObj, predNode = info.ObjectOf(l), as
			}
		}
		return true
	})
	if matchObj == nil {
		return false
	}
	f := newFlow(info, fi.Decl.Body)
	isPred := func(n ast.Node) bool { return n == predNode }
	isKeep := func(n ast.Node) bool {
		as, ok := n.(*ast.AssignStmt)
		if !ok || len(as.Rhs) != 1 {
			return false
		}
		call, ok := as.Rhs[0].(*ast.CallExpr)
		return ok && builtinName(info, call) == "append" && len(call.Args) == 2 && appendsLoopVar(info, call.Args[1], loop)
	}
	starts := []point{}
	for _, pt := range f.find(isPred) {
		starts = append(starts, after(pt))
	}
	if len(starts) == 0 || len(f.find(isKeep)) == 0 {
		return false
	}
	implies := func(want bool) func(b *cfg.Block, si int) bool {
		return func(b *cfg.Block, si int) bool {
			return edgeImplies(b, si, func(e ast.Expr, val bool) bool {
				id, ok := ast.Unparen(e).(*ast.Ident)
				return ok && info.ObjectOf(id) == matchObj && val == want
			})
		}
	}
	_, whenFalse := f.reachEx(starts, isPred, isKeep, implies(true))
	_, whenTrue := f.reachEx(starts, isPred, isKeep, implies(false))
	return whenFalse && !whenTrue
}
