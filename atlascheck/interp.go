package main

import (
	"fmt"
	"go/ast"
	"go/constant"
	"go/token"
	"go/types"
	"strings"
)

// E-tstate: a small abstract interpreter over the typed AST of a handful of
// functions. Values are drawn from a finite domain (constants, nil /
// non-nil tokens, mutable struct objects, known slices, unknown); unknown
// conditions and the outcome of external calls are nondeterministic choices
// that are enumerated exhaustively (depth-first over choice sequences), so
// every path of the interpreted functions over the abstract domain is
// visited. This is typestate propagation with path sensitivity on
// enum-valued conditions, not solver-backed symbolic execution: there are no
// symbolic terms and no constraint solving.

type Val interface{}

type vConst struct{ v constant.Value }
type vNil struct{}
type vNonNil struct{ tag string }
type vUnknown struct{}
type vObj struct {
	typ    string
	fields map[string]Val
	// dflt is consulted for fields never stored (scenario-provided objects)
	dflt func(field string) Val
}
type vSlice struct{ elems []Val }
type vTuple []Val
type vClosure struct {
	lit *ast.FuncLit
	env *frame
}

func (v vConst) String() string { return v.v.ExactString() }

type ctlKind int

const (
	ctlNone ctlKind = iota
	ctlReturn
	ctlBreak
	ctlContinue
	ctlFallthrough
)

type ctl struct {
	kind  ctlKind
	label string
	vals  []Val
}

type frame struct {
	vars   map[types.Object]Val
	parent *frame // for closures
	fi     *FuncInfo
	defers []func()
	named  []types.Object
}

func (f *frame) lookup(o types.Object) (Val, bool) {
	for fr := f; fr != nil; fr = fr.parent {
		if v, ok := fr.vars[o]; ok {
			return v, true
		}
	}
	return nil, false
}

func (f *frame) set(o types.Object, v Val) {
	for fr := f; fr != nil; fr = fr.parent {
		if _, ok := fr.vars[o]; ok {
			fr.vars[o] = v
			return
		}
	}
	f.vars[o] = v
}

type Event struct {
	Kind string
	Args []string
}

func (e Event) String() string { return e.Kind + "(" + strings.Join(e.Args, ",") + ")" }

type interpAbort struct{ msg string }

// Interp runs one path; Explore enumerates all choice sequences.
type Interp struct {
	c       *Ctx
	inline  map[*types.Func]*FuncInfo
	ext     func(it *Interp, fn *types.Func, call *ast.CallExpr, recv Val, args []Val) (Val, bool)
	events  []Event
	choices []int
	cpos    int
	arity   []int
	steps   int
	info    *types.Info
	depth   int
	// StmtHook is called before each statement (used to mark positions).
	Paths  int
	RetPos token.Pos // position of the last return executed in the outermost interpreted function
}

func (it *Interp) abort(format string, args ...any) {
	panic(interpAbort{fmt.Sprintf(format, args...)})
}

func (it *Interp) choose(n int) int {
	if it.cpos < len(it.choices) {
		v := it.choices[it.cpos]
		it.arity[it.cpos] = n
		it.cpos++
		if v >= n {
			it.abort("internal: replayed choice out of range")
		}
		return v
	}
	it.choices = append(it.choices, 0)
	it.arity = append(it.arity, n)
	it.cpos++
	return 0
}

func (it *Interp) emit(kind string, args ...string) {
	it.events = append(it.events, Event{kind, args})
}

// Explore runs `run` once per choice sequence until the space is exhausted.
// It returns the number of paths or an error message when a limit is hit.
func Explore(mk func() *Interp, run func(it *Interp), after func(it *Interp), maxPaths int) (int, string) {
	var prefix []int
	paths := 0
	for {
		it := mk()
		it.choices = append([]int(nil), prefix...)
		it.arity = make([]int, len(prefix))
		msg := ""
		func() {
			defer func() {
				if r := recover(); r != nil {
					if a, ok := r.(interpAbort); ok {
						msg = a.msg
						return
					}
					panic(r)
				}
			}()
			run(it)
		}()
		if msg != "" {
			return paths, msg
		}
		paths++
		after(it)
		if paths > maxPaths {
			return paths, fmt.Sprintf("more than %d paths", maxPaths)
		}
		// next sequence in depth-first order
		ch, ar := it.choices[:it.cpos], it.arity[:it.cpos]
		i := len(ch) - 1
		for i >= 0 && ch[i]+1 >= ar[i] {
			i--
		}
		if i < 0 {
			return paths, ""
		}
		prefix = append(append([]int(nil), ch[:i]...), ch[i]+1)
	}
}

// ---------------------------------------------------------------- calls

func (it *Interp) callFunc(fi *FuncInfo, recv Val, args []Val) []Val {
	it.depth++
	if it.depth > 40 {
		it.abort("call depth exceeded in %s", fi.Name)
	}
	defer func() { it.depth-- }()
	fr := &frame{vars: map[types.Object]Val{}, fi: fi}
	info := fi.Info()
	if fi.Decl.Recv != nil && len(fi.Decl.Recv.List) > 0 && len(fi.Decl.Recv.List[0].Names) > 0 {
		fr.vars[info.ObjectOf(fi.Decl.Recv.List[0].Names[0])] = recv
	}
	i := 0
	for _, fld := range fi.Decl.Type.Params.List {
		if len(fld.Names) == 0 {
			i++
			continue
		}
		for _, nm := range fld.Names {
			var v Val = vUnknown{}
			if i < len(args) {
				v = args[i]
			}
			if nm.Name != "_" {
				fr.vars[info.ObjectOf(nm)] = v
			}
			i++
		}
	}
	if fi.Decl.Type.Results != nil {
		for _, fld := range fi.Decl.Type.Results.List {
			for _, nm := range fld.Names {
				o := info.ObjectOf(nm)
				fr.vars[o] = it.zero(o.Type())
				fr.named = append(fr.named, o)
			}
		}
	}
	saved := it.info
	it.info = info
	r := it.execBlock(fr, fi.Decl.Body.List)
	var out []Val
	if r.kind == ctlReturn {
		out = r.vals
	}
	if len(out) == 0 && len(fr.named) > 0 {
		// naked return or fallthrough: named results are read after defers
		out = nil
	}
	// set named results before defers so deferred closures can observe/alter them
	if len(fr.named) > 0 && len(out) == len(fr.named) {
		for i, o := range fr.named {
			fr.vars[o] = out[i]
		}
	}
	for i := len(fr.defers) - 1; i >= 0; i-- {
		fr.defers[i]()
	}
	if len(fr.named) > 0 {
		out = nil
		for _, o := range fr.named {
			out = append(out, fr.vars[o])
		}
	}
	it.info = saved
	return out
}

func (it *Interp) zero(t types.Type) Val {
	switch u := t.Underlying().(type) {
	case *types.Basic:
		switch {
		case u.Info()&types.IsBoolean != 0:
			return vConst{constant.MakeBool(false)}
		case u.Info()&types.IsString != 0:
			return vConst{constant.MakeString("")}
		case u.Info()&types.IsInteger != 0:
			return vConst{constant.MakeInt64(0)}
		}
		return vUnknown{}
	case *types.Pointer, *types.Interface, *types.Slice, *types.Map, *types.Signature, *types.Chan:
		return vNil{}
	case *types.Struct:
		return &vObj{typ: t.String(), fields: map[string]Val{}, dflt: func(f string) Val {
			for i := 0; i < u.NumFields(); i++ {
				if u.Field(i).Name() == f {
					return it.zero(u.Field(i).Type())
				}
			}
			return vUnknown{}
		}}
	}
	return vUnknown{}
}

// defaultExt models an opaque call: it forks on the error result.
func (it *Interp) defaultExt(fn *types.Func, sig *types.Signature, fork bool, tag string) Val {
	res := sig.Results()
	errT := types.Universe.Lookup("error").Type()
	hasErr := false
	for i := 0; i < res.Len(); i++ {
		if types.Identical(res.At(i).Type(), errT) {
			hasErr = true
		}
	}
	fail := false
	if hasErr && fork {
		fail = it.choose(2) == 1
	}
	var out vTuple
	for i := 0; i < res.Len(); i++ {
		t := res.At(i).Type()
		switch {
		case types.Identical(t, errT):
			if fail {
				out = append(out, vNonNil{"err:" + tag})
			} else {
				out = append(out, vNil{})
			}
		default:
			switch t.Underlying().(type) {
			case *types.Pointer, *types.Interface, *types.Signature, *types.Map, *types.Chan:
				if fail {
					out = append(out, vNil{})
				} else {
					out = append(out, vNonNil{tag})
				}
			default:
				out = append(out, vUnknown{})
			}
		}
	}
	if len(out) == 1 {
		return out[0]
	}
	if len(out) == 0 {
		return nil
	}
	return out
}

// ---------------------------------------------------------------- statements

func (it *Interp) execBlock(fr *frame, list []ast.Stmt) ctl {
	for _, st := range list {
		if r := it.exec(fr, st); r.kind != ctlNone {
			return r
		}
	}
	return ctl{}
}

func (it *Interp) exec(fr *frame, st ast.Stmt) ctl {
	it.steps++
	if it.steps > 200000 {
		it.abort("step limit exceeded")
	}
	switch s := st.(type) {
	case *ast.BlockStmt:
		return it.execBlock(fr, s.List)
	case *ast.ExprStmt:
		it.eval(fr, s.X)
	case *ast.DeclStmt:
		gd, ok := s.Decl.(*ast.GenDecl)
		if !ok {
			return ctl{}
		}
		for _, sp := range gd.Specs {
			vs, ok := sp.(*ast.ValueSpec)
			if !ok {
				continue
			}
			var vals []Val
			if len(vs.Values) == 1 && len(vs.Names) > 1 {
				if t, ok := it.eval(fr, vs.Values[0]).(vTuple); ok {
					vals = t
				}
			} else {
				for _, e := range vs.Values {
					vals = append(vals, it.eval(fr, e))
				}
			}
			for i, nm := range vs.Names {
				o := it.info.ObjectOf(nm)
				if o == nil || nm.Name == "_" {
					continue
				}
				if i < len(vals) {
					fr.vars[o] = vals[i]
				} else {
					fr.vars[o] = it.zero(o.Type())
				}
			}
		}
	case *ast.AssignStmt:
		it.assign(fr, s)
	case *ast.IncDecStmt:
		v := it.eval(fr, s.X)
		if cv, ok := v.(vConst); ok && cv.v.Kind() == constant.Int {
			d := int64(1)
			if s.Tok == token.DEC {
				d = -1
			}
			it.store(fr, s.X, vConst{constant.BinaryOp(cv.v, token.ADD, constant.MakeInt64(d))}, false)
		} else {
			it.store(fr, s.X, vUnknown{}, false)
		}
	case *ast.IfStmt:
		if s.Init != nil {
			if r := it.exec(fr, s.Init); r.kind != ctlNone {
				return r
			}
		}
		if it.asBool(it.eval(fr, s.Cond)) {
			return it.execBlock(fr, s.Body.List)
		} else if s.Else != nil {
			return it.exec(fr, s.Else)
		}
	case *ast.SwitchStmt:
		return it.execSwitch(fr, s)
	case *ast.TypeSwitchStmt:
		it.abort("type switch not supported at %s", it.c.pos(s.Pos()))
	case *ast.ReturnStmt:
		var vals []Val
		if len(s.Results) == 1 {
			v := it.eval(fr, s.Results[0])
			if t, ok := v.(vTuple); ok {
				vals = t
			} else {
				vals = []Val{v}
			}
		} else {
			for _, e := range s.Results {
				vals = append(vals, it.eval(fr, e))
			}
		}
		if it.depth == 1 {
			it.RetPos = s.Pos()
		}
		return ctl{kind: ctlReturn, vals: vals}
	case *ast.DeferStmt:
		call := s.Call
		// evaluate the function value and arguments now, run at exit
		if fl, ok := call.Fun.(*ast.FuncLit); ok {
			var args []Val
			for _, a := range call.Args {
				args = append(args, it.eval(fr, a))
			}
			info := it.info
			fr.defers = append(fr.defers, func() {
				saved := it.info
				it.info = info
				it.callClosure(vClosure{fl, fr}, args)
				it.info = saved
			})
		} else {
			info := it.info
			fr.defers = append(fr.defers, func() {
				saved := it.info
				it.info = info
				it.eval(fr, call)
				it.info = saved
			})
		}
	case *ast.GoStmt:
	case *ast.LabeledStmt:
		r := it.exec(fr, s.Stmt)
		if (r.kind == ctlBreak) && r.label == s.Label.Name {
			return ctl{}
		}
		return r
	case *ast.BranchStmt:
		lbl := ""
		if s.Label != nil {
			lbl = s.Label.Name
		}
		switch s.Tok {
		case token.BREAK:
			return ctl{kind: ctlBreak, label: lbl}
		case token.CONTINUE:
			return ctl{kind: ctlContinue, label: lbl}
		case token.FALLTHROUGH:
			return ctl{kind: ctlFallthrough}
		default:
			it.abort("goto not supported")
		}
	case *ast.RangeStmt:
		return it.execRange(fr, s)
	case *ast.ForStmt:
		if s.Init != nil {
			it.exec(fr, s.Init)
		}
		for n := 0; ; n++ {
			if n > 64 {
				it.abort("loop bound exceeded at %s", it.c.pos(s.Pos()))
			}
			if s.Cond != nil && !it.asBool(it.eval(fr, s.Cond)) {
				break
			}
			r := it.execBlock(fr, s.Body.List)
			if r.kind == ctlBreak && r.label == "" {
				break
			}
			if r.kind == ctlReturn || (r.kind == ctlBreak && r.label != "") || (r.kind == ctlContinue && r.label != "") {
				return r
			}
			if s.Post != nil {
				it.exec(fr, s.Post)
			}
		}
	case *ast.EmptyStmt:
	default:
		it.abort("unsupported statement %T at %s", st, it.c.pos(st.Pos()))
	}
	return ctl{}
}

func (it *Interp) labelOf(fr *frame, s ast.Stmt) string { return "" }

func (it *Interp) execRange(fr *frame, s *ast.RangeStmt) ctl {
	x := it.eval(fr, s.X)
	sl, ok := x.(vSlice)
	if !ok {
		if _, isNil := x.(vNil); isNil {
			return ctl{}
		}
		// unknown collection: zero or one abstract iteration
		n := it.choose(2)
		if n == 0 {
			return ctl{}
		}
		sl = vSlice{[]Val{vUnknown{}}}
	}
	for i, e := range sl.elems {
		if s.Key != nil {
			it.store(fr, s.Key, vConst{constant.MakeInt64(int64(i))}, s.Tok == token.DEFINE)
		}
		if s.Value != nil {
			it.store(fr, s.Value, e, s.Tok == token.DEFINE)
		}
		r := it.execBlock(fr, s.Body.List)
		switch {
		case r.kind == ctlBreak && r.label == "":
			return ctl{}
		case r.kind == ctlContinue && r.label == "":
			continue
		case r.kind != ctlNone:
			return r
		}
	}
	return ctl{}
}

func (it *Interp) execSwitch(fr *frame, s *ast.SwitchStmt) ctl {
	if s.Init != nil {
		if r := it.exec(fr, s.Init); r.kind != ctlNone {
			return r
		}
	}
	var tag Val
	if s.Tag != nil {
		tag = it.eval(fr, s.Tag)
	}
	clauses := s.Body.List
	match := -1
	for i, cl := range clauses {
		cc := cl.(*ast.CaseClause)
		for _, e := range cc.List {
			var hit bool
			if s.Tag != nil {
				hit = it.asBool(it.equal(tag, it.eval(fr, e)))
			} else {
				hit = it.asBool(it.eval(fr, e))
			}
			if hit {
				match = i
				break
			}
		}
		if match >= 0 {
			break
		}
	}
	if match < 0 {
		for i, cl := range clauses {
			if cl.(*ast.CaseClause).List == nil {
				match = i
			}
		}
	}
	for match >= 0 && match < len(clauses) {
		r := it.execBlock(fr, clauses[match].(*ast.CaseClause).Body)
		switch {
		case r.kind == ctlFallthrough:
			match++
			continue
		case r.kind == ctlBreak && r.label == "":
			return ctl{}
		default:
			return r
		}
	}
	return ctl{}
}

func (it *Interp) assign(fr *frame, s *ast.AssignStmt) {
	define := s.Tok == token.DEFINE
	if s.Tok != token.ASSIGN && s.Tok != token.DEFINE {
		// op-assign
		l := it.eval(fr, s.Lhs[0])
		r := it.eval(fr, s.Rhs[0])
		lc, ok1 := l.(vConst)
		rc, ok2 := r.(vConst)
		if ok1 && ok2 && lc.v.Kind() == constant.Int && rc.v.Kind() == constant.Int {
			var op token.Token
			switch s.Tok {
			case token.ADD_ASSIGN:
				op = token.ADD
			case token.SUB_ASSIGN:
				op = token.SUB
			default:
				it.store(fr, s.Lhs[0], vUnknown{}, false)
				return
			}
			it.store(fr, s.Lhs[0], vConst{constant.BinaryOp(lc.v, op, rc.v)}, false)
			return
		}
		it.store(fr, s.Lhs[0], vUnknown{}, false)
		return
	}
	if len(s.Lhs) > 1 && len(s.Rhs) == 1 {
		var vals []Val
		switch r := s.Rhs[0].(type) {
		case *ast.TypeAssertExpr:
			v, ok := it.typeAssert(fr, r)
			vals = []Val{v, vConst{constant.MakeBool(ok)}}
		case *ast.IndexExpr:
			vals = []Val{vUnknown{}, vUnknown{}}
		default:
			v := it.eval(fr, s.Rhs[0])
			if t, ok := v.(vTuple); ok {
				vals = t
			} else {
				for range s.Lhs {
					vals = append(vals, vUnknown{})
				}
			}
		}
		for i, l := range s.Lhs {
			var v Val = vUnknown{}
			if i < len(vals) {
				v = vals[i]
			}
			it.store(fr, l, v, define)
		}
		return
	}
	var vals []Val
	for _, r := range s.Rhs {
		vals = append(vals, it.eval(fr, r))
	}
	for i, l := range s.Lhs {
		it.store(fr, l, vals[i], define)
	}
}

func (it *Interp) store(fr *frame, lhs ast.Expr, v Val, define bool) {
	switch l := lhs.(type) {
	case *ast.Ident:
		if l.Name == "_" {
			return
		}
		o := it.info.ObjectOf(l)
		if o == nil {
			return
		}
		if define {
			if _, isDef := it.info.Defs[l]; isDef {
				fr.vars[o] = v
				return
			}
		}
		fr.set(o, v)
	case *ast.SelectorExpr:
		x := it.eval(fr, l.X)
		if obj, ok := x.(*vObj); ok {
			obj.fields[l.Sel.Name] = v
		}
	case *ast.ParenExpr:
		it.store(fr, l.X, v, define)
	case *ast.StarExpr:
		// *p = v : ignore
	case *ast.IndexExpr:
	}
}

// ---------------------------------------------------------------- expressions

func (it *Interp) asBool(v Val) bool {
	switch x := v.(type) {
	case vConst:
		if x.v.Kind() == constant.Bool {
			return constant.BoolVal(x.v)
		}
	}
	return it.choose(2) == 1
}

func mkBool(b bool) Val { return vConst{constant.MakeBool(b)} }

// equal returns a bool constant or unknown.
func (it *Interp) equal(a, b Val) Val {
	switch x := a.(type) {
	case vConst:
		if y, ok := b.(vConst); ok {
			return mkBool(constant.Compare(x.v, token.EQL, y.v))
		}
	case vNil:
		switch b.(type) {
		case vNil:
			return mkBool(true)
		case vNonNil, *vObj, vSlice, vClosure:
			return mkBool(false)
		}
	case vNonNil, *vObj, vClosure:
		if _, ok := b.(vNil); ok {
			return mkBool(false)
		}
	case vSlice:
		if _, ok := b.(vNil); ok {
			return mkBool(false)
		}
	}
	return vUnknown{}
}

func (it *Interp) typeAssert(fr *frame, e *ast.TypeAssertExpr) (Val, bool) {
	x := it.eval(fr, e.X)
	if o, ok := x.(*vObj); ok {
		if e.Type != nil {
			want := it.info.TypeOf(e.Type)
			if o.typ != "" {
				return x, o.typ == want.String()
			}
		}
	}
	if _, ok := x.(vNil); ok {
		return vNil{}, false
	}
	if it.choose(2) == 1 {
		return x, true
	}
	return vNil{}, false
}

func (it *Interp) eval(fr *frame, e ast.Expr) Val {
	if tv, ok := it.info.Types[e]; ok && tv.Value != nil {
		return vConst{tv.Value}
	}
	switch x := e.(type) {
	case *ast.ParenExpr:
		return it.eval(fr, x.X)
	case *ast.Ident:
		o := it.info.ObjectOf(x)
		if _, isNil := o.(*types.Nil); isNil {
			return vNil{}
		}
		if v, ok := fr.lookup(o); ok {
			return v
		}
		return vUnknown{}
	case *ast.BasicLit:
		return vUnknown{}
	case *ast.FuncLit:
		return vClosure{x, fr}
	case *ast.SelectorExpr:
		// package-qualified identifier?
		if id, ok := x.X.(*ast.Ident); ok {
			if _, isPkg := it.info.ObjectOf(id).(*types.PkgName); isPkg {
				return vUnknown{}
			}
		}
		v := it.eval(fr, x.X)
		switch o := v.(type) {
		case *vObj:
			if fv, ok := o.fields[x.Sel.Name]; ok {
				return fv
			}
			if o.dflt != nil {
				fv := o.dflt(x.Sel.Name)
				if ob, isObj := fv.(*vObj); isObj {
					o.fields[x.Sel.Name] = ob
				}
				return fv
			}
			return vUnknown{}
		case vNonNil:
			if sel := it.info.Selections[x]; sel != nil && sel.Kind() == types.FieldVal {
				return vNonNil{o.tag + "." + x.Sel.Name}
			}
			return vUnknown{}
		}
		return vUnknown{}
	case *ast.StarExpr:
		return it.eval(fr, x.X)
	case *ast.UnaryExpr:
		switch x.Op {
		case token.NOT:
			v := it.eval(fr, x.X)
			if c, ok := v.(vConst); ok && c.v.Kind() == constant.Bool {
				return mkBool(!constant.BoolVal(c.v))
			}
			return vUnknown{}
		case token.AND:
			v := it.eval(fr, x.X)
			switch v.(type) {
			case *vObj:
				return v
			}
			return vNonNil{"&" + types.ExprString(x.X)}
		case token.SUB:
			if c, ok := it.eval(fr, x.X).(vConst); ok {
				return vConst{constant.UnaryOp(token.SUB, c.v, 0)}
			}
		}
		return vUnknown{}
	case *ast.BinaryExpr:
		return it.evalBinary(fr, x)
	case *ast.CompositeLit:
		t := it.info.TypeOf(x)
		if st, ok := t.Underlying().(*types.Struct); ok {
			o := it.zero(t).(*vObj)
			o.typ = t.String()
			for i, el := range x.Elts {
				if kv, ok := el.(*ast.KeyValueExpr); ok {
					o.fields[kv.Key.(*ast.Ident).Name] = it.eval(fr, kv.Value)
				} else if i < st.NumFields() {
					o.fields[st.Field(i).Name()] = it.eval(fr, el)
				}
			}
			return o
		}
		if _, ok := t.Underlying().(*types.Slice); ok {
			var elems []Val
			for _, el := range x.Elts {
				elems = append(elems, it.eval(fr, el))
			}
			return vSlice{elems}
		}
		return vNonNil{"lit"}
	case *ast.IndexExpr:
		v := it.eval(fr, x.X)
		if sl, ok := v.(vSlice); ok {
			if ix, ok := it.eval(fr, x.Index).(vConst); ok {
				if i, ok := constant.Int64Val(ix.v); ok && int(i) < len(sl.elems) && i >= 0 {
					return sl.elems[i]
				}
				it.abort("index out of range in interpreted code at %s", it.c.pos(x.Pos()))
			}
		}
		return vUnknown{}
	case *ast.SliceExpr:
		v := it.eval(fr, x.X)
		if sl, ok := v.(vSlice); ok {
			lo, hi := 0, len(sl.elems)
			if x.Low != nil {
				c, ok := it.eval(fr, x.Low).(vConst)
				if !ok {
					return vUnknown{}
				}
				i, _ := constant.Int64Val(c.v)
				lo = int(i)
			}
			if x.High != nil {
				c, ok := it.eval(fr, x.High).(vConst)
				if !ok {
					return vUnknown{}
				}
				i, _ := constant.Int64Val(c.v)
				hi = int(i)
			}
			if lo < 0 || hi > len(sl.elems) || lo > hi {
				it.abort("slice bounds out of range in interpreted code at %s", it.c.pos(x.Pos()))
			}
			return vSlice{sl.elems[lo:hi]}
		}
		return vUnknown{}
	case *ast.TypeAssertExpr:
		v, _ := it.typeAssert(fr, x)
		return v
	case *ast.CallExpr:
		return it.evalCall(fr, x)
	case *ast.KeyValueExpr:
		return vUnknown{}
	}
	return vUnknown{}
}

func (it *Interp) evalBinary(fr *frame, x *ast.BinaryExpr) Val {
	switch x.Op {
	case token.LAND:
		if !it.asBool(it.eval(fr, x.X)) {
			return mkBool(false)
		}
		return mkBool(it.asBool(it.eval(fr, x.Y)))
	case token.LOR:
		if it.asBool(it.eval(fr, x.X)) {
			return mkBool(true)
		}
		return mkBool(it.asBool(it.eval(fr, x.Y)))
	}
	a, b := it.eval(fr, x.X), it.eval(fr, x.Y)
	switch x.Op {
	case token.EQL:
		return it.equal(a, b)
	case token.NEQ:
		r := it.equal(a, b)
		if c, ok := r.(vConst); ok {
			return mkBool(!constant.BoolVal(c.v))
		}
		return r
	case token.LSS, token.GTR, token.LEQ, token.GEQ:
		ac, ok1 := a.(vConst)
		bc, ok2 := b.(vConst)
		if ok1 && ok2 {
			return mkBool(constant.Compare(ac.v, x.Op, bc.v))
		}
	case token.ADD, token.SUB, token.MUL:
		ac, ok1 := a.(vConst)
		bc, ok2 := b.(vConst)
		if ok1 && ok2 && ac.v.Kind() == bc.v.Kind() {
			return vConst{constant.BinaryOp(ac.v, x.Op, bc.v)}
		}
	}
	return vUnknown{}
}

func (it *Interp) callClosure(cl vClosure, args []Val) []Val {
	fr := &frame{vars: map[types.Object]Val{}, parent: cl.env, fi: cl.env.fi}
	i := 0
	for _, fld := range cl.lit.Type.Params.List {
		for _, nm := range fld.Names {
			var v Val = vUnknown{}
			if i < len(args) {
				v = args[i]
			}
			fr.vars[it.info.ObjectOf(nm)] = v
			i++
		}
	}
	r := it.execBlock(fr, cl.lit.Body.List)
	for i := len(fr.defers) - 1; i >= 0; i-- {
		fr.defers[i]()
	}
	if r.kind == ctlReturn {
		return r.vals
	}
	return nil
}

func (it *Interp) evalCall(fr *frame, call *ast.CallExpr) Val {
	// conversion
	if tv, ok := it.info.Types[call.Fun]; ok && tv.IsType() {
		if len(call.Args) == 1 {
			return it.eval(fr, call.Args[0])
		}
		return vUnknown{}
	}
	if b := builtinName(it.info, call); b != "" {
		switch b {
		case "len":
			v := it.eval(fr, call.Args[0])
			switch s := v.(type) {
			case vSlice:
				return vConst{constant.MakeInt64(int64(len(s.elems)))}
			case vNil:
				return vConst{constant.MakeInt64(0)}
			case vConst:
				if s.v.Kind() == constant.String {
					return vConst{constant.MakeInt64(int64(len(constant.StringVal(s.v))))}
				}
			}
			return vUnknown{}
		case "append":
			v := it.eval(fr, call.Args[0])
			base, ok := v.(vSlice)
			if _, isNil := v.(vNil); isNil {
				ok = true
			}
			if !ok || call.Ellipsis.IsValid() {
				for _, a := range call.Args[1:] {
					it.eval(fr, a)
				}
				return vUnknown{}
			}
			elems := append([]Val(nil), base.elems...)
			for _, a := range call.Args[1:] {
				elems = append(elems, it.eval(fr, a))
			}
			return vSlice{elems}
		case "new":
			return vNonNil{"new"}
		case "panic":
			it.abort("panic reached in interpreted code at %s", it.c.pos(call.Pos()))
		}
		for _, a := range call.Args {
			it.eval(fr, a)
		}
		return vUnknown{}
	}
	// closure call
	if id, ok := call.Fun.(*ast.Ident); ok {
		if v, ok := fr.lookup(it.info.ObjectOf(id)); ok {
			if cl, ok := v.(vClosure); ok {
				var args []Val
				for _, a := range call.Args {
					args = append(args, it.eval(fr, a))
				}
				out := it.callClosure(cl, args)
				if len(out) == 1 {
					return out[0]
				}
				return vTuple(out)
			}
		}
	}
	if fl, ok := call.Fun.(*ast.FuncLit); ok {
		var args []Val
		for _, a := range call.Args {
			args = append(args, it.eval(fr, a))
		}
		out := it.callClosure(vClosure{fl, fr}, args)
		if len(out) == 1 {
			return out[0]
		}
		return vTuple(out)
	}
	fn := calleeOf(it.info, call)
	var recv Val
	if se, ok := call.Fun.(*ast.SelectorExpr); ok {
		if sel := it.info.Selections[se]; sel != nil {
			recv = it.eval(fr, se.X)
		}
	}
	var args []Val
	for _, a := range call.Args {
		v := it.eval(fr, a)
		if t, ok := v.(vTuple); ok && len(call.Args) == 1 {
			args = append(args, t...)
		} else {
			args = append(args, v)
		}
	}
	if fn != nil {
		if fi := it.inline[fn]; fi != nil {
			out := it.callFunc(fi, recv, args)
			if len(out) == 1 {
				return out[0]
			}
			if len(out) == 0 {
				return nil
			}
			return vTuple(out)
		}
		if it.ext != nil {
			if v, ok := it.ext(it, fn, call, recv, args); ok {
				return v
			}
		}
		return it.defaultExt(fn, fn.Type().(*types.Signature), false, fqn(fn))
	}
	// call of a func value we know nothing about
	if sig, ok := it.info.TypeOf(call.Fun).Underlying().(*types.Signature); ok {
		return it.defaultExt(nil, sig, false, "funcvalue")
	}
	return vUnknown{}
}

func tagOf(v Val) string {
	switch x := v.(type) {
	case vNonNil:
		return x.tag
	case vNil:
		return "nil"
	case *vObj:
		return "obj:" + x.typ
	case vConst:
		return x.v.ExactString()
	}
	return "?"
}
