package main

// Rules added after the fourth round of independent seeds and the defects
// D27–D30 reproduced from the agents' observations on the unmodified tree.

import (
	"go/ast"
	"go/token"
	"go/types"
	"regexp"
	"regexp/syntax"
	"strings"

	"golang.org/x/tools/go/cfg"
)

// R02n: a value filled by sqlx.Has is read only where Has reported true.
const ruleTextHasValidity = "validity of sqlx.Has targets: in the differ files, when `ok := sqlx.Has(attrs, &v)` (or the call itself) decides a branch, no field of v is read in a switch case or if condition/body that is taken only when that result is false — there v is the zero value, so a comparison on it is constant (the deviant-belief pattern: one branch checks, the sibling uses unchecked)"

func checkHasValidity(c *Ctx, rule string) {
	n := 0
	for _, pp := range []string{pSqlx, pMysql, pPostgres, pSqlite} {
		c.AllFuncs(false, func(fi *FuncInfo) {
			if fi.Pkg.PkgPath != pp {
				return
			}
			base := c.Fset.Position(fi.Decl.Pos()).Filename
			base = base[strings.LastIndex(base, "/")+1:]
			if !strings.HasPrefix(base, "diff") {
				return
			}
			info := fi.Info()
			// flag variable → target object
			target := map[types.Object]types.Object{}
			hasTarget := func(call *ast.CallExpr) types.Object {
				if !funcIs(calleeOf(info, call), pSqlx, "", "Has") || len(call.Args) != 2 {
					return nil
				}
				un, ok := ast.Unparen(call.Args[1]).(*ast.UnaryExpr)
				if !ok || un.Op != token.AND {
					return nil
				}
				id, ok := ast.Unparen(un.X).(*ast.Ident)
				if !ok {
					return nil
				}
				return info.ObjectOf(id)
			}
			ast.Inspect(fi.Decl.Body, func(m ast.Node) bool {
				as, ok := m.(*ast.AssignStmt)
				if !ok || len(as.Lhs) != len(as.Rhs) {
					return true
				}
				for i, r := range as.Rhs {
					call, ok := ast.Unparen(r).(*ast.CallExpr)
					if !ok {
						continue
					}
					if t := hasTarget(call); t != nil {
						if id, ok := as.Lhs[i].(*ast.Ident); ok && info.ObjectOf(id) != nil {
							target[info.ObjectOf(id)] = t
						}
					}
				}
				return true
			})
			if len(target) == 0 {
				return
			}
			// invalid targets implied by a condition taken with the given value
			invalid := func(cond ast.Expr, edge bool) map[types.Object]bool {
				out := map[types.Object]bool{}
				for _, f := range impliedFacts(cond, edge) {
					if f.val {
						continue
					}
					switch x := ast.Unparen(f.expr).(type) {
					case *ast.Ident:
						if t, ok := target[info.ObjectOf(x)]; ok {
							out[t] = true
						}
					case *ast.CallExpr:
						if t := hasTarget(x); t != nil {
							out[t] = true
						}
					}
				}
				return out
			}
			reads := func(nd ast.Node, bad map[types.Object]bool) ast.Node {
				var hit ast.Node
				ast.Inspect(nd, func(m ast.Node) bool {
					if hit != nil {
						return false
					}
					// a nested sqlx.Has(…, &v) re-fills v
					if call, ok := m.(*ast.CallExpr); ok && hasTarget(call) != nil {
						return false
					}
					if se, ok := m.(*ast.SelectorExpr); ok {
						if id, ok := ast.Unparen(se.X).(*ast.Ident); ok && bad[info.ObjectOf(id)] {
							if _, isField := info.Selections[se]; isField {
								hit = se
							}
						}
					}
					return true
				})
				return hit
			}
			check := func(cond ast.Expr, edge bool, scope []ast.Node, pos token.Pos) {
				bad := invalid(cond, edge)
				if len(bad) == 0 {
					return
				}
				n++
				c.funcs[fi.Name] = true
				var hit ast.Node
				// the condition itself (conjunction: the other conjuncts are evaluated under the same facts)
				if edge {
					hit = reads(cond, bad)
				}
				for _, s := range scope {
					if hit == nil && s != nil {
						hit = reads(s, bad)
					}
				}
				what := ""
				if hit != nil {
					pos, what = hit.Pos(), types.ExprString(hit.(ast.Expr))
				}
				c.Check(rule, fi.Name+"|"+types.ExprString(cond), pos, hit == nil, "%s reads %s on a branch taken only when sqlx.Has did not find the attribute: the variable holds the zero value there, so the test is constant (compare with the sibling branch, which reads the value that was found)", fi.Name, what)
			}
			ast.Inspect(fi.Decl.Body, func(m ast.Node) bool {
				switch x := m.(type) {
				case *ast.IfStmt:
					check(x.Cond, true, []ast.Node{x.Body}, x.Pos())
					if x.Else != nil {
						check(x.Cond, false, []ast.Node{x.Else}, x.Pos())
					}
				case *ast.SwitchStmt:
					if x.Tag != nil {
						return true
					}
					for _, cl := range x.Body.List {
						cc := cl.(*ast.CaseClause)
						for _, e := range cc.List {
							var body []ast.Node
							for _, st := range cc.Body {
								body = append(body, st)
							}
							if len(cc.List) == 1 {
								check(e, true, body, cc.Pos())
							} else {
								check(e, true, nil, cc.Pos())
							}
						}
					}
				}
				return true
			})
		})
	}
	if n < 3 {
		c.Unresolved(rule, "branches decided by a negative sqlx.Has result in the differ files (fewer than 3)")
	}
}

// R02o: no comparison of an expression with itself.
const ruleTextNoSelfCompare = "no self-comparison: in the differ files no ==/!= has syntactically identical operands (also when both are calls of a pure package-local or standard-library function with identical arguments): such a test is constant, so the change it guards is never (or always) reported"

func checkNoSelfCompare(c *Ctx, rule string) {
	n := 0
	for _, pp := range []string{pSqlx, pMysql, pPostgres, pSqlite} {
		c.AllFuncs(false, func(fi *FuncInfo) {
			if fi.Pkg.PkgPath != pp {
				return
			}
			base := c.Fset.Position(fi.Decl.Pos()).Filename
			base = base[strings.LastIndex(base, "/")+1:]
			if !strings.HasPrefix(base, "diff") {
				return
			}
			bad := ""
			pos := fi.Decl.Pos()
			k := 0
			ast.Inspect(fi.Decl.Body, func(m ast.Node) bool {
				be, ok := m.(*ast.BinaryExpr)
				if !ok || (be.Op != token.EQL && be.Op != token.NEQ) {
					return true
				}
				k++
				if bad == "" && types.ExprString(be.X) == types.ExprString(be.Y) {
					if _, isLit := ast.Unparen(be.X).(*ast.BasicLit); !isLit {
						bad, pos = types.ExprString(be), be.Pos()
					}
				}
				return true
			})
			if k == 0 {
				return
			}
			n++
			c.funcs[fi.Name] = true
			c.Check(rule, fi.Name+"|no self-comparison", pos, bad == "", "%s compares an expression with itself (%s): the test is constant, the difference it was meant to detect is never reported", fi.Name, bad)
		})
	}
	if n < 20 {
		c.Unresolved(rule, "differ functions with equality tests (fewer than 20)")
	}
}

// R02p: the MariaDB-only filter is under a MariaDB guard.
const ruleTextMariaFilter = "engine-specific filters are guarded by the engine test: in mysql TableAttrDiff a reported CHECK change is withheld from the result (a loop iteration that does not append it) only on paths where d.Maria() (or another method of the connection's version predicate family) was tested and true; MySQL proper never creates the implicit json_valid checks the filter is written for"

func checkMariaFilter(c *Ctx, rule string) {
	fi := c.Func(rule, pMysql, "diff", "TableAttrDiff")
	if fi == nil {
		return
	}
	info := fi.Info()
	n := 0
	ast.Inspect(fi.Decl.Body, func(m ast.Node) bool {
		loop, ok := m.(*ast.RangeStmt)
		if !ok {
			return true
		}
		// loops over the result of a Check diff
		call, ok := ast.Unparen(loop.X).(*ast.CallExpr)
		if !ok {
			return true
		}
		fn := calleeOf(info, call)
		if fn == nil || !strings.Contains(fn.Name(), "Check") {
			return true
		}
		val, _ := loop.Value.(*ast.Ident)
		if val == nil {
			return true
		}
		n++
		c.funcs[fi.Name] = true
		// CFG of the function: from loop body entry, reach the next iteration (the range node) without an append of the element, along edges that do not imply Maria()==true
		f := newFlow(info, fi.Decl.Body)
		isKeep := func(nd ast.Node) bool {
			as, ok := nd.(*ast.AssignStmt)
			if !ok || len(as.Rhs) != 1 {
				return false
			}
			ap, ok := as.Rhs[0].(*ast.CallExpr)
			if !ok || builtinName(info, ap) != "append" {
				return false
			}
			for _, a := range ap.Args[1:] {
				if id, ok := ast.Unparen(a).(*ast.Ident); ok && info.ObjectOf(id) == info.ObjectOf(val) {
					return true
				}
			}
			return false
		}
		isMaria := func(e ast.Expr) bool {
			call, ok := ast.Unparen(e).(*ast.CallExpr)
			if !ok {
				return false
			}
			fn := calleeOf(info, call)
			return fn != nil && fn.Name() == "Maria"
		}
		var starts []point
		for _, b := range f.G.Blocks {
			if b.Live && b.Kind == cfg.KindRangeBody && b.Stmt == ast.Stmt(loop) {
				starts = append(starts, point{b, 0})
			}
		}
		if len(starts) == 0 {
			c.Unresolved(rule, fi.Name+": entry of the loop over the CHECK changes")
			return true
		}
		// a block that re-enters the loop header: contains the range statement's key/value assignment (go/cfg "range.loop" block)
		isNext := func(b *cfg.Block) bool {
			return b.Kind == cfg.KindRangeLoop && b.Stmt == ast.Stmt(loop)
		}
		skipped := f.reachBlockEdges(starts, isKeep, isNext, func(b *cfg.Block, si int) bool {
			return edgeImplies(b, si, func(e ast.Expr, v bool) bool { return isMaria(e) && v })
		})
		// under !Maria() every iteration must keep the change: no path to the next iteration that avoids the append
		c.Check(rule, fi.Name+"|CHECK changes withheld only on MariaDB", loop.Pos(), !skipped, "%s can skip a reported CHECK change (reach the next iteration without appending it) on a path where d.Maria() is not known to be true: on MySQL a user's DropCheck of a json_valid(...) constraint named like a column is silently hidden", fi.Name)
		return true
	})
	if n == 0 {
		c.Unresolved(rule, "loop over the CHECK changes in mysql TableAttrDiff")
	}
}

// R04i: every change that declares a foreign key orders its table after the referenced table's creation.
const ruleTextFKDeclEdges = "edge completeness in sqlx.dependsOn: in the ModifyTable-after-AddTable case, the sub-change kinds examined for a reference to the created table include every schema.Change kind that declares a foreign key (a struct of sql/schema named Add*/Modify* with a *schema.ForeignKey field: AddForeignKey.F, ModifyForeignKey.To); a kind that is not examined gets no edge, and with a cycle in the change set (no global sort to hide it) the key is declared before the table it points at exists"

func checkFKDeclEdges(c *Ctx, rule string) {
	fi := c.Func(rule, pSqlx, "", "dependsOn")
	if fi == nil {
		return
	}
	info := fi.Info()
	// kinds that declare a foreign key
	var kinds []string
	scope := c.Pkg(pSchema).Types.Scope()
	for _, nm := range scope.Names() {
		tn, ok := scope.Lookup(nm).(*types.TypeName)
		if !ok || !(strings.HasPrefix(nm, "Add") || strings.HasPrefix(nm, "Modify")) {
			continue
		}
		st, ok := tn.Type().Underlying().(*types.Struct)
		if !ok {
			continue
		}
		for i := 0; i < st.NumFields(); i++ {
			if typeIs(derefType(st.Field(i).Type()), pSchema, "ForeignKey") {
				if _, isPtr := st.Field(i).Type().(*types.Pointer); isPtr {
					kinds = append(kinds, nm)
					break
				}
			}
		}
	}
	if len(kinds) < 2 {
		c.Unresolved(rule, "schema change kinds declaring a foreign key (fewer than 2)")
		return
	}
	// the clause: outer type switch case *schema.ModifyTable → inner type switch case *schema.AddTable
	caseOf := func(cc *ast.CaseClause, name string) bool {
		for _, e := range cc.List {
			if typeIs(derefType(info.TypeOf(e)), pSchema, name) {
				return true
			}
		}
		return false
	}
	var clause *ast.CaseClause
	ast.Inspect(fi.Decl.Body, func(m ast.Node) bool {
		outer, ok := m.(*ast.CaseClause)
		if !ok || !caseOf(outer, "ModifyTable") || clause != nil {
			return true
		}
		ast.Inspect(outer, func(k ast.Node) bool {
			inner, ok := k.(*ast.CaseClause)
			if ok && inner != outer && caseOf(inner, "AddTable") && clause == nil {
				clause = inner
			}
			return true
		})
		return true
	})
	if clause == nil {
		c.Unresolved(rule, "dependsOn: case ModifyTable → case AddTable")
		return
	}
	c.funcs[fi.Name] = true
	// types examined in the clause (type-switch cases and assertions), also in package-local helpers called from it
	seen := map[string]bool{}
	var collect func(nd ast.Node, inf *types.Info, depth int)
	visited := map[*types.Func]bool{}
	collect = func(nd ast.Node, inf *types.Info, depth int) {
		ast.Inspect(nd, func(m ast.Node) bool {
			switch x := m.(type) {
			case *ast.CaseClause:
				for _, e := range x.List {
					if nt := namedOf(derefType(inf.TypeOf(e))); nt != nil && nt.Obj().Pkg() != nil && nt.Obj().Pkg().Path() == pSchema {
						seen[nt.Obj().Name()] = true
					}
				}
			case *ast.TypeAssertExpr:
				if x.Type != nil {
					if nt := namedOf(derefType(inf.TypeOf(x.Type))); nt != nil && nt.Obj().Pkg() != nil && nt.Obj().Pkg().Path() == pSchema {
						seen[nt.Obj().Name()] = true
					}
				}
			case *ast.CallExpr:
				if depth > 0 {
					if fn := calleeOf(inf, x); fn != nil && fn.Pkg() != nil && fn.Pkg().Path() == pSqlx && !visited[fn] {
						visited[fn] = true
						if g := c.FuncInfoOf(fn); g != nil && g.Decl.Body != nil {
							collect(g.Decl.Body, g.Info(), depth-1)
						}
					}
				}
			}
			return true
		})
	}
	for _, st := range clause.Body {
		collect(st, info, 2)
	}
	for _, k := range kinds {
		c.Check(rule, "sqlx.dependsOn|ModifyTable after AddTable examines "+k, clause.Pos(), seen[k], "sqlx.dependsOn: a ModifyTable whose sub-change is a %s pointing at a table created in the same change set gets no edge to that AddTable (the kind is not examined in the ModifyTable/AddTable case): when the change set also contains a cycle the key is declared before the referenced table exists", k)
	}
}

// R01n: every dialect parenthesises CHECK expressions through the shared balanced test.
const ruleTextCheckWrap = "sibling agreement of the CHECK writers: wherever a planner writes the keyword CHECK followed by an expression (Builder.P(\"CHECK\", x)), x is the result of sqlx.MayWrap (directly or through a local with that single definition), or the expression is written inside Builder.Wrap; a prefix/suffix test for '(' … ')' accepts `(a) AND (b)` as already wrapped and emits invalid SQL"

func checkCheckWrap(c *Ctx, rule string) {
	n := 0
	for _, pp := range []string{pMysql, pPostgres, pSqlite} {
		c.AllFuncs(false, func(fi *FuncInfo) {
			if fi.Pkg.PkgPath != pp {
				return
			}
			info := fi.Info()
			ast.Inspect(fi.Decl.Body, func(m ast.Node) bool {
				call, ok := m.(*ast.CallExpr)
				if !ok || len(call.Args) < 1 {
					return true
				}
				fn := calleeOf(info, call)
				if fn == nil || fn.Name() != "P" || recvTypeName(fn) != "Builder" {
					return true
				}
				if s, ok := stringConst(info, call.Args[0]); !ok || s != "CHECK" {
					return true
				}
				n++
				c.funcs[fi.Name] = true
				if len(call.Args) == 1 {
					// b.P("CHECK").Wrap(…): the builder adds the parens
					c.Check(rule, fi.Name+"|CHECK expression wrapped", call.Pos(), true, "")
					return true
				}
				isMayWrap := func(e ast.Expr) bool {
					cl, ok := ast.Unparen(e).(*ast.CallExpr)
					return ok && funcIs(calleeOf(info, cl), pSqlx, "", "MayWrap")
				}
				ok2 := isMayWrap(call.Args[1])
				if id, isID := ast.Unparen(call.Args[1]).(*ast.Ident); isID && !ok2 {
					obj := info.ObjectOf(id)
					defs, good := 0, 0
					ast.Inspect(fi.Decl.Body, func(k ast.Node) bool {
						as, ok := k.(*ast.AssignStmt)
						if !ok {
							return true
						}
						for i, l := range as.Lhs {
							if lid, ok := l.(*ast.Ident); ok && info.ObjectOf(lid) == obj {
								defs++
								if len(as.Lhs) == len(as.Rhs) && isMayWrap(as.Rhs[i]) {
									good++
								}
							}
						}
						return true
					})
					ok2 = defs > 0 && defs == good
				}
				c.Check(rule, fi.Name+"|CHECK expression wrapped", call.Pos(), ok2, "%s writes CHECK %s without passing the expression through sqlx.MayWrap (the balanced-parentheses test the other dialects use): an expression such as `(a > 0) AND (b > 0)` is emitted unwrapped and the statement is invalid", fi.Name, types.ExprString(call.Args[1]))
				return true
			})
		})
	}
	if n < 3 {
		c.Unresolved(rule, "writers of the CHECK keyword in the dialect planners (fewer than 3)")
	}
}

// R01o: implicit indexes are not dropped with DROP INDEX.
const ruleTextImplicitIndexDrop = "SQLite: a DropIndex keeps a table modification on the ALTER path only for explicitly created indexes: in sqlite alterable() the *schema.DropIndex case returns false under a test of the engine-generated name prefix (sqlite_autoindex); an index that backs an inline UNIQUE / PRIMARY KEY constraint cannot be dropped with DROP INDEX, only by re-creating the table"

func checkImplicitIndexDrop(c *Ctx, rule string) {
	fi := c.Func(rule, pSqlite, "", "alterable")
	if fi == nil {
		return
	}
	info := fi.Info()
	var clause *ast.CaseClause
	shared := false
	ast.Inspect(fi.Decl.Body, func(m ast.Node) bool {
		cc, ok := m.(*ast.CaseClause)
		if !ok {
			return true
		}
		for _, e := range cc.List {
			if typeIs(derefType(info.TypeOf(e)), pSchema, "DropIndex") {
				clause, shared = cc, len(cc.List) > 1
			}
		}
		return true
	})
	if clause == nil {
		c.Unresolved(rule, "alterable: case *schema.DropIndex")
		return
	}
	c.funcs[fi.Name] = true
	guarded := false
	if !shared {
		for _, st := range clause.Body {
			ast.Inspect(st, func(m ast.Node) bool {
				ifs, ok := m.(*ast.IfStmt)
				if !ok {
					return true
				}
				mentions := false
				ast.Inspect(ifs.Cond, func(k ast.Node) bool {
					if e, ok := k.(ast.Expr); ok {
						if s, ok := stringConst(info, e); ok && strings.HasPrefix(s, "sqlite_autoindex") {
							mentions = true
						}
					}
					// a package-local predicate whose body tests the prefix
					if call, ok := k.(*ast.CallExpr); ok {
						if g := c.FuncInfoOf(calleeOf(info, call)); g != nil && g.Pkg.PkgPath == pSqlite && g.Decl.Body != nil {
							ast.Inspect(g.Decl.Body, func(q ast.Node) bool {
								if e, ok := q.(ast.Expr); ok {
									if s, ok := stringConst(g.Info(), e); ok && strings.HasPrefix(s, "sqlite_autoindex") {
										mentions = true
									}
								}
								return true
							})
						}
					}
					return true
				})
				if !mentions {
					return true
				}
				for _, b := range ifs.Body.List {
					if r, ok := b.(*ast.ReturnStmt); ok && len(r.Results) == 1 {
						if tv := info.Types[r.Results[0]]; tv.Value != nil && tv.Value.String() == "false" {
							guarded = true
						}
					}
				}
				return true
			})
		}
	}
	c.Check(rule, "sqlite.alterable|DropIndex of an implicit index is not alterable", clause.Pos(), guarded, "sqlite.alterable accepts every DropIndex for the ALTER path: dropping an inline UNIQUE constraint plans `DROP INDEX` of an index SQLite created implicitly (sqlite_autoindex_…, renamed by normalizeIdxName), which the engine refuses — the apply fails and the database never reaches the desired schema")
}

// R03m: a regular expression built around an identifier quotes and delimits it.
const ruleTextDynRegex = "regular expressions built from an identifier: wherever regexp.Compile/MustCompile receives fmt.Sprintf(pattern, name…), every interpolated argument is passed through regexp.QuoteMeta, and in the pattern each %s is delimited on the right — after optional closing quote characters the next atom cannot match a word character (so the pattern for column `a` cannot match column `a1`, whose definition would otherwise be attributed to `a`)"

func checkDynRegex(c *Ctx, rule string) {
	n := 0
	c.AllFuncs(false, func(fi *FuncInfo) {
		if !strings.HasPrefix(fi.Pkg.PkgPath, modRoot) {
			return
		}
		info := fi.Info()
		ast.Inspect(fi.Decl.Body, func(m ast.Node) bool {
			call, ok := m.(*ast.CallExpr)
			if !ok || len(call.Args) != 1 {
				return true
			}
			fn := calleeOf(info, call)
			if fn == nil || fn.Pkg() == nil || fn.Pkg().Path() != "regexp" || (fn.Name() != "Compile" && fn.Name() != "MustCompile") {
				return true
			}
			sp, ok := ast.Unparen(call.Args[0]).(*ast.CallExpr)
			if !ok || !funcIs(calleeOf(info, sp), "fmt", "", "Sprintf") || len(sp.Args) < 2 {
				return true
			}
			pat, ok := stringConst(info, sp.Args[0])
			if !ok {
				c.Unresolved(rule, fi.Name+": non-constant pattern of a dynamic regular expression")
				return true
			}
			n++
			c.funcs[fi.Name] = true
			bad := ""
			for _, a := range sp.Args[1:] {
				q, ok := ast.Unparen(a).(*ast.CallExpr)
				if !ok || !funcIs(calleeOf(info, q), "regexp", "", "QuoteMeta") {
					bad = "argument " + types.ExprString(a) + " is interpolated without regexp.QuoteMeta"
				}
			}
			if bad == "" {
				bad = rightDelimited(pat)
			}
			c.Check(rule, fi.Name+"|identifier quoted and delimited", call.Pos(), bad == "", "%s builds a regular expression around an identifier, but %s: the pattern also matches longer identifiers (or is corrupted by metacharacters in the name), so the text found belongs to another object", fi.Name, bad)
			return true
		})
	})
	if n == 0 {
		c.Note("%s: no regular expression is built from an identifier in the module (vacuous)", rule)
	}
}

// rightDelimited checks that each %s of the pattern is followed — after an optional
// group close and optional quote-character classes — by an atom that cannot match
// a word character and must match at least once. Returns "" when it holds.
func rightDelimited(pat string) string {
	const ph = "ZZIDENTZZ"
	if !strings.Contains(pat, "%s") {
		return "the pattern has no %s verb"
	}
	re, err := syntax.Parse(strings.ReplaceAll(pat, "%s", ph), syntax.Perl)
	if err != nil {
		return "the pattern does not parse: " + err.Error()
	}
	// flatten into a sequence of atoms in match order (concatenations and captures opened up)
	var seq []*syntax.Regexp
	var flat func(r *syntax.Regexp)
	flat = func(r *syntax.Regexp) {
		switch r.Op {
		case syntax.OpConcat:
			for _, s := range r.Sub {
				flat(s)
			}
		case syntax.OpCapture:
			flat(r.Sub[0])
		default:
			seq = append(seq, r)
		}
	}
	flat(re)
	wordish := func(r rune) bool {
		return r == '_' || (r >= '0' && r <= '9') || (r >= 'a' && r <= 'z') || (r >= 'A' && r <= 'Z')
	}
	classHasWord := func(r *syntax.Regexp) bool {
		for i := 0; i+1 < len(r.Rune); i += 2 {
			for _, w := range []rune{'_', '0', '9', 'a', 'z', 'A', 'Z'} {
				if r.Rune[i] <= w && w <= r.Rune[i+1] {
					return true
				}
			}
		}
		return false
	}
	quoteOnly := func(r *syntax.Regexp) bool {
		// ["`]* / ["`]? : optional run of quote characters
		if (r.Op == syntax.OpStar || r.Op == syntax.OpQuest) && len(r.Sub) == 1 {
			s := r.Sub[0]
			switch s.Op {
			case syntax.OpCharClass:
				return !classHasWord(s)
			case syntax.OpLiteral:
				for _, x := range s.Rune {
					if wordish(x) {
						return false
					}
				}
				return true
			}
		}
		return false
	}
	found := false
	for i, r := range seq {
		if r.Op != syntax.OpLiteral || !strings.Contains(string(r.Rune), ph) {
			continue
		}
		found = true
		// characters of the same literal after the placeholder
		rest := string(r.Rune)[strings.Index(string(r.Rune), ph)+len(ph):]
		if rest != "" {
			if wordish([]rune(rest)[0]) {
				return "the identifier is followed by a word character in the pattern"
			}
			continue
		}
		j := i + 1
		for j < len(seq) && quoteOnly(seq[j]) {
			j++
		}
		if j >= len(seq) {
			return "nothing delimits the identifier on the right"
		}
		nx := seq[j]
		switch nx.Op {
		case syntax.OpCharClass:
			if classHasWord(nx) {
				return "the atom after the identifier (" + nx.String() + ") can match a word character"
			}
		case syntax.OpLiteral:
			if wordish(nx.Rune[0]) {
				return "the atom after the identifier (" + nx.String() + ") is a word character"
			}
		case syntax.OpPlus:
			if s := nx.Sub[0]; s.Op != syntax.OpCharClass || classHasWord(s) {
				return "the atom after the identifier (" + nx.String() + ") can match a word character"
			}
		case syntax.OpEndText, syntax.OpEndLine, syntax.OpWordBoundary:
		default:
			return "the atom after the identifier (" + nx.String() + ") may match nothing or a word character, so a longer identifier matches too"
		}
	}
	if !found {
		return "the interpolated identifier was not found in the parsed pattern"
	}
	return ""
}

// R03n: LIKE patterns of the inspection queries treat '_' literally.
const ruleTextLikeEscape = "LIKE patterns in the SQLite inspector's queries: in every string constant of sql/sqlite, a LIKE pattern literal that contains '_' (a single-character wildcard) escapes it and the predicate carries an ESCAPE clause naming that escape character; otherwise `NOT LIKE 'sqlite_%'` also hides user tables such as `sqlitecache`, which then appear in neither export"

var reLike = regexp.MustCompile(`(?i)\bLIKE\s+'([^']*)'(?:\s+ESCAPE\s+'([^'])')?`)

func checkLikeEscape(c *Ctx, rule string) {
	p := c.Pkg(pSqlite)
	n := 0
	for _, f := range p.Syntax {
		if strings.HasSuffix(c.Fset.Position(f.Pos()).Filename, "_test.go") {
			continue
		}
		ast.Inspect(f, func(m ast.Node) bool {
			lit, ok := m.(*ast.BasicLit)
			if !ok || lit.Kind != token.STRING {
				return true
			}
			s, ok := stringConst(p.TypesInfo, lit)
			if !ok {
				return true
			}
			for _, mt := range reLike.FindAllStringSubmatch(s, -1) {
				pat, esc := mt[1], mt[2]
				n++
				bad := false
				for i := 0; i < len(pat); i++ {
					if esc != "" && string(pat[i]) == esc {
						i++ // escaped character
						continue
					}
					if pat[i] == '_' {
						bad = true
					}
				}
				c.Check(rule, "sqlite|LIKE '"+pat+"'", lit.Pos(), !bad, "the LIKE pattern '%s' contains an unescaped '_' (any single character): names that merely start with the same letters are matched too, so user tables are silently left out of the inspection", pat)
			}
			return true
		})
	}
	if n == 0 {
		c.Note("%s: no LIKE pattern in the string constants of sql/sqlite (vacuous)", rule)
	}
}
