package main

// Rules added after the fourth round of independent seeds and the defects
// D27–D30 reproduced from the agents' observations on the unmodified tree.

import (
	"fmt"
	"go/ast"
	"go/constant"
	"go/parser"
	"go/token"
	"go/types"
	"regexp"
	"regexp/syntax"
	"sort"
	"strings"

	"golang.org/x/tools/go/cfg"
)

// R02n: a value filled by sqlx.Has is read only where Has reported true.
const ruleTextHasValidity = "validity of sqlx.Has targets: in the differ files, when `ok := sqlx.Has(attrs, &v)` (or the call itself) decides a branch, no field of v is read in a switch case or if condition/body that is taken only when that result is false — there v is the zero value, so a comparison on it is constant (the deviant-belief pattern: one branch checks, the sibling uses unchecked)"

func checkHasValidity(c *Ctx, rule string) {
	n := 0
	for _, pp := range []string{pSqlx, pMysql, pPostgres, pSqlite} {
		c.AllFuncs(false, func(fi *FuncInfo) {
			if fi.Pkg.PkgPath != pp {
				return
			}
			base := c.Fset.Position(fi.Decl.Pos()).Filename
			base = base[strings.LastIndex(base, "/")+1:]
			if !strings.HasPrefix(base, "diff") {
				return
			}
			info := fi.Info()
			// flag variable → target object
			target := map[types.Object]types.Object{}
			hasTarget := func(call *ast.CallExpr) types.Object {
				if !funcIs(calleeOf(info, call), pSqlx, "", "Has") || len(call.Args) != 2 {
					return nil
				}
				un, ok := ast.Unparen(call.Args[1]).(*ast.UnaryExpr)
				if !ok || un.Op != token.AND {
					return nil
				}
				id, ok := ast.Unparen(un.X).(*ast.Ident)
				if !ok {
					return nil
				}
				return info.ObjectOf(id)
			}
			bind := func(lhs ast.Expr, rhs ast.Expr) {
				call, ok := ast.Unparen(rhs).(*ast.CallExpr)
				if !ok {
					return
				}
				if t := hasTarget(call); t != nil {
					if id, ok := lhs.(*ast.Ident); ok && info.ObjectOf(id) != nil {
						target[info.ObjectOf(id)] = t
					}
				}
			}
			ast.Inspect(fi.Decl.Body, func(m ast.Node) bool {
				switch x := m.(type) {
				case *ast.AssignStmt:
					if len(x.Lhs) == len(x.Rhs) {
						for i := range x.Rhs {
							bind(x.Lhs[i], x.Rhs[i])
						}
					}
				case *ast.ValueSpec:
					if len(x.Names) == len(x.Values) {
						for i := range x.Values {
							bind(x.Names[i], x.Values[i])
						}
					}
				}
				return true
			})
			if len(target) == 0 {
				return
			}
			checkConjunctions(c, fi, target)
			// invalid targets implied by a condition taken with the given value
			invalid := func(cond ast.Expr, edge bool) map[types.Object]bool {
				out := map[types.Object]bool{}
				for _, f := range impliedFacts(cond, edge) {
					if f.val {
						continue
					}
					switch x := ast.Unparen(f.expr).(type) {
					case *ast.Ident:
						if t, ok := target[info.ObjectOf(x)]; ok {
							out[t] = true
						}
					case *ast.CallExpr:
						if t := hasTarget(x); t != nil {
							out[t] = true
						}
					}
				}
				return out
			}
			reads := func(nd ast.Node, bad map[types.Object]bool) ast.Node {
				var hit ast.Node
				ast.Inspect(nd, func(m ast.Node) bool {
					if hit != nil {
						return false
					}
					// a nested sqlx.Has(…, &v) re-fills v
					if call, ok := m.(*ast.CallExpr); ok && hasTarget(call) != nil {
						return false
					}
					if se, ok := m.(*ast.SelectorExpr); ok {
						if id, ok := ast.Unparen(se.X).(*ast.Ident); ok && bad[info.ObjectOf(id)] {
							if _, isField := info.Selections[se]; isField {
								hit = se
							}
						}
					}
					return true
				})
				return hit
			}
			check := func(cond ast.Expr, edge bool, scope []ast.Node, pos token.Pos) {
				bad := invalid(cond, edge)
				if len(bad) == 0 {
					return
				}
				n++
				c.funcs[fi.Name] = true
				var hit ast.Node
				// the condition itself (conjunction: the other conjuncts are evaluated under the same facts)
				if edge {
					hit = reads(cond, bad)
				}
				for _, s := range scope {
					if hit == nil && s != nil {
						hit = reads(s, bad)
					}
				}
				what := ""
				if hit != nil {
					pos, what = hit.Pos(), types.ExprString(hit.(ast.Expr))
				}
				c.Check(rule, fi.Name+"|"+types.ExprString(cond), pos, hit == nil, "%s reads %s on a branch taken only when sqlx.Has did not find the attribute: the variable holds the zero value there, so the test is constant (compare with the sibling branch, which reads the value that was found)", fi.Name, what)
			}
			ast.Inspect(fi.Decl.Body, func(m ast.Node) bool {
				switch x := m.(type) {
				case *ast.IfStmt:
					check(x.Cond, true, []ast.Node{x.Body}, x.Pos())
					if x.Else != nil {
						check(x.Cond, false, []ast.Node{x.Else}, x.Pos())
					}
				case *ast.SwitchStmt:
					if x.Tag != nil {
						return true
					}
					for _, cl := range x.Body.List {
						cc := cl.(*ast.CaseClause)
						for _, e := range cc.List {
							var body []ast.Node
							for _, st := range cc.Body {
								body = append(body, st)
							}
							if len(cc.List) == 1 {
								check(e, true, body, cc.Pos())
							} else {
								check(e, true, nil, cc.Pos())
							}
						}
					}
				}
				return true
			})
		})
	}
	if n < 3 {
		c.Unresolved(rule, "branches decided by a negative sqlx.Has result in the differ files (fewer than 3)")
	}
}

// R02q: a field of a sqlx.Has target is read only where its flag is known true.
// The context of a read is collected from the enclosing short-circuit operators,
// if statements and (ordered) tagless switch cases, and decided by enumerating
// the truth assignments of the function's Has flags (other atoms are unknown).
func checkConjunctions(c *Ctx, fi *FuncInfo, target map[types.Object]types.Object) {
	info := fi.Info()
	flagOf := map[types.Object]types.Object{} // target -> flag
	var flags []types.Object
	for f, t := range target {
		flagOf[t] = f
		flags = append(flags, f)
	}
	if len(flags) > 10 {
		c.Unresolved("R02q", fi.Name+": more than 10 sqlx.Has flags")
		return
	}
	idx := map[types.Object]int{}
	for i, f := range flags {
		idx[f] = i
	}
	type constraint struct {
		e   ast.Expr
		val bool
	}
	// three-valued evaluation: 1 true, 0 false, -1 unknown
	var eval func(e ast.Expr, asg int) int
	eval = func(e ast.Expr, asg int) int {
		switch x := ast.Unparen(e).(type) {
		case *ast.Ident:
			if i, ok := idx[info.ObjectOf(x)]; ok {
				if asg&(1<<i) != 0 {
					return 1
				}
				return 0
			}
		case *ast.UnaryExpr:
			if x.Op == token.NOT {
				switch eval(x.X, asg) {
				case 1:
					return 0
				case 0:
					return 1
				}
			}
		case *ast.BinaryExpr:
			a, b := eval(x.X, asg), eval(x.Y, asg)
			switch x.Op {
			case token.LAND:
				if a == 0 || b == 0 {
					return 0
				}
				if a == 1 && b == 1 {
					return 1
				}
			case token.LOR:
				if a == 1 || b == 1 {
					return 1
				}
				if a == 0 && b == 0 {
					return 0
				}
			case token.EQL, token.NEQ:
				if a >= 0 && b >= 0 {
					if (a == b) == (x.Op == token.EQL) {
						return 1
					}
					return 0
				}
			}
		}
		return -1
	}
	pm := parentMap(fi.Decl.Body)
	contextOf := func(n ast.Node) []constraint {
		var cs []constraint
		child := n
		for p := pm[n]; p != nil; child, p = p, pm[p] {
			switch x := p.(type) {
			case *ast.BinaryExpr:
				if child == ast.Node(x.Y) || (x.Y.Pos() <= child.Pos() && child.End() <= x.Y.End()) {
					switch x.Op {
					case token.LAND:
						cs = append(cs, constraint{x.X, true})
					case token.LOR:
						cs = append(cs, constraint{x.X, false})
					}
				}
			case *ast.IfStmt:
				switch {
				case x.Body.Pos() <= child.Pos() && child.End() <= x.Body.End():
					cs = append(cs, constraint{x.Cond, true})
				case x.Else != nil && x.Else.Pos() <= child.Pos() && child.End() <= x.Else.End():
					cs = append(cs, constraint{x.Cond, false})
				}
			case *ast.CaseClause:
				sw, ok := pm[pm[x]].(*ast.SwitchStmt)
				if !ok || sw.Tag != nil {
					continue
				}
				for _, cl := range sw.Body.List {
					cc := cl.(*ast.CaseClause)
					if cc == x {
						break
					}
					for _, e := range cc.List {
						cs = append(cs, constraint{e, false})
					}
				}
				inList := false
				for k, e := range x.List {
					if e.Pos() <= child.Pos() && child.End() <= e.End() {
						inList = true
						for _, prev := range x.List[:k] {
							cs = append(cs, constraint{prev, false})
						}
					}
				}
				if !inList && len(x.List) == 1 {
					cs = append(cs, constraint{x.List[0], true})
				}
			case *ast.FuncLit:
				return cs
			}
		}
		return cs
	}
	guardedSomewhere := map[types.Object]bool{}
	type site struct {
		se *ast.SelectorExpr
		t  types.Object
		ok bool
	}
	var sites []site
	ast.Inspect(fi.Decl.Body, func(m ast.Node) bool {
		se, ok := m.(*ast.SelectorExpr)
		if !ok {
			return true
		}
		id, ok := ast.Unparen(se.X).(*ast.Ident)
		if !ok {
			return true
		}
		t := info.ObjectOf(id)
		fl, isTarget := flagOf[t]
		if !isTarget {
			return true
		}
		if _, isField := info.Selections[se]; !isField {
			return true
		}
		cs := contextOf(se)
		valid := true
		for asg := 0; asg < 1<<len(flags); asg++ {
			if asg&(1<<idx[fl]) != 0 {
				continue // flag true
			}
			feasible := true
			for _, k := range cs {
				v := eval(k.e, asg)
				if (v == 1 && !k.val) || (v == 0 && k.val) {
					feasible = false
					break
				}
			}
			if feasible {
				valid = false
				break
			}
		}
		if valid {
			guardedSomewhere[t] = true
		}
		sites = append(sites, site{se, t, valid})
		return true
	})
	occ := map[string]int{}
	for _, st := range sites {
		// a belief is contradicted only where the same function guards another read of the same value
		if !guardedSomewhere[st.t] {
			continue
		}
		c.funcs[fi.Name] = true
		txt := types.ExprString(st.se)
		occ[txt]++
		c.Check("R02q", fmt.Sprintf("%s|read %d of %s", fi.Name, occ[txt], txt), st.se.Pos(), st.ok, "%s reads %s where the sqlx.Has result for it is not known to be true, although other reads of the same value in this function are guarded by it: when the attribute is absent the comparison is made with the zero value (typically a copy/paste of a neighbouring disjunct)", fi.Name, types.ExprString(st.se))
	}
}

// R02o: no comparison of an expression with itself.
const ruleTextNoSelfCompare = "no self-comparison: in the differ files no ==/!= has syntactically identical operands, nor two single-assignment locals computed by the same expression over the same parameter (also when both are calls of a pure package-local or standard-library function with identical arguments): such a test is constant, so the change it guards is never (or always) reported"

func checkNoSelfCompare(c *Ctx, rule string) {
	n := 0
	for _, pp := range []string{pSqlx, pMysql, pPostgres, pSqlite} {
		c.AllFuncs(false, func(fi *FuncInfo) {
			if fi.Pkg.PkgPath != pp {
				return
			}
			base := c.Fset.Position(fi.Decl.Pos()).Filename
			base = base[strings.LastIndex(base, "/")+1:]
			if !strings.HasPrefix(base, "diff") {
				return
			}
			bad := ""
			pos := fi.Decl.Pos()
			k := 0
			info := fi.Info()
			// single-assignment locals: the one expression each of them is computed from
			defs, ndefs := map[types.Object]ast.Expr{}, map[types.Object]int{}
			defPos := map[types.Object]token.Pos{}
			var stores []*ast.AssignStmt
			ast.Inspect(fi.Decl.Body, func(m ast.Node) bool {
				switch x := m.(type) {
				case *ast.AssignStmt:
					stores = append(stores, x)
					for i, l := range x.Lhs {
						id, ok := l.(*ast.Ident)
						if !ok || id.Name == "_" {
							continue
						}
						o := info.ObjectOf(id)
						ndefs[o]++
						if len(x.Rhs) == len(x.Lhs) {
							defs[o], defPos[o] = x.Rhs[i], x.Pos()
						} else if i == 0 && len(x.Rhs) == 1 {
							defs[o], defPos[o] = x.Rhs[0], x.Pos()
						}
					}
				case *ast.RangeStmt:
					for _, l := range []ast.Expr{x.Key, x.Value} {
						if id, ok := l.(*ast.Ident); ok {
							ndefs[info.ObjectOf(id)] += 2
						}
					}
				case *ast.IncDecStmt:
					if id, ok := x.X.(*ast.Ident); ok {
						ndefs[info.ObjectOf(id)] += 2
					}
				case *ast.UnaryExpr:
					if id, ok := ast.Unparen(x.X).(*ast.Ident); ok && x.Op == token.AND {
						ndefs[info.ObjectOf(id)] += 2
					}
				}
				return true
			})
			params := map[types.Object]bool{}
			for _, fld := range fi.Decl.Type.Params.List {
				for _, nm := range fld.Names {
					params[info.ObjectOf(nm)] = true
				}
			}
			sameDerivation := func(x, y ast.Expr) bool {
				ix, ok1 := ast.Unparen(x).(*ast.Ident)
				iy, ok2 := ast.Unparen(y).(*ast.Ident)
				if !ok1 || !ok2 {
					return false
				}
				ox, oy := info.ObjectOf(ix), info.ObjectOf(iy)
				if ox == nil || oy == nil || ox == oy || ndefs[ox] != 1 || ndefs[oy] != 1 || defs[ox] == nil || defs[oy] == nil {
					return false
				}
				if types.ExprString(defs[ox]) != types.ExprString(defs[oy]) {
					return false
				}
				// the common expression reads a parameter, and nothing it reads is stored to between the two computations
				reads := map[types.Object]bool{}
				hasParam := false
				ast.Inspect(defs[ox], func(k ast.Node) bool {
					if id, ok := k.(*ast.Ident); ok {
						if o, ok := info.Uses[id].(*types.Var); ok {
							reads[o] = true
							if params[o] || (!o.IsField() && o.Pkg() != nil && o.Parent() != o.Pkg().Scope()) {
								hasParam = true // a parameter or a local of the function (round 6: locals filled through sqlx.Has)
							}
						}
					}
					return true
				})
				if !hasParam {
					return false
				}
				lo, hi := defPos[ox], defPos[oy]
				if lo > hi {
					lo, hi = hi, lo
				}
				for _, st := range stores {
					if st.Pos() <= lo || st.Pos() >= hi {
						continue
					}
					for _, l := range st.Lhs {
						if id := rootIdent(l); id != nil && reads[info.ObjectOf(id)] {
							return false
						}
					}
				}
				return true
			}
			ast.Inspect(fi.Decl.Body, func(m ast.Node) bool {
				be, ok := m.(*ast.BinaryExpr)
				if !ok || (be.Op != token.EQL && be.Op != token.NEQ) {
					return true
				}
				k++
				if bad == "" && sameDerivation(be.X, be.Y) {
					bad, pos = types.ExprString(be)+", both computed as "+types.ExprString(defs[info.ObjectOf(ast.Unparen(be.X).(*ast.Ident))]), be.Pos()
				}
				if bad == "" && types.ExprString(be.X) == types.ExprString(be.Y) {
					if _, isLit := ast.Unparen(be.X).(*ast.BasicLit); !isLit {
						bad, pos = types.ExprString(be), be.Pos()
					}
				}
				return true
			})
			if k == 0 {
				return
			}
			n++
			c.funcs[fi.Name] = true
			c.Check(rule, fi.Name+"|no self-comparison", pos, bad == "", "%s compares an expression with itself (%s): the test is constant, the difference it was meant to detect is never reported", fi.Name, bad)
		})
	}
	if n < 20 {
		c.Unresolved(rule, "differ functions with equality tests (fewer than 20)")
	}
}

// R02p: the MariaDB-only filter is under a MariaDB guard.
const ruleTextMariaFilter = "engine-specific filters are guarded by the engine test: in mysql TableAttrDiff a reported CHECK change is withheld from the result (a loop iteration that does not append it) only on paths where d.Maria() (or another method of the connection's version predicate family) was tested and true; MySQL proper never creates the implicit json_valid checks the filter is written for"

func checkMariaFilter(c *Ctx, rule string) {
	fi := c.Func(rule, pMysql, "diff", "TableAttrDiff")
	if fi == nil {
		return
	}
	info := fi.Info()
	n := 0
	ast.Inspect(fi.Decl.Body, func(m ast.Node) bool {
		loop, ok := m.(*ast.RangeStmt)
		if !ok {
			return true
		}
		// loops over the result of a Check diff
		call, ok := ast.Unparen(loop.X).(*ast.CallExpr)
		if !ok {
			return true
		}
		fn := calleeOf(info, call)
		if fn == nil || !strings.Contains(fn.Name(), "Check") {
			return true
		}
		val, _ := loop.Value.(*ast.Ident)
		if val == nil {
			return true
		}
		n++
		c.funcs[fi.Name] = true
		// CFG of the function: from loop body entry, reach the next iteration (the range node) without an append of the element, along edges that do not imply Maria()==true
		f := newFlow(info, fi.Decl.Body)
		isKeep := func(nd ast.Node) bool {
			as, ok := nd.(*ast.AssignStmt)
			if !ok || len(as.Rhs) != 1 {
				return false
			}
			ap, ok := as.Rhs[0].(*ast.CallExpr)
			if !ok || builtinName(info, ap) != "append" {
				return false
			}
			for _, a := range ap.Args[1:] {
				if id, ok := ast.Unparen(a).(*ast.Ident); ok && info.ObjectOf(id) == info.ObjectOf(val) {
					return true
				}
			}
			return false
		}
		isMaria := func(e ast.Expr) bool {
			call, ok := ast.Unparen(e).(*ast.CallExpr)
			if !ok {
				return false
			}
			fn := calleeOf(info, call)
			if fn == nil {
				return false
			}
			if fn.Name() == "Maria" {
				return true
			}
			// a package-local predicate that can report true only after it established Maria()
			g := c.FuncInfoOf(fn)
			if g == nil || g.Decl.Body == nil || g.Pkg != fi.Pkg {
				return false
			}
			sig := fn.Type().(*types.Signature)
			if sig.Results().Len() != 1 {
				return false
			}
			if b, ok := sig.Results().At(0).Type().Underlying().(*types.Basic); !ok || b.Kind() != types.Bool {
				return false
			}
			ginfo := g.Info()
			gf := newFlow(ginfo, g.Decl.Body)
			all, n := true, 0
			for _, pt := range gf.find(isReturn) {
				r := pt.b.Nodes[pt.i].(*ast.ReturnStmt)
				if len(r.Results) != 1 {
					all = false
					continue
				}
				if tv := ginfo.Types[r.Results[0]]; tv.Value != nil && tv.Value.String() == "false" {
					continue
				}
				n++
				if !gf.allPathsImply(r, func(x ast.Expr, v bool) bool {
					c2, ok := ast.Unparen(x).(*ast.CallExpr)
					if !ok || !v {
						return false
					}
					f2 := calleeOf(ginfo, c2)
					return f2 != nil && f2.Name() == "Maria"
				}) {
					all = false
				}
			}
			return all && n > 0
		}
		var starts []point
		for _, b := range f.G.Blocks {
			if b.Live && b.Kind == cfg.KindRangeBody && b.Stmt == ast.Stmt(loop) {
				starts = append(starts, point{b, 0})
			}
		}
		if len(starts) == 0 {
			c.Unresolved(rule, fi.Name+": entry of the loop over the CHECK changes")
			return true
		}
		// a block that re-enters the loop header: contains the range statement's key/value assignment (go/cfg "range.loop" block)
		isNext := func(b *cfg.Block) bool {
			return b.Kind == cfg.KindRangeLoop && b.Stmt == ast.Stmt(loop)
		}
		skipped := f.reachBlockEdges(starts, isKeep, isNext, func(b *cfg.Block, si int) bool {
			return edgeImplies(b, si, func(e ast.Expr, v bool) bool { return isMaria(e) && v })
		})
		// under !Maria() every iteration must keep the change: no path to the next iteration that avoids the append
		c.Check(rule, fi.Name+"|CHECK changes withheld only on MariaDB", loop.Pos(), !skipped, "%s can skip a reported CHECK change (reach the next iteration without appending it) on a path where d.Maria() is not known to be true: on MySQL a user's DropCheck of a json_valid(...) constraint named like a column is silently hidden", fi.Name)
		return true
	})
	if n == 0 {
		c.Unresolved(rule, "loop over the CHECK changes in mysql TableAttrDiff")
	}
}

// R04i: every change that declares a foreign key orders its table after the referenced table's creation.
const ruleTextFKDeclEdges = "edge completeness in sqlx.dependsOn: in the ModifyTable-after-AddTable case, the sub-change kinds examined for a reference to the created table include every schema.Change kind that declares a foreign key (a struct of sql/schema named Add*/Modify* with a *schema.ForeignKey field: AddForeignKey.F, ModifyForeignKey.To); a kind that is not examined gets no edge, and with a cycle in the change set (no global sort to hide it) the key is declared before the table it points at exists"

func checkFKDeclEdges(c *Ctx, rule string) {
	fi := c.Func(rule, pSqlx, "", "dependsOn")
	if fi == nil {
		return
	}
	info := fi.Info()
	// kinds that declare a foreign key
	var kinds []string
	scope := c.Pkg(pSchema).Types.Scope()
	for _, nm := range scope.Names() {
		tn, ok := scope.Lookup(nm).(*types.TypeName)
		if !ok || !(strings.HasPrefix(nm, "Add") || strings.HasPrefix(nm, "Modify")) {
			continue
		}
		st, ok := tn.Type().Underlying().(*types.Struct)
		if !ok {
			continue
		}
		for i := 0; i < st.NumFields(); i++ {
			if typeIs(derefType(st.Field(i).Type()), pSchema, "ForeignKey") {
				if _, isPtr := st.Field(i).Type().(*types.Pointer); isPtr {
					kinds = append(kinds, nm)
					break
				}
			}
		}
	}
	if len(kinds) < 2 {
		c.Unresolved(rule, "schema change kinds declaring a foreign key (fewer than 2)")
		return
	}
	// the clause: outer type switch case *schema.ModifyTable → inner type switch case *schema.AddTable
	caseOf := func(cc *ast.CaseClause, name string) bool {
		for _, e := range cc.List {
			if typeIs(derefType(info.TypeOf(e)), pSchema, name) {
				return true
			}
		}
		return false
	}
	var clause *ast.CaseClause
	ast.Inspect(fi.Decl.Body, func(m ast.Node) bool {
		outer, ok := m.(*ast.CaseClause)
		if !ok || !caseOf(outer, "ModifyTable") || clause != nil {
			return true
		}
		ast.Inspect(outer, func(k ast.Node) bool {
			inner, ok := k.(*ast.CaseClause)
			if ok && inner != outer && caseOf(inner, "AddTable") && clause == nil {
				clause = inner
			}
			return true
		})
		return true
	})
	if clause == nil {
		c.Unresolved(rule, "dependsOn: case ModifyTable → case AddTable")
		return
	}
	c.funcs[fi.Name] = true
	// types examined in the clause (type-switch cases and assertions), also in package-local helpers called from it
	seen := map[string]bool{}
	var collect func(nd ast.Node, inf *types.Info, depth int)
	visited := map[*types.Func]bool{}
	collect = func(nd ast.Node, inf *types.Info, depth int) {
		ast.Inspect(nd, func(m ast.Node) bool {
			switch x := m.(type) {
			case *ast.CaseClause:
				for _, e := range x.List {
					if nt := namedOf(derefType(inf.TypeOf(e))); nt != nil && nt.Obj().Pkg() != nil && nt.Obj().Pkg().Path() == pSchema {
						seen[nt.Obj().Name()] = true
					}
				}
			case *ast.TypeAssertExpr:
				if x.Type != nil {
					if nt := namedOf(derefType(inf.TypeOf(x.Type))); nt != nil && nt.Obj().Pkg() != nil && nt.Obj().Pkg().Path() == pSchema {
						seen[nt.Obj().Name()] = true
					}
				}
			case *ast.CallExpr:
				if depth > 0 {
					if fn := calleeOf(inf, x); fn != nil && fn.Pkg() != nil && fn.Pkg().Path() == pSqlx && !visited[fn] {
						visited[fn] = true
						if g := c.FuncInfoOf(fn); g != nil && g.Decl.Body != nil {
							collect(g.Decl.Body, g.Info(), depth-1)
						}
					}
				}
			}
			return true
		})
	}
	for _, st := range clause.Body {
		collect(st, info, 2)
	}
	for _, k := range kinds {
		c.Check(rule, "sqlx.dependsOn|ModifyTable after AddTable examines "+k, clause.Pos(), seen[k], "sqlx.dependsOn: a ModifyTable whose sub-change is a %s pointing at a table created in the same change set gets no edge to that AddTable (the kind is not examined in the ModifyTable/AddTable case): when the change set also contains a cycle the key is declared before the referenced table exists", k)
	}
}

// R01n: every dialect parenthesises CHECK expressions through the shared balanced test.
const ruleTextCheckWrap = "sibling agreement of the CHECK writers: wherever a planner writes the keyword CHECK followed by an expression (Builder.P(\"CHECK\", x)), x is the result of sqlx.MayWrap (directly or through a local with that single definition), or the expression is written inside Builder.Wrap; a prefix/suffix test for '(' … ')' accepts `(a) AND (b)` as already wrapped and emits invalid SQL"

func checkCheckWrap(c *Ctx, rule string) {
	n := 0
	for _, pp := range []string{pMysql, pPostgres, pSqlite} {
		c.AllFuncs(false, func(fi *FuncInfo) {
			if fi.Pkg.PkgPath != pp {
				return
			}
			info := fi.Info()
			ast.Inspect(fi.Decl.Body, func(m ast.Node) bool {
				call, ok := m.(*ast.CallExpr)
				if !ok || len(call.Args) < 1 {
					return true
				}
				fn := calleeOf(info, call)
				if fn == nil || fn.Name() != "P" || recvTypeName(fn) != "Builder" {
					return true
				}
				if s, ok := stringConst(info, call.Args[0]); !ok || s != "CHECK" {
					return true
				}
				n++
				c.funcs[fi.Name] = true
				if len(call.Args) == 1 {
					// b.P("CHECK").Wrap(…): the builder adds the parens
					c.Check(rule, fi.Name+"|CHECK expression wrapped", call.Pos(), true, "")
					return true
				}
				isMayWrap := func(e ast.Expr) bool {
					cl, ok := ast.Unparen(e).(*ast.CallExpr)
					return ok && funcIs(calleeOf(info, cl), pSqlx, "", "MayWrap")
				}
				ok2 := isMayWrap(call.Args[1])
				if id, isID := ast.Unparen(call.Args[1]).(*ast.Ident); isID && !ok2 {
					obj := info.ObjectOf(id)
					defs, good := 0, 0
					ast.Inspect(fi.Decl.Body, func(k ast.Node) bool {
						as, ok := k.(*ast.AssignStmt)
						if !ok {
							return true
						}
						for i, l := range as.Lhs {
							if lid, ok := l.(*ast.Ident); ok && info.ObjectOf(lid) == obj {
								defs++
								if len(as.Lhs) == len(as.Rhs) && isMayWrap(as.Rhs[i]) {
									good++
								}
							}
						}
						return true
					})
					ok2 = defs > 0 && defs == good
				}
				c.Check(rule, fi.Name+"|CHECK expression wrapped", call.Pos(), ok2, "%s writes CHECK %s without passing the expression through sqlx.MayWrap (the balanced-parentheses test the other dialects use): an expression such as `(a > 0) AND (b > 0)` is emitted unwrapped and the statement is invalid", fi.Name, types.ExprString(call.Args[1]))
				return true
			})
		})
	}
	if n < 3 {
		c.Unresolved(rule, "writers of the CHECK keyword in the dialect planners (fewer than 3)")
	}
}

// R01o: implicit indexes are not dropped with DROP INDEX.
const ruleTextImplicitIndexDrop = "SQLite: a DropIndex keeps a table modification on the ALTER path only for explicitly created indexes: in sqlite alterable() the *schema.DropIndex case returns false under a test of the engine-generated name prefix (sqlite_autoindex); an index that backs an inline UNIQUE / PRIMARY KEY constraint cannot be dropped with DROP INDEX, only by re-creating the table"

func checkImplicitIndexDrop(c *Ctx, rule string) {
	fi := c.Func(rule, pSqlite, "", "alterable")
	if fi == nil {
		return
	}
	info := fi.Info()
	var clause *ast.CaseClause
	shared := false
	ast.Inspect(fi.Decl.Body, func(m ast.Node) bool {
		cc, ok := m.(*ast.CaseClause)
		if !ok {
			return true
		}
		for _, e := range cc.List {
			if typeIs(derefType(info.TypeOf(e)), pSchema, "DropIndex") {
				clause, shared = cc, len(cc.List) > 1
			}
		}
		return true
	})
	if clause == nil {
		c.Unresolved(rule, "alterable: case *schema.DropIndex")
		return
	}
	c.funcs[fi.Name] = true
	guarded := false
	if !shared {
		for _, st := range clause.Body {
			ast.Inspect(st, func(m ast.Node) bool {
				ifs, ok := m.(*ast.IfStmt)
				if !ok {
					return true
				}
				mentions := false
				ast.Inspect(ifs.Cond, func(k ast.Node) bool {
					if e, ok := k.(ast.Expr); ok {
						if s, ok := stringConst(info, e); ok && strings.HasPrefix(s, "sqlite_autoindex") {
							mentions = true
						}
					}
					// a package-local predicate whose body tests the prefix
					if call, ok := k.(*ast.CallExpr); ok {
						if g := c.FuncInfoOf(calleeOf(info, call)); g != nil && g.Pkg.PkgPath == pSqlite && g.Decl.Body != nil {
							ast.Inspect(g.Decl.Body, func(q ast.Node) bool {
								if e, ok := q.(ast.Expr); ok {
									if s, ok := stringConst(g.Info(), e); ok && strings.HasPrefix(s, "sqlite_autoindex") {
										mentions = true
									}
								}
								return true
							})
						}
					}
					return true
				})
				if !mentions {
					return true
				}
				for _, b := range ifs.Body.List {
					if r, ok := b.(*ast.ReturnStmt); ok && len(r.Results) == 1 {
						if tv := info.Types[r.Results[0]]; tv.Value != nil && tv.Value.String() == "false" {
							guarded = true
						}
					}
				}
				return true
			})
		}
	}
	c.Check(rule, "sqlite.alterable|DropIndex of an implicit index is not alterable", clause.Pos(), guarded, "sqlite.alterable accepts every DropIndex for the ALTER path: dropping an inline UNIQUE constraint plans `DROP INDEX` of an index SQLite created implicitly (sqlite_autoindex_…, renamed by normalizeIdxName), which the engine refuses — the apply fails and the database never reaches the desired schema")
}

// R03m: a regular expression built around an identifier quotes and delimits it.
const ruleTextDynRegex = "regular expressions built from an identifier: wherever regexp.Compile/MustCompile receives fmt.Sprintf(pattern, name…), every interpolated argument is passed through regexp.QuoteMeta, and in the pattern each %s is delimited on the right — after optional closing quote characters the next atom cannot match a word character (so the pattern for column `a` cannot match column `a1`, whose definition would otherwise be attributed to `a`)"

func checkDynRegex(c *Ctx, rule string) {
	n := 0
	c.AllFuncs(false, func(fi *FuncInfo) {
		if !strings.HasPrefix(fi.Pkg.PkgPath, modRoot) {
			return
		}
		info := fi.Info()
		ast.Inspect(fi.Decl.Body, func(m ast.Node) bool {
			call, ok := m.(*ast.CallExpr)
			if !ok || len(call.Args) != 1 {
				return true
			}
			fn := calleeOf(info, call)
			if fn == nil || fn.Pkg() == nil || fn.Pkg().Path() != "regexp" || (fn.Name() != "Compile" && fn.Name() != "MustCompile") {
				return true
			}
			sp, ok := ast.Unparen(call.Args[0]).(*ast.CallExpr)
			if !ok || !funcIs(calleeOf(info, sp), "fmt", "", "Sprintf") || len(sp.Args) < 2 {
				return true
			}
			pat, ok := stringConst(info, sp.Args[0])
			if !ok {
				c.Unresolved(rule, fi.Name+": non-constant pattern of a dynamic regular expression")
				return true
			}
			n++
			c.funcs[fi.Name] = true
			bad := ""
			for _, a := range sp.Args[1:] {
				q, ok := ast.Unparen(a).(*ast.CallExpr)
				if !ok || !funcIs(calleeOf(info, q), "regexp", "", "QuoteMeta") {
					bad = "argument " + types.ExprString(a) + " is interpolated without regexp.QuoteMeta"
				}
			}
			if bad == "" {
				bad = rightDelimited(pat)
			}
			c.Check(rule, fi.Name+"|identifier quoted and delimited", call.Pos(), bad == "", "%s builds a regular expression around an identifier, but %s: the pattern also matches longer identifiers (or is corrupted by metacharacters in the name), so the text found belongs to another object", fi.Name, bad)
			return true
		})
	})
	if n == 0 {
		c.Note("%s: no regular expression is built from an identifier in the module (vacuous)", rule)
	}
}

// rightDelimited checks that each %s of the pattern is followed — after an optional
// group close and optional quote-character classes — by an atom that cannot match
// a word character and must match at least once. Returns "" when it holds.
func rightDelimited(pat string) string {
	const ph = "ZZIDENTZZ"
	if !strings.Contains(pat, "%s") {
		return "the pattern has no %s verb"
	}
	re, err := syntax.Parse(strings.ReplaceAll(pat, "%s", ph), syntax.Perl)
	if err != nil {
		return "the pattern does not parse: " + err.Error()
	}
	// flatten into a sequence of atoms in match order (concatenations and captures opened up)
	var seq []*syntax.Regexp
	var flat func(r *syntax.Regexp)
	flat = func(r *syntax.Regexp) {
		switch r.Op {
		case syntax.OpConcat:
			for _, s := range r.Sub {
				flat(s)
			}
		case syntax.OpCapture:
			flat(r.Sub[0])
		default:
			seq = append(seq, r)
		}
	}
	flat(re)
	wordish := func(r rune) bool {
		return r == '_' || (r >= '0' && r <= '9') || (r >= 'a' && r <= 'z') || (r >= 'A' && r <= 'Z')
	}
	classHasWord := func(r *syntax.Regexp) bool {
		for i := 0; i+1 < len(r.Rune); i += 2 {
			for _, w := range []rune{'_', '0', '9', 'a', 'z', 'A', 'Z'} {
				if r.Rune[i] <= w && w <= r.Rune[i+1] {
					return true
				}
			}
		}
		return false
	}
	quoteOnly := func(r *syntax.Regexp) bool {
		// ["`]* / ["`]? : optional run of quote characters
		if (r.Op == syntax.OpStar || r.Op == syntax.OpQuest) && len(r.Sub) == 1 {
			s := r.Sub[0]
			switch s.Op {
			case syntax.OpCharClass:
				return !classHasWord(s)
			case syntax.OpLiteral:
				for _, x := range s.Rune {
					if wordish(x) {
						return false
					}
				}
				return true
			}
		}
		return false
	}
	found := false
	for i, r := range seq {
		if r.Op != syntax.OpLiteral || !strings.Contains(string(r.Rune), ph) {
			continue
		}
		found = true
		// characters of the same literal after the placeholder
		rest := string(r.Rune)[strings.Index(string(r.Rune), ph)+len(ph):]
		if rest != "" {
			if wordish([]rune(rest)[0]) {
				return "the identifier is followed by a word character in the pattern"
			}
			continue
		}
		j := i + 1
		for j < len(seq) && quoteOnly(seq[j]) {
			j++
		}
		if j >= len(seq) {
			return "nothing delimits the identifier on the right"
		}
		nx := seq[j]
		switch nx.Op {
		case syntax.OpCharClass:
			if classHasWord(nx) {
				return "the atom after the identifier (" + nx.String() + ") can match a word character"
			}
		case syntax.OpLiteral:
			if wordish(nx.Rune[0]) {
				return "the atom after the identifier (" + nx.String() + ") is a word character"
			}
		case syntax.OpPlus:
			if s := nx.Sub[0]; s.Op != syntax.OpCharClass || classHasWord(s) {
				return "the atom after the identifier (" + nx.String() + ") can match a word character"
			}
		case syntax.OpEndText, syntax.OpEndLine, syntax.OpWordBoundary:
		default:
			return "the atom after the identifier (" + nx.String() + ") may match nothing or a word character, so a longer identifier matches too"
		}
	}
	if !found {
		return "the interpolated identifier was not found in the parsed pattern"
	}
	return ""
}

// R03n: LIKE patterns of the inspection queries treat '_' literally.
const ruleTextLikeEscape = "LIKE patterns in the SQLite inspector's queries: in every string constant of sql/sqlite, a LIKE pattern literal that contains '_' (a single-character wildcard) escapes it and the predicate carries an ESCAPE clause naming that escape character; otherwise `NOT LIKE 'sqlite_%'` also hides user tables such as `sqlitecache`, which then appear in neither export"

var reLike = regexp.MustCompile(`(?i)\bLIKE\s+'([^']*)'(?:\s+ESCAPE\s+'([^'])')?`)

func checkLikeEscape(c *Ctx, rule string) {
	p := c.Pkg(pSqlite)
	n := 0
	for _, f := range p.Syntax {
		if strings.HasSuffix(c.Fset.Position(f.Pos()).Filename, "_test.go") {
			continue
		}
		ast.Inspect(f, func(m ast.Node) bool {
			lit, ok := m.(*ast.BasicLit)
			if !ok || lit.Kind != token.STRING {
				return true
			}
			s, ok := stringConst(p.TypesInfo, lit)
			if !ok {
				return true
			}
			for _, mt := range reLike.FindAllStringSubmatch(s, -1) {
				pat, esc := mt[1], mt[2]
				n++
				bad := false
				for i := 0; i < len(pat); i++ {
					if esc != "" && string(pat[i]) == esc {
						i++ // escaped character
						continue
					}
					if pat[i] == '_' {
						bad = true
					}
				}
				c.Check(rule, "sqlite|LIKE '"+pat+"'", lit.Pos(), !bad, "the LIKE pattern '%s' contains an unescaped '_' (any single character): names that merely start with the same letters are matched too, so user tables are silently left out of the inspection", pat)
			}
			return true
		})
	}
	if n == 0 {
		c.Note("%s: no LIKE pattern in the string constants of sql/sqlite (vacuous)", rule)
	}
}

// R03o: the reader's AUTOINCREMENT pattern accepts every clause shape the writer emits.
const ruleTextAutoincShapes = "writer/reader agreement for AUTOINCREMENT: every token sequence the SQLite planner's column writer can emit on a CFG path that ends with its `… AUTOINCREMENT` write (identifier, type, NULL/NOT NULL, optional DEFAULT, PRIMARY KEY AUTOINCREMENT — enumerated from the Builder calls of (*state).column) is matched by the inspector's reAutoinc pattern (a constant of the source); otherwise a table created by Atlas is read back without its AUTOINCREMENT and both exports lose it"

func checkAutoincShapes(c *Ctx, rule string) {
	w := c.Func(rule, pSqlite, "state", "column")
	if w == nil {
		return
	}
	// the reader pattern: package-level var reAutoinc = regexp.MustCompile(<const>)
	var pattern string
	p := c.Pkg(pSqlite)
	for _, f := range p.Syntax {
		ast.Inspect(f, func(m ast.Node) bool {
			vs, ok := m.(*ast.ValueSpec)
			if !ok {
				return true
			}
			for i, nm := range vs.Names {
				if nm.Name != "reAutoinc" || i >= len(vs.Values) {
					continue
				}
				if call, ok := vs.Values[i].(*ast.CallExpr); ok && len(call.Args) == 1 {
					if s, ok := stringConst(p.TypesInfo, call.Args[0]); ok {
						pattern = s
					}
				}
			}
			return true
		})
	}
	if pattern == "" {
		c.Unresolved(rule, "var reAutoinc (constant pattern)")
		return
	}
	re, err := regexp.Compile(pattern)
	if err != nil {
		c.Unresolved(rule, "reAutoinc does not compile: "+err.Error())
		return
	}
	// alternatives of token sequences written along the CFG paths of fn (helpers that are handed
	// the builder are expanded); final marks a sequence that ends with the AUTOINCREMENT write
	type alt struct {
		toks  []string
		final bool
	}
	var shapes []string
	seenShape := map[string]bool{}
	var enumerate func(fi *FuncInfo, depth int) []alt
	enumerate = func(fi *FuncInfo, depth int) []alt {
		info := fi.Info()
		fl := newFlow(info, fi.Decl.Body)
		// tokens of one node: list of alternatives
		nodeAlts := func(n ast.Node) []alt {
			var calls []*ast.CallExpr
			ast.Inspect(n, func(m ast.Node) bool {
				if _, ok := m.(*ast.FuncLit); ok {
					return false
				}
				if call, ok := m.(*ast.CallExpr); ok {
					fn := calleeOf(info, call)
					if fn == nil {
						return true
					}
					if recvTypeName(fn) == "Builder" {
						calls = append(calls, call)
					} else if fn.Pkg() != nil && fn.Pkg().Path() == pSqlite && depth < 2 {
						for _, a := range call.Args {
							if nt := namedOf(derefType(info.TypeOf(a))); nt != nil && nt.Obj().Name() == "Builder" {
								calls = append(calls, call)
								break
							}
						}
					}
				}
				return true
			})
			alts := []alt{{}}
			// ast.Inspect visits the outermost call of a chain first: reverse for evaluation order
			for i := len(calls) - 1; i >= 0; i-- {
				call := calls[i]
				fn := calleeOf(info, call)
				var step []alt
				switch {
				case recvTypeName(fn) == "Builder" && fn.Name() == "Ident":
					step = []alt{{toks: []string{"`c`"}}}
				case recvTypeName(fn) == "Builder" && fn.Name() == "P":
					var toks []string
					final := false
					for _, a := range call.Args {
						if s, ok := stringConst(info, a); ok {
							toks = append(toks, s)
							if strings.Contains(strings.ToUpper(s), "AUTOINCREMENT") {
								final = true
							}
							continue
						}
						// the formatted type of an AUTOINCREMENT column is integer; anything else is a value
						if id, ok := ast.Unparen(a).(*ast.Ident); ok && id.Name == "t" {
							toks = append(toks, "integer")
						} else {
							toks = append(toks, "1")
						}
					}
					step = []alt{{toks: toks, final: final}}
				case recvTypeName(fn) != "Builder":
					if g := c.FuncInfoOf(fn); g != nil && g.Decl.Body != nil {
						step = enumerate(g, depth+1)
					}
				}
				if len(step) == 0 {
					continue
				}
				var nextAlts []alt
				for _, a := range alts {
					if a.final {
						nextAlts = append(nextAlts, a)
						continue
					}
					for _, st := range step {
						nextAlts = append(nextAlts, alt{toks: append(append([]string(nil), a.toks...), st.toks...), final: st.final})
					}
				}
				alts = nextAlts
				if len(alts) > 64 {
					alts = alts[:64]
				}
			}
			return alts
		}
		var out []alt
		var walk func(b *cfg.Block, cur alt, onPath map[*cfg.Block]bool)
		walk = func(b *cfg.Block, cur alt, onPath map[*cfg.Block]bool) {
			if onPath[b] || len(out) > 128 {
				return
			}
			onPath[b] = true
			defer delete(onPath, b)
			curs := []alt{cur}
			for _, n := range b.Nodes {
				var nextCurs []alt
				for _, cu := range curs {
					for _, a := range nodeAlts(n) {
						na := alt{toks: append(append([]string(nil), cu.toks...), a.toks...), final: a.final}
						if na.final {
							out = append(out, na)
						} else {
							nextCurs = append(nextCurs, na)
						}
					}
				}
				curs = nextCurs
				if len(curs) == 0 {
					return
				}
				if isReturn(n) {
					out = append(out, curs...)
					return
				}
			}
			if len(b.Succs) == 0 {
				out = append(out, curs...)
				return
			}
			for _, s := range b.Succs {
				for _, cu := range curs {
					walk(s, cu, onPath)
				}
			}
		}
		walk(fl.G.Blocks[0], alt{}, map[*cfg.Block]bool{})
		return out
	}
	for _, a := range enumerate(w, 0) {
		if !a.final {
			continue
		}
		s := strings.Join(a.toks, " ")
		if !seenShape[s] {
			seenShape[s] = true
			shapes = append(shapes, s)
		}
	}
	if len(shapes) < 2 {
		c.Unresolved(rule, "clause shapes of (*state).column ending in AUTOINCREMENT (fewer than 2 paths found)")
		return
	}
	c.funcs[w.Name] = true
	sort.Strings(shapes)
	for _, s := range shapes {
		doc := "CREATE TABLE `t` (" + s + ", `x` int NULL)"
		c.Check(rule, "sqlite.reAutoinc accepts |"+s, w.Decl.Pos(), re.MatchString(doc), "the inspector's reAutoinc pattern does not match the column clause %q that sqlite.(state).column emits: a table created by Atlas with that clause is inspected without AUTOINCREMENT, so the HCL and SQL exports describe a different table", s)
	}
}

// R03p: independent spec attributes are applied independently.
const ruleTextExclusiveArms = "independent attributes are applied independently: in the spec→schema converters (convert* functions of the dialects' sqlspec files) the arms of one tagless switch or if/else-if chain are not decided by values read from different attribute keys while each arm adds an attribute to the object; with such a chain only the first matching key is applied, and a resource carrying both (e.g. WITHOUT ROWID and STRICT) loses the other on evaluation"

func checkExclusiveArms(c *Ctx, rule string) {
	n := 0
	for _, pp := range []string{pSqlite, pMysql, pPostgres} {
		c.AllFuncs(false, func(fi *FuncInfo) {
			if fi.Pkg.PkgPath != pp || !strings.HasPrefix(fi.Decl.Name.Name, "convert") {
				return
			}
			base := c.Fset.Position(fi.Decl.Pos()).Filename
			base = base[strings.LastIndex(base, "/")+1:]
			if !strings.HasPrefix(base, "sqlspec") {
				return
			}
			info := fi.Info()
			// variable -> attribute keys its value was read from
			keys := map[types.Object]map[string]bool{}
			add := func(o types.Object, ks map[string]bool) bool {
				if o == nil || len(ks) == 0 {
					return false
				}
				ch := false
				if keys[o] == nil {
					keys[o] = map[string]bool{}
				}
				for k := range ks {
					if !keys[o][k] {
						keys[o][k] = true
						ch = true
					}
				}
				return ch
			}
			var keysOf func(e ast.Expr) map[string]bool
			keysOf = func(e ast.Expr) map[string]bool {
				out := map[string]bool{}
				ast.Inspect(e, func(m ast.Node) bool {
					switch x := m.(type) {
					case *ast.FuncLit:
						return false
					case *ast.Ident:
						for k := range keys[info.ObjectOf(x)] {
							out[k] = true
						}
					case *ast.CallExpr:
						fn := calleeOf(info, x)
						if fn == nil {
							return true
						}
						// spec.Attr("k") or a package-local helper handed a constant key
						isAttr := fn.Name() == "Attr" && fn.Pkg() != nil && fn.Pkg().Path() == pHCL
						local := fn.Pkg() != nil && fn.Pkg().Path() == fi.Pkg.PkgPath
						if isAttr || local {
							for _, a := range x.Args {
								if s, ok := stringConst(info, a); ok && s != "" {
									out[s] = true
								}
							}
						}
					}
					return true
				})
				return out
			}
			for changed := true; changed; {
				changed = false
				ast.Inspect(fi.Decl.Body, func(m ast.Node) bool {
					as, ok := m.(*ast.AssignStmt)
					if !ok {
						return true
					}
					if len(as.Rhs) == 1 {
						ks := keysOf(as.Rhs[0])
						for _, l := range as.Lhs {
							if id, ok := l.(*ast.Ident); ok && id.Name != "_" && id.Name != "err" {
								if add(info.ObjectOf(id), ks) {
									changed = true
								}
							}
						}
					}
					return true
				})
			}
			addsAttr := func(stmts []ast.Stmt) bool {
				hit := false
				for _, st := range stmts {
					ast.Inspect(st, func(m ast.Node) bool {
						call, ok := m.(*ast.CallExpr)
						if !ok {
							return true
						}
						if fn := calleeOf(info, call); fn != nil && (fn.Name() == "AddAttrs" || fn.Name() == "SetComment" || fn.Name() == "SetCharset" || fn.Name() == "SetCollation") {
							hit = true
						}
						if builtinName(info, call) == "append" && len(call.Args) > 0 && strings.HasSuffix(types.ExprString(call.Args[0]), ".Attrs") {
							hit = true
						}
						return true
					})
				}
				return hit
			}
			type arm struct {
				cond ast.Expr
				body []ast.Stmt
			}
			judge := func(arms []arm, pos token.Pos, what string) {
				if len(arms) < 2 {
					return
				}
				n++
				c.funcs[fi.Name] = true
				bad := ""
				for i := 0; i < len(arms) && bad == ""; i++ {
					for j := i + 1; j < len(arms) && bad == ""; j++ {
						if arms[i].cond == nil || arms[j].cond == nil || !addsAttr(arms[i].body) || !addsAttr(arms[j].body) {
							continue
						}
						ki, kj := keysOf(arms[i].cond), keysOf(arms[j].cond)
						if len(ki) == 0 || len(kj) == 0 {
							continue
						}
						disjoint := true
						for k := range ki {
							if kj[k] {
								disjoint = false
							}
						}
						if disjoint {
							bad = "`" + types.ExprString(arms[i].cond) + "` and `" + types.ExprString(arms[j].cond) + "`"
						}
					}
				}
				c.Check(rule, fi.Name+"|"+what, pos, bad == "", "%s applies attributes read from different keys in mutually exclusive arms (%s): when both keys are set only the first is applied and the other attribute is lost when the HCL is evaluated", fi.Name, bad)
			}
			k := 0
			ast.Inspect(fi.Decl.Body, func(m ast.Node) bool {
				switch x := m.(type) {
				case *ast.SwitchStmt:
					if x.Tag != nil {
						return true
					}
					var arms []arm
					for _, cl := range x.Body.List {
						cc := cl.(*ast.CaseClause)
						if len(cc.List) == 1 {
							arms = append(arms, arm{cc.List[0], cc.Body})
						}
					}
					k++
					judge(arms, x.Pos(), fmt.Sprintf("switch %d", k))
				case *ast.IfStmt:
					if _, isElseOf := x.Else.(*ast.IfStmt); !isElseOf {
						return true
					}
					var arms []arm
					for cur := x; cur != nil; {
						arms = append(arms, arm{cur.Cond, cur.Body.List})
						next, _ := cur.Else.(*ast.IfStmt)
						cur = next
					}
					k++
					judge(arms, x.Pos(), fmt.Sprintf("if-chain %d", k))
				}
				return true
			})
		})
	}
	if n == 0 {
		c.Note("%s: no tagless switch or if/else-if chain in the converters (vacuous)", rule)
	}
}

// R04j: a change is skipped as implied only by a dropped column of its own table.
const ruleTextOwnDroppedColumns = "skipAutoChanges (MySQL, PostgreSQL): the set of dropped column names belongs to the table being modified, so only columns of that same table (Index.Parts[i].C, ForeignKey.Columns) are looked up in it; a lookup with a column of another table (anything reached through ForeignKey.RefColumns / RefTable) can match by name alone and withhold a DropForeignKey that the engine does not perform implicitly — the referenced table is then dropped while the constraint still exists"

func checkOwnDroppedColumns(c *Ctx, rule string) {
	n := 0
	for _, pp := range []string{pMysql, pPostgres} {
		fi := c.LookupFunc(pp, "", "skipAutoChanges")
		if fi == nil || fi.Decl.Body == nil {
			continue
		}
		info := fi.Info()
		// maps of dropped column names: map[string]bool locals indexed-assigned under a DropColumn assertion
		sets := map[types.Object]bool{}
		ast.Inspect(fi.Decl.Body, func(m ast.Node) bool {
			as, ok := m.(*ast.AssignStmt)
			if !ok || len(as.Lhs) != 1 {
				return true
			}
			ix, ok := as.Lhs[0].(*ast.IndexExpr)
			if !ok {
				return true
			}
			if id, ok := ast.Unparen(ix.X).(*ast.Ident); ok {
				if _, isMap := info.TypeOf(id).Underlying().(*types.Map); isMap {
					sets[info.ObjectOf(id)] = true
				}
			}
			return true
		})
		if len(sets) == 0 {
			c.Unresolved(rule, fi.Name+": set of dropped column names")
			continue
		}
		// variables that hold columns of another table
		foreign := map[types.Object]bool{}
		mentionsForeign := func(e ast.Expr) bool {
			hit := false
			ast.Inspect(e, func(m ast.Node) bool {
				switch x := m.(type) {
				case *ast.SelectorExpr:
					if x.Sel.Name == "RefColumns" || x.Sel.Name == "RefTable" {
						hit = true
					}
				case *ast.Ident:
					if foreign[info.ObjectOf(x)] {
						hit = true
					}
				}
				return !hit
			})
			return hit
		}
		for changed := true; changed; {
			changed = false
			ast.Inspect(fi.Decl.Body, func(m ast.Node) bool {
				switch x := m.(type) {
				case *ast.RangeStmt:
					if mentionsForeign(x.X) {
						for _, v := range []ast.Expr{x.Key, x.Value} {
							if id, ok := v.(*ast.Ident); ok && id.Name != "_" && !foreign[info.ObjectOf(id)] {
								foreign[info.ObjectOf(id)] = true
								changed = true
							}
						}
					}
				case *ast.AssignStmt:
					if len(x.Lhs) == len(x.Rhs) {
						for i, l := range x.Lhs {
							if id, ok := l.(*ast.Ident); ok && mentionsForeign(x.Rhs[i]) && !foreign[info.ObjectOf(id)] {
								foreign[info.ObjectOf(id)] = true
								changed = true
							}
						}
					}
				}
				return true
			})
		}
		k := 0
		// the set handed to a package-local predicate together with a column / part list
		ast.Inspect(fi.Decl.Body, func(m ast.Node) bool {
			call, ok := m.(*ast.CallExpr)
			if !ok {
				return true
			}
			fn := calleeOf(info, call)
			if fn == nil || fn.Pkg() == nil || fn.Pkg().Path() != pp {
				return true
			}
			var setArg *ast.Ident
			for _, a := range call.Args {
				if id, ok := ast.Unparen(a).(*ast.Ident); ok && sets[info.ObjectOf(id)] {
					setArg = id
				}
			}
			if setArg == nil {
				return true
			}
			for _, a := range call.Args {
				if a == ast.Expr(setArg) {
					continue
				}
				if _, isSlice := info.TypeOf(a).Underlying().(*types.Slice); !isSlice {
					continue
				}
				k++
				n++
				c.funcs[fi.Name] = true
				c.Check(rule, fmt.Sprintf("%s|lookup %d in %s", fi.Name, k, setArg.Name), call.Pos(), !mentionsForeign(a), "%s looks up %s, columns of another table, in the set of columns dropped from the table being modified: a name coincidence withholds the DROP CONSTRAINT of a foreign key whose own columns stay, and the referenced table is dropped while the key still points at it", fi.Name, types.ExprString(a))
			}
			return true
		})
		ast.Inspect(fi.Decl.Body, func(m ast.Node) bool {
			ix, ok := m.(*ast.IndexExpr)
			if !ok {
				return true
			}
			id, ok := ast.Unparen(ix.X).(*ast.Ident)
			if !ok || !sets[info.ObjectOf(id)] {
				return true
			}
			// skip the population site (assignment target)
			k++
			n++
			c.funcs[fi.Name] = true
			c.Check(rule, fmt.Sprintf("%s|lookup %d in %s", fi.Name, k, id.Name), ix.Pos(), !mentionsForeign(ix.Index), "%s looks up %s, a column of another table, in the set of columns dropped from the table being modified: a name coincidence withholds the DROP CONSTRAINT of a foreign key whose own columns stay, and the referenced table is dropped while the key still points at it", fi.Name, types.ExprString(ix.Index))
			return true
		})
	}
	if n < 3 {
		c.Unresolved(rule, "lookups in the dropped-column sets of skipAutoChanges (fewer than 3)")
	}
}

// R04k: sorting by a coarse key is stable.
const ruleTextStableCoarseSort = "order-preserving sorts: in the planners, a sort whose comparator compares only the results of a classification function (the same module-local function returning an integer applied to both elements, e.g. priority(x)) is a stable sort (sort.SliceStable / sort.Stable / slices.SortStableFunc): elements of equal class must keep the dependency order computed before (the TiDB planner has no later SortChanges pass)"

func checkStableCoarseSort(c *Ctx, rule string) {
	n := 0
	for _, pp := range []string{pSqlx, pMysql, pPostgres, pSqlite} {
		c.AllFuncs(false, func(fi *FuncInfo) {
			if fi.Pkg.PkgPath != pp {
				return
			}
			info := fi.Info()
			ast.Inspect(fi.Decl.Body, func(m ast.Node) bool {
				call, ok := m.(*ast.CallExpr)
				if !ok {
					return true
				}
				fn := calleeOf(info, call)
				if fn == nil || fn.Pkg() == nil || (fn.Pkg().Path() != "sort" && fn.Pkg().Path() != "slices") {
					return true
				}
				var stable bool
				switch fn.Name() {
				case "SliceStable", "Stable", "SortStableFunc":
					stable = true
				case "Slice", "Sort", "SortFunc":
				default:
					return true
				}
				var cmpBody ast.Node
				for _, a := range call.Args {
					if fl, ok := a.(*ast.FuncLit); ok {
						cmpBody = fl.Body
					}
				}
				if cmpBody == nil && (fn.Name() == "Stable" || fn.Name() == "Sort") && len(call.Args) == 1 {
					// sort.Interface on a named type: the comparator is its Less method
					if nt := namedOf(info.TypeOf(call.Args[0])); nt != nil {
						for i := 0; i < nt.NumMethods(); i++ {
							if m := nt.Method(i); m.Name() == "Less" {
								if g := c.FuncInfoOf(m); g != nil && g.Decl.Body != nil && g.Pkg == fi.Pkg {
									cmpBody = g.Decl.Body
								}
							}
						}
					}
				}
				if cmpBody == nil {
					return true
				}
				// the classification calls in the comparator
				var cls []*types.Func
				other := false
				ast.Inspect(cmpBody, func(k ast.Node) bool {
					switch x := k.(type) {
					case *ast.CallExpr:
						g := calleeOf(info, x)
						if g != nil && g.Pkg() != nil && strings.HasPrefix(g.Pkg().Path(), modRoot) {
							if b, ok := g.Type().(*types.Signature).Results().At(0).Type().Underlying().(*types.Basic); ok && b.Info()&types.IsInteger != 0 {
								cls = append(cls, g)
								return false
							}
						}
					case *ast.SelectorExpr:
						if _, isField := info.Selections[x]; isField {
							other = true // compares a field (a name): not a pure class comparison
						}
					}
					return true
				})
				if len(cls) != 2 || cls[0] != cls[1] || other {
					return true
				}
				n++
				c.funcs[fi.Name] = true
				c.Check(rule, fi.Name+"|sort by "+cls[0].Name()+" is stable", call.Pos(), stable, "%s sorts by %s(...) alone with %s.%s, which does not keep the order of elements of equal class: the dependency order established before the sort (tables created before the tables that reference them) is lost", fi.Name, cls[0].Name(), fn.Pkg().Name(), fn.Name())
				return true
			})
		})
	}
	if n < 1 {
		c.Unresolved(rule, "sorts by a classification function in the planners (none found)")
	}
}

// R05i: every registration of the SQLite driver wires the FK-aware transaction opener.
const ruleTextTxOpenerRegistered = "registry completeness: every sqlclient.Register call of sql/sqlite (each URL scheme the driver answers to: sqlite, libsql, …) passes sqlclient.RegisterTxOpener(OpenTx); without it sqlclient falls back to a plain BeginTx, PRAGMA foreign_keys = off becomes a no-op inside the transaction, and the DROP TABLE of a rebuild fires the ON DELETE actions of the child tables"

func checkTxOpenerRegistered(c *Ctx, rule string) {
	p := c.Pkg(pSqlite)
	pClient := modRoot + "/sql/sqlclient"
	n := 0
	c.AllFuncs(false, func(fi *FuncInfo) {
		if fi.Pkg != p {
			return
		}
		info := fi.Info()
		ast.Inspect(fi.Decl.Body, func(m ast.Node) bool {
			call, ok := m.(*ast.CallExpr)
			if !ok || !funcIs(calleeOf(info, call), pClient, "", "Register") {
				return true
			}
			n++
			c.funcs[fi.Name] = true
			name := "?"
			if len(call.Args) > 0 {
				if s, ok := stringConst(info, call.Args[0]); ok {
					name = s
				} else {
					name = types.ExprString(call.Args[0])
				}
			}
			ok2 := false
			for _, a := range call.Args {
				opt, ok := ast.Unparen(a).(*ast.CallExpr)
				if !ok || !funcIs(calleeOf(info, opt), pClient, "", "RegisterTxOpener") || len(opt.Args) != 1 {
					continue
				}
				if id, ok := ast.Unparen(opt.Args[0]).(*ast.Ident); ok {
					if f, ok := info.ObjectOf(id).(*types.Func); ok && f.Pkg() == p.Types && f.Name() == "OpenTx" {
						ok2 = true
					}
				}
			}
			c.Check(rule, "sqlite|Register("+name+") wires OpenTx", call.Pos(), ok2, "the registration of the SQLite driver under %q does not pass sqlclient.RegisterTxOpener(OpenTx): transactions on such URLs are opened with a plain BeginTx while foreign keys are enforced, so the planned PRAGMA foreign_keys = off is ignored and a table rebuild cascades into the child tables", name)
			return true
		})
	})
	if n < 2 {
		c.Unresolved(rule, "sqlclient.Register calls in sql/sqlite (fewer than 2)")
	}
}

// R01q: every column attribute the writer consults is compared by the differ.
const ruleTextColumnAttrCoverage = "writer/differ agreement on column attributes (SQLite): every attribute type the planner's column writer consults with sqlx.Has(c.Attrs, &T{}) — each changes the emitted column clause — is also consulted (sqlx.Has on the attributes of both columns, directly or in a package-local helper) by the differ's ColumnChange; an attribute the differ never looks at can be added or removed in the desired schema without any change being planned"

func checkColumnAttrCoverage(c *Ctx, rule string) {
	w := c.Func(rule, pSqlite, "state", "column")
	d := c.Func(rule, pSqlite, "diff", "ColumnChange")
	if w == nil || d == nil {
		return
	}
	// attribute types consulted through sqlx.Has(<x>.Attrs, &T{}) in fn and its package-local callees
	collect := func(fi *FuncInfo) map[string]token.Pos {
		out := map[string]token.Pos{}
		seen := map[*types.Func]bool{}
		var visit func(f *FuncInfo, depth int)
		visit = func(f *FuncInfo, depth int) {
			if f == nil || f.Decl.Body == nil || seen[f.Obj] || depth > 2 {
				return
			}
			seen[f.Obj] = true
			info := f.Info()
			ast.Inspect(f.Decl.Body, func(m ast.Node) bool {
				call, ok := m.(*ast.CallExpr)
				if !ok {
					return true
				}
				fn := calleeOf(info, call)
				if fn == nil {
					return true
				}
				if funcIs(fn, pSqlx, "", "Has") && len(call.Args) == 2 && strings.HasSuffix(types.ExprString(call.Args[0]), ".Attrs") {
					if nt := namedOf(derefType(info.TypeOf(call.Args[1]))); nt != nil {
						if _, dup := out[nt.Obj().Name()]; !dup {
							out[nt.Obj().Name()] = call.Pos()
						}
					}
				}
				if fn.Pkg() != nil && fn.Pkg().Path() == pSqlite {
					visit(c.FuncInfoOf(fn), depth+1)
				}
				return true
			})
		}
		visit(fi, 0)
		return out
	}
	written, compared := collect(w), collect(d)
	if len(written) < 2 {
		c.Unresolved(rule, "attribute types consulted by sqlite.(state).column (fewer than 2)")
		return
	}
	c.funcs[w.Name], c.funcs[d.Name] = true, true
	var names []string
	for k := range written {
		names = append(names, k)
	}
	sort.Strings(names)
	for _, k := range names {
		_, ok := compared[k]
		c.Check(rule, "sqlite|column writer consults "+k+" ⇒ ColumnChange compares it", written[k], ok, "sqlite.(state).column emits a different column clause depending on the %s attribute, but sqlite.(diff).ColumnChange (and its helpers) never consults it: adding or removing it in the desired schema plans nothing and the database never converges to it", k)
	}
}

// R08h: positions are reported in the coordinates of the caller's text.
const ruleTextCallerText = "the scanned text is the caller's text: Scanner.Scan hands its own string parameter to Scanner.init, and no function of the migrate package that passes a string parameter to Scanner.init / Scanner.Scan assigns to that parameter first (no normalising rewrite such as ReplaceAll on the way in): every Stmt.Pos and Stmt.Text is later used to index the original file bytes, so a rewritten copy shifts all positions after the first rewritten byte"

func checkCallerText(c *Ctx, rule string) {
	n := 0
	scanSeen := false
	c.AllFuncs(false, func(fi *FuncInfo) {
		if fi.Pkg.PkgPath != pMigrate {
			return
		}
		info := fi.Info()
		params := map[types.Object]bool{}
		for _, fld := range fi.Decl.Type.Params.List {
			for _, nm := range fld.Names {
				if b, ok := info.TypeOf(fld.Type).Underlying().(*types.Basic); ok && b.Kind() == types.String {
					params[info.ObjectOf(nm)] = true
				}
			}
		}
		isScanEntry := recvName(fi.Decl) == "Scanner" && fi.Decl.Name.Name == "Scan"
		ast.Inspect(fi.Decl.Body, func(m ast.Node) bool {
			call, ok := m.(*ast.CallExpr)
			if !ok || len(call.Args) != 1 {
				return true
			}
			fn := calleeOf(info, call)
			if fn == nil || recvTypeName(fn) != "Scanner" || (fn.Name() != "init" && fn.Name() != "Scan") {
				return true
			}
			id, isID := ast.Unparen(call.Args[0]).(*ast.Ident)
			if !isID || !params[info.ObjectOf(id)] {
				if isScanEntry && fn.Name() == "init" {
					n++
					scanSeen = true
					c.Check(rule, fi.Name+"|init receives the parameter", call.Pos(), false, "%s initialises the scanner with %s instead of its own input parameter: positions are reported relative to a different text than the caller's", fi.Name, types.ExprString(call.Args[0]))
				}
				return true
			}
			obj := info.ObjectOf(id)
			var bad ast.Node
			ast.Inspect(fi.Decl.Body, func(k ast.Node) bool {
				as, ok := k.(*ast.AssignStmt)
				if !ok || bad != nil {
					return bad == nil
				}
				for _, l := range as.Lhs {
					if lid, ok := l.(*ast.Ident); ok && info.ObjectOf(lid) == obj && as.Tok != token.DEFINE {
						bad = as
					}
				}
				return true
			})
			n++
			if isScanEntry {
				scanSeen = true
			}
			c.funcs[fi.Name] = true
			pos := call.Pos()
			if bad != nil {
				pos = bad.Pos()
			}
			c.Check(rule, fi.Name+"|"+id.Name+" handed to "+fn.Name()+" unchanged", pos, bad == nil, "%s rewrites its %s parameter before handing it to the scanner: statement positions and texts then refer to the rewritten copy, while reports and the statement executor index the original file", fi.Name, id.Name)
			return true
		})
	})
	if !scanSeen {
		c.Unresolved(rule, "Scanner.Scan: call of Scanner.init")
	}
	_ = n
}

// R06j: the directory URL is completed from the project file before the legacy flag is folded into it.
const ruleTextConfigBeforeFormat = "sibling agreement of the migrate commands: in every PreRunE of cmd/atlas/internal/cmdapi that calls both migrateFlagsFromConfig and dirFormatBC, migrateFlagsFromConfig comes first on every path; dirFormatBC folds the directory format into the directory URL, and a format that comes from the project file (env.migration.format) only exists after the flags were loaded — otherwise `migrate hash --env` hashes a golang-migrate/flyway directory as plain *.sql files and writes a sum file that `migrate validate` rejects"

func checkConfigBeforeFormat(c *Ctx, rule string) {
	pp := modRoot + "/cmd/atlas/internal/cmdapi"
	n := 0
	c.AllFuncs(false, func(fi *FuncInfo) {
		if fi.Pkg.PkgPath != pp {
			return
		}
		info := fi.Info()
		ast.Inspect(fi.Decl.Body, func(m ast.Node) bool {
			lit, ok := m.(*ast.FuncLit)
			if !ok {
				return true
			}
			isCfg := func(fn *types.Func, _ *ast.CallExpr) bool { return fn.Name() == "migrateFlagsFromConfig" }
			isFmt := func(fn *types.Func, _ *ast.CallExpr) bool { return fn.Name() == "dirFormatBC" }
			has := func(p callPred) bool {
				for _, call := range callsIn(lit.Body, false) {
					if fn := calleeOf(info, call); fn != nil && p(fn, call) {
						return true
					}
				}
				return false
			}
			if !has(isCfg) || !has(isFmt) {
				return true
			}
			n++
			c.funcs[fi.Name] = true
			f := newFlow(info, lit.Body)
			w, ok2 := f.mustPrecede(f.callNode(isCfg), f.callNode(isFmt))
			c.Check(rule, fi.Name+"|config flags loaded before dirFormatBC", nodePos(w, lit.Pos()), ok2, "in %s the PreRunE folds --dir-format into the directory URL before the flags are completed from the project file: a directory format given only in the env block is ignored by this command", fi.Name)
			return false
		})
	})
	if n < 4 {
		c.Unresolved(rule, "PreRunE closures calling both migrateFlagsFromConfig and dirFormatBC (fewer than 4)")
	}
}

// R07j: the writer's "needs explicit delimiting" test is no narrower than "has a line break".
const ruleTextMultilineGuard = "writer/reader agreement for line-oriented formats: the template function that decides whether a statement is bracketed by the tool's begin/end pragmas (the condition around `StatementBegin` in the goose template) is true for every statement that contains a line break — its body returns strings.Contains (or an equivalent search) of the argument for a constant made of line-break bytes only; the reader ends a statement at any line that, after trimming, ends with the delimiter, so a narrower test (e.g. \";\\n\") leaves statements unbracketed that the reader will split"

func checkMultilineGuard(c *Ctx, rule string) {
	pp := modRoot + "/sql/sqltool"
	p := c.Pkg(pp)
	// 1. condition functions used in an {{ if F .Cmd }} whose body mentions StatementBegin
	conds := map[string]bool{}
	for _, f := range p.Syntax {
		ast.Inspect(f, func(m ast.Node) bool {
			lit, ok := m.(*ast.BasicLit)
			if !ok || lit.Kind != token.STRING {
				return true
			}
			s, ok := stringConst(p.TypesInfo, lit)
			if !ok || !strings.Contains(s, "StatementBegin") || !strings.Contains(s, "{{") {
				return true
			}
			for _, m := range regexp.MustCompile(`\{\{-?\s*if\s+(\w+)\s+[.$]`).FindAllStringSubmatch(s, -1) {
				conds[m[1]] = true
			}
			return true
		})
	}
	if len(conds) == 0 {
		c.Unresolved(rule, "condition function around StatementBegin in the goose template")
		return
	}
	// 2. their definitions in the FuncMap literals
	n := 0
	for _, f := range p.Syntax {
		ast.Inspect(f, func(m ast.Node) bool {
			kv, ok := m.(*ast.KeyValueExpr)
			if !ok {
				return true
			}
			k, ok := stringConst(p.TypesInfo, kv.Key)
			if !ok || !conds[k] {
				return true
			}
			var body *ast.BlockStmt
			var params *ast.FieldList
			switch v := kv.Value.(type) {
			case *ast.FuncLit:
				body, params = v.Body, v.Type.Params
			case *ast.Ident:
				if fn, ok := p.TypesInfo.ObjectOf(v).(*types.Func); ok {
					if fi := c.FuncInfoOf(fn); fi != nil {
						body, params = fi.Decl.Body, fi.Decl.Type.Params
					}
				}
			}
			if body == nil || params == nil || params.NumFields() != 1 {
				c.Unresolved(rule, "definition of template function "+k)
				return true
			}
			n++
			info := p.TypesInfo
			param := info.ObjectOf(params.List[0].Names[0])
			good := false
			what := "its body is not a single search of the argument for a line break"
			if len(body.List) == 1 {
				if ret, ok := body.List[0].(*ast.ReturnStmt); ok && len(ret.Results) == 1 {
					e := ast.Unparen(ret.Results[0])
					// strings.Index*(s, c) >= 0 / != -1
					if be, ok := e.(*ast.BinaryExpr); ok {
						e = ast.Unparen(be.X)
					}
					if call, ok := e.(*ast.CallExpr); ok && len(call.Args) == 2 {
						fn := calleeOf(info, call)
						id, isID := ast.Unparen(call.Args[0]).(*ast.Ident)
						if fn != nil && fn.Pkg() != nil && fn.Pkg().Path() == "strings" && (strings.HasPrefix(fn.Name(), "Contains") || strings.HasPrefix(fn.Name(), "Index")) && isID && info.ObjectOf(id) == param {
							if tv := info.Types[call.Args[1]]; tv.Value != nil {
								var cs string
								switch tv.Value.Kind() {
								case constant.String:
									cs = constant.StringVal(tv.Value)
								case constant.Int:
									if v, ok := constant.Int64Val(tv.Value); ok {
										cs = string(rune(v))
									}
								}
								good = cs != "" && strings.Trim(cs, "\r\n") == ""
								if fn.Name() == "ContainsAny" || fn.Name() == "IndexAny" {
									good = strings.Contains(cs, "\n")
								}
								what = fmt.Sprintf("it searches for %q", cs)
							}
						}
					}
				}
			}
			c.Check(rule, "sqltool|template func "+k+" is true for every multi-line statement", kv.Pos(), good, "the template function %q decides whether a statement is bracketed by the begin/end pragmas, but %s: a statement with a line break that fails this test is written unbracketed, and the line-oriented reader ends it at the first line that ends with the delimiter after trimming", k, what)
			return true
		})
	}
	if n == 0 {
		c.Unresolved(rule, "FuncMap entry of the condition function")
	}
}

// R07k: enum / set values reach SQL text only through an escaping function.
const ruleTextEnumValuesEscaped = "literal quoting of value lists: in the MySQL and PostgreSQL planners and type formatters, an element of EnumType.Values / SetType.Values is written into SQL text (Builder.WriteString/P, fmt.Sprintf, or concatenation with a quote character) only as the argument of a function that doubles embedded quotes (the dialect's quote(), sqlx.SingleQuote, or a strings.ReplaceAll of the quote character); wrapping the value in quotes alone lets a value such as it's close the literal early, and the statement scanner then splits or rejects the planned statement"

func checkEnumValuesEscaped(c *Ctx, rule string) {
	n := 0
	for _, pp := range []string{pMysql, pPostgres} {
		c.AllFuncs(false, func(fi *FuncInfo) {
			if fi.Pkg.PkgPath != pp {
				return
			}
			info := fi.Info()
			isValues := func(e ast.Expr) bool {
				se, ok := ast.Unparen(e).(*ast.SelectorExpr)
				if !ok || se.Sel.Name != "Values" {
					return false
				}
				nt := namedOf(derefType(info.TypeOf(se.X)))
				return nt != nil && (nt.Obj().Name() == "EnumType" || nt.Obj().Name() == "SetType")
			}
			// value variables: range values over .Values, and []string parameters handed .Values by a caller in the package
			vals := map[types.Object]bool{}
			slices := map[types.Object]bool{}
			for _, fld := range fi.Decl.Type.Params.List {
				for _, nm := range fld.Names {
					if sl, ok := info.TypeOf(fld.Type).Underlying().(*types.Slice); ok {
						if b, ok := sl.Elem().Underlying().(*types.Basic); ok && b.Kind() == types.String && paramReceivesValues(c, fi, info.ObjectOf(nm)) {
							slices[info.ObjectOf(nm)] = true
						}
					}
				}
			}
			isValSlice := func(e ast.Expr) bool {
				if isValues(e) {
					return true
				}
				id, ok := ast.Unparen(e).(*ast.Ident)
				return ok && slices[info.ObjectOf(id)]
			}
			for changed := true; changed; {
				changed = false
				ast.Inspect(fi.Decl.Body, func(m ast.Node) bool {
					switch x := m.(type) {
					case *ast.RangeStmt:
						if isValSlice(x.X) {
							if id, ok := x.Value.(*ast.Ident); ok && !vals[info.ObjectOf(id)] {
								vals[info.ObjectOf(id)] = true
								changed = true
							}
						}
					case *ast.AssignStmt:
						// values[i] = vs[i]: a slice that holds copies of the values
						if len(x.Lhs) == 1 && len(x.Rhs) == 1 {
							if ix, ok := ast.Unparen(x.Rhs[0]).(*ast.IndexExpr); ok && isValSlice(ix.X) {
								if lx, ok := ast.Unparen(x.Lhs[0]).(*ast.IndexExpr); ok {
									if id, ok := ast.Unparen(lx.X).(*ast.Ident); ok && !slices[info.ObjectOf(id)] {
										slices[info.ObjectOf(id)] = true
										changed = true
									}
								}
							}
						}
					}
					return true
				})
			}
			isVal := func(e ast.Expr) bool {
				switch x := ast.Unparen(e).(type) {
				case *ast.Ident:
					return vals[info.ObjectOf(x)]
				case *ast.IndexExpr:
					return isValSlice(x.X)
				}
				return false
			}
			pm := parentMap(fi.Decl.Body)
			k := 0
			ast.Inspect(fi.Decl.Body, func(m ast.Node) bool {
				e, ok := m.(ast.Expr)
				if !ok || !isVal(e) {
					return true
				}
				// classify the use
				verdict := "" // "", "escaped", "raw"
				child := ast.Node(e)
				for p := pm[e]; p != nil && verdict == ""; child, p = p, pm[p] {
					switch x := p.(type) {
					case *ast.CallExpr:
						fn := calleeOf(info, x)
						if fn == nil {
							continue
						}
						switch {
						case fn.Name() == "quote" || fn.Name() == "SingleQuote" || (fn.Pkg() != nil && fn.Pkg().Path() == "strings" && fn.Name() == "ReplaceAll"):
							verdict = "escaped"
						case onBuilder(info, x) && (fn.Name() == "WriteString" || fn.Name() == "P"), funcIs(fn, "fmt", "", "Sprintf"):
							verdict = "raw"
						}
					case *ast.BinaryExpr:
						if x.Op == token.ADD {
							for _, side := range []ast.Expr{x.X, x.Y} {
								if side != child {
									if s, ok := stringConst(info, side); ok && strings.ContainsAny(s, "'\"") {
										verdict = "raw"
									}
								}
							}
						}
					case *ast.AssignStmt:
						// the left-hand side of an assignment is not a use
						for _, l := range x.Lhs {
							if l == child {
								verdict = "lhs"
							}
						}
					case ast.Stmt:
						if verdict == "" {
							verdict = "other"
						}
					}
				}
				if verdict != "raw" && verdict != "escaped" {
					return true
				}
				k++
				n++
				c.funcs[fi.Name] = true
				c.Check(rule, fmt.Sprintf("%s|value use %d written through an escaping function", fi.Name, k), e.Pos(), verdict == "escaped", "%s writes the enum/set value %s into SQL text wrapped in quotes but without doubling the quotes it contains: a value such as it's ends the literal early, and the planned statement is split or rejected when the migration file is scanned", fi.Name, types.ExprString(e))
				return true
			})
		})
	}
	if n < 3 {
		c.Unresolved(rule, "writes of enum/set values into SQL text (fewer than 3)")
	}
}

// paramReceivesValues: some call site in the package passes X.Values (EnumType / SetType) for this parameter.
func paramReceivesValues(c *Ctx, fi *FuncInfo, param types.Object) bool {
	idx := -1
	k := 0
	for _, fld := range fi.Decl.Type.Params.List {
		for _, nm := range fld.Names {
			if fi.Info().ObjectOf(nm) == param {
				idx = k
			}
			k++
		}
	}
	if idx < 0 {
		return false
	}
	hit := false
	c.AllFuncs(false, func(g *FuncInfo) {
		if g.Pkg != fi.Pkg || hit {
			return
		}
		info := g.Info()
		for _, call := range callsIn(g.Decl.Body, true) {
			if calleeOf(info, call) != fi.Obj || idx >= len(call.Args) {
				continue
			}
			if se, ok := ast.Unparen(call.Args[idx]).(*ast.SelectorExpr); ok && se.Sel.Name == "Values" {
				if nt := namedOf(derefType(info.TypeOf(se.X))); nt != nil && (nt.Obj().Name() == "EnumType" || nt.Obj().Name() == "SetType") {
					hit = true
				}
			}
		}
	})
	return hit
}

// onBuilder: the call is a method call on a value of type (*)sqlx.Builder, also when the
// method is promoted from the embedded buffer (WriteString).
func onBuilder(info *types.Info, call *ast.CallExpr) bool {
	se, ok := call.Fun.(*ast.SelectorExpr)
	if !ok {
		return false
	}
	nt := namedOf(derefType(info.TypeOf(se.X)))
	return nt != nil && nt.Obj().Name() == "Builder" && nt.Obj().Pkg() != nil && nt.Obj().Pkg().Path() == pSqlx
}

// R09o: a fresh database starts from the LAST checkpoint.
const ruleTextLastCheckpoint = "FilesFromLastCheckpoint starts at the last checkpoint: the checkpoint it hands to FilesFromCheckpoint (or slices the listing at) is selected as the last element of the checkpoint list (X[len(X)-1], or the result of a backwards search), and the function contains no first-match search for a checkpoint (slices.IndexFunc / a forward loop that stops at the first IsCheckpoint); starting at an earlier checkpoint re-executes, after the later checkpoint, everything that checkpoint already contains"

func checkLastCheckpoint(c *Ctx, rule string) {
	fi := c.Func(rule, pMigrate, "", "FilesFromLastCheckpoint")
	if fi == nil {
		return
	}
	last, first := false, ""
	scopes := []*FuncInfo{fi}
	for _, call := range callsIn(fi.Decl.Body, true) {
		if fn := calleeOf(fi.Info(), call); fn != nil && fn.Pkg() != nil && fn.Pkg().Path() == pMigrate && fn != fi.Obj {
			if g := c.FuncInfoOf(fn); g != nil && g.Decl.Body != nil && g.Decl.Recv == nil {
				scopes = append(scopes, g)
			}
		}
	}
	for _, sc := range scopes {
		fi := sc
		info := fi.Info()
		ast.Inspect(fi.Decl.Body, func(m ast.Node) bool {
			switch x := m.(type) {
			case *ast.IndexExpr:
				if _, isSlice := info.TypeOf(x.X).Underlying().(*types.Slice); isSlice {
					if cn, k, ok := lenMinusConst(info, fi.Decl.Body, x.Index, types.ExprString(x.X), 0); ok {
						switch {
						case cn == 1 && k == -1:
							last = true
						case cn == 0:
							first = types.ExprString(x)
						}
					}
				}
			case *ast.CallExpr:
				fn := calleeOf(info, x)
				if fn != nil && fn.Pkg() != nil && fn.Pkg().Path() == "slices" && (fn.Name() == "IndexFunc" || fn.Name() == "Index") {
					first = types.ExprString(x.Fun) + "(…) returns the first match"
				}
				if fn != nil && strings.Contains(fn.Name(), "Last") && fn.Name() != "FilesFromLastCheckpoint" && len(scopes) == 1 {
					last = true
				}
			}
			return true
		})
	}
	c.funcs[fi.Name] = true
	c.Check(rule, "migrate.FilesFromLastCheckpoint|starts at the last checkpoint", fi.Decl.Pos(), last && first == "", "FilesFromLastCheckpoint does not select the last checkpoint (last-element selection found: %v; first-match selection: %q): with two checkpoints a fresh database replays the first checkpoint and the files after it and then the second checkpoint, which contains them again", last, first)
}

// enclosingFacts lists the atomic boolean facts known at n from the enclosing
// if statements, tagless switch cases (the case's own condition, and the
// negation of every earlier case) and short-circuit operators to its left.
func enclosingFacts(pm map[ast.Node]ast.Node, n ast.Node) []fact {
	var out []fact
	child := n
	for p := pm[n]; p != nil; child, p = p, pm[p] {
		switch x := p.(type) {
		case *ast.BinaryExpr:
			if x.Y.Pos() <= child.Pos() && child.End() <= x.Y.End() {
				switch x.Op {
				case token.LAND:
					out = append(out, impliedFacts(x.X, true)...)
				case token.LOR:
					out = append(out, impliedFacts(x.X, false)...)
				}
			}
		case *ast.IfStmt:
			switch {
			case x.Body.Pos() <= child.Pos() && child.End() <= x.Body.End():
				out = append(out, impliedFacts(x.Cond, true)...)
			case x.Else != nil && x.Else.Pos() <= child.Pos() && child.End() <= x.Else.End():
				out = append(out, impliedFacts(x.Cond, false)...)
			}
		case *ast.CaseClause:
			sw, ok := pm[pm[x]].(*ast.SwitchStmt)
			if !ok || sw.Tag != nil {
				continue
			}
			inBody := true
			for k, e := range x.List {
				if e.Pos() <= child.Pos() && child.End() <= e.End() {
					inBody = false
					for _, prev := range x.List[:k] {
						out = append(out, impliedFacts(prev, false)...)
					}
				}
			}
			for _, cl := range sw.Body.List {
				cc := cl.(*ast.CaseClause)
				if cc == x {
					break
				}
				for _, e := range cc.List {
					out = append(out, impliedFacts(e, false)...)
				}
			}
			if inBody && len(x.List) == 1 {
				out = append(out, impliedFacts(x.List[0], true)...)
			}
		case *ast.FuncLit, *ast.FuncDecl:
			return out
		}
	}
	return out
}

// R12g: the optional statement of an error log entry is dereferenced only when present.
const ruleTextOptionalStmt = "optional field discipline: sql/migrate logs errors that are not tied to a statement (the history-changed refusal, scan and checksum errors) as LogError values without Stmt, so in the log consumers (cmd/atlas/internal/cmdlog) every use of <LogError>.Stmt other than a nil comparison — passing it on, selecting a field — happens where `<that>.Stmt != nil` is known from an enclosing if / switch case; an unguarded use turns the clean refusal of a changed history into a nil-pointer panic"

func checkOptionalStmt(c *Ctx, rule string) {
	// producers: at least one LogError literal without Stmt
	producers := 0
	c.AllFuncs(false, func(fi *FuncInfo) {
		if fi.Pkg.PkgPath != pMigrate {
			return
		}
		info := fi.Info()
		ast.Inspect(fi.Decl.Body, func(m ast.Node) bool {
			cl, ok := m.(*ast.CompositeLit)
			if !ok || !typeIs(info.TypeOf(cl), pMigrate, "LogError") {
				return true
			}
			has := false
			for _, el := range cl.Elts {
				if kv, ok := el.(*ast.KeyValueExpr); ok {
					if id, ok := kv.Key.(*ast.Ident); ok && id.Name == "Stmt" {
						has = true
					}
				}
			}
			if !has {
				producers++
			}
			return true
		})
	})
	if producers == 0 {
		c.Note("%s: every LogError literal of sql/migrate carries a Stmt; the field is not optional on this tree (vacuous)", rule)
		return
	}
	n := 0
	pp := modRoot + "/cmd/atlas/internal/cmdlog"
	c.AllFuncs(false, func(fi *FuncInfo) {
		if fi.Pkg.PkgPath != pp {
			return
		}
		info := fi.Info()
		pm := parentMap(fi.Decl)
		k := 0
		ast.Inspect(fi.Decl.Body, func(m ast.Node) bool {
			se, ok := m.(*ast.SelectorExpr)
			if !ok || se.Sel.Name != "Stmt" || !typeIs(derefType(info.TypeOf(se.X)), pMigrate, "LogError") {
				return true
			}
			// a nil comparison is the guard itself
			if be, ok := pm[se].(*ast.BinaryExpr); ok && (be.Op == token.EQL || be.Op == token.NEQ) && (isNilIdent(info, be.X) || isNilIdent(info, be.Y)) {
				return true
			}
			k++
			n++
			c.funcs[fi.Name] = true
			txt := types.ExprString(se)
			guarded := false
			for _, f := range enclosingFacts(pm, se) {
				be, ok := ast.Unparen(f.expr).(*ast.BinaryExpr)
				if !ok {
					continue
				}
				var other ast.Expr
				switch {
				case isNilIdent(info, be.Y):
					other = be.X
				case isNilIdent(info, be.X):
					other = be.Y
				default:
					continue
				}
				if types.ExprString(ast.Unparen(other)) != txt {
					continue
				}
				if (be.Op == token.NEQ) == f.val {
					guarded = true
				}
			}
			c.Check(rule, fmt.Sprintf("%s|use %d of %s guarded by a nil test", fi.Name, k, txt), se.Pos(), guarded, "%s uses %s without knowing that it is not nil: the executor logs the refusal of a changed history (and other pre-execution errors) as a LogError without a statement, so this use panics instead of reporting the error", fi.Name, txt)
			return true
		})
	})
	if n == 0 {
		c.Unresolved(rule, "uses of LogError.Stmt in cmdlog")
	}
}

// R13g: foreign-key enforcement is switched back on whatever the outcome of the commit / rollback.
const ruleTextFKReenabled = "SQLite transaction epilogue: in the closures returned by sqlite.CommitFunc and sqlite.RollbackFunc every return is, or is preceded on every path by, a call of enableFK; enforcement was switched off before BEGIN, and a successful commit that leaves it off lets the following files (and a following `txmode none` file) run without foreign-key checks, so a violation that must fail and roll back the file is committed silently"

func checkFKReenabled(c *Ctx, rule string) {
	n := 0
	for _, name := range []string{"CommitFunc", "RollbackFunc"} {
		fi := c.Func(rule, pSqlite, "", name)
		if fi == nil {
			continue
		}
		info := fi.Info()
		// the function values it returns: literals, method values, named functions
		type body struct {
			info *types.Info
			blk  *ast.BlockStmt
			pos  token.Pos
		}
		var bodies []body
		ast.Inspect(fi.Decl.Body, func(m ast.Node) bool {
			ret, ok := m.(*ast.ReturnStmt)
			if !ok || len(ret.Results) == 0 {
				_, isLit := m.(*ast.FuncLit)
				return !isLit
			}
			switch r := ast.Unparen(ret.Results[0]).(type) {
			case *ast.FuncLit:
				bodies = append(bodies, body{info, r.Body, r.Pos()})
			case *ast.SelectorExpr, *ast.Ident:
				var obj types.Object
				if se, ok := r.(*ast.SelectorExpr); ok {
					obj = info.ObjectOf(se.Sel)
				} else {
					obj = info.ObjectOf(r.(*ast.Ident))
				}
				if fn, ok := obj.(*types.Func); ok {
					if g := c.FuncInfoOf(fn); g != nil && g.Decl.Body != nil {
						bodies = append(bodies, body{g.Info(), g.Decl.Body, g.Decl.Pos()})
					}
				}
			}
			return false
		})
		for _, b := range bodies {
			n++
			c.funcs[fi.Name] = true
			f := newFlow(b.info, b.blk)
			isEnable := f.callNode(c.viaHelpers(func(fn *types.Func, _ *ast.CallExpr) bool { return fn.Name() == "enableFK" }, 1))
			w, ok2 := f.mustPrecede(isEnable, isReturn)
			c.Check(rule, "sqlite."+name+"|every exit re-enables foreign keys", nodePos(w, b.pos), ok2, "the function returned by sqlite.%s can return at %s without calling enableFK: foreign-key enforcement stays off for the rest of the connection, so later files of the same run are not checked", name, c.nodeAt(w))
		}
	}
	if n < 2 {
		c.Unresolved(rule, "functions returned by sqlite CommitFunc / RollbackFunc (fewer than 2)")
	}
}

// R13h: two foreign-key violations are the same only if all their fields agree.
const ruleTextViolationIdentity = "identity of a foreign-key violation: wherever sql/sqlite decides whether two `violation` values are the same — a field-wise comparison of two values, or a key built from one value for a set/map — every field of the struct (table, row, referenced table, FK index) takes part; a coarser identity hides a new violation of the same row through another foreign key, and the file that introduced it is committed instead of rolled back"

func checkViolationIdentity(c *Ctx, rule string) {
	p := c.Pkg(pSqlite)
	tn, _ := p.Types.Scope().Lookup("violation").(*types.TypeName)
	if tn == nil {
		c.Unresolved(rule, "type sqlite.violation")
		return
	}
	st, ok := tn.Type().Underlying().(*types.Struct)
	if !ok {
		c.Unresolved(rule, "sqlite.violation is not a struct")
		return
	}
	var fields []string
	for i := 0; i < st.NumFields(); i++ {
		fields = append(fields, st.Field(i).Name())
	}
	n := 0
	c.AllFuncs(false, func(fi *FuncInfo) {
		if fi.Pkg != p {
			return
		}
		info := fi.Info()
		isV := func(e ast.Expr) bool { return types.Identical(derefType(info.TypeOf(e)), tn.Type()) }
		// (a) field-wise comparison a.f == b.f
		cmp := map[string]bool{}
		ast.Inspect(fi.Decl.Body, func(m ast.Node) bool {
			be, ok := m.(*ast.BinaryExpr)
			if !ok || (be.Op != token.EQL && be.Op != token.NEQ) {
				return true
			}
			x, ok1 := ast.Unparen(be.X).(*ast.SelectorExpr)
			y, ok2 := ast.Unparen(be.Y).(*ast.SelectorExpr)
			if ok1 && ok2 && isV(x.X) && isV(y.X) && x.Sel.Name == y.Sel.Name && types.ExprString(x.X) != types.ExprString(y.X) {
				cmp[x.Sel.Name] = true
			}
			return true
		})
		// (b) a key function: one violation parameter, string (or comparable) result
		key := map[string]bool{}
		isKeyFn := false
		if sig := fi.Obj.Type().(*types.Signature); sig.Params().Len() == 1 && types.Identical(derefType(sig.Params().At(0).Type()), tn.Type()) && sig.Results().Len() == 1 {
			if b, ok := sig.Results().At(0).Type().Underlying().(*types.Basic); ok && b.Info()&types.IsString != 0 {
				isKeyFn = true
				ast.Inspect(fi.Decl.Body, func(m ast.Node) bool {
					if se, ok := m.(*ast.SelectorExpr); ok && isV(se.X) {
						key[se.Sel.Name] = true
					}
					return true
				})
			}
		}
		// (c) whole-value identity: v1 == v2, slices.Contains/Index over []violation, a map keyed by violation
		whole := false
		ast.Inspect(fi.Decl.Body, func(m ast.Node) bool {
			switch x := m.(type) {
			case *ast.BinaryExpr:
				if (x.Op == token.EQL || x.Op == token.NEQ) && isV(x.X) && isV(x.Y) {
					whole = true
				}
			case *ast.CallExpr:
				if fn := calleeOf(info, x); fn != nil && fn.Pkg() != nil && fn.Pkg().Path() == "slices" && (fn.Name() == "Contains" || fn.Name() == "Index") && len(x.Args) == 2 && isV(x.Args[1]) {
					whole = true
				}
			case *ast.MapType:
				if types.Identical(info.TypeOf(x.Key), tn.Type()) {
					whole = true
				}
			}
			return true
		})
		if whole {
			n++
			c.funcs[fi.Name] = true
			c.Check(rule, fi.Name+"|identifies violations by the whole value", fi.Decl.Pos(), true, "")
		}
		for what, used := range map[string]map[string]bool{"compares": cmp, "builds a key from": key} {
			if len(used) == 0 && !(what == "builds a key from" && isKeyFn) {
				continue
			}
			if what == "builds a key from" && !isKeyFn {
				continue
			}
			n++
			c.funcs[fi.Name] = true
			var missing []string
			for _, f := range fields {
				if !used[f] {
					missing = append(missing, f)
				}
			}
			c.Check(rule, fi.Name+"|"+what+" every field of violation", fi.Decl.Pos(), len(missing) == 0, "%s %s two foreign-key violations without the field(s) %v: violations that differ only there are taken for the same one, so a new violation introduced by a migration file is not seen and the file is committed", fi.Name, what, missing)
		}
	})
	if n == 0 {
		c.Unresolved(rule, "identity decision over sqlite.violation values")
	}
}

// R11k: no decision of `migrate set` uses a copy taken from the revision list before the list was re-read.
const ruleTextNoStaleRevisions = "freshness of values derived from the revision list: in the cmdapi commands that read the revisions more than once (migrate set deletes revisions and reads them again), a local variable computed from the list (revs[i].Version, len(revs), …) is not used after the list variable was assigned again unless it was recomputed; the decisions that follow (which files to mark applied) must agree with what Executor.Pending will read from the table afterwards"

func checkNoStaleRevisions(c *Ctx, rule string) {
	pp := modRoot + "/cmd/atlas/internal/cmdapi"
	n := 0
	c.AllFuncs(false, func(fi *FuncInfo) {
		if fi.Pkg.PkgPath != pp {
			return
		}
		info := fi.Info()
		// slice-of-revision locals assigned at least twice
		assigns := map[types.Object][]ast.Node{}
		ast.Inspect(fi.Decl.Body, func(m ast.Node) bool {
			if _, ok := m.(*ast.FuncLit); ok {
				return false
			}
			as, ok := m.(*ast.AssignStmt)
			if !ok {
				return true
			}
			for _, l := range as.Lhs {
				id, ok := l.(*ast.Ident)
				if !ok {
					continue
				}
				if sl, ok := info.TypeOf(id).(*types.Slice); ok && typeIs(derefType(sl.Elem()), pMigrate, "Revision") {
					assigns[info.ObjectOf(id)] = append(assigns[info.ObjectOf(id)], as)
				}
			}
			return true
		})
		for S, as := range assigns {
			if len(as) < 2 {
				continue
			}
			n++
			c.funcs[fi.Name] = true
			f := newFlow(info, fi.Decl.Body)
			mentions := func(nd ast.Node, o types.Object, skipLHS bool) bool {
				hit := false
				ast.Inspect(nd, func(k ast.Node) bool {
					if _, ok := k.(*ast.FuncLit); ok {
						return false
					}
					if a, ok := k.(*ast.AssignStmt); ok && skipLHS {
						for _, r := range a.Rhs {
							ast.Inspect(r, func(q ast.Node) bool {
								if id, ok := q.(*ast.Ident); ok && info.ObjectOf(id) == o {
									hit = true
								}
								return !hit
							})
						}
						// index/selector expressions on the left still read their operands
						for _, l := range a.Lhs {
							if _, isID := l.(*ast.Ident); !isID {
								ast.Inspect(l, func(q ast.Node) bool {
									if id, ok := q.(*ast.Ident); ok && info.ObjectOf(id) == o {
										hit = true
									}
									return !hit
								})
							}
						}
						return false
					}
					if id, ok := k.(*ast.Ident); ok && info.ObjectOf(id) == o {
						hit = true
					}
					return !hit
				})
				return hit
			}
			// derived locals: v := <expr mentioning S> (v is not S itself)
			type def struct {
				v    types.Object
				node ast.Node
			}
			var defs []def
			ast.Inspect(fi.Decl.Body, func(m ast.Node) bool {
				if _, ok := m.(*ast.FuncLit); ok {
					return false
				}
				a, ok := m.(*ast.AssignStmt)
				if !ok || len(a.Lhs) != len(a.Rhs) {
					return true
				}
				for i, l := range a.Lhs {
					id, ok := l.(*ast.Ident)
					if !ok || info.ObjectOf(id) == S || info.ObjectOf(id) == nil {
						continue
					}
					if mentions(a.Rhs[i], S, false) {
						defs = append(defs, def{info.ObjectOf(id), a})
					}
				}
				return true
			})
			bad := ""
			var badPos token.Pos = fi.Decl.Pos()
			for _, d := range defs {
				isDefV := func(nd ast.Node) bool {
					a, ok := nd.(*ast.AssignStmt)
					if !ok {
						return false
					}
					for _, l := range a.Lhs {
						if id, ok := l.(*ast.Ident); ok && info.ObjectOf(id) == d.v {
							return true
						}
					}
					return false
				}
				isReS := func(nd ast.Node) bool {
					if nd == d.node {
						return false
					}
					for _, a := range as {
						if a == nd {
							return true
						}
					}
					return false
				}
				isUse := func(nd ast.Node) bool { return mentions(nd, d.v, true) }
				for _, dp := range f.find(func(nd ast.Node) bool { return nd == d.node }) {
					// reassignments of S reachable after the definition, before v is recomputed
					for _, qp := range f.find(isReS) {
						if _, ok := f.reach([]point{after(dp)}, isDefV, func(nd ast.Node) bool { return nd == qp.b.Nodes[qp.i] }, false); !ok {
							continue
						}
						if u, ok := f.reach([]point{after(qp)}, isDefV, isUse, false); ok && bad == "" {
							bad = fmt.Sprintf("%s (computed at line %d, list re-read at line %d, used at line %d)", d.v.Name(), posLine(c.Fset, d.node.Pos()), posLine(c.Fset, qp.b.Nodes[qp.i].Pos()), posLine(c.Fset, u.Pos()))
							badPos = u.Pos()
						}
					}
				}
			}
			c.Check(rule, fi.Name+"|values derived from "+S.Name()+" are recomputed after it is re-read", badPos, bad == "", "%s keeps using %s: the value was taken from the revision list before the list was read again (after revisions were deleted), so the files it marks as applied do not match what Executor.Pending computes from the table", fi.Name, bad)
		}
	})
	if n == 0 {
		c.Unresolved(rule, "cmdapi functions that read the revision list more than once")
	}
}

// R14k: the deferred closure calls restore on every path.
func checkRestoreUnconditional(c *Ctx, fi *FuncInfo, deferred *ast.DeferStmt, restoreObj types.Object) {
	info := fi.Info()
	var body *ast.BlockStmt
	isRestore := func(inf *types.Info, obj types.Object) nodePred {
		return func(n ast.Node) bool { return invokesFuncValue(c, inf, n, obj, 2) }
	}
	inf, obj := info, restoreObj
	switch fun := deferred.Call.Fun.(type) {
	case *ast.FuncLit:
		body = fun.Body
	case *ast.Ident:
		if info.ObjectOf(fun) == restoreObj {
			c.Check("R14k", fi.Name+"|restore called on every path of the deferred function", deferred.Pos(), true, "")
			return
		}
	}
	if body == nil {
		// defer helper(…, restore, …)
		hf := calleeOf(info, deferred.Call)
		cf := c.FuncInfoOf(hf)
		if cf == nil || cf.Decl.Body == nil {
			c.Unresolved("R14k", fi.Name+": body of the deferred restore helper")
			return
		}
		var ps []*ast.Ident
		for _, fld := range cf.Decl.Type.Params.List {
			ps = append(ps, fld.Names...)
		}
		for ai, a := range deferred.Call.Args {
			if id, ok := ast.Unparen(a).(*ast.Ident); ok && info.ObjectOf(id) == restoreObj && ai < len(ps) {
				body, inf, obj = cf.Decl.Body, cf.Info(), cf.Info().ObjectOf(ps[ai])
			}
		}
		if body == nil {
			c.Unresolved("R14k", fi.Name+": restore parameter of the deferred helper")
			return
		}
	}
	f := newFlow(inf, body)
	w, skipped := f.reach([]point{f.entry()}, isRestore(inf, obj), isReturn, true)
	c.Check("R14k", fi.Name+"|restore called on every path of the deferred function", nodePos(w, deferred.Pos()), !skipped, "the deferred function of %s can finish without calling the restore function (it is conditional, e.g. on the error being nil): when the work in between fails, whatever it created stays in the dev database", fi.Name)
}

// R14l: the dev database is accepted as clean only after its object count was tested.
const ruleTextSnapshotAccepts = "Snapshot accepts a database only after counting what it holds: in the MySQL and PostgreSQL Snapshot implementations every successful return of a restore function built from a realm (RealmRestoreFunc) lies on paths that took an edge establishing len(<realm>.Schemas) == 0, == 1 or not > 0, and every one built from a schema (SchemaRestoreFunc) on paths that established len(<schema>.Tables) == 0 / not > 0; a path that accepts without such a test hands a non-empty database to the restore, which wipes it"

func checkSnapshotAccepts(c *Ctx, rule string) {
	n := 0
	for _, pp := range []string{pMysql, pPostgres} {
		fi := c.Func(rule, pp, "Driver", "Snapshot")
		if fi == nil {
			continue
		}
		info := fi.Info()
		f := newFlow(info, fi.Decl.Body)
		// kind of a restore expression: "Schemas" (realm) or "Tables" (schema)
		kindOfCall := func(e ast.Expr) string {
			call, ok := ast.Unparen(e).(*ast.CallExpr)
			if !ok {
				return ""
			}
			fn := calleeOf(info, call)
			switch {
			case fn == nil:
				return ""
			case fn.Name() == "RealmRestoreFunc":
				return "Schemas"
			case fn.Name() == "SchemaRestoreFunc":
				return "Tables"
			}
			return ""
		}
		kindOf := func(e ast.Expr) string {
			if k := kindOfCall(e); k != "" {
				return k
			}
			if id, ok := ast.Unparen(e).(*ast.Ident); ok {
				obj := info.ObjectOf(id)
				k := ""
				ast.Inspect(fi.Decl.Body, func(m ast.Node) bool {
					if as, ok := m.(*ast.AssignStmt); ok && len(as.Lhs) == len(as.Rhs) {
						for i, l := range as.Lhs {
							if lid, ok := l.(*ast.Ident); ok && info.ObjectOf(lid) == obj {
								k = kindOfCall(as.Rhs[i])
							}
						}
					}
					return true
				})
				return k
			}
			return ""
		}
		k := 0
		for _, pt := range f.find(isReturn) {
			ret := pt.b.Nodes[pt.i].(*ast.ReturnStmt)
			if len(ret.Results) != 2 || !isNilIdent(info, ret.Results[1]) || isNilIdent(info, ret.Results[0]) {
				continue
			}
			kind := kindOf(ret.Results[0])
			if kind == "" {
				c.Unresolved(rule, fi.Name+": kind of the restore function returned at "+c.pos(ret.Pos()))
				continue
			}
			k++
			n++
			c.funcs[fi.Name] = true
			var countFact func(e ast.Expr, val bool, depth int) bool
			clean := func(b *cfg.Block, si int) bool {
				return edgeImplies(b, si, func(e ast.Expr, val bool) bool { return countFact(e, val, 0) })
			}
			countFact = func(e ast.Expr, val bool, depth int) bool {
				{
					// a boolean local that was last assigned a conjunction containing the count test
					if id, isID := ast.Unparen(e).(*ast.Ident); isID && val && depth < 3 {
						obj := info.ObjectOf(id)
						var def ast.Expr
						ast.Inspect(fi.Decl.Body, func(m ast.Node) bool {
							if as, ok := m.(*ast.AssignStmt); ok && len(as.Lhs) == len(as.Rhs) && as.Pos() < e.Pos() {
								for i, l := range as.Lhs {
									if lid, ok := l.(*ast.Ident); ok && info.ObjectOf(lid) == obj {
										def = as.Rhs[i]
									}
								}
							}
							return true
						})
						if def != nil {
							for _, f := range impliedFacts(def, true) {
								if countFact(f.expr, f.val, depth+1) {
									return true
								}
							}
						}
						return false
					}
					be, ok := ast.Unparen(e).(*ast.BinaryExpr)
					if !ok {
						return false
					}
					a := lenArg(info, be.X)
					if a == nil {
						return false
					}
					se, ok := ast.Unparen(a).(*ast.SelectorExpr)
					if !ok || se.Sel.Name != kind {
						return false
					}
					tv := info.Types[be.Y]
					if tv.Value == nil {
						return false
					}
					v := tv.Value.String()
					switch be.Op {
					case token.EQL:
						return val && (v == "0" || (v == "1" && kind == "Schemas"))
					case token.GTR:
						return !val && v == "0"
					case token.NEQ:
						return !val && v == "0"
					case token.LEQ:
						return val && (v == "0" || (v == "1" && kind == "Schemas"))
					}
					return false
				}
			}
			_ = clean
			established := f.allPathsImply(ret, func(e ast.Expr, val bool) bool { return countFact(e, val, 0) })
			c.Check(rule, fmt.Sprintf("%s|success return %d (%s counted)", fi.Name, k, kind), ret.Pos(), established, "%s returns a restore function (accepts the dev database as clean) on a path that never established the number of %s it holds: a database with other schemas / tables is taken for empty and wiped by the restore", fi.Name, strings.ToLower(kind))
		}
	}
	if n < 3 {
		c.Unresolved(rule, "successful returns of the MySQL / PostgreSQL Snapshot implementations (fewer than 3)")
	}
}

// R15m: a value is not computed case-sensitively under a case-insensitive guard on the same text.
const ruleTextFoldConsistency = "case-fold consistency: in the spec converters, when a switch case or if condition classifies a string E case-insensitively (strings.EqualFold(E, c) or strings.ToLower/ToUpper(E) == c), no comparison of the same E with a string constant inside the guarded branch is case-sensitive; the guard admits TRUE/True, so a value computed as E == \"true\" silently turns them into false"

func checkFoldConsistency(c *Ctx, rule string) {
	n := 0
	for _, pp := range []string{pSpecutil, pMysql, pPostgres, pSqlite, pHCL} {
		c.AllFuncs(false, func(fi *FuncInfo) {
			if fi.Pkg.PkgPath != pp {
				return
			}
			info := fi.Info()
			// folded(E): cond contains EqualFold(E, const) / ToLower(E) == const; returns the texts of E
			foldedIn := func(cond ast.Expr) map[string]bool {
				out := map[string]bool{}
				ast.Inspect(cond, func(m ast.Node) bool {
					switch x := m.(type) {
					case *ast.CallExpr:
						if funcIs(calleeOf(info, x), "strings", "", "EqualFold") && len(x.Args) == 2 {
							for i, a := range x.Args {
								if _, isConst := stringConst(info, x.Args[1-i]); isConst {
									out[types.ExprString(ast.Unparen(a))] = true
								}
							}
						}
					case *ast.BinaryExpr:
						if x.Op != token.EQL && x.Op != token.NEQ {
							return true
						}
						for i, side := range []ast.Expr{x.X, x.Y} {
							other := []ast.Expr{x.Y, x.X}[i]
							if _, isConst := stringConst(info, other); !isConst {
								continue
							}
							if call, ok := ast.Unparen(side).(*ast.CallExpr); ok && len(call.Args) == 1 {
								if fn := calleeOf(info, call); fn != nil && fn.Pkg() != nil && fn.Pkg().Path() == "strings" && (fn.Name() == "ToLower" || fn.Name() == "ToUpper") {
									out[types.ExprString(ast.Unparen(call.Args[0]))] = true
								}
							}
						}
					}
					return true
				})
				return out
			}
			check := func(cond ast.Expr, body []ast.Stmt, pos token.Pos) {
				fs := foldedIn(cond)
				if len(fs) == 0 || len(body) == 0 {
					return
				}
				n++
				c.funcs[fi.Name] = true
				bad := ""
				at := pos
				for _, st := range body {
					ast.Inspect(st, func(m ast.Node) bool {
						be, ok := m.(*ast.BinaryExpr)
						if !ok || (be.Op != token.EQL && be.Op != token.NEQ) || bad != "" {
							return bad == ""
						}
						for i, side := range []ast.Expr{be.X, be.Y} {
							other := []ast.Expr{be.Y, be.X}[i]
							if s, isConst := stringConst(info, other); isConst && s != "" && fs[types.ExprString(ast.Unparen(side))] {
								bad, at = types.ExprString(be), be.Pos()
							}
						}
						return true
					})
				}
				var names []string
				for k := range fs {
					names = append(names, k)
				}
				sort.Strings(names)
				c.Check(rule, fi.Name+"|"+strings.Join(names, ",")+" compared case-insensitively throughout", at, bad == "", "%s classifies %s case-insensitively but then evaluates `%s` case-sensitively in the same branch: inputs that the guard admits in another letter case get the wrong value", fi.Name, strings.Join(names, ","), bad)
			}
			ast.Inspect(fi.Decl.Body, func(m ast.Node) bool {
				switch x := m.(type) {
				case *ast.IfStmt:
					check(x.Cond, x.Body.List, x.Pos())
				case *ast.CaseClause:
					for _, e := range x.List {
						check(e, x.Body, x.Pos())
					}
				}
				return true
			})
		})
	}
	if n < 3 {
		c.Unresolved(rule, "case-insensitive guards in the converters (fewer than 3)")
	}
}

// R15n: MySQL prints a fractional-seconds precision only when it is positive.
const ruleTextTimePrecision = "MySQL FormatType and the type registry agree on the absent parameter: datetime(0) ≡ datetime in MySQL and the HCL type spec drops a zero attribute, so mysql.FormatType writes the dereferenced TimeType.Precision only where it is known to be non-zero (an enclosing condition implies *p > 0 / *p != 0 / *p >= 1); printing `datetime(0)` for the original and `datetime` for the column re-read from HCL makes the differ report a change in both directions"

func checkTimePrecision(c *Ctx, rule string) {
	fi := c.Func(rule, pMysql, "", "FormatType")
	if fi == nil {
		return
	}
	info := fi.Info()
	pm := parentMap(fi.Decl)
	n := 0
	ast.Inspect(fi.Decl.Body, func(m ast.Node) bool {
		st, ok := m.(*ast.StarExpr)
		if !ok {
			return true
		}
		// *p where p is (an alias of) <TimeType>.Precision
		isPrec := func(e ast.Expr) bool {
			e = ast.Unparen(e)
			if se, ok := e.(*ast.SelectorExpr); ok {
				return se.Sel.Name == "Precision" && typeIs(derefType(info.TypeOf(se.X)), pSchema, "TimeType")
			}
			if id, ok := e.(*ast.Ident); ok {
				obj := info.ObjectOf(id)
				hit := false
				ast.Inspect(fi.Decl.Body, func(k ast.Node) bool {
					if as, ok := k.(*ast.AssignStmt); ok && len(as.Lhs) == len(as.Rhs) {
						for i, l := range as.Lhs {
							if lid, ok := l.(*ast.Ident); ok && info.ObjectOf(lid) == obj {
								if se, ok := ast.Unparen(as.Rhs[i]).(*ast.SelectorExpr); ok && se.Sel.Name == "Precision" && typeIs(derefType(info.TypeOf(se.X)), pSchema, "TimeType") {
									hit = true
								}
							}
						}
					}
					return true
				})
				return hit
			}
			return false
		}
		if !isPrec(st.X) {
			return true
		}
		// only uses that print the value (arguments of a call), not the comparisons that guard it
		if _, inCmp := pm[st].(*ast.BinaryExpr); inCmp {
			return true
		}
		n++
		c.funcs[fi.Name] = true
		txt := types.ExprString(st)
		// the dereferenced expression may be spelled through an alias (p := t.Precision): compare by "is a precision"
		nonZero := func(e ast.Expr, val bool) bool {
			be, ok := ast.Unparen(e).(*ast.BinaryExpr)
			if !ok {
				return false
			}
			sx, ok := ast.Unparen(be.X).(*ast.StarExpr)
			if !ok || !isPrec(sx.X) {
				return false
			}
			tv := info.Types[be.Y]
			if tv.Value == nil {
				return false
			}
			v := tv.Value.String()
			switch {
			case be.Op == token.GTR && v == "0" && val, be.Op == token.NEQ && v == "0" && val, be.Op == token.GEQ && v == "1" && val,
				be.Op == token.EQL && v == "0" && !val, be.Op == token.LEQ && v == "0" && !val, be.Op == token.LSS && v == "1" && !val:
				return true
			}
			return false
		}
		positive := false
		for _, f := range enclosingFacts(pm, st) {
			if nonZero(f.expr, f.val) {
				positive = true
			}
		}
		if !positive {
			positive = newFlow(info, fi.Decl.Body).allPathsImply(st, nonZero)
		}
		_ = txt
		c.Check(rule, fmt.Sprintf("mysql.FormatType|precision print %d under a non-zero guard", n), st.Pos(), positive, "mysql.FormatType prints the TimeType precision %s without knowing that it is non-zero: a column declared datetime(0) is formatted `datetime(0)` while the same column re-read from its HCL (the zero attribute is dropped) is formatted `datetime`, so the differ reports a change in both directions", txt)
		return true
	})
	if n == 0 {
		c.Unresolved(rule, "print of TimeType.Precision in mysql.FormatType")
	}
}

// R19j: the indexes of an excluded column are found through the table, not only through back references.
const ruleTextExcludeByParts = "excluding a column excludes its indexes on every side: in schema.excludeT the set of indexes withheld together with an excluded column is (also) computed from the table's own index list — a loop over <table>.Indexes that tests the parts for the excluded column — because Column.Indexes is a back reference that not every producer fills (the SQLite inspector does not); relying on it alone removes the index from the desired side only and plans a DROP INDEX"

func checkExcludeByParts(c *Ctx, rule string) {
	fi := c.Func(rule, pSchema, "", "excludeT")
	if fi == nil {
		return
	}
	info := fi.Info()
	// the callback that filters the columns
	var ok bool
	found := false
	ast.Inspect(fi.Decl.Body, func(m ast.Node) bool {
		call, isCall := m.(*ast.CallExpr)
		if !isCall || !funcIs(calleeOf(info, call), pSchema, "", "filter") || len(call.Args) != 2 {
			return true
		}
		se, isSel := ast.Unparen(call.Args[0]).(*ast.SelectorExpr)
		if !isSel || se.Sel.Name != "Columns" {
			return true
		}
		found = true
		scope := ast.Node(fi.Decl.Body) // the search may live in the callback or after the filter
		ast.Inspect(scope, func(k ast.Node) bool {
			rs, isRange := k.(*ast.RangeStmt)
			if !isRange {
				return true
			}
			rx, isSel := ast.Unparen(rs.X).(*ast.SelectorExpr)
			if !isSel || rx.Sel.Name != "Indexes" || !typeIs(derefType(info.TypeOf(rx.X)), pSchema, "Table") {
				return true
			}
			// the loop body looks at the parts' columns
			ast.Inspect(rs.Body, func(q ast.Node) bool {
				if s, isSel := q.(*ast.SelectorExpr); isSel && s.Sel.Name == "C" && typeIs(derefType(info.TypeOf(s.X)), pSchema, "IndexPart") {
					ok = true
				}
				return true
			})
			return true
		})
		return true
	})
	if !found {
		c.Unresolved(rule, "excludeT: the filter over the table's columns")
		return
	}
	c.funcs[fi.Name] = true
	c.Check(rule, "schema.excludeT|indexes of an excluded column found through the table's index parts", fi.Decl.Pos(), ok, "schema.excludeT withholds the indexes of an excluded column only through Column.Indexes: on a schema whose producer does not fill that back reference (SQLite inspection) the index stays, the other side loses it, and the plan drops an index that exists identically on both sides")
}

// R16j: plan options received are plan options forwarded.
const ruleTextOptsForwarded = "plan options travel with the plan: every function of sql/internal/sqlx and the dialect packages that receives a variadic `...migrate.PlanOption` parameter and calls a PlanChanges method passes that parameter on (spread) in the call; an apply path that plans without them ignores the requested schema qualifier and skips the scope check, so the executed statements name the objects' own schema and a change set spanning two schemas is applied"

func checkOptsForwarded(c *Ctx, rule string) {
	n := 0
	for _, pp := range []string{pSqlx, pMysql, pPostgres, pSqlite} {
		c.AllFuncs(false, func(fi *FuncInfo) {
			if fi.Pkg.PkgPath != pp {
				return
			}
			info := fi.Info()
			var opt types.Object
			ps := fi.Decl.Type.Params.List
			if len(ps) == 0 {
				return
			}
			last := ps[len(ps)-1]
			if el, ok := last.Type.(*ast.Ellipsis); ok && typeIs(info.TypeOf(el.Elt), pMigrate, "PlanOption") && len(last.Names) == 1 {
				opt = info.ObjectOf(last.Names[0])
			}
			if opt == nil {
				return
			}
			k := 0
			ast.Inspect(fi.Decl.Body, func(m ast.Node) bool {
				call, ok := m.(*ast.CallExpr)
				if !ok {
					return true
				}
				fn := calleeOf(info, call)
				if fn == nil || fn.Name() != "PlanChanges" {
					return true
				}
				k++
				n++
				c.funcs[fi.Name] = true
				fwd := false
				if call.Ellipsis.IsValid() && len(call.Args) > 0 {
					// the spread argument is the parameter, or a slice built from it (append(opts, …) / append(x, opts...))
					ast.Inspect(call.Args[len(call.Args)-1], func(q ast.Node) bool {
						if id, ok := q.(*ast.Ident); ok && info.ObjectOf(id) == opt {
							fwd = true
						}
						return true
					})
					if id, ok := ast.Unparen(call.Args[len(call.Args)-1]).(*ast.Ident); ok && !fwd {
						obj := info.ObjectOf(id)
						ast.Inspect(fi.Decl.Body, func(q ast.Node) bool {
							if as, ok := q.(*ast.AssignStmt); ok {
								for i, l := range as.Lhs {
									if lid, ok := l.(*ast.Ident); ok && info.ObjectOf(lid) == obj && i < len(as.Rhs) {
										ast.Inspect(as.Rhs[i], func(r ast.Node) bool {
											if rid, ok := r.(*ast.Ident); ok && info.ObjectOf(rid) == opt {
												fwd = true
											}
											return true
										})
									}
								}
							}
							return true
						})
					}
				}
				c.Check(rule, fmt.Sprintf("%s|PlanChanges call %d forwards %s", fi.Name, k, opt.Name()), call.Pos(), fwd, "%s receives plan options (%s) but calls PlanChanges without them: the schema qualifier requested by the caller is ignored and CheckChangesScope never runs on this path", fi.Name, opt.Name())
				return true
			})
		})
	}
	if n < 2 {
		c.Unresolved(rule, "PlanChanges calls in functions receiving ...migrate.PlanOption (fewer than 2)")
	}
}

// R18i: one Change per executed statement.
const ruleTextChangePerStmt = "positional bookkeeping of the lint loader: in DevLoader.nextStmts every iteration that does not return an error appends exactly one sqlcheck.Change for its statement to File.Changes (no `continue` on the way): analyzers address neighbouring statements by index (the SQLite rebuild detector expects CREATE new_t, INSERT…SELECT, DROP t, RENAME at i…i+3), so a statement without schema effect that is left out shifts the window and an additive rebuild is reported as a dropped table"

func checkChangePerStmt(c *Ctx, rule string) {
	fi := c.Func(rule, modRoot+"/cmd/atlas/internal/migratelint", "DevLoader", "nextStmts")
	if fi == nil {
		return
	}
	st := findLintStep(c, fi)
	if st == nil {
		c.Unresolved(rule, "nextStmts: the loop that executes the statements")
		return
	}
	info := fi.Info()
	f := newFlow(info, fi.Decl.Body)
	c.funcs[fi.Name] = true
	isAppendIn := func(inf *types.Info) nodePred {
		return func(nd ast.Node) bool {
			as, ok := nd.(*ast.AssignStmt)
			if !ok || len(as.Rhs) != 1 || len(as.Lhs) != 1 {
				return false
			}
			call, ok := as.Rhs[0].(*ast.CallExpr)
			return ok && builtinName(inf, call) == "append" && isField(inf, as.Lhs[0], pSqlcheck, "File", "Changes")
		}
	}
	// in the loop: every iteration that goes on passes the append, or the helper call that appends on every successful return
	through := isAppendIn(info)
	if st.call != nil {
		hinfo := st.scope.Info()
		hf := newFlow(hinfo, st.scope.Decl.Body)
		// helper: no successful (nil error) return without the append
		skippedInHelper := false
		for _, pt := range hf.find(isReturn) {
			r := pt.b.Nodes[pt.i].(*ast.ReturnStmt)
			if len(r.Results) == 0 || !isNilIdent(hinfo, r.Results[len(r.Results)-1]) {
				continue // error return
			}
			target := func(nd ast.Node) bool { return nd == ast.Node(r) }
			if _, reach := hf.reach([]point{hf.entry()}, isAppendIn(hinfo), target, false); reach {
				skippedInHelper = true
			}
		}
		c.Check(rule, fi.Name+"|the per-statement helper appends on every successful return", st.scope.Decl.Pos(), !skippedInHelper, "%s can return successfully without appending the statement's Change", st.scope.Name)
		through = func(nd ast.Node) bool {
			hit := false
			ast.Inspect(nd, func(m ast.Node) bool {
				if m == ast.Node(st.call) {
					hit = true
				}
				return !hit
			})
			return hit
		}
	}
	starts, next := loopBlocks(f, st.loop)
	skipped := f.reachBlockEdges(starts, through, next, nil)
	c.Check(rule, fi.Name+"|every executed statement gets its Change", st.loop.Pos(), !skipped, "%s can move on to the next statement without appending a Change for the current one: the positions the analyzers rely on (neighbouring statements of the SQLite table rebuild) no longer line up", fi.Name)
}

// R18j: a prefix is removed with TrimPrefix, not with a cutset.
const ruleTextTrimCutset = "prefix/suffix removal: no call of strings.TrimLeft / TrimRight / Trim in the module passes a constant cutset that contains a letter or a digit; a cutset is a set of characters, so TrimLeft(name, \"new_\") also eats the first letters of the real table name (`new_notes` → `otes`), the lint then fails to recognise the SQLite rebuild of such tables and reports an additive change as DROP TABLE"

func checkTrimCutset(c *Ctx, rule string) {
	n, bad := 0, 0
	isLetterCut := func(info *types.Info, call *ast.CallExpr) (string, bool) {
		fn := calleeOf(info, call)
		if fn == nil || fn.Pkg() == nil || fn.Pkg().Path() != "strings" || len(call.Args) != 2 {
			return "", false
		}
		switch fn.Name() {
		case "TrimLeft", "TrimRight", "Trim":
		default:
			return "", false
		}
		s, ok := stringConst(info, call.Args[1])
		if !ok {
			return "", false
		}
		for _, r := range s {
			if r == '_' || (r >= '0' && r <= '9') || (r >= 'a' && r <= 'z') || (r >= 'A' && r <= 'Z') {
				return s, true
			}
		}
		return s, false
	}
	c.AllFuncs(false, func(fi *FuncInfo) {
		info := fi.Info()
		ast.Inspect(fi.Decl.Body, func(m ast.Node) bool {
			call, ok := m.(*ast.CallExpr)
			if !ok {
				return true
			}
			fn := calleeOf(info, call)
			if fn == nil || fn.Pkg() == nil || fn.Pkg().Path() != "strings" || !strings.HasPrefix(fn.Name(), "Trim") || strings.HasSuffix(fn.Name(), "Func") || strings.HasSuffix(fn.Name(), "Space") || strings.HasSuffix(fn.Name(), "Prefix") || strings.HasSuffix(fn.Name(), "Suffix") {
				return true
			}
			n++
			if s, isBad := isLetterCut(info, call); isBad {
				bad++
				c.funcs[fi.Name] = true
				c.Check(rule, fi.Name+"|"+types.ExprString(call.Fun)+" with cutset "+strconvQuote(s), call.Pos(), false, "%s calls %s with the cutset %q: every leading/trailing character that occurs in it is removed, not the prefix/suffix as a whole", fi.Name, types.ExprString(call.Fun), s)
			}
			return true
		})
	})
	// positive control: the predicate must recognise the defective shape
	ctl, _ := parser.ParseExpr(`strings.TrimLeft(name, "new_")`)
	ctlOK := false
	if call, ok := ctl.(*ast.CallExpr); ok {
		if lit, ok := call.Args[1].(*ast.BasicLit); ok && strings.ContainsAny(lit.Value, "abcdefghijklmnopqrstuvwxyz") {
			ctlOK = true
		}
	}
	c.Check(rule, "module|cutset calls without letters or digits", token.NoPos, bad == 0 && ctlOK && n >= 5, "%d of %d strings.Trim/TrimLeft/TrimRight calls pass a cutset with letters or digits (positive control recognised: %v)", bad, n, ctlOK)
}

func strconvQuote(s string) string { return fmt.Sprintf("%q", s) }

// R19k: Extend returns the value it extended.
const ruleTextExtendReturns = "the env-level diff policy inherits the project-level skip list in the value it returns: in (*Diff).Extend the object that receives `SkipChanges` from the global block is the object returned on that path (the receiver, or the copy if a copy is made); storing into a copy and returning the receiver drops the inherited policy, and a change kind skipped at project level is planned and executed"

func checkExtendReturns(c *Ctx, rule string) {
	fi := c.Func(rule, modRoot+"/cmd/atlas/internal/cmdapi", "Diff", "Extend")
	if fi == nil {
		return
	}
	info := fi.Info()
	var stored types.Object
	var storePos token.Pos
	ast.Inspect(fi.Decl.Body, func(m ast.Node) bool {
		as, ok := m.(*ast.AssignStmt)
		if !ok || len(as.Lhs) != 1 {
			return true
		}
		se, ok := as.Lhs[0].(*ast.SelectorExpr)
		if !ok || se.Sel.Name != "SkipChanges" {
			return true
		}
		if r := rootIdent(se.X); r != nil {
			stored, storePos = info.ObjectOf(r), as.Pos()
		}
		return true
	})
	if stored == nil {
		c.Unresolved(rule, "Diff.Extend: the store of SkipChanges")
		return
	}
	c.funcs[fi.Name] = true
	// the last return of the function (the path through the store)
	var last *ast.ReturnStmt
	ast.Inspect(fi.Decl.Body, func(m ast.Node) bool {
		if r, ok := m.(*ast.ReturnStmt); ok && r.Pos() > storePos {
			last = r
		}
		return true
	})
	ok := false
	if last != nil && len(last.Results) == 1 {
		e := ast.Unparen(last.Results[0])
		if u, isU := e.(*ast.UnaryExpr); isU && u.Op == token.AND {
			e = ast.Unparen(u.X)
		}
		if id, isID := e.(*ast.Ident); isID && info.ObjectOf(id) == stored {
			ok = true
		}
	}
	c.Check(rule, "cmdapi.(Diff).Extend|returns the value that received the inherited SkipChanges", storePos, ok, "(*Diff).Extend stores the project-level SkipChanges into %s but returns a different value: the env's diff block does not inherit the skip policy, so `drop_table = true` at project level does not stop DROP TABLE for that env", stored.Name())
}

// R19l: the selector pattern admits the separator the selector list is split on.
const ruleTextSelectorSeparator = "reader/consumer agreement of the type selector: schema.excludeType splits the captured selector list with strings.Split(…, sep); the capture group of the reType pattern accepts sep (its character class contains it), otherwise a multi-type selector `[type=index|fk]` is not recognised, is treated as part of the glob, and the pattern excludes nothing it names"

func checkSelectorSeparator(c *Ctx, rule string) {
	fi := c.Func(rule, pSchema, "", "excludeType")
	if fi == nil {
		return
	}
	info := fi.Info()
	sep := ""
	ast.Inspect(fi.Decl.Body, func(m ast.Node) bool {
		call, ok := m.(*ast.CallExpr)
		if ok && funcIs(calleeOf(info, call), "strings", "", "Split") && len(call.Args) == 2 {
			if s, ok := stringConst(info, call.Args[1]); ok {
				sep = s
			}
		}
		return true
	})
	p := c.Pkg(pSchema)
	pattern := ""
	for _, f := range p.Syntax {
		ast.Inspect(f, func(m ast.Node) bool {
			vs, ok := m.(*ast.ValueSpec)
			if !ok {
				return true
			}
			for i, nm := range vs.Names {
				if nm.Name == "reType" && i < len(vs.Values) {
					if call, ok := vs.Values[i].(*ast.CallExpr); ok && len(call.Args) == 1 {
						if s, ok := stringConst(p.TypesInfo, call.Args[0]); ok {
							pattern = s
						}
					}
				}
			}
			return true
		})
	}
	if sep == "" || pattern == "" {
		c.Unresolved(rule, "excludeType: separator of strings.Split / pattern of reType")
		return
	}
	re, err := syntax.Parse(pattern, syntax.Perl)
	if err != nil {
		c.Unresolved(rule, "reType does not parse: "+err.Error())
		return
	}
	c.funcs[fi.Name] = true
	// first capture group: does some character class / literal inside accept every rune of sep?
	accepts := false
	var walk func(r *syntax.Regexp, inCap bool)
	walk = func(r *syntax.Regexp, inCap bool) {
		if r.Op == syntax.OpCapture {
			inCap = true
		}
		if inCap {
			switch r.Op {
			case syntax.OpCharClass:
				all := true
				for _, sr := range sep {
					in := false
					for i := 0; i+1 < len(r.Rune); i += 2 {
						if r.Rune[i] <= sr && sr <= r.Rune[i+1] {
							in = true
						}
					}
					if !in {
						all = false
					}
				}
				if all {
					accepts = true
				}
			case syntax.OpLiteral:
				if strings.Contains(string(r.Rune), sep) {
					accepts = true
				}
			case syntax.OpAnyChar, syntax.OpAnyCharNotNL:
				accepts = true
			}
		}
		for _, s := range r.Sub {
			walk(s, inCap)
		}
	}
	walk(re, false)
	c.Check(rule, "schema.excludeType|reType capture accepts the separator "+strconvQuote(sep), fi.Decl.Pos(), accepts, "schema.excludeType splits the selector list on %q, but the capture group of reType (%s) cannot match that character: a selector naming several types is not recognised and the whole `[type=…]` suffix is matched as glob text", sep, pattern)
}

const ruleTextScratchStates = "scratch planner states inherit the plan options: every `state` literal built inside a method of the mysql/postgres planner state (used to compute reverse statements) sets PlanOptions to the receiver's PlanOptions, so the requested qualifier, indentation and mode also govern the reverse statements: a reverse computed without them is not the inverse of the forward statement it is stored with"

func checkScratchStates(c *Ctx, rule string) {
	for _, pp := range []string{pMysql, pPostgres} {
		c.AllFuncs(false, func(fi *FuncInfo) {
			if fi.Pkg.PkgPath != pp || recvName(fi.Decl) != "state" || len(fi.Decl.Recv.List[0].Names) == 0 {
				return
			}
			info := fi.Info()
			recv := info.ObjectOf(fi.Decl.Recv.List[0].Names[0])
			n := 0
			ast.Inspect(fi.Decl.Body, func(m ast.Node) bool {
				cl, ok := m.(*ast.CompositeLit)
				if !ok || !typeIs(info.TypeOf(cl), pp, "state") {
					return true
				}
				n++
				inherits := false
				for _, e := range cl.Elts {
					kv, ok := e.(*ast.KeyValueExpr)
					if !ok {
						continue
					}
					if k, ok := kv.Key.(*ast.Ident); ok && k.Name == "PlanOptions" {
						if se, ok := kv.Value.(*ast.SelectorExpr); ok && se.Sel.Name == "PlanOptions" {
							if x, ok := se.X.(*ast.Ident); ok && info.ObjectOf(x) == recv {
								inherits = true
							}
						}
					}
				}
				key := fi.Name + "|state literal"
				if n > 1 {
					key += "#" + itoa(n)
				}
				c.Check(rule, key, cl.Pos(), inherits, "%s builds a scratch planner state without the receiver's PlanOptions: statements planned through it (typically the reverse statement) ignore the requested schema qualifier", fi.Name)
				return true
			})
		})
	}

}

// R17l: the reverse of a guarded attribute change restores the value the guard compared with.
const ruleTextReverseRestoresGuarded = "forward/reverse agreement on the restored value: in the planners' schema- and table-attribute writers, when a branch is guarded by a comparison of the new value with a field of the planner state (`a.V != s.collate`: the attribute differs from the current/default one), the string fields of the planner state written inside that branch — the value the reverse statement restores — are that same field; writing a sibling field (`s.charset` under a guard on `s.collate`) yields a reverse that is not the inverse"

func checkReverseRestoresGuarded(c *Ctx, rule string) {
	n := 0
	for _, pp := range []string{pMysql, pPostgres} {
		c.AllFuncs(false, func(fi *FuncInfo) {
			if fi.Pkg.PkgPath != pp || recvName(fi.Decl) != "state" || len(fi.Decl.Recv.List[0].Names) == 0 {
				return
			}
			base := c.Fset.Position(fi.Decl.Pos()).Filename
			base = base[strings.LastIndex(base, "/")+1:]
			if !strings.HasPrefix(base, "migrate") {
				return
			}
			info := fi.Info()
			recv := info.ObjectOf(fi.Decl.Recv.List[0].Names[0])
			recvField := func(e ast.Expr) string {
				se, ok := ast.Unparen(e).(*ast.SelectorExpr)
				if !ok {
					return ""
				}
				id, ok := ast.Unparen(se.X).(*ast.Ident)
				if !ok || info.ObjectOf(id) != recv {
					return ""
				}
				if _, isField := info.Selections[se]; !isField {
					return ""
				}
				if b, ok := info.TypeOf(se).Underlying().(*types.Basic); !ok || b.Kind() != types.String {
					return ""
				}
				return se.Sel.Name
			}
			k := 0
			ast.Inspect(fi.Decl.Body, func(m ast.Node) bool {
				ifs, ok := m.(*ast.IfStmt)
				if !ok {
					return true
				}
				guarded := map[string]bool{}
				for _, f := range impliedFacts(ifs.Cond, true) {
					be, ok := ast.Unparen(f.expr).(*ast.BinaryExpr)
					if !ok || (be.Op != token.NEQ && be.Op != token.EQL) {
						continue
					}
					for _, side := range []ast.Expr{be.X, be.Y} {
						if g := recvField(side); g != "" {
							guarded[g] = true
						}
					}
				}
				if len(guarded) != 1 {
					return true
				}
				var want string
				for g := range guarded {
					want = g
				}
				// receiver string fields used as arguments of builder writes in the body
				bad := ""
				uses := 0
				var at token.Pos = ifs.Pos()
				ast.Inspect(ifs.Body, func(q ast.Node) bool {
					call, ok := q.(*ast.CallExpr)
					if !ok {
						return true
					}
					// a builder write, or a package-local helper that is handed a builder
					writes := onBuilder(info, call)
					if !writes {
						for _, a := range call.Args {
							if nt := namedOf(derefType(info.TypeOf(a))); nt != nil && nt.Obj().Name() == "Builder" && nt.Obj().Pkg() != nil && nt.Obj().Pkg().Path() == pSqlx {
								writes = true
							}
						}
					}
					if !writes {
						return true
					}
					for _, a := range call.Args {
						if g := recvField(a); g != "" {
							uses++
							if g != want && bad == "" {
								bad, at = g, a.Pos()
							}
						}
					}
					return true
				})
				if uses == 0 {
					return true
				}
				k++
				n++
				c.funcs[fi.Name] = true
				c.Check(rule, fmt.Sprintf("%s|branch %d guarded by %s restores %s", fi.Name, k, want, want), at, bad == "", "%s: a branch taken when the new value differs from the planner's %s writes the planner's %s into a statement (the value the reverse restores): the down statement does not restore what the up statement replaced", fi.Name, want, bad)
				return true
			})
		})
	}
	if n < 2 {
		c.Unresolved(rule, "branches guarded by a comparison with a planner-state field that also write one (fewer than 2)")
	}
}

// invokesFuncValue: n contains a call of the function value obj, or hands obj to a
// module-local function that calls the parameter it receives it as on every path
// (depth levels of such helpers).
func invokesFuncValue(c *Ctx, info *types.Info, n ast.Node, obj types.Object, depth int) bool {
	hit := false
	ast.Inspect(n, func(m ast.Node) bool {
		call, ok := m.(*ast.CallExpr)
		if !ok || hit {
			return !hit
		}
		if id, ok := call.Fun.(*ast.Ident); ok && info.ObjectOf(id) == obj {
			hit = true
			return false
		}
		if depth <= 0 {
			return true
		}
		for ai, a := range call.Args {
			id, ok := ast.Unparen(a).(*ast.Ident)
			if !ok || info.ObjectOf(id) != obj {
				continue
			}
			hf := calleeOf(info, call)
			if hf == nil || hf.Pkg() == nil || !strings.HasPrefix(hf.Pkg().Path(), modRoot) {
				continue
			}
			cf := c.FuncInfoOf(hf)
			if cf == nil || cf.Decl.Body == nil {
				continue
			}
			var ps []*ast.Ident
			for _, fld := range cf.Decl.Type.Params.List {
				ps = append(ps, fld.Names...)
			}
			if ai >= len(ps) {
				continue
			}
			pobj := cf.Info().ObjectOf(ps[ai])
			// the helper calls the parameter on every path from its entry to an exit
			f := newFlow(cf.Info(), cf.Decl.Body)
			calls := func(nd ast.Node) bool { return invokesFuncValue(c, cf.Info(), nd, pobj, depth-1) }
			if _, skipped := f.reach([]point{f.entry()}, calls, isReturn, true); !skipped {
				hit = true
			}
		}
		return !hit
	})
	return hit
}

// R12h: every slice indexed in the partial-hash comparison is bounded by its own length first.
const ruleTextBothIndexesGuarded = "the history comparison cannot index out of range: in the condition that compares the recomputed checksum with the recorded one (it indexes both the checksum slice and Revision.PartialHashes with the loop variable), every indexed slice is used only where that same index is known to be below len() of that same slice (an earlier operand of the same short-circuit chain or case list, an enclosing condition, or the loop bound); a revision that holds fewer partial hashes than applied statements (written by an older version, or edited) is then refused with HistoryChangedError instead of crashing the executor"

func checkBothIndexesGuarded(c *Ctx, rule string) {
	n := 0
	c.AllFuncs(false, func(fi *FuncInfo) {
		if fi.Pkg.PkgPath != pMigrate {
			return
		}
		info := fi.Info()
		pm := parentMap(fi.Decl)
		// conditions (if / case expressions) that index Revision.PartialHashes
		seen := map[*ast.IndexExpr]bool{}
		ast.Inspect(fi.Decl.Body, func(m ast.Node) bool {
			ix, ok := m.(*ast.IndexExpr)
			if !ok || seen[ix] {
				return true
			}
			if _, isSlice := info.TypeOf(ix.X).Underlying().(*types.Slice); !isSlice {
				return true
			}
			// the comparison the index takes part in: the enclosing ==/!= whose other side indexes too
			var cmp *ast.BinaryExpr
			for p := pm[ix]; p != nil; p = pm[p] {
				if be, ok := p.(*ast.BinaryExpr); ok && (be.Op == token.EQL || be.Op == token.NEQ) {
					cmp = be
					break
				}
				if _, ok := p.(ast.Stmt); ok {
					break
				}
			}
			if cmp == nil {
				return true
			}
			ph := false
			var idxs []*ast.IndexExpr
			ast.Inspect(cmp, func(k ast.Node) bool {
				if x, ok := k.(*ast.IndexExpr); ok {
					if _, isSlice := info.TypeOf(x.X).Underlying().(*types.Slice); isSlice {
						idxs = append(idxs, x)
						if isField(info, x.X, pMigrate, "Revision", "PartialHashes") {
							ph = true
						}
					}
				}
				return true
			})
			if !ph {
				return true
			}
			for _, x := range idxs {
				if seen[x] {
					continue
				}
				seen[x] = true
				n++
				c.funcs[fi.Name] = true
				guarded := false
				bounded := func(e ast.Expr, val bool) bool {
					be, ok := ast.Unparen(e).(*ast.BinaryExpr)
					if !ok {
						return false
					}
					// normalise to  idx OP len(a)
					l, r, op := be.X, be.Y, be.Op
					if lenArg(info, l) != nil {
						l, r = r, l
						switch op {
						case token.LSS:
							op = token.GTR
						case token.GTR:
							op = token.LSS
						case token.LEQ:
							op = token.GEQ
						case token.GEQ:
							op = token.LEQ
						}
					}
					a := lenArg(info, r)
					if a == nil || types.ExprString(a) != types.ExprString(x.X) || types.ExprString(ast.Unparen(l)) != types.ExprString(ast.Unparen(x.Index)) {
						return false
					}
					return (op == token.LSS && val) || (op == token.GEQ && !val)
				}
				for _, f := range enclosingFacts(pm, x) {
					if bounded(f.expr, f.val) {
						guarded = true
					}
				}
				// or bounded by the enclosing loop: `for i := range min(…, len(a), …)` / `for …; i < len(a) && …; …`
				for p := pm[x]; p != nil && !guarded; p = pm[p] {
					switch lp := p.(type) {
					case *ast.RangeStmt:
						if key, ok := lp.Key.(*ast.Ident); ok && types.ExprString(key) == types.ExprString(ast.Unparen(x.Index)) {
							if call, ok := ast.Unparen(lp.X).(*ast.CallExpr); ok && builtinName(info, call) == "min" {
								for _, a := range call.Args {
									if la := lenArg(info, a); la != nil && types.ExprString(la) == types.ExprString(x.X) {
										guarded = true
									}
								}
							}
							if la := lenArg(info, lp.X); la != nil && types.ExprString(la) == types.ExprString(x.X) {
								guarded = true
							}
						}
					case *ast.ForStmt:
						if lp.Cond != nil {
							for _, f := range impliedFacts(lp.Cond, true) {
								if bounded(f.expr, f.val) {
									guarded = true
								}
							}
						}
					}
				}
				c.Check(rule, fi.Name+"|"+types.ExprString(x)+" bounded by len before use", x.Pos(), guarded, "%s indexes %s in the history comparison without first establishing %s < len(%s) (an earlier operand of the same && / || chain or case list, an enclosing condition, or the loop bound): a revision with fewer recorded hashes than applied statements makes the executor panic instead of refusing the file", fi.Name, types.ExprString(x), types.ExprString(x.Index), types.ExprString(x.X))
			}
			return true
		})
	})
	if n < 2 {
		c.Unresolved(rule, "indexed slices in the partial-hash comparison (fewer than 2)")
	}
}

// R15o: a value-carrying attribute is written with its value.
const ruleTextValueWritten = "value attributes are written with their value: in the dialect marshallers, when a branch is taken because `sqlx.Has(attrs, &e)` found an attribute e whose type has a boolean/string/int value field, a schemahcl.*Attr written in that branch with a constant value of that kind instead of a field of e loses the value (every MySQL CHECK … NOT ENFORCED is exported as `enforced = true`)"

func checkValueWritten(c *Ctx, rule string) {
	n := 0
	for _, pp := range []string{pMysql, pPostgres, pSqlite} {
		c.AllFuncs(false, func(fi *FuncInfo) {
			if fi.Pkg.PkgPath != pp {
				return
			}
			base := c.Fset.Position(fi.Decl.Pos()).Filename
			base = base[strings.LastIndex(base, "/")+1:]
			if !strings.HasPrefix(base, "sqlspec") {
				return
			}
			info := fi.Info()
			ast.Inspect(fi.Decl.Body, func(m ast.Node) bool {
				ifs, ok := m.(*ast.IfStmt)
				if !ok {
					return true
				}
				// cond: sqlx.Has(X, &e) with e a local of struct type having a basic-typed field
				var target types.Object
				var st *types.Struct
				for _, f := range impliedFacts(ifs.Cond, true) {
					call, ok := ast.Unparen(f.expr).(*ast.CallExpr)
					if !ok || !f.val || !funcIs(calleeOf(info, call), pSqlx, "", "Has") || len(call.Args) != 2 {
						continue
					}
					un, ok := ast.Unparen(call.Args[1]).(*ast.UnaryExpr)
					if !ok || un.Op != token.AND {
						continue
					}
					id, ok := ast.Unparen(un.X).(*ast.Ident)
					if !ok {
						continue
					}
					if s, ok := derefType(info.TypeOf(id)).Underlying().(*types.Struct); ok {
						target, st = info.ObjectOf(id), s
					}
				}
				if target == nil {
					return true
				}
				kinds := map[types.BasicKind]bool{}
				for i := 0; i < st.NumFields(); i++ {
					if b, ok := st.Field(i).Type().Underlying().(*types.Basic); ok && !st.Field(i).Embedded() {
						switch {
						case b.Info()&types.IsBoolean != 0:
							kinds[types.Bool] = true
						case b.Info()&types.IsString != 0:
							kinds[types.String] = true
						case b.Info()&types.IsInteger != 0:
							kinds[types.Int] = true
						}
					}
				}
				if len(kinds) == 0 {
					return true
				}
				ast.Inspect(ifs.Body, func(q ast.Node) bool {
					call, ok := q.(*ast.CallExpr)
					if !ok || len(call.Args) != 2 {
						return true
					}
					fn := calleeOf(info, call)
					if fn == nil || fn.Pkg() == nil || fn.Pkg().Path() != pHCL || !strings.HasSuffix(fn.Name(), "Attr") {
						return true
					}
					n++
					c.funcs[fi.Name] = true
					key, _ := stringConst(info, call.Args[0])
					usesTarget := false
					ast.Inspect(call.Args[1], func(r ast.Node) bool {
						if id, ok := r.(*ast.Ident); ok && info.ObjectOf(id) == target {
							usesTarget = true
						}
						return true
					})
					tv := info.Types[call.Args[1]]
					constKind := types.Invalid
					if tv.Value != nil {
						switch tv.Value.Kind() {
						case constant.Bool:
							constKind = types.Bool
						case constant.String:
							constKind = types.String
						case constant.Int:
							constKind = types.Int
						}
					}
					// the constant is fine where a condition between the Has test and the write examined the value
					examined := false
					pmLocal := parentMap(ifs)
					mentionsT := func(e ast.Node) bool {
						hit := false
						ast.Inspect(e, func(r ast.Node) bool {
							if id, ok := r.(*ast.Ident); ok && info.ObjectOf(id) == target {
								hit = true
							}
							return !hit
						})
						return hit
					}
					for p := pmLocal[call]; p != nil && p != ast.Node(ifs); p = pmLocal[p] {
						switch x := p.(type) {
						case *ast.IfStmt:
							if mentionsT(x.Cond) {
								examined = true
							}
						case *ast.CaseClause:
							for _, e := range x.List {
								if mentionsT(e) {
									examined = true
								}
							}
						}
					}
					bad := !usesTarget && !examined && constKind != types.Invalid && kinds[constKind]
					c.Check(rule, fi.Name+"|attribute "+key+" written from "+target.Name(), call.Pos(), !bad, "%s writes the attribute %q with the constant %s although the attribute found by sqlx.Has (%s) carries a value of that kind: the exported HCL loses it", fi.Name, key, types.ExprString(call.Args[1]), target.Name())
					return true
				})
				return true
			})
		})
	}
	if n == 0 {
		c.Unresolved(rule, "attributes written under a sqlx.Has guard in the marshallers")
	}
}

// R16k: statements about a type name the type through the qualifier-aware helpers.
const ruleTextTypeStmtIdent = "PostgreSQL type statements: the object of every `CREATE TYPE` / `ALTER TYPE` / `DROP TYPE` builder (the first thing written after Build(\"… TYPE\")) is the result of a qualifier-aware identifier helper (enumIdent, domainIdent, compositeIdent, typeIdent), directly or through a local with that definition — never Builder.Ident(<type>.T); otherwise the statement ignores the requested schema qualifier while the tables that use the type are written with it"

func checkTypeStmtIdent(c *Ctx, rule string) {
	n := 0
	isIdentHelper := func(info *types.Info, e ast.Expr) bool {
		call, ok := ast.Unparen(e).(*ast.CallExpr)
		if !ok {
			return false
		}
		fn := calleeOf(info, call)
		return fn != nil && fn.Pkg() != nil && fn.Pkg().Path() == pPostgres && strings.HasSuffix(fn.Name(), "Ident") && recvTypeName(fn) == "state"
	}
	c.AllFuncs(false, func(fi *FuncInfo) {
		if fi.Pkg.PkgPath != pPostgres {
			return
		}
		info := fi.Info()
		kf := 0
		pm := parentMap(fi.Decl)
		ast.Inspect(fi.Decl.Body, func(m ast.Node) bool {
			call, ok := m.(*ast.CallExpr)
			if !ok || len(call.Args) != 1 {
				return true
			}
			fn := calleeOf(info, call)
			if fn == nil || fn.Name() != "Build" {
				return true
			}
			k, ok := stringConst(info, call.Args[0])
			if !ok || !strings.HasSuffix(k, " TYPE") {
				return true
			}
			// the next call of the chain: parent selector → parent call
			var next *ast.CallExpr
			if se, ok := pm[call].(*ast.SelectorExpr); ok {
				next, _ = pm[se].(*ast.CallExpr)
			}
			if next == nil {
				// b := s.Build(…); b.P(name, …) later: find the first method call on the assigned variable
				if as, ok := pm[call].(*ast.AssignStmt); ok && len(as.Lhs) == 1 {
					if id, ok := as.Lhs[0].(*ast.Ident); ok {
						obj := info.ObjectOf(id)
						ast.Inspect(fi.Decl.Body, func(q ast.Node) bool {
							if ce, ok := q.(*ast.CallExpr); ok && next == nil && ce.Pos() > as.End() {
								if se, ok := ce.Fun.(*ast.SelectorExpr); ok {
									if r := rootIdent(se.X); r != nil && info.ObjectOf(r) == obj {
										next = ce
									}
								}
							}
							return true
						})
					}
				}
			}
			n++
			kf++
			c.funcs[fi.Name] = true
			good := false
			what := "nothing is written after it"
			if next != nil && len(next.Args) > 0 {
				what = types.ExprString(next.Fun) + "(" + types.ExprString(next.Args[0]) + ", …)"
				a := next.Args[0]
				if isIdentHelper(info, a) {
					good = true
				} else if id, ok := ast.Unparen(a).(*ast.Ident); ok {
					obj := info.ObjectOf(id)
					defs, ok2 := 0, 0
					ast.Inspect(fi.Decl.Body, func(q ast.Node) bool {
						switch d := q.(type) {
						case *ast.AssignStmt:
							if len(d.Lhs) == len(d.Rhs) {
								for i, l := range d.Lhs {
									if lid, ok := l.(*ast.Ident); ok && info.ObjectOf(lid) == obj {
										defs++
										if isIdentHelper(info, d.Rhs[i]) {
											ok2++
										}
									}
								}
							}
						case *ast.ValueSpec:
							for i, nm := range d.Names {
								if info.ObjectOf(nm) == obj && i < len(d.Values) {
									defs++
									if isIdentHelper(info, d.Values[i]) {
										ok2++
									}
								}
							}
						}
						return true
					})
					good = defs > 0 && defs == ok2
				}
				if se, ok := next.Fun.(*ast.SelectorExpr); ok && se.Sel.Name == "Ident" {
					good = false
				}
				// the object is a string parameter: every caller in the package must pass an ident-helper result
				if id, ok := ast.Unparen(a).(*ast.Ident); ok && !good {
					pidx, k2 := -1, 0
					for _, fld := range fi.Decl.Type.Params.List {
						for _, nm := range fld.Names {
							if info.ObjectOf(nm) == info.ObjectOf(id) {
								pidx = k2
							}
							k2++
						}
					}
					if pidx >= 0 {
						calls, okc := 0, 0
						c.AllFuncs(false, func(g *FuncInfo) {
							if g.Pkg != fi.Pkg {
								return
							}
							ginfo := g.Info()
							for _, gc := range callsIn(g.Decl.Body, true) {
								if calleeOf(ginfo, gc) != fi.Obj || pidx >= len(gc.Args) {
									continue
								}
								calls++
								arg := gc.Args[pidx]
								if isIdentHelper(ginfo, arg) {
									okc++
									continue
								}
								if aid, ok := ast.Unparen(arg).(*ast.Ident); ok {
									obj := ginfo.ObjectOf(aid)
									defs, gd := 0, 0
									ast.Inspect(g.Decl.Body, func(q ast.Node) bool {
										switch d := q.(type) {
										case *ast.AssignStmt:
											if len(d.Lhs) == len(d.Rhs) {
												for i, l := range d.Lhs {
													if lid, ok := l.(*ast.Ident); ok && ginfo.ObjectOf(lid) == obj {
														defs++
														if isIdentHelper(ginfo, d.Rhs[i]) {
															gd++
														}
													}
												}
											}
										case *ast.ValueSpec:
											for i, nm := range d.Names {
												if ginfo.ObjectOf(nm) == obj && i < len(d.Values) {
													defs++
													if isIdentHelper(ginfo, d.Values[i]) {
														gd++
													}
												}
											}
										}
										return true
									})
									if defs > 0 && defs == gd {
										okc++
									}
								}
							}
						})
						good = calls > 0 && calls == okc
					}
				}
			}
			c.Check(rule, fmt.Sprintf("%s|%s statement %d names the type through an ident helper", fi.Name, k, kf), call.Pos(), good, "%s builds a %q statement whose object is written by %s, not by a qualifier-aware identifier helper: with a requested schema qualifier the statement addresses the type in the connection's default schema while the tables using it are qualified", fi.Name, k, what)
			return true
		})
	})
	if n < 3 {
		c.Unresolved(rule, "builders of TYPE statements in the PostgreSQL planner (fewer than 3)")
	}
}

// R16l: a column type written by the PostgreSQL planner is formatted with the qualifier.
const ruleTextTypeTextQualified = "column types are formatted with the qualifier: in the methods of the PostgreSQL planner state, the text written after the keyword TYPE (Builder.P(\"TYPE\", f)) comes from (*state).formatType / an identifier helper, or from FormatType applied to a value whose static type is a concrete built-in type (e.g. the integer type of a serial); FormatType of an arbitrary schema.Type prints enum, domain and composite names without the requested schema qualifier"

func checkTypeTextQualified(c *Ctx, rule string) {
	n := 0
	c.AllFuncs(false, func(fi *FuncInfo) {
		if fi.Pkg.PkgPath != pPostgres || recvName(fi.Decl) != "state" {
			return
		}
		info := fi.Info()
		kf := 0
		goodSource := func(e ast.Expr) bool {
			call, ok := ast.Unparen(e).(*ast.CallExpr)
			if !ok {
				return false
			}
			fn := calleeOf(info, call)
			if fn == nil {
				return false
			}
			if recvTypeName(fn) == "state" && (fn.Name() == "formatType" || strings.HasSuffix(fn.Name(), "Ident")) {
				return true
			}
			if fn.Name() == "FormatType" && len(call.Args) == 1 {
				// concrete (non-interface) argument type
				if t := info.TypeOf(call.Args[0]); t != nil {
					if _, isIface := t.Underlying().(*types.Interface); !isIface {
						return true
					}
				}
			}
			return false
		}
		ast.Inspect(fi.Decl.Body, func(m ast.Node) bool {
			call, ok := m.(*ast.CallExpr)
			if !ok || len(call.Args) != 2 || !onBuilder(info, call) {
				return true
			}
			if k, ok := stringConst(info, call.Args[0]); !ok || k != "TYPE" {
				return true
			}
			n++
			kf++
			c.funcs[fi.Name] = true
			good := goodSource(call.Args[1])
			if id, ok := ast.Unparen(call.Args[1]).(*ast.Ident); ok && !good {
				obj := info.ObjectOf(id)
				defs, ok2 := 0, 0
				ast.Inspect(fi.Decl.Body, func(q ast.Node) bool {
					if as, ok := q.(*ast.AssignStmt); ok {
						for i, l := range as.Lhs {
							if lid, ok := l.(*ast.Ident); ok && info.ObjectOf(lid) == obj && lid.Pos() < call.Pos() {
								var rhs ast.Expr
								if len(as.Rhs) == len(as.Lhs) {
									rhs = as.Rhs[i]
								} else if len(as.Rhs) == 1 && i == 0 {
									rhs = as.Rhs[0]
								}
								if rhs != nil {
									defs++
									if goodSource(rhs) {
										ok2++
									}
								}
							}
						}
					}
					return true
				})
				good = defs > 0 && defs == ok2
			}
			c.Check(rule, fmt.Sprintf("%s|TYPE write %d uses the qualifier-aware formatter", fi.Name, kf), call.Pos(), good, "%s writes `TYPE %s` with a text that does not come from (*state).formatType: a user-defined type (enum, domain, composite) is printed without the requested schema qualifier in this statement while the column clause of the same plan qualifies it", fi.Name, types.ExprString(call.Args[1]))
			return true
		})
	})
	if n < 3 {
		c.Unresolved(rule, "writes of `TYPE <type>` in the PostgreSQL planner (fewer than 3)")
	}
}

// R16m: the qualifier prefix is not conditional on the object's own schema.
const ruleTextPrefixUnconditional = "the requested qualifier applies to objects without a schema too: a call of (*state).schemaPrefix(x) / typeIdent(x, …) in the PostgreSQL planner is not guarded by a nil test of its own argument x (the helpers accept nil and return the requested qualifier first); such a guard drops a custom qualifier from the statement exactly when the object carries no schema of its own"

func checkPrefixUnconditional(c *Ctx, rule string) {
	n := 0
	c.AllFuncs(false, func(fi *FuncInfo) {
		if fi.Pkg.PkgPath != pPostgres {
			return
		}
		info := fi.Info()
		kf := 0
		pm := parentMap(fi.Decl)
		ast.Inspect(fi.Decl.Body, func(m ast.Node) bool {
			call, ok := m.(*ast.CallExpr)
			if !ok || len(call.Args) < 1 {
				return true
			}
			fn := calleeOf(info, call)
			if fn == nil || recvTypeName(fn) != "state" || (fn.Name() != "schemaPrefix" && fn.Name() != "typeIdent") {
				return true
			}
			if fi.Obj == fn {
				return true
			}
			n++
			kf++
			c.funcs[fi.Name] = true
			arg := types.ExprString(ast.Unparen(call.Args[0]))
			bad := false
			for _, f := range enclosingFacts(pm, call) {
				be, ok := ast.Unparen(f.expr).(*ast.BinaryExpr)
				if !ok || (be.Op != token.NEQ && be.Op != token.EQL) {
					continue
				}
				var other ast.Expr
				switch {
				case isNilIdent(info, be.Y):
					other = be.X
				case isNilIdent(info, be.X):
					other = be.Y
				default:
					continue
				}
				if types.ExprString(ast.Unparen(other)) == arg && (be.Op == token.NEQ) == f.val {
					bad = true
				}
			}
			c.Check(rule, fmt.Sprintf("%s|%s(%s) call %d not guarded by %s != nil", fi.Name, fn.Name(), arg, kf, arg), call.Pos(), !bad, "%s writes the schema prefix only when %s != nil: for an object without a schema of its own the requested custom qualifier is dropped from this statement (typically the reverse statement) although the forward statement carries it", fi.Name, arg)
			return true
		})
	})
	if n < 3 {
		c.Unresolved(rule, "calls of schemaPrefix / typeIdent in the PostgreSQL planner (fewer than 3)")
	}
}

// lintStep describes where the per-statement work of DevLoader.nextStmts lives: in the loop
// itself, or in a DevLoader helper method the loop calls once per statement.
type lintStep struct {
	caller  *FuncInfo
	loop    ast.Stmt      // *ast.RangeStmt or *ast.ForStmt
	scope   *FuncInfo     // function holding inspect / RealmDiff / append (caller or helper)
	call    *ast.CallExpr // the helper call in the loop (nil when scope == caller)
	stmtObj types.Object  // the statement variable inside scope
	prevObj types.Object  // the "state before" variable inside scope
	curObj  types.Object  // the threaded state variable of the caller
}

func loopBodyOf(l ast.Stmt) *ast.BlockStmt {
	switch x := l.(type) {
	case *ast.RangeStmt:
		return x.Body
	case *ast.ForStmt:
		return x.Body
	}
	return nil
}

// loopBlocks returns the CFG entry points of the loop body and a predicate for "the next iteration begins".
func loopBlocks(f *Flow, l ast.Stmt) ([]point, func(*cfg.Block) bool) {
	var starts []point
	for _, b := range f.G.Blocks {
		if b.Live && b.Stmt == l && (b.Kind == cfg.KindRangeBody || b.Kind == cfg.KindForBody) {
			starts = append(starts, point{b, 0})
		}
	}
	next := func(b *cfg.Block) bool {
		return b.Stmt == l && (b.Kind == cfg.KindRangeLoop || b.Kind == cfg.KindForPost || b.Kind == cfg.KindForLoop)
	}
	return starts, next
}

func findLintStep(c *Ctx, fi *FuncInfo) *lintStep {
	info := fi.Info()
	var st *lintStep
	ast.Inspect(fi.Decl.Body, func(m ast.Node) bool {
		loop, ok := m.(ast.Stmt)
		if !ok || st != nil || loopBodyOf(loop) == nil {
			return st == nil
		}
		body := loopBodyOf(loop)
		execs := false
		for _, call := range callsIn(body, false) {
			if fn := calleeOf(info, call); fn != nil && c.mayReach(fn, func(g *types.Func) bool { return g.Name() == "ExecContext" }, 2) {
				execs = true
			}
		}
		if !execs {
			return true
		}
		st = &lintStep{caller: fi, loop: loop, scope: fi}
		// the statement variable: the range value, or a local assigned from an element of the ranged slice
		var stmtVar types.Object
		if rs, ok := loop.(*ast.RangeStmt); ok {
			if sv, ok := rs.Value.(*ast.Ident); ok {
				stmtVar = info.ObjectOf(sv)
			}
		}
		if stmtVar == nil {
			for _, bs := range body.List {
				as, ok := bs.(*ast.AssignStmt)
				if !ok || len(as.Lhs) != 1 || len(as.Rhs) != 1 {
					continue
				}
				if _, isIdx := ast.Unparen(as.Rhs[0]).(*ast.IndexExpr); isIdx && typeIs(derefType(info.TypeOf(as.Lhs[0])), pMigrate, "Stmt") {
					if id, ok := as.Lhs[0].(*ast.Ident); ok {
						stmtVar = info.ObjectOf(id)
					}
				}
			}
		}
		st.stmtObj = stmtVar
		// a helper that performs the inspection
		for _, call := range callsIn(body, false) {
			fn := calleeOf(info, call)
			if fn == nil || funcIs(fn, pLint, "DevLoader", "inspect") {
				continue
			}
			g := c.FuncInfoOf(fn)
			if g == nil || g.Decl.Body == nil || g.Pkg != fi.Pkg || g == fi {
				continue
			}
			has := false
			for _, ic := range callsIn(g.Decl.Body, false) {
				if funcIs(calleeOf(g.Info(), ic), pLint, "DevLoader", "inspect") {
					has = true
				}
			}
			if !has {
				continue
			}
			st.scope, st.call = g, call
			// bind parameters
			var ps []*ast.Ident
			for _, fld := range g.Decl.Type.Params.List {
				ps = append(ps, fld.Names...)
			}
			st.stmtObj, st.prevObj = nil, nil
			for ai, a := range call.Args {
				if ai >= len(ps) {
					break
				}
				id, ok := ast.Unparen(a).(*ast.Ident)
				if !ok {
					continue
				}
				switch {
				case stmtVar != nil && info.ObjectOf(id) == stmtVar:
					st.stmtObj = g.Info().ObjectOf(ps[ai])
				case typeIs(derefType(info.TypeOf(id)), pSchema, "Realm"):
					st.prevObj = g.Info().ObjectOf(ps[ai])
					st.curObj = info.ObjectOf(id)
				}
			}
		}
		return false
	})
	return st
}

func checkPerStatementStep(c *Ctx, fi *FuncInfo) {
	st := findLintStep(c, fi)
	if st == nil {
		c.Unresolved("R18d", "nextStmts: the loop that executes the statements")
		return
	}
	info := fi.Info()
	f := newFlow(info, fi.Decl.Body)
	sinfo := st.scope.Info()
	sf := f
	if st.scope != fi {
		sf = newFlow(sinfo, st.scope.Decl.Body)
	}
	isExec := func(n ast.Node) bool { return nodeHasCall(info, n, c.viaHelpers(dbExec, 2)) != nil }
	isStepStart := func(n ast.Node) bool {
		if st.call != nil {
			hit := false
			ast.Inspect(n, func(m ast.Node) bool {
				if m == ast.Node(st.call) {
					hit = true
				}
				return !hit
			})
			return hit
		}
		return nodeHasCall(info, n, isCallTo(pLint, "DevLoader", "inspect")) != nil
	}
	isInspect := sf.callNode(isCallTo(pLint, "DevLoader", "inspect"))
	isDiff := func(n ast.Node) bool {
		if nodeHasCall(sinfo, n, func(fn *types.Func, _ *ast.CallExpr) bool { return fn.Name() == "RealmDiff" }) == nil {
			return false
		}
		if st.scope != fi {
			return true
		}
		return enclosingLoopOf(fi, n) != nil // not the final Sum diff
	}
	isAppend := func(n ast.Node) bool {
		as, ok := n.(*ast.AssignStmt)
		return ok && len(as.Lhs) == 1 && isField(sinfo, as.Lhs[0], pSqlcheck, "File", "Changes")
	}
	n0, ok0 := f.mustPrecede(isExec, isStepStart)
	c.Check("R18d", "nextStmts|ExecContext ≺ inspect", nodePos(n0, fi.Decl.Pos()), ok0 && len(f.find(isStepStart)) > 0, "inspect can happen before ExecContext in the per-statement loop")
	n1, ok1 := sf.mustPrecede(isInspect, isDiff)
	c.Check("R18d", "nextStmts|inspect ≺ RealmDiff", nodePos(n1, st.scope.Decl.Pos()), ok1 && len(sf.find(isDiff)) > 0, "RealmDiff can happen before inspect in the per-statement loop")
	n2, ok2 := sf.mustPrecede(isDiff, isAppend)
	c.Check("R18d", "nextStmts|RealmDiff ≺ append Change", nodePos(n2, st.scope.Decl.Pos()), ok2 && len(sf.find(isAppend)) > 0, "append Change can happen before RealmDiff in the per-statement loop")

	// the Change carries this statement; the diff is between the state before and the inspected state; the state advances
	stmtOK, diffOK, advOK := false, false, false
	var nextObj, curObj types.Object
	root := ast.Node(loopBodyOf(st.loop))
	if st.scope != fi {
		root = st.scope.Decl.Body
	}
	ast.Inspect(root, func(k ast.Node) bool {
		switch x := k.(type) {
		case *ast.KeyValueExpr:
			if id, ok := x.Key.(*ast.Ident); ok && id.Name == "Stmt" {
				if v, ok := x.Value.(*ast.Ident); ok && st.stmtObj != nil && sinfo.ObjectOf(v) == st.stmtObj {
					stmtOK = true
				}
			}
		case *ast.AssignStmt:
			if len(x.Rhs) != 1 {
				return true
			}
			if call, ok := x.Rhs[0].(*ast.CallExpr); ok {
				if fn := calleeOf(sinfo, call); fn != nil {
					if funcIs(fn, pLint, "DevLoader", "inspect") {
						if id, ok := x.Lhs[0].(*ast.Ident); ok {
							nextObj = sinfo.ObjectOf(id)
						}
					}
					if fn.Name() == "RealmDiff" && len(call.Args) == 2 {
						a, oka := call.Args[0].(*ast.Ident)
						b, okb := call.Args[1].(*ast.Ident)
						if oka && okb && nextObj != nil && sinfo.ObjectOf(b) == nextObj && sinfo.ObjectOf(a) != nextObj {
							if st.scope == fi || sinfo.ObjectOf(a) == st.prevObj {
								diffOK = true
								curObj = sinfo.ObjectOf(a)
							}
						}
					}
				}
			}
			if l, ok := x.Lhs[0].(*ast.Ident); ok && st.scope == fi && curObj != nil && sinfo.ObjectOf(l) == curObj {
				if r, ok := x.Rhs[0].(*ast.Ident); ok && sinfo.ObjectOf(r) == nextObj {
					advOK = true
				}
			}
		}
		return true
	})
	if st.scope != fi {
		// the helper returns the inspected state on success and the caller stores it into the state it passed in
		retOK := true
		nret := 0
		ast.Inspect(st.scope.Decl.Body, func(k ast.Node) bool {
			if _, ok := k.(*ast.FuncLit); ok {
				return false
			}
			r, ok := k.(*ast.ReturnStmt)
			if !ok || len(r.Results) < 1 || isNilIdent(sinfo, r.Results[0]) {
				return true
			}
			nret++
			if id, ok := ast.Unparen(r.Results[0]).(*ast.Ident); !ok || sinfo.ObjectOf(id) != nextObj {
				retOK = false
			}
			return true
		})
		stored := false
		pm := parentMap(fi.Decl)
		for p := pm[st.call]; p != nil; p = pm[p] {
			if as, ok := p.(*ast.AssignStmt); ok {
				if l, ok := as.Lhs[0].(*ast.Ident); ok && st.curObj != nil && info.ObjectOf(l) == st.curObj {
					stored = true
				}
				break
			}
			if _, ok := p.(*ast.BlockStmt); ok {
				break
			}
		}
		advOK = retOK && nret > 0 && stored
	}
	c.Check("R18d", "nextStmts|change carries its own statement", fi.Decl.Pos(), stmtOK, "the Change recorded for a statement must carry that statement (Stmt: s): diagnostics are positioned through it")
	c.Check("R18d", "nextStmts|diff(state before, state after) and state advanced", fi.Decl.Pos(), diffOK && advOK, "each statement's changes must be RealmDiff(current, next) followed by current = next (diff=%v advance=%v)", diffOK, advOK)
}
