package main

import (
	"golang.org/x/tools/go/cfg"

	"go/ast"
	"go/token"
	"go/types"
	"sort"
	"strings"
)

func init() {
	register("C06", &propCheck{
		explanation: "Path and table rules: (a) every function of both modules that writes a migration file through a Dir re-hashes (reaches WriteSumFile) on every path from the write to a non-error return; (b) every `atlas migrate` sub-command validates the directory before consuming it (table of commands enumerated from the command tree; a command missing from the table fails the check) and the validation error is not discarded; (c) the digest covers name and bytes of every file with one running hash, HashFile.Sum covers N and H, the h1: prefix agrees between marshal/unmarshal, the header sum is verified on read; (d) Validate returns non-nil on every path of its mismatch branch.",
		undecided:   []string{"that every single-byte edit changes a SHA-256 digest (hash property)", "reason classification arithmetic (Line/Pos/Reason)", "error paths of writers (a failed import leaves a directory without sum file: reported by Validate as ErrChecksumNotFound)"},
		run:         runC06,
	})
}

// dirWriteKind classifies a call as a write of a file into a migrate.Dir.
func (c *Ctx) dirIface() *types.Interface {
	n := c.NamedType(pMigrate, "Dir")
	if n == nil {
		c.fail("type migrate.Dir not found")
	}
	return n.Underlying().(*types.Interface)
}

func implementsDir(t types.Type, dir *types.Interface) bool {
	if t == nil {
		return false
	}
	if types.Implements(t, dir) {
		return true
	}
	if _, isPtr := t.(*types.Pointer); !isPtr {
		if _, isIface := t.Underlying().(*types.Interface); !isIface {
			return types.Implements(types.NewPointer(t), dir)
		}
	}
	return false
}

// isDirFileWrite: call of WriteFile/WriteCheckpoint on a Dir with a name that
// is not the constant HashFileName.
func isDirFileWrite(info *types.Info, dir *types.Interface, call *ast.CallExpr) bool {
	fn := calleeOf(info, call)
	if fn == nil || (fn.Name() != "WriteFile" && fn.Name() != "WriteCheckpoint") {
		return false
	}
	sig := fn.Type().(*types.Signature)
	if sig.Recv() == nil {
		return false
	}
	se, ok := call.Fun.(*ast.SelectorExpr)
	if !ok {
		return false
	}
	rt := info.TypeOf(se.X)
	if !implementsDir(rt, dir) && !implementsDir(sig.Recv().Type(), dir) {
		// CheckpointDir interface value
		if n := namedOf(rt); n == nil || n.Obj().Name() != "CheckpointDir" {
			return false
		}
	}
	if len(call.Args) > 0 {
		if s, ok := stringConst(info, call.Args[0]); ok && s == "atlas.sum" {
			return false
		}
	}
	return true
}

// bodies enumerates function declarations and function literals of the
// analysed (non-test, non-generated) code.
type bodyInfo struct {
	fi   *FuncInfo
	lit  *ast.FuncLit // nil for the declaration itself
	body *ast.BlockStmt
	name string
}

func (c *Ctx) allBodies(fn func(b bodyInfo)) {
	c.AllFuncs(false, func(fi *FuncInfo) {
		fn(bodyInfo{fi: fi, body: fi.Decl.Body, name: fi.Name})
		n := 0
		ast.Inspect(fi.Decl.Body, func(m ast.Node) bool {
			if fl, ok := m.(*ast.FuncLit); ok {
				n++
				fn(bodyInfo{fi: fi, lit: fl, body: fl.Body, name: fi.Name + "$lit"})
			}
			return true
		})
	})
}

// inErrBranch: node n is syntactically inside the then-branch of an
// `if <error expr> != nil` (or a `case err != nil:` clause) of body.
func inErrBranch(info *types.Info, pm map[ast.Node]ast.Node, n ast.Node) bool {
	errT := types.Universe.Lookup("error").Type()
	isErrNe := func(e ast.Expr) bool {
		found := false
		ast.Inspect(e, func(m ast.Node) bool {
			if be, ok := m.(*ast.BinaryExpr); ok && be.Op == token.NEQ && isNilIdent(info, be.Y) {
				if t := info.TypeOf(be.X); t != nil && types.Identical(t, errT) {
					found = true
				}
			}
			return true
		})
		return found
	}
	child := n
	for p := pm[n]; p != nil; child, p = p, pm[p] {
		switch s := p.(type) {
		case *ast.IfStmt:
			if child == ast.Node(s.Body) && isErrNe(s.Cond) {
				return true
			}
		case *ast.CaseClause:
			for _, e := range s.List {
				if isErrNe(e) {
					return true
				}
			}
		case *ast.FuncLit:
			return false
		}
	}
	return false
}

func runC06(c *Ctx) {
	c.Rule("R06a", "writers re-hash: in every function (declaration or literal) that writes a file into a migrate.Dir (WriteFile/WriteCheckpoint, name other than atlas.sum), every path from the success edge of the write to a non-error return passes a call reaching migrate.WriteSumFile (listed exception: migrate.UnarchiveDirFrom restores an archive verbatim, including its own atlas.sum; Dir implementations' own WriteFile/WriteCheckpoint forwarders are the primitive)", 4)
	c.Rule("R06b", "every `atlas migrate` sub-command validates the directory before consuming it: PreRunE (checkDir / migrate.Validate) or, for apply and lint, the run function; the validation result is returned or tested, never discarded; commands are enumerated from the command tree and each must have a table entry", 9)
	c.Rule("R06c", "digest construction: NewHashFile feeds Name() and Bytes() of every file into one running hash created outside the loop; HashFile.Sum covers N and H; MarshalText/UnmarshalText agree on the h1: prefix; UnmarshalText verifies the header sum and returns ErrChecksumMismatch", 4)
	c.Rule("R06g", ruleTextSumLineSplit, 1)
	checkSumLineSplit(c, "R06g")
	c.Rule("R06i", "sibling agreement: every implementation of migrate.Dir.Files orders the files by name alone (same rule as C20/R20c): the directory hash is cumulative over that order, so a Dir that orders by another key first (version, then name) computes a different sum for the same files and an untouched directory fails validation after it is copied into / archived through that Dir", 3)
	checkFilesOrdering(c, "R06i")
	c.Rule("R06k", ruleTextValidateStrict, 2)
	checkValidateStrict(c, "R06k")
	c.Rule("R06l", ruleTextSumReadWhole, 1)
	checkSumReadWhole(c, "R06l")
	c.Rule("R06j", ruleTextConfigBeforeFormat, 4)
	checkConfigBeforeFormat(c, "R06j")
	c.Rule("R06h", ruleTextWriteReplaces, 2)
	checkWriteReplaces(c, "R06h")
	c.Rule("R06d", "migrate.Validate: compares stored and recomputed sums; every path through the mismatch branch returns a non-nil error; Executor.Pending validates before reading revisions or files", 3)

	dir := c.dirIface()

	// ---- R06a
	rehashers := c.rehashHelpers()
	// writer helpers: unexported functions that write files but leave the re-hash to their callers.
	// A call to such a helper is a write in the caller (fixpoint, at most 3 levels).
	writerHelpers := map[*types.Func]bool{}
	type r06 struct {
		b   bodyInfo
		ok  bool
		n   ast.Node
		pos token.Pos
		why string
	}
	evalBody := func(b bodyInfo) (results []r06, has bool) {
		info := b.fi.Info()
		if b.lit == nil && b.fi.Decl.Recv != nil {
			switch b.fi.Decl.Name.Name {
			case "WriteFile", "WriteCheckpoint":
				if rt := info.TypeOf(b.fi.Decl.Recv.List[0].Type); implementsDir(rt, dir) {
					return nil, false
				}
			}
		}
		isWrite := func(n ast.Node) bool {
			hit := false
			walkShallow(n, func(m ast.Node) bool {
				if call, ok := m.(*ast.CallExpr); ok {
					if isDirFileWrite(info, dir, call) {
						hit = true
					}
					if fn := calleeOf(info, call); fn != nil && writerHelpers[fn] {
						hit = true
					}
				}
				return true
			})
			return hit
		}
		walkShallow(b.body, func(m ast.Node) bool {
			if isWrite(m) {
				has = true
			}
			return true
		})
		if !has {
			return nil, false
		}
		if b.name == "migrate.UnarchiveDirFrom" {
			return []r06{{b: b, ok: true, pos: b.body.Pos(), why: "listed exception"}}, true
		}
		f := newFlow(info, b.body)
		pm := parentMap(b.body)
		isRehash := func(n ast.Node) bool {
			if isDeferOrGo(n) {
				return false
			}
			return nodeHasCall(info, n, func(fn *types.Func, _ *ast.CallExpr) bool { return rehashers[fn] }) != nil
		}
		okReturn := func(n ast.Node) bool { return isReturn(n) && !inErrBranch(info, pm, n) }
		for _, wp := range f.find(isWrite) {
			node := wp.b.Nodes[wp.i]
			if isReturn(node) && !isRehash(node) {
				results = append(results, r06{b: b, ok: false, pos: node.Pos(), why: "the file write is returned directly without re-hashing the directory"})
				continue
			}
			starts := []point{after(wp)}
			if _, okB, _, ok := f.errBranch(wp); ok {
				starts = []point{{okB, 0}}
			}
			n, found := f.reach(starts, isRehash, okReturn, true)
			results = append(results, r06{b: b, ok: !found, n: n, pos: nodePos(n, node.Pos()), why: "after writing a file into the directory, " + c.nodeAtOrEnd(n) + " is reachable on a non-error path without re-hashing (no call reaching WriteSumFile)"})
		}
		return results, true
	}
	var all []bodyInfo
	c.allBodies(func(b bodyInfo) { all = append(all, b) })
	for round := 0; round < 3; round++ {
		grew := false
		for _, b := range all {
			if b.lit != nil || writerHelpers[b.fi.Obj] || ast.IsExported(b.fi.Decl.Name.Name) {
				continue
			}
			res, has := evalBody(b)
			if !has {
				continue
			}
			failing := false
			for _, r := range res {
				if !r.ok {
					failing = true
				}
			}
			if !failing {
				continue
			}
			// has static callers in the repository?
			callers := 0
			for _, o := range all {
				for _, call := range callsIn(o.body, false) {
					if calleeOf(o.fi.Info(), call) == b.fi.Obj {
						callers++
					}
				}
			}
			if callers > 0 {
				writerHelpers[b.fi.Obj] = true
				grew = true
			}
		}
		if !grew {
			break
		}
	}
	for _, b := range all {
		if b.lit == nil && writerHelpers[b.fi.Obj] {
			c.funcs[b.name] = true
			c.Check("R06a", b.name+"|writer helper (re-hash checked at its callers)", b.body.Pos(), true, "")
			continue
		}
		res, has := evalBody(b)
		if !has {
			continue
		}
		c.funcs[b.name] = true
		for _, r := range res {
			key := b.name + "|write→rehash"
			if r.why == "listed exception" {
				key = b.name + "|listed exception"
			}
			c.Check("R06a", key, r.pos, r.ok, "%s", r.why)
		}
	}

	// ---- R06e
	c.Rule("R06e", "the sum written for a directory is that directory's own checksum: in every call WriteSumFile(D, S), S is the result of D.Checksum() (listed exception: MemDir.CopyFiles hashes the files it was just given, in the order produced by Dir.Files)", 3)
	c.allBodies(func(b bodyInfo) {
		info := b.fi.Info()
		walkShallow(b.body, func(m ast.Node) bool {
			call, ok := m.(*ast.CallExpr)
			if !ok || !funcIs(calleeOf(info, call), pMigrate, "", "WriteSumFile") || len(call.Args) != 2 {
				return true
			}
			c.funcs[b.name] = true
			key := b.name + "|WriteSumFile(" + types.ExprString(call.Args[0]) + ", …)"
			if b.name == "migrate.(MemDir).CopyFiles" {
				c.Check("R06e", key+"|listed exception", call.Pos(), true, "")
				return true
			}
			sid, ok := call.Args[1].(*ast.Ident)
			okSum := false
			if ok {
				sobj := info.ObjectOf(sid)
				// the single definition of S: `S, err := X.Checksum()`
				defs := 0
				ast.Inspect(b.body, func(k ast.Node) bool {
					as, ok := k.(*ast.AssignStmt)
					if !ok {
						return true
					}
					for i, l := range as.Lhs {
						if id, ok := l.(*ast.Ident); ok && info.ObjectOf(id) == sobj {
							defs++
							if len(as.Rhs) == 1 && i == 0 {
								if rc, ok := as.Rhs[0].(*ast.CallExpr); ok {
									if se, ok := rc.Fun.(*ast.SelectorExpr); ok && se.Sel.Name == "Checksum" && len(rc.Args) == 0 {
										if types.ExprString(se.X) == types.ExprString(call.Args[0]) && sameRoot(info, se.X, call.Args[0]) {
											okSum = true
										}
									}
								}
							}
						}
					}
					return true
				})
				if defs != 1 {
					okSum = false
				}
			}
			c.Check("R06e", key, call.Pos(), okSum, "the hash file written for %s is not the result of %s.Checksum(): the stored sum may not describe the directory as Validate will recompute it", types.ExprString(call.Args[0]), types.ExprString(call.Args[0]))
			return true
		})
	})

	// ---- R06f
	c.Rule("R06f", "what is hashed is what is on disk: in LocalDir.Files the bytes handed to NewLocalFile are the unmodified result of the file read (single definition from a ReadFile call, not reassigned or transformed)", 1)
	if lf := c.Func("R06f", pMigrate, "LocalDir", "Files"); lf != nil {
		info := lf.Info()
		ok, found := false, false
		ast.Inspect(lf.Decl.Body, func(m ast.Node) bool {
			call, isCall := m.(*ast.CallExpr)
			if !isCall || !funcIs(calleeOf(info, call), pMigrate, "", "NewLocalFile") || len(call.Args) != 2 {
				return true
			}
			found = true
			id, isID := call.Args[1].(*ast.Ident)
			if !isID {
				return true
			}
			o := info.ObjectOf(id)
			defs, fromRead := 0, false
			ast.Inspect(lf.Decl.Body, func(k ast.Node) bool {
				as, isAs := k.(*ast.AssignStmt)
				if !isAs {
					return true
				}
				for i, l := range as.Lhs {
					if li, isLi := l.(*ast.Ident); isLi && info.ObjectOf(li) == o {
						defs++
						if len(as.Rhs) == 1 && i == 0 {
							if rc, isRC := as.Rhs[0].(*ast.CallExpr); isRC {
								if fn := calleeOf(info, rc); fn != nil && fn.Name() == "ReadFile" {
									fromRead = true
								}
							}
						}
					}
				}
				return true
			})
			ok = defs == 1 && fromRead
			return true
		})
		c.Check("R06f", "LocalDir.Files|file bytes unmodified", lf.Decl.Pos(), found && ok, "the bytes given to NewLocalFile are not the single, unmodified result of ReadFile: edits that the transformation hides (e.g. line-ending changes) are no longer detected by the checksum")
	}

	// ---- R06b
	checkCommandsValidate(c)

	// ---- R06c
	checkDigest(c)

	// ---- R06d
	checkValidate(c)
}

// rehashHelpers: WriteSumFile and repo functions that may call it (depth 3).
func (c *Ctx) rehashHelpers() map[*types.Func]bool {
	set := map[*types.Func]bool{}
	if p := c.byPath[pMigrate]; p != nil {
		if o, ok := p.Types.Scope().Lookup("WriteSumFile").(*types.Func); ok {
			set[o] = true
		}
	}
	if len(set) == 0 {
		c.fail("migrate.WriteSumFile not found")
	}
	for depth := 0; depth < 3; depth++ {
		c.AllFuncs(false, func(fi *FuncInfo) {
			if set[fi.Obj] {
				return
			}
			for _, call := range callsIn(fi.Decl.Body, false) {
				if fn := calleeOf(fi.Info(), call); fn != nil && set[fn] {
					set[fi.Obj] = true
					return
				}
			}
		})
	}
	return set
}

// cmdPolicy says where a migrate sub-command validates its directory.
var cmdPolicy = map[string]string{
	"migrateApplyCmd":    "run:migrateApplyRun",
	"migrateDiffCmd":     "prerun",
	"migrateHashCmd":     "none: the command that re-creates the sum file",
	"migrateImportCmd":   "prerun",
	"migrateLintCmd":     "lint:migratelint.(Runner).summary",
	"migrateNewCmd":      "prerun",
	"migrateSetCmd":      "prerun",
	"migrateStatusCmd":   "prerun",
	"migrateValidateCmd": "prerun",
}

func isValidateCall(fn *types.Func, _ *ast.CallExpr) bool {
	return funcIs(fn, pMigrate, "", "Validate") || funcIs(fn, pCmdapi, "", "checkDir") || funcIs(fn, pMigrate, "Executor", "ValidateDir")
}

// resultUsed: the error result of the call in node n is returned directly, or
// assigned to a variable that is later read.
func resultUsed(info *types.Info, body *ast.BlockStmt, call *ast.CallExpr) bool {
	pm := parentMap(body)
	switch p := pm[call].(type) {
	case *ast.ReturnStmt:
		return true
	case *ast.AssignStmt:
		id, ok := p.Lhs[len(p.Lhs)-1].(*ast.Ident)
		if !ok || id.Name == "_" {
			return false
		}
		obj := info.ObjectOf(id)
		used := false
		ast.Inspect(body, func(m ast.Node) bool {
			if u, ok := m.(*ast.Ident); ok && u != id && info.Uses[u] == obj && u.Pos() > call.End() {
				used = true
			}
			return true
		})
		// `if err := f(); err != nil`: the use is in the same if statement
		return used
	case *ast.BinaryExpr, *ast.SwitchStmt, *ast.IfStmt:
		return true
	}
	return false
}

func checkCommandsValidate(c *Ctx) {
	// enumerate the sub-commands added to the migrate command
	var cmds []string
	c.AllFuncs(false, func(fi *FuncInfo) {
		if fi.Pkg.PkgPath != pCmdapi {
			return
		}
		ast.Inspect(fi.Decl.Body, func(m ast.Node) bool {
			call, ok := m.(*ast.CallExpr)
			if !ok {
				return true
			}
			if fn := calleeOf(fi.Info(), call); fn == nil || fn.Name() != "AddCommand" {
				return true
			}
			for _, a := range call.Args {
				if ac, ok := a.(*ast.CallExpr); ok {
					if id, ok := ac.Fun.(*ast.Ident); ok && strings.HasPrefix(id.Name, "migrate") && strings.HasSuffix(id.Name, "Cmd") {
						cmds = append(cmds, id.Name)
					}
				}
			}
			return true
		})
	})
	sort.Strings(cmds)
	cmds = uniq(cmds)
	if len(cmds) < 9 {
		c.Unresolved("R06b", "enumeration of `migrate` sub-commands (AddCommand(migrate…Cmd()))")
	}
	for _, name := range cmds {
		pol, ok := cmdPolicy[name]
		if !ok {
			c.Check("R06b", name+"|policy", token.NoPos, false, "sub-command %s is not in the checker's table of directory consumers: decide where it validates the directory and add it", name)
			continue
		}
		fi := c.Func("R06b", pCmdapi, "", name)
		if fi == nil {
			continue
		}
		switch {
		case strings.HasPrefix(pol, "none"):
			c.Check("R06b", name+"|"+pol, fi.Decl.Pos(), true, "")
		case pol == "prerun":
			var pre *ast.BlockStmt
			preFi := fi
			ast.Inspect(fi.Decl.Body, func(m ast.Node) bool {
				if kv, ok := m.(*ast.KeyValueExpr); ok {
					if id, ok := kv.Key.(*ast.Ident); ok && id.Name == "PreRunE" {
						switch v := ast.Unparen(kv.Value).(type) {
						case *ast.FuncLit:
							pre = v.Body
						case *ast.Ident:
							// a named function of the package
							if fn, ok := fi.Info().ObjectOf(v).(*types.Func); ok {
								if hf := c.FuncInfoOf(fn); hf != nil && hf.Decl.Body != nil {
									pre, preFi = hf.Decl.Body, hf
								}
							}
						case *ast.CallExpr:
							// a constructor of the package that returns the function literal
							if hf := c.FuncInfoOf(calleeOf(fi.Info(), v)); hf != nil && hf.Decl.Body != nil {
								ast.Inspect(hf.Decl.Body, func(k ast.Node) bool {
									if ret, ok := k.(*ast.ReturnStmt); ok && len(ret.Results) == 1 {
										if fl, ok := ast.Unparen(ret.Results[0]).(*ast.FuncLit); ok && pre == nil {
											pre, preFi = fl.Body, hf
										}
									}
									return true
								})
							}
						}
					}
				}
				return true
			})
			if pre == nil {
				c.Check("R06b", name+"|PreRunE validates", fi.Decl.Pos(), false, "%s has no PreRunE function literal validating the directory", name)
				continue
			}
			checkValidatesFirst(c, preFi, pre, name+"|PreRunE validates", nil)
		case strings.HasPrefix(pol, "run:"):
			rf := c.Func("R06b", pCmdapi, "", strings.TrimPrefix(pol, "run:"))
			if rf == nil {
				continue
			}
			// consumption: creating an executor / reading pending files / opening the database
			consume := func(fn *types.Func, _ *ast.CallExpr) bool {
				return funcIs(fn, pMigrate, "", "NewExecutor") || funcIs(fn, pMigrate, "Executor", "Pending") || funcIs(fn, pMigrate, "Executor", "Execute") || fn.Name() == "openClient"
			}
			checkValidatesFirst(c, rf, rf.Decl.Body, name+"|"+pol, consume)
		case strings.HasPrefix(pol, "lint:"):
			sf := c.Func("R06b", pLint, "Runner", "summary")
			if sf == nil {
				continue
			}
			consume := func(fn *types.Func, _ *ast.CallExpr) bool {
				return fn.Name() == "DetectChanges" || fn.Name() == "LoadChanges"
			}
			checkValidatesFirst(c, sf, sf.Decl.Body, name+"|"+pol, consume)
		}
	}
}

// checkValidatesFirst: every path from entry to a consuming call (or, when
// consume is nil, to a non-error return) passes a validation call whose
// result is used.
func checkValidatesFirst(c *Ctx, fi *FuncInfo, body *ast.BlockStmt, key string, consume callPred) {
	info := fi.Info()
	f := newFlow(info, body)
	pm := parentMap(body)
	// a package-local helper all of whose successful returns pass a used validation call validates too
	helperValidates := func(fn *types.Func, _ *ast.CallExpr) bool {
		if fn.Pkg() == nil || fn.Pkg().Path() != fi.Pkg.PkgPath {
			return false
		}
		g := c.FuncInfoOf(fn)
		if g == nil || g.Decl.Body == nil || g == fi {
			return false
		}
		ginfo := g.Info()
		gf := newFlow(ginfo, g.Decl.Body)
		gpm := parentMap(g.Decl.Body)
		gVal := func(n ast.Node) bool {
			if isDeferOrGo(n) {
				return false
			}
			call := nodeHasCall(ginfo, n, isValidateCall)
			return call != nil && resultUsed(ginfo, g.Decl.Body, call)
		}
		okRet := func(n ast.Node) bool { return isReturn(n) && !inErrBranch(ginfo, gpm, n) }
		if len(gf.find(gVal)) == 0 {
			return false
		}
		_, skipped := gf.reach([]point{gf.entry()}, gVal, okRet, true)
		return !skipped
	}
	isVal := func(n ast.Node) bool {
		if isDeferOrGo(n) {
			return false
		}
		if call := nodeHasCall(info, n, isValidateCall); call != nil && resultUsed(info, body, call) {
			return true
		}
		call := nodeHasCall(info, n, helperValidates)
		return call != nil && resultUsed(info, body, call)
	}
	var target nodePred
	if consume != nil {
		target = func(n ast.Node) bool { return nodeHasCall(info, n, consume) != nil }
	} else {
		target = func(n ast.Node) bool { return isReturn(n) && !inErrBranch(info, pm, n) }
	}
	n, found := f.reach([]point{f.entry()}, isVal, target, consume == nil)
	c.Check("R06b", key, nodePos(n, body.Pos()), !found, "%s is reachable without a prior directory validation whose result is used", c.nodeAtOrEnd(n))
}

func uniq(s []string) []string {
	var out []string
	for i, x := range s {
		if i == 0 || x != s[i-1] {
			out = append(out, x)
		}
	}
	return out
}

func checkDigest(c *Ctx) {
	fi := c.Func("R06c", pMigrate, "", "NewHashFile")
	if fi != nil {
		info := fi.Info()
		var loop *ast.RangeStmt
		ast.Inspect(fi.Decl.Body, func(m ast.Node) bool {
			if rs, ok := m.(*ast.RangeStmt); ok && loop == nil {
				loop = rs
			}
			return true
		})
		if loop == nil {
			c.Unresolved("R06c", "range loop in NewHashFile")
		} else {
			// hash objects written in the loop
			var hashObjs = map[types.Object]map[string]bool{}
			val, _ := loop.Value.(*ast.Ident)
			ast.Inspect(loop.Body, func(m ast.Node) bool {
				call, ok := m.(*ast.CallExpr)
				if !ok {
					return true
				}
				se, ok := call.Fun.(*ast.SelectorExpr)
				if !ok || se.Sel.Name != "Write" {
					return true
				}
				h, ok := se.X.(*ast.Ident)
				if !ok {
					return true
				}
				ho := info.ObjectOf(h)
				// which accessor of the loop variable is fed
				ast.Inspect(call.Args[0], func(k ast.Node) bool {
					if ic, ok := k.(*ast.CallExpr); ok {
						if s2, ok := ic.Fun.(*ast.SelectorExpr); ok {
							if x, ok := s2.X.(*ast.Ident); ok && val != nil && info.ObjectOf(x) == info.ObjectOf(val) {
								if hashObjs[ho] == nil {
									hashObjs[ho] = map[string]bool{}
								}
								hashObjs[ho][s2.Sel.Name] = true
							}
						}
					}
					return true
				})
				return true
			})
			ok, outside := false, false
			for ho, fed := range hashObjs {
				if fed["Name"] && fed["Bytes"] {
					ok = true
					outside = ho.Pos() < loop.Pos()
				}
			}
			c.Check("R06c", "NewHashFile|name+bytes into one hash", loop.Pos(), ok, "NewHashFile must write both f.Name() and f.Bytes() of every file into the same hash")
			// the file name enters the digest on every iteration (only the content may be skipped by the sum-ignore directive)
			{
				fl := newFlow(info, fi.Decl.Body)
				writesName := func(n ast.Node) bool {
					hit := false
					walkShallow(n, func(m ast.Node) bool {
						call, ok := m.(*ast.CallExpr)
						if !ok {
							return true
						}
						se, ok := call.Fun.(*ast.SelectorExpr)
						if !ok || se.Sel.Name != "Write" || len(call.Args) != 1 {
							return true
						}
						ast.Inspect(call.Args[0], func(k ast.Node) bool {
							if ic, ok := k.(*ast.CallExpr); ok {
								if s2, ok := ic.Fun.(*ast.SelectorExpr); ok && s2.Sel.Name == "Name" {
									if x, ok := s2.X.(*ast.Ident); ok && val != nil && info.ObjectOf(x) == info.ObjectOf(val) {
										hit = true
									}
								}
							}
							return true
						})
						return true
					})
					return hit
				}
				var bodyStart []point
				isHead := func(b *cfg.Block) bool { return b.Kind == cfg.KindRangeLoop && b.Stmt == ast.Stmt(loop) }
				isDone := func(b *cfg.Block) bool { return b.Kind == cfg.KindRangeDone && b.Stmt == ast.Stmt(loop) }
				for _, b := range fl.G.Blocks {
					if b.Kind == cfg.KindRangeBody && b.Stmt == ast.Stmt(loop) {
						bodyStart = append(bodyStart, point{b, 0})
					}
				}
				if len(bodyStart) == 0 {
					c.Unresolved("R06c", "CFG body block of the file loop in NewHashFile")
				} else {
					skipped := fl.reachBlock(bodyStart, writesName, func(b *cfg.Block) bool { return isHead(b) || isDone(b) })
					c.Check("R06c", "NewHashFile|name hashed on every iteration", loop.Pos(), !skipped, "an iteration of the file loop can finish (continue / fall through) without writing f.Name() into the digest: adding, removing or renaming such a file goes unnoticed")
				}
			}
			c.Check("R06c", "NewHashFile|cumulative hash", loop.Pos(), ok && outside, "the running hash must be created once, outside the file loop (cumulative digest)")
			// the per-file entry records Name and the digest so far
			appended := false
			ast.Inspect(loop.Body, func(m ast.Node) bool {
				if call, ok := m.(*ast.CallExpr); ok && builtinName(info, call) == "append" {
					hasName, hasSum := false, false
					ast.Inspect(call, func(k ast.Node) bool {
						if ic, ok := k.(*ast.CallExpr); ok {
							if s2, ok := ic.Fun.(*ast.SelectorExpr); ok {
								switch s2.Sel.Name {
								case "Name":
									hasName = true
								case "Sum":
									hasSum = true
								}
							}
						}
						return true
					})
					if hasName && hasSum {
						appended = true
					}
				}
				return true
			})
			c.Check("R06c", "NewHashFile|entry per file", loop.Pos(), appended, "each file must contribute an entry {Name, running digest}")
		}
	}
	if sf := c.Func("R06c", pMigrate, "HashFile", "Sum"); sf != nil {
		fields := map[string]bool{}
		ast.Inspect(sf.Decl.Body, func(m ast.Node) bool {
			if call, ok := m.(*ast.CallExpr); ok {
				if se, ok := call.Fun.(*ast.SelectorExpr); ok && se.Sel.Name == "Write" {
					ast.Inspect(call.Args[0], func(k ast.Node) bool {
						if s, ok := k.(*ast.SelectorExpr); ok && (s.Sel.Name == "N" || s.Sel.Name == "H") {
							fields[s.Sel.Name] = true
						}
						return true
					})
				}
			}
			return true
		})
		c.Check("R06c", "HashFile.Sum|covers N and H", sf.Decl.Pos(), fields["N"] && fields["H"], "HashFile.Sum must hash both the file name and the file digest of every entry")
		// the two fields are delimited in the digest input: between the write of N and the write of H (or inside one of
		// them) something that is not a field of the entry is written — a separator constant, a length
		var seq []string
		ast.Inspect(sf.Decl.Body, func(m ast.Node) bool {
			call, ok := m.(*ast.CallExpr)
			if !ok {
				return true
			}
			se, ok := call.Fun.(*ast.SelectorExpr)
			if !ok || !(se.Sel.Name == "Write" || se.Sel.Name == "WriteString" || strings.HasPrefix(se.Sel.Name, "Fprint")) {
				return true
			}
			kind := ""
			for _, a := range call.Args {
				hasField, hasOther := "", false
				ast.Inspect(a, func(k ast.Node) bool {
					switch x := k.(type) {
					case *ast.SelectorExpr:
						if x.Sel.Name == "N" || x.Sel.Name == "H" {
							hasField += x.Sel.Name
							return false
						}
					case *ast.BasicLit:
						hasOther = true
					case *ast.CallExpr:
						if id, ok := x.Fun.(*ast.Ident); ok && id.Name == "len" {
							hasOther = true
							return false
						}
					}
					return true
				})
				switch {
				case hasField != "" && hasOther:
					kind += "(" + hasField + "+sep)"
				case hasField != "":
					kind += hasField
				case hasOther:
					kind += "sep"
				}
			}
			if kind != "" {
				seq = append(seq, kind)
			}
			return true
		})
		c.Check("R06c", "HashFile.Sum|name and digest are delimited", sf.Decl.Pos(), !strings.Contains(strings.Join(seq, ","), "N,H") && !strings.Contains(strings.Join(seq, ","), "NH"), "HashFile.Sum feeds the name and the digest of every entry into the hash back to back (%s): all ways of cutting the same byte string into names and digests have the same sum, so a sum file whose lines were edited by moving the name/hash boundary, or by merging two lines, still validates", strings.Join(seq, ","))
	}
	mf := c.Func("R06c", pMigrate, "HashFile", "MarshalText")
	uf := c.Func("R06c", pMigrate, "HashFile", "UnmarshalText")
	if mf != nil && uf != nil {
		// separator agreement: every constant the reader strips or splits on occurs in a constant the writer emits
		// (constants are resolved through the type checker: literals, named constants, concatenations)
		constsOf := func(fi *FuncInfo, onlyStringsArgs bool) map[string]bool {
			out := map[string]bool{}
			inf := fi.Info()
			ast.Inspect(fi.Decl.Body, func(m ast.Node) bool {
				if onlyStringsArgs {
					call, ok := m.(*ast.CallExpr)
					if !ok {
						return true
					}
					fn := calleeOf(inf, call)
					if fn == nil || fn.Pkg() == nil || fn.Pkg().Path() != "strings" {
						return true
					}
					for _, a := range call.Args[1:] {
						if k, ok := stringConst(inf, a); ok && k != "" {
							out[k] = true
						}
					}
					return true
				}
				if e, ok := m.(ast.Expr); ok {
					if k, ok := stringConst(inf, e); ok && k != "" {
						out[k] = true
					}
				}
				return true
			})
			return out
		}
		w, r := constsOf(mf, false), constsOf(uf, true)
		missing := []string{}
		for k := range r {
			found := false
			for wk := range w {
				if strings.Contains(wk, k) {
					found = true
				}
			}
			if !found {
				missing = append(missing, k)
			}
		}
		sort.Strings(missing)
		c.Check("R06c", "MarshalText/UnmarshalText|separators agree", mf.Decl.Pos(), len(r) > 0 && len(missing) == 0, "UnmarshalText strips or splits on %q, which MarshalText never writes (writer constants: %v): a sum file written by Atlas is not read back as written", missing, keys(w))
		// the reader takes entries as written: it applies no normalisation the writer does not undo
		norm := ""
		ast.Inspect(uf.Decl.Body, func(m ast.Node) bool {
			if call, ok := m.(*ast.CallExpr); ok {
				if fn := calleeOf(uf.Info(), call); fn != nil && fn.Pkg() != nil && fn.Pkg().Path() == "strings" {
					switch fn.Name() {
					case "TrimSpace", "Fields", "ToLower", "ToUpper", "TrimLeft", "TrimRight", "Trim":
						norm = types.ExprString(call)
					}
				}
			}
			return true
		})
		c.Check("R06c", "HashFile.UnmarshalText|entries are taken as written", uf.Decl.Pos(), norm == "", "UnmarshalText normalises what it reads (%s): a sum file edited in a way the normalisation hides (blanks around a name) yields the same entries and the directory still validates", norm)
		// header verified
		info := uf.Info()
		verified := false
		ast.Inspect(uf.Decl.Body, func(m ast.Node) bool {
			ifs, ok := m.(*ast.IfStmt)
			if !ok {
				return true
			}
			be, ok := ifs.Cond.(*ast.BinaryExpr)
			if !ok || be.Op != token.NEQ {
				return true
			}
			callsSum := false
			for _, e := range []ast.Expr{be.X, be.Y} {
				if call, ok := e.(*ast.CallExpr); ok {
					if fn := calleeOf(info, call); funcIs(fn, pMigrate, "HashFile", "Sum") {
						callsSum = true
					}
				}
			}
			if !callsSum {
				return true
			}
			for _, st := range ifs.Body.List {
				if r, ok := st.(*ast.ReturnStmt); ok && len(r.Results) == 1 {
					if id, ok := r.Results[0].(*ast.Ident); ok && id.Name == "ErrChecksumMismatch" {
						verified = true
					}
				}
			}
			return true
		})
		c.Check("R06c", "UnmarshalText|header sum verified", uf.Decl.Pos(), verified, "UnmarshalText must compare the header sum with the sum of the entries and return ErrChecksumMismatch")
	}
}

func checkValidate(c *Ctx) {
	fi := c.Func("R06d", pMigrate, "", "Validate")
	if fi == nil {
		return
	}
	info := fi.Info()
	var mism *ast.IfStmt
	ast.Inspect(fi.Decl.Body, func(m ast.Node) bool {
		ifs, ok := m.(*ast.IfStmt)
		if !ok || mism != nil {
			return true
		}
		be, ok := ifs.Cond.(*ast.BinaryExpr)
		if !ok || be.Op != token.NEQ {
			return true
		}
		n := 0
		for _, e := range []ast.Expr{be.X, be.Y} {
			if call, ok := e.(*ast.CallExpr); ok {
				if fn := calleeOf(info, call); funcIs(fn, pMigrate, "HashFile", "Sum") {
					n++
				}
			}
		}
		if n == 2 {
			mism = ifs
		}
		return true
	})
	if mism == nil {
		c.Check("R06d", "Validate|compares sums", fi.Decl.Pos(), false, "Validate no longer compares the Sum() of the stored and of the recomputed hash file with !=")
		return
	}
	c.Check("R06d", "Validate|compares sums", mism.Pos(), true, "")
	// both operands: one from readHashFile, one from dir.Checksum()
	// every path through the mismatch branch returns non-nil
	f := newFlow(info, fi.Decl.Body)
	var startB []point
	for _, b := range f.G.Blocks {
		cond, t, _ := condOf(b)
		if cond != nil && ast.Node(cond) == ast.Node(mism.Cond) {
			startB = append(startB, point{t, 0})
		}
	}
	if len(startB) == 0 {
		c.Unresolved("R06d", "CFG block of the mismatch condition in Validate")
		return
	}
	nilReturn := func(n ast.Node) bool {
		r, ok := n.(*ast.ReturnStmt)
		return ok && len(r.Results) == 1 && isNilIdent(info, r.Results[0])
	}
	// leaving the if body without returning is also a failure: stop at nothing, target nil-return or any node after the if
	after := func(n ast.Node) bool { return n.Pos() > mism.End() }
	n, found := f.reach(startB, nil, orPred(nilReturn, after), true)
	c.Check("R06d", "Validate|mismatch returns error", nodePos(n, mism.Pos()), !found, "a path through the checksum-mismatch branch of Validate reaches %s without returning an error", c.nodeAtOrEnd(n))

	// Pending validates first
	if pf := c.Func("R06d", pMigrate, "Executor", "Pending"); pf != nil {
		consume := func(fn *types.Func, _ *ast.CallExpr) bool {
			return fn.Name() == "ReadRevisions" || fn.Name() == "Files" || fn.Name() == "CheckClean" || fn.Name() == "writeRevision"
		}
		pinfo := pf.Info()
		pfl := newFlow(pinfo, pf.Decl.Body)
		isVal := func(n ast.Node) bool {
			call := nodeHasCall(pinfo, n, isValidateCall)
			return call != nil && resultUsed(pinfo, pf.Decl.Body, call)
		}
		n, found := pfl.reach([]point{pfl.entry()}, isVal, func(n ast.Node) bool { return nodeHasCall(pinfo, n, consume) != nil }, false)
		c.Check("R06d", "Executor.Pending|validates first", nodePos(n, pf.Decl.Pos()), !found, "Pending reads revisions/files at %s before validating the directory", c.nodeAt(n))
	}
	if vf := c.Func("R06d", pMigrate, "Executor", "ValidateDir"); vf != nil {
		has := false
		for _, call := range callsIn(vf.Decl.Body, false) {
			if fn := calleeOf(vf.Info(), call); funcIs(fn, pMigrate, "", "Validate") {
				has = resultUsed(vf.Info(), vf.Decl.Body, call)
			}
		}
		c.Check("R06d", "Executor.ValidateDir|calls Validate", vf.Decl.Pos(), has, "ValidateDir must call Validate on the executor's directory and use its result")
	}
}

func sameRoot(info *types.Info, a, b ast.Expr) bool {
	ra, rb := rootIdent(a), rootIdent(b)
	return ra != nil && rb != nil && info.ObjectOf(ra) == info.ObjectOf(rb)
}
