package main

// Rules added after the third round of independent seeds.

import (
	"go/ast"
	"go/token"
	"go/types"
	"strings"
)

// R03k: SQLite has no backslash escapes.
const ruleTextNoBackslash = "escape agreement for SQLite: the SQLite statement scanner is configured without backslash escapes, so no function of the sqlite package that walks SQL text byte by byte (compares bytes with a quote character) treats '\\\\' specially; a literal ending in a backslash ends where the engine ends it"

func checkNoBackslashInSqlite(c *Ctx, rule string) {
	n := 0
	c.AllFuncs(false, func(fi *FuncInfo) {
		if fi.Pkg.PkgPath != pSqlite {
			return
		}
		info := fi.Info()
		isByteConst := func(e ast.Expr, r rune) bool {
			tv := info.Types[e]
			if tv.Value == nil {
				return false
			}
			b, ok := tv.Type.Underlying().(*types.Basic)
			if !ok || b.Info()&types.IsInteger == 0 {
				return false
			}
			return tv.Value.String() == itoa(int(r))
		}
		quotes, backslash := false, token.NoPos
		ast.Inspect(fi.Decl.Body, func(m ast.Node) bool {
			switch x := m.(type) {
			case *ast.BinaryExpr:
				for _, e := range []ast.Expr{x.X, x.Y} {
					if isByteConst(e, '\'') {
						quotes = true
					}
					if isByteConst(e, '\\') {
						backslash = e.Pos()
					}
				}
			case *ast.CaseClause:
				for _, e := range x.List {
					if isByteConst(e, '\'') {
						quotes = true
					}
					if isByteConst(e, '\\') {
						backslash = e.Pos()
					}
				}
			}
			return true
		})
		if !quotes {
			return
		}
		n++
		c.funcs[fi.Name] = true
		c.Check(rule, fi.Name+"|no backslash escape while scanning SQL text", backslash, backslash == token.NoPos, "%s treats a backslash as an escape character while scanning SQLite text: SQLite does not, so a string literal ending in \\ is closed later than the engine closes it and what follows is mis-parsed", fi.Name)
	})
	if n == 0 {
		c.Unresolved(rule, "functions of sql/sqlite that scan SQL text for quote characters")
	}
}

// R15k / R03l: a quoted literal becomes a value only through Unquote.
const ruleTextUnquoteOnly = "a quoted SQL literal is turned into its value only by unescaping it: in a branch guarded by sqlx.IsQuoted(v, …) the quotes are not stripped with v[1:len(v)-1] unless that slice is the operand of an unescaping call (strings.ReplaceAll / Unquote); dropping the quotes alone leaves doubled quotes in the value"

func checkUnquoteOnly(c *Ctx, rule string) {
	n := 0
	for _, pp := range []string{pSpecutil, pSqlx, pSqlite, pMysql, pPostgres} {
		c.AllFuncs(false, func(fi *FuncInfo) {
			if fi.Pkg.PkgPath != pp {
				return
			}
			info := fi.Info()
			pm := parentMap(fi.Decl.Body)
			ast.Inspect(fi.Decl.Body, func(m ast.Node) bool {
				cc, ok := m.(*ast.CaseClause)
				var conds []ast.Expr
				var body []ast.Stmt
				if ok {
					conds, body = cc.List, cc.Body
				} else if ifs, isIf := m.(*ast.IfStmt); isIf {
					conds, body = []ast.Expr{ifs.Cond}, ifs.Body.List
				} else {
					return true
				}
				var subject string
				for _, cond := range conds {
					ast.Inspect(cond, func(k ast.Node) bool {
						if call, ok := k.(*ast.CallExpr); ok && funcIs(calleeOf(info, call), pSqlx, "", "IsQuoted") && len(call.Args) >= 1 {
							subject = types.ExprString(call.Args[0])
						}
						return true
					})
				}
				if subject == "" {
					return true
				}
				n++
				c.funcs[fi.Name] = true
				bad := token.NoPos
				for _, st := range body {
					ast.Inspect(st, func(k ast.Node) bool {
						sl, ok := k.(*ast.SliceExpr)
						if !ok || types.ExprString(sl.X) != subject || sl.Low == nil || sl.High == nil {
							return true
						}
						// operand of an unescaping call?
						okUse := false
						for p := pm[sl]; p != nil; p = pm[p] {
							if call, ok := p.(*ast.CallExpr); ok {
								if fn := calleeOf(info, call); fn != nil && (fn.Name() == "ReplaceAll" || fn.Name() == "Unquote" || fn.Name() == "NewReplacer" || fn.Name() == "Replace") {
									okUse = true
								}
								break
							}
							if _, isStmt := p.(ast.Stmt); isStmt {
								break
							}
						}
						if !okUse {
							bad = sl.Pos()
						}
						return true
					})
				}
				c.Check(rule, fi.Name+"|IsQuoted("+subject+") branch unescapes", nodePosOr(bad, m.Pos()), bad == token.NoPos, "%s strips the quotes of %s without unescaping its content: 'O''Brien' becomes O''Brien instead of O'Brien, and the exported default differs from the database's", fi.Name, subject)
				return true
			})
		})
	}
	if n < 2 {
		c.Unresolved(rule, "branches guarded by sqlx.IsQuoted (found fewer than 2)")
	}
}

func nodePosOr(p, def token.Pos) token.Pos {
	if p != token.NoPos {
		return p
	}
	return def
}

// R05g: the flag that turns foreign keys off is monotone.
const ruleTextSkipFKsMonotone = "the SQLite planner's skipFKs flag is monotone: every assignment stores the constant true or a disjunction that includes the flag itself; a later in-place change must not clear what an earlier table rebuild or drop set (the PRAGMA foreign_keys = off wrapper would disappear and DROP TABLE would fire ON DELETE actions)"

func checkSkipFKsMonotone(c *Ctx, rule string) {
	n := 0
	c.AllFuncs(false, func(fi *FuncInfo) {
		if fi.Pkg.PkgPath != pSqlite {
			return
		}
		info := fi.Info()
		ast.Inspect(fi.Decl.Body, func(m ast.Node) bool {
			as, ok := m.(*ast.AssignStmt)
			if !ok {
				return true
			}
			for i, l := range as.Lhs {
				if !isField(info, l, pSqlite, "state", "skipFKs") || i >= len(as.Rhs) {
					continue
				}
				n++
				c.funcs[fi.Name] = true
				r := ast.Unparen(as.Rhs[i])
				ok := false
				if tv := info.Types[r]; tv.Value != nil && tv.Value.String() == "true" {
					ok = true
				}
				for _, d := range impliedFactsOr(r) {
					if isField(info, d, pSqlite, "state", "skipFKs") && types.ExprString(d) == types.ExprString(l) {
						ok = true
					}
				}
				c.Check(rule, fi.Name+"|"+types.ExprString(l)+" = "+types.ExprString(r), as.Pos(), ok, "%s assigns %s to the skipFKs flag: the flag can go back to false after a table rebuild or drop was planned, and the plan loses its PRAGMA foreign_keys = off/on wrapper", fi.Name, types.ExprString(r))
			}
			return true
		})
	})
	if n == 0 {
		c.Unresolved(rule, "assignments to sqlite state.skipFKs")
	}
}

// R05h: who may open a transaction in the SQLite driver.
const ruleTextSqliteBegin = "in sql/sqlite a database transaction is opened only by Driver.OpenTx, which turns foreign-key enforcement off before BEGIN (PRAGMA foreign_keys is a no-op inside a transaction): no other function of the package calls Begin/BeginTx"

func checkSqliteBeginOwner(c *Ctx, rule string) {
	n := 0
	c.AllFuncs(false, func(fi *FuncInfo) {
		if fi.Pkg.PkgPath != pSqlite {
			return
		}
		info := fi.Info()
		for _, call := range callsIn(fi.Decl.Body, true) {
			fn := calleeOf(info, call)
			if fn == nil || (fn.Name() != "BeginTx" && fn.Name() != "Begin") {
				continue
			}
			if fn.Pkg() != nil && fn.Pkg().Path() != "database/sql" && !strings.HasPrefix(fn.Pkg().Path(), modRoot) {
				continue
			}
			n++
			c.funcs[fi.Name] = true
			c.Check(rule, fi.Name+"|calls "+fn.Name(), call.Pos(), fi.Decl.Name.Name == "OpenTx", "%s opens a transaction itself: the planned PRAGMA foreign_keys = off then runs inside a transaction, where SQLite ignores it, and the table rebuild fires ON DELETE actions on referencing rows", fi.Name)
		}
	})
	if n == 0 {
		c.Unresolved(rule, "Begin/BeginTx calls in sql/sqlite (expected in Driver.OpenTx)")
	}
}

// R13e: every field of a revision is written on every write.
const ruleTextSetRevisionAll = "every field of a revision is persisted on every write: in the generated SetRevision methods each Set<Field>(rev.<Field>) call is unconditional (an upsert only overwrites the columns that were set, so a field that is skipped when empty can never be cleared again), and EntRevisions.WriteRevision does not exclude columns from the upsert"

func checkSetRevisionAll(c *Ctx, rule string) {
	n := 0
	c.AllFuncs(true, func(fi *FuncInfo) {
		if fi.Decl.Name.Name != "SetRevision" || !strings.Contains(fi.Pkg.PkgPath, "/internal/migrate/ent") {
			return
		}
		n++
		c.funcs[fi.Name] = true
		bad := token.NoPos
		for _, st := range fi.Decl.Body.List {
			switch st.(type) {
			case *ast.ExprStmt, *ast.ReturnStmt, *ast.AssignStmt:
			default:
				bad = st.Pos()
			}
		}
		c.Check(rule, fi.Name+"|setters are unconditional", nodePosOr(bad, fi.Decl.Pos()), bad == token.NoPos, "%s sets a revision field only under a condition: with the upsert used by WriteRevision the stored value of that column is then kept, e.g. the error text of a failed attempt survives the successful re-run", fi.Name)
	})
	if n == 0 {
		c.Unresolved(rule, "generated SetRevision methods")
	}
	if fi := c.Func(rule, pCmdmig, "EntRevisions", "WriteRevision"); fi != nil {
		info := fi.Info()
		bad := token.NoPos
		for _, call := range callsIn(fi.Decl.Body, true) {
			if se, ok := call.Fun.(*ast.SelectorExpr); ok {
				switch se.Sel.Name {
				case "SetIgnore", "Ignore", "DoNothing", "UpdateID":
					bad = call.Pos()
				}
			}
			_ = info
		}
		c.Check(rule, fi.Name+"|the upsert overwrites every column", nodePosOr(bad, fi.Decl.Pos()), bad == token.NoPos, "EntRevisions.WriteRevision excludes columns from its upsert: progress written later (Total after an edited tail, Hash) is never stored and the next run works on stale values")
	}
}

// R13f: who may apply changes outside the transaction wrapper.
const ruleTextApplyOwner = "schema changes are applied through one place: in cmdapi, ApplyChanges on a *sqlclient.Client (outside a transaction) is called only by applyChanges, which chooses between the transactional and the non-transactional path from --tx-mode; a command that calls it directly ignores the transaction mode"

func checkApplyOwner(c *Ctx, rule string) {
	n := 0
	c.AllFuncs(false, func(fi *FuncInfo) {
		if fi.Pkg.PkgPath != pCmdapi {
			return
		}
		info := fi.Info()
		for _, call := range callsIn(fi.Decl.Body, true) {
			se, ok := call.Fun.(*ast.SelectorExpr)
			if !ok || se.Sel.Name != "ApplyChanges" || !typeIs(derefType(info.TypeOf(se.X)), modRoot+"/sql/sqlclient", "Client") {
				continue
			}
			n++
			c.funcs[fi.Name] = true
			// listed exception: `schema clean` has no --tx-mode flag and drops everything it finds
			allowed := fi.Decl.Name.Name == "applyChanges" || fi.Decl.Name.Name == "applySchemaClean" || c.mayReachedOnlyFrom(fi, "applyChanges")
			c.Check(rule, fi.Name+"|Client.ApplyChanges", call.Pos(), allowed, "%s applies changes directly on the client, outside applyChanges: the requested --tx-mode is ignored and a plan that fails half way leaves its first statements applied", fi.Name)
		}
	})
	if n == 0 {
		c.Unresolved(rule, "Client.ApplyChanges calls in cmdapi")
	}
}

// mayReachedOnlyFrom: fi is a package-local helper whose only callers (in its package) are the named function.
func (c *Ctx) mayReachedOnlyFrom(fi *FuncInfo, owner string) bool {
	callers, ok := 0, true
	c.AllFuncs(false, func(cf *FuncInfo) {
		if cf.Pkg != fi.Pkg {
			return
		}
		for _, call := range callsIn(cf.Decl.Body, true) {
			if calleeOf(cf.Info(), call) == fi.Obj {
				callers++
				if cf.Decl.Name.Name != owner {
					ok = false
				}
			}
		}
	})
	return ok && callers > 0
}

// R16h: a cloned builder has no qualifier.
const ruleTextCloneQualifier = "Builder.Clone() copies the text written so far but not the requested schema qualifier: no qualifier-aware writer (Table, View, TableResource, SchemaResource, TableColumn, mayQualify) is called on a builder obtained from Clone(), directly or through a local function it is handed to; names must be written before cloning"

func checkCloneQualifier(c *Ctx, rule string) {
	n := 0
	qual := map[string]bool{"Table": true, "View": true, "TableResource": true, "SchemaResource": true, "TableColumn": true, "mayQualify": true, "Func": true, "Proc": true}
	for _, pp := range []string{pMysql, pPostgres, pSqlite} {
		c.AllFuncs(false, func(fi *FuncInfo) {
			if fi.Pkg.PkgPath != pp {
				return
			}
			info := fi.Info()
			clones := map[types.Object]bool{}
			ast.Inspect(fi.Decl.Body, func(m ast.Node) bool {
				as, ok := m.(*ast.AssignStmt)
				if !ok || len(as.Lhs) != len(as.Rhs) {
					return true
				}
				for i, r := range as.Rhs {
					if call, ok := ast.Unparen(r).(*ast.CallExpr); ok && funcIs(calleeOf(info, call), pSqlx, "Builder", "Clone") {
						if id, ok := as.Lhs[i].(*ast.Ident); ok {
							clones[info.ObjectOf(id)] = true
						}
					}
				}
				return true
			})
			if len(clones) == 0 {
				return
			}
			n++
			c.funcs[fi.Name] = true
			// parameters of local function literals that receive a clone
			lits := map[types.Object]*ast.FuncLit{}
			ast.Inspect(fi.Decl.Body, func(m ast.Node) bool {
				if as, ok := m.(*ast.AssignStmt); ok && len(as.Lhs) == 1 && len(as.Rhs) == 1 {
					if fl, ok := as.Rhs[0].(*ast.FuncLit); ok {
						if id, ok := as.Lhs[0].(*ast.Ident); ok {
							lits[info.ObjectOf(id)] = fl
						}
					}
				}
				return true
			})
			for _, call := range callsIn(fi.Decl.Body, true) {
				id, ok := call.Fun.(*ast.Ident)
				if !ok {
					continue
				}
				fl := lits[info.ObjectOf(id)]
				if fl == nil {
					continue
				}
				var ps []*ast.Ident
				for _, fld := range fl.Type.Params.List {
					ps = append(ps, fld.Names...)
				}
				for i, a := range call.Args {
					if aid, ok := ast.Unparen(a).(*ast.Ident); ok && clones[info.ObjectOf(aid)] && i < len(ps) {
						clones[info.ObjectOf(ps[i])] = true
					}
				}
			}
			bad := token.NoPos
			what := ""
			for _, call := range callsIn(fi.Decl.Body, true) {
				se, ok := call.Fun.(*ast.SelectorExpr)
				if !ok || !qual[se.Sel.Name] {
					continue
				}
				if fn := calleeOf(info, call); fn == nil || recvTypeName(fn) != "Builder" {
					continue
				}
				// receiver chain rooted at a clone (or at an inline X.Clone())
				root := rootIdent(se.X)
				fromClone := root != nil && clones[info.ObjectOf(root)]
				ast.Inspect(se.X, func(k ast.Node) bool {
					if cc, ok := k.(*ast.CallExpr); ok && funcIs(calleeOf(info, cc), pSqlx, "Builder", "Clone") {
						fromClone = true
					}
					return true
				})
				if fromClone {
					bad, what = call.Pos(), se.Sel.Name
				}
			}
			c.Check(rule, fi.Name+"|no qualified name is written on a cloned builder", nodePosOr(bad, fi.Decl.Pos()), bad == token.NoPos, "%s calls Builder.%s on a builder that came from Clone(): the clone has no schema qualifier, so the statement (typically the reverse statement) names the table with its own schema instead of the requested qualifier", fi.Name, what)
		})
	}
	if n < 2 {
		c.Unresolved(rule, "planner functions that clone a builder (found fewer than 2)")
	}
}

// R16i: the scope check looks at every table-level change the planners accept.
const ruleTextScopeCoversKinds = "the scope check sees every table-level change: sqlx.CheckChangesScope has a case for each change kind that carries a table (field T *schema.Table) and that the MySQL/PostgreSQL planners accept at top level (AddTable, DropTable, ModifyTable); a kind without a case is skipped by `default: continue` and its schema is never counted"

func checkScopeCoversKinds(c *Ctx, rule string) {
	fi := c.Func(rule, pSqlx, "", "CheckChangesScope")
	if fi == nil {
		return
	}
	have, _ := caseTypes(fi.Info(), fi.Decl.Body, isChangeType)
	want := map[string]bool{}
	for _, pp := range []string{pMysql, pPostgres} {
		c.AllFuncs(false, func(pf *FuncInfo) {
			if pf.Pkg.PkgPath != pp || recvName(pf.Decl) != "state" || !(pf.Decl.Name.Name == "plan" || pf.Decl.Name.Name == "topLevel") {
				return
			}
			ts, _ := caseTypes(pf.Info(), pf.Decl.Body, isChangeType)
			for k := range ts {
				if nt := c.NamedType(pSchema, k); nt != nil {
					if st, ok := nt.Underlying().(*types.Struct); ok {
						for i := 0; i < st.NumFields(); i++ {
							if st.Field(i).Name() == "T" && typeIs(derefType(st.Field(i).Type()), pSchema, "Table") {
								want[k] = true
							}
						}
					}
				}
			}
		})
	}
	if len(want) == 0 {
		c.Unresolved(rule, "table-level change kinds accepted by the planners")
		return
	}
	for k := range want {
		c.Check(rule, "CheckChangesScope|case for "+k, fi.Decl.Pos(), have[k], "CheckChangesScope has no case for %s: a change set that touches a second schema only through a %s is accepted under a schema-scoped plan and planned without qualifier", k, k)
	}
}

// R19h: include/exclude scope agreement in the state readers.
const ruleTextExcludeScope = "the desired-state readers choose between the schema-level and the realm-level filter with one condition: in each reader the case that calls schema.ExcludeSchema has the same condition as the case that calls schema.IncludeSchema, and that condition tests the scope variable the reader reports as StateReadCloser.Schema (not the dev URL, which may be absent)"

func checkExcludeScope(c *Ctx, rule string) {
	n := 0
	c.AllFuncs(false, func(fi *FuncInfo) {
		if !strings.HasSuffix(fi.Pkg.PkgPath, "/internal/cmdext") {
			return
		}
		info := fi.Info()
		var inc, exc []string
		var excPos token.Pos
		ast.Inspect(fi.Decl.Body, func(m ast.Node) bool {
			cc, ok := m.(*ast.CaseClause)
			if !ok || len(cc.List) == 0 {
				return true
			}
			var conds []string
			for _, e := range cc.List {
				conds = append(conds, types.ExprString(e))
			}
			for _, st := range cc.Body {
				if nodeHasCall(info, st, isCallTo(pSchema, "", "IncludeSchema")) != nil {
					inc = append(inc, strings.Join(conds, " | "))
				}
				if nodeHasCall(info, st, isCallTo(pSchema, "", "ExcludeSchema")) != nil {
					exc = append(exc, strings.Join(conds, " | "))
					excPos = cc.Pos()
				}
			}
			return true
		})
		if len(exc) == 0 || len(inc) == 0 {
			return
		}
		n++
		c.funcs[fi.Name] = true
		same := len(inc) == len(exc)
		for i := range exc {
			if i < len(inc) && inc[i] != exc[i] {
				same = false
			}
		}
		// the condition mentions the variable reported as Schema:
		scopeVar := ""
		ast.Inspect(fi.Decl.Body, func(m ast.Node) bool {
			if kv, ok := m.(*ast.KeyValueExpr); ok {
				if k, ok := kv.Key.(*ast.Ident); ok && k.Name == "Schema" {
					if v, ok := kv.Value.(*ast.Ident); ok {
						scopeVar = v.Name
					}
				}
			}
			return true
		})
		mentions := scopeVar == "" || strings.Contains(exc[0], scopeVar)
		c.Check(rule, fi.Name+"|ExcludeSchema chosen like IncludeSchema", excPos, same && mentions, "%s chooses the schema-level exclusion under %q but the schema-level inclusion under %q (scope variable %q): without a dev URL an unqualified --exclude pattern is read as a schema glob and excludes nothing from the desired state", fi.Name, strings.Join(exc, "; "), strings.Join(inc, "; "), scopeVar)
	})
	if n == 0 {
		c.Unresolved(rule, "state readers applying IncludeSchema and ExcludeSchema")
	}
}

// R19i: skip options accumulate.
const ruleTextSkipAccumulates = "skip options accumulate: schema.DiffSkipChanges appends to DiffOptions.SkipChanges (append(o.SkipChanges, …)); replacing the list makes every earlier DiffSkipChanges option ineffective"

func checkSkipAccumulates(c *Ctx, rule string) {
	fi := c.Func(rule, pSchema, "", "DiffSkipChanges")
	if fi == nil {
		return
	}
	info := fi.Info()
	n, ok := 0, true
	ast.Inspect(fi.Decl.Body, func(m ast.Node) bool {
		as, isAs := m.(*ast.AssignStmt)
		if !isAs {
			return true
		}
		for i, l := range as.Lhs {
			if !isField(info, l, pSchema, "DiffOptions", "SkipChanges") || i >= len(as.Rhs) {
				continue
			}
			n++
			call, isCall := ast.Unparen(as.Rhs[i]).(*ast.CallExpr)
			if !isCall || builtinName(info, call) != "append" || len(call.Args) < 1 || types.ExprString(call.Args[0]) != types.ExprString(l) {
				ok = false
			}
		}
		return true
	})
	c.Check(rule, "DiffSkipChanges|appends to SkipChanges", fi.Decl.Pos(), ok && n > 0, "DiffSkipChanges replaces DiffOptions.SkipChanges instead of appending to it: of several skip options only the last one is in force")
}
